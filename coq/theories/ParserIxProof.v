(* ParserIxProof.v — the index-faithful parser model (ParserIx: vector + usize indices, explicit
   Panic) never panics and computes what the suffix model (Parser) computes.  (C08_refine, C08_total) *)
Require Import DS.Base DS.Parser DS.ParserFacts DS.ParserIx.

Lemma skipn_cons_nth {A} (l : list A) : forall i c r,
  skipn i l = c :: r -> nth_error l i = Some c /\ skipn (S i) l = r.
Proof.
  induction l as [|x l IH]; intros i c r H; destruct i; cbn in *; try discriminate.
  - inversion H; auto.
  - apply IH in H. exact H.
Qed.

Lemma skipn_len_le {A} (l : list A) i r : skipn i l = r -> r <> [] -> (i + length r = length l)%nat.
Proof.
  intros H Hr. assert (Hl : length (skipn i l) = (length l - i)%nat) by apply skipn_length.
  rewrite H in Hl. destruct r; [congruence|]. cbn [length] in *. lia.
Qed.

Definition inj_pnv (line : str) (r : pres (str * option str)) : ires (nat * option str) :=
  match r with
  | POk (rest, v) => IOk ((length line - length rest)%nat, v)
  | PErr e => IErr e
  end.

Definition run_pnv (fl : flags) (line : str) (n : nat) (s : pstate) : ires (nat * option str) :=
  match pnv_loop fl line n s with IOk s' => pnv_finish s' | IErr e => IErr e | IPanic => IPanic end.

Ltac split_char c X := destruct (N.eqb_spec c X) as [->|?].
(* evaluate comparisons between character constants *)
Ltac closed_eqb :=
  repeat match goal with
         | |- context [N.eqb ?a ?b] =>
           let a' := eval cbv in a in
           let b' := eval cbv in b in
           lazymatch a' with N0 => idtac | Npos _ => idtac end;
           lazymatch b' with N0 => idtac | Npos _ => idtac end;
           let v := eval cbv in (N.eqb a b) in
           change (N.eqb a b) with v
         end.

Lemma finish_eq acc uq i fvp :
  pnv_finish {| p_argument := acc; p_index := i; p_in_argument := true; p_using_quotes := uq;
                p_in_control := false; p_found_end := true; p_found_variable_prefix := fvp |}
  = IOk (i, finish acc uq).
Proof. unfold pnv_finish, finish. cbn. destruct acc, uq; reflexivity. Qed.

Lemma loop_in_arg fl line : forall l i acc uq ic fvp fvp',
  (ic = true -> fvp' = fvp) ->
  skipn i line = l -> (i + length l = length line)%nat ->
  run_pnv fl line (length l)
    {| p_argument := acc; p_index := i; p_in_argument := true; p_using_quotes := uq; p_in_control := ic;
       p_found_end := false; p_found_variable_prefix := fvp' |}
  = inj_pnv line (in_arg fl l acc uq ic fvp).
Proof.
  induction l as [|c l IH]; intros i acc uq ic fvp fvp' Hf Hs Hl.
  - cbn [length] in *. unfold run_pnv. cbn [pnv_loop in_arg]. unfold pnv_finish. cbn.
    destruct ic; [reflexivity|]. destruct uq; [reflexivity|]. cbn.
    replace (length line - 0)%nat with i by lia. unfold finish. destruct acc; reflexivity.
  - destruct (skipn_cons_nth _ _ _ _ Hs) as [Hn Hs']. cbn [length] in Hl.
    assert (Hl' : (S i + length l = length line)%nat) by lia.
    assert (Hd : forall b : bool, false = true -> b = false) by (intros; discriminate).
    unfold run_pnv. cbn [length pnv_loop]. unfold pnv_body. cbn [p_index]. rewrite Hn.
    cbn [p_index p_in_argument p_in_control p_found_variable_prefix p_using_quotes p_argument p_found_end push].
    cbn [in_arg].
    destruct ic.
    + rewrite (Hf eq_refl). destruct fvp.
      * split_char c c_lbrace; [|reflexivity]. apply (IH (S i)); auto.
      * split_char c c_bs; [apply (IH (S i)); auto|].
        split_char c c_quote; [apply (IH (S i)); auto|]. cbn [orb].
        split_char c c_n; [apply (IH (S i)); auto|].
        split_char c c_r; [apply (IH (S i)); auto|].
        split_char c c_t; [apply (IH (S i)); auto|].
        split_char c c_dollar; [apply (IH (S i)); auto|]. reflexivity.
    + split_char c c_bs.
      { destruct (control_as_char fl); [apply (IH (S i)); auto|].
        destruct (allow_control fl); [apply (IH (S i)); auto|reflexivity]. }
      destruct uq.
      * cbn [andb negb]. split_char c c_quote.
        -- rewrite finish_eq. cbn [inj_pnv]. do 2 f_equal. lia.
        -- apply (IH (S i)); auto.
      * cbn [andb negb]. split_char c c_sp.
        { closed_eqb. cbn [orb usize_dec]. rewrite finish_eq. cbn [inj_pnv length]. do 2 f_equal. lia. }
        split_char c c_hash.
        { closed_eqb. destruct (control_as_char fl); cbn [negb andb orb].
          - rewrite andb_false_r. apply (IH (S i)); auto.
          - cbn [usize_dec]. rewrite finish_eq. cbn [inj_pnv length]. do 2 f_equal. lia. }
        cbn [orb andb]. destruct (stop_on_equals fl); cbn [andb]; [|apply (IH (S i)); auto].
        split_char c c_eq; [|apply (IH (S i)); auto].
        closed_eqb. cbn [orb usize_dec]. rewrite finish_eq. cbn [inj_pnv length]. do 2 f_equal. lia.
Qed.

Lemma loop_skip fl line : forall l i,
  skipn i line = l -> (i + length l = length line)%nat ->
  run_pnv fl line (length l)
    {| p_argument := []; p_index := i; p_in_argument := false; p_using_quotes := false; p_in_control := false;
       p_found_end := false; p_found_variable_prefix := false |}
  = inj_pnv line (skip fl l).
Proof.
  induction l as [|c l IH]; intros i Hs Hl.
  - cbn [length] in *. unfold run_pnv. cbn [pnv_loop skip]. unfold pnv_finish. cbn.
    replace (length line - 0)%nat with i by lia. reflexivity.
  - destruct (skipn_cons_nth _ _ _ _ Hs) as [Hn Hs']. cbn [length] in Hl.
    assert (Hl' : (S i + length l = length line)%nat) by lia.
    unfold run_pnv. cbn [length pnv_loop]. unfold pnv_body. cbn [p_index]. rewrite Hn.
    cbn [p_index p_in_argument p_in_control p_found_variable_prefix p_using_quotes p_argument p_found_end].
    cbn [skip].
    split_char c c_hash.
    { destruct (control_as_char fl) eqn:Ec; cbn [negb andb].
      - closed_eqb. cbn [negb andb]. apply (loop_in_arg fl line l (S i)); auto.
      - unfold pnv_finish. cbn. now replace (length line - 0)%nat with (length line) by lia. }
    cbn [andb]. split_char c c_sp; [apply (IH (S i)); assumption|]. cbn [negb].
    split_char c c_quote.
    { destruct (allow_quotes fl); [|reflexivity]. apply (loop_in_arg fl line l (S i)); auto. }
    split_char c c_bs.
    { destruct (control_as_char fl); [apply (loop_in_arg fl line l (S i)); auto|].
      destruct (allow_control fl); [|reflexivity]. apply (loop_in_arg fl line l (S i)); auto. }
    apply (loop_in_arg fl line l (S i)); auto.
Qed.

Theorem pnv_refine fl line start : (start <= length line)%nat ->
  ParserIx.parse_next_value fl line start = inj_pnv line (Parser.parse_next_value fl (skipn start line)).
Proof.
  intros Hle. unfold ParserIx.parse_next_value, Parser.parse_next_value.
  destruct (Nat.leb_spec (length line) start) as [H|H].
  - assert (start = length line) by lia. subst. rewrite skipn_all. cbn. now rewrite Nat.sub_0_r.
  - pose proof (loop_skip fl line (skipn start line) start eq_refl) as L.
    rewrite skipn_length in L. specialize (L ltac:(lia)). exact L.
Qed.

(* ---- what the suffix model returns is a suffix of what it was given ------------------------------- *)
Definition suffix (r l : str) : Prop := exists pre, l = pre ++ r.

Lemma suffix_refl l : suffix l l. Proof. now exists []. Qed.
Lemma suffix_cons c r l : suffix r l -> suffix r (c :: l).
Proof. intros (p & ->). now exists (c :: p). Qed.
Lemma suffix_nil l : suffix [] l. Proof. exists l. now rewrite app_nil_r. Qed.
Lemma suffix_trans a b c : suffix a b -> suffix b c -> suffix a c.
Proof. intros (p & ->) (q & ->). exists (q ++ p). now rewrite app_assoc. Qed.
Lemma suffix_skipn i l : suffix (skipn i l) l.
Proof. exists (firstn i l). now rewrite firstn_skipn. Qed.
Lemma skipn_suffix r l : suffix r l -> skipn (length l - length r) l = r /\ (length r <= length l)%nat.
Proof.
  intros (p & ->). rewrite app_length. replace (length p + length r - length r)%nat with (length p) by lia.
  split; [|lia]. rewrite skipn_app, Nat.sub_diag, skipn_all. reflexivity.
Qed.

Lemma in_arg_suffix fl l : forall acc uq ic fvp rest v,
  in_arg fl l acc uq ic fvp = POk (rest, v) -> suffix rest l.
Proof.
  induction l as [|c l IH]; intros acc uq ic fvp rest v H; cbn [in_arg] in H.
  - case_ifs_hyp H; inversion H; subst; apply suffix_refl.
  - case_ifs_hyp H; try discriminate;
      try (apply IH in H; now apply suffix_cons);
      inversion H; subst; first [apply suffix_refl | apply suffix_nil | apply suffix_cons, suffix_refl].
Qed.

Lemma skip_suffix fl l : forall rest v, skip fl l = POk (rest, v) -> suffix rest l.
Proof.
  induction l as [|c l IH]; intros rest v H; cbn [skip] in H.
  - inversion H; subst; apply suffix_refl.
  - case_ifs_hyp H; try discriminate;
      try (apply IH in H; now apply suffix_cons);
      try (apply in_arg_suffix in H; now apply suffix_cons);
      inversion H; subst; apply suffix_nil.
Qed.

Lemma pnv_suffix fl l rest v : Parser.parse_next_value fl l = POk (rest, v) -> suffix rest l.
Proof. apply skip_suffix. Qed.

(* the index the index model returns designates the suffix the suffix model returns *)
Lemma index_of_suffix line i rest :
  suffix rest (skipn i line) ->
  skipn (length line - length rest) line = rest /\ (length line - length rest <= length line)%nat.
Proof.
  intros H. assert (Hs : suffix rest line) by (eapply suffix_trans; [exact H|apply suffix_skipn]).
  destruct (skipn_suffix _ _ Hs). split; [assumption|lia].
Qed.

Definition inj {A} (r : pres A) : ires A := match r with POk a => IOk a | PErr e => IErr e end.

(* ---- arguments -------------------------------------------------------------------------------------- *)
Lemma args_refine fl line : forall f idx, (idx <= length line)%nat ->
  ParserIx.parse_args_fuel f fl line idx = inj (Parser.parse_args_fuel f fl (skipn idx line)).
Proof.
  induction f as [|f IH]; intros idx Hle; [reflexivity|].
  cbn [ParserIx.parse_args_fuel Parser.parse_args_fuel]. rewrite pnv_refine by assumption.
  destruct (Parser.parse_next_value fl (skipn idx line)) as [[rest [a|]]|e] eqn:E; cbn [inj_pnv inj]; try reflexivity.
  apply pnv_suffix in E. destruct (index_of_suffix _ _ _ E) as [Hs Hl].
  rewrite IH by assumption. rewrite Hs.
  destruct (Parser.parse_args_fuel f fl rest); reflexivity.
Qed.

Lemma parse_arguments_refine line idx : (idx <= length line)%nat ->
  ParserIx.parse_arguments line idx = inj (Parser.parse_arguments (skipn idx line)).
Proof.
  intros Hle. unfold ParserIx.parse_arguments, ParserIx.parse_arguments_with,
    Parser.parse_arguments, Parser.parse_arguments_with.
  rewrite args_refine by assumption. rewrite skipn_length.
  destruct (Parser.parse_args_fuel (S (length line - idx)) fl_arg (skipn idx line)); reflexivity.
Qed.

(* ---- find_label ----------------------------------------------------------------------------------- *)
Lemma find_label_loop_refine line : forall l i,
  skipn i line = l -> (i + length l = length line)%nat ->
  find_label_loop line (length l) i = inj_pnv line (Parser.find_label l).
Proof.
  induction l as [|c l IH]; intros i Hs Hl.
  - cbn [length] in *. cbn. now replace (length line - 0)%nat with i by lia.
  - destruct (skipn_cons_nth _ _ _ _ Hs) as [Hn Hs']. cbn [length] in Hl.
    cbn [length find_label_loop Parser.find_label]. rewrite Hn.
    split_char c c_colon.
    + rewrite pnv_refine by lia. rewrite Hs'.
      destruct (Parser.parse_next_value fl_name l) as [[rest [[|x v]|]]|e]; reflexivity.
    + split_char c c_sp; cbn [negb].
      * apply (IH (S i)); [assumption|lia].
      * cbn [usize_dec inj_pnv length]. do 2 f_equal. lia.
Qed.

Lemma find_label_refine line : 
  ParserIx.find_label line 0 = inj_pnv line (Parser.find_label line).
Proof.
  unfold ParserIx.find_label. destruct (Nat.leb_spec (length line) 0) as [H|H].
  - destruct line; [reflexivity|cbn in H; lia].
  - rewrite Nat.sub_0_r. apply find_label_loop_refine; [reflexivity|lia].
Qed.

Lemma find_label_suffix l : forall rest v, Parser.find_label l = POk (rest, v) -> suffix rest l.
Proof.
  induction l as [|c l IH]; intros rest v H; cbn [Parser.find_label] in H.
  - inversion H; apply suffix_refl.
  - destruct (c =? c_colon).
    + destruct (Parser.parse_next_value fl_name l) as [[r [[|x w]|]]|e] eqn:E; try discriminate;
        inversion H; subst; apply suffix_cons; eapply pnv_suffix; exact E.
    + destruct (c =? c_sp); [apply suffix_cons; eauto|]. inversion H; apply suffix_refl.
Qed.

(* ---- find_output_and_command -------------------------------------------------------------------- *)
Lemma equals_loop_spec line : forall l i,
  skipn i line = l -> (i + length l = length line)%nat ->
  match after_equals l with
  | Some r => equals_loop line (length l) i = IOk ((length line - length r)%nat, true)
  | None => exists j, equals_loop line (length l) i = IOk (j, false)
  end.
Proof.
  induction l as [|c l IH]; intros i Hs Hl.
  - cbn. eauto.
  - destruct (skipn_cons_nth _ _ _ _ Hs) as [Hn Hs']. cbn [length] in Hl.
    cbn [length equals_loop after_equals]. rewrite Hn.
    split_char c c_sp; cbn [negb].
    + apply (IH (S i)); [assumption|lia].
    + split_char c c_eq.
      * do 2 f_equal. lia.
      * eauto.
Qed.

Lemma after_equals_suffix l : forall r, after_equals l = Some r -> suffix r l.
Proof.
  induction l as [|c l IH]; intros r H; cbn [after_equals] in H; [discriminate|].
  destruct (c =? c_sp); [apply suffix_cons; auto|].
  destruct (c =? c_eq); [|discriminate]. inversion H; subst. apply suffix_cons, suffix_refl.
Qed.

Definition inj_oc (line : str) (r : pres (str * option str * option str)) : ires (nat * option str * option str) :=
  match r with
  | POk (rest, o, c) => IOk ((length line - length rest)%nat, o, c)
  | PErr e => IErr e
  end.

Lemma find_oc_refine line idx : (idx <= length line)%nat ->
  ParserIx.find_output_and_command line idx = inj_oc line (Parser.find_output_and_command (skipn idx line)).
Proof.
  intros Hle. unfold ParserIx.find_output_and_command, Parser.find_output_and_command.
  rewrite pnv_refine by assumption.
  destruct (Parser.parse_next_value fl_out (skipn idx line)) as [[rest [v|]]|e] eqn:E; cbn [inj_pnv inj_oc]; try reflexivity.
  apply pnv_suffix in E. destruct (index_of_suffix _ _ _ E) as [Hs Hl].
  assert (Hlen : (length rest <= length line)%nat).
  { assert (S1 : suffix rest line) by (eapply suffix_trans; [exact E|apply suffix_skipn]).
    now destruct (skipn_suffix _ _ S1). }
  pose proof (equals_loop_spec line rest (length line - length rest)%nat Hs ltac:(lia)) as Q.
  replace (length line - (length line - length rest))%nat with (length rest) by lia.
  destruct (after_equals rest) as [after|] eqn:Ea.
  - rewrite Q. apply after_equals_suffix in Ea.
    assert (Sa : suffix after (skipn idx line)) by (eapply suffix_trans; eassumption).
    destruct (index_of_suffix _ _ _ Sa) as [Hsa Hla].
    rewrite pnv_refine by assumption. rewrite Hsa.
    destruct (Parser.parse_next_value fl_name after) as [[rest2 [cmd|]]|e2]; reflexivity.
  - destruct Q as (j & ->). reflexivity.
Qed.

Lemma find_oc_suffix l rest o c : Parser.find_output_and_command l = POk (rest, o, c) -> suffix rest l.
Proof.
  unfold Parser.find_output_and_command. intros H.
  destruct (Parser.parse_next_value fl_out l) as [[r [v|]]|e] eqn:E; try discriminate.
  - apply pnv_suffix in E. destruct (after_equals r) as [after|] eqn:Ea.
    + apply after_equals_suffix in Ea.
      destruct (Parser.parse_next_value fl_name after) as [[r2 [cmd|]]|e2] eqn:E2; try discriminate;
        inversion H; subst.
      * apply pnv_suffix in E2. eapply suffix_trans; [exact E2|]. eapply suffix_trans; eassumption.
      * eapply suffix_trans; eassumption.
    + inversion H; subst. exact E.
  - inversion H; subst. eapply pnv_suffix; exact E.
Qed.

(* ---- parse_command_line --------------------------------------------------------------------------- *)
Lemma parse_command_line_refine line :
  ParserIx.parse_command_line line 0 = inj (Parser.parse_command_line line).
Proof.
  unfold ParserIx.parse_command_line, Parser.parse_command_line.
  destruct line as [|c0 l0]; [reflexivity|]. set (line := c0 :: l0).
  change (Nat.leb (length line) 0) with false. cbv iota.
  rewrite find_label_refine.
  destruct (Parser.find_label line) as [[r1 label]|e] eqn:E1; cbn [inj_pnv inj]; [|reflexivity].
  apply find_label_suffix in E1. destruct (skipn_suffix _ _ E1) as [Hs1 Hl1].
  rewrite find_oc_refine by lia. rewrite Hs1.
  destruct (Parser.find_output_and_command r1) as [[[r2 output] command]|e] eqn:E2; cbn [inj_oc inj]; [|reflexivity].
  apply find_oc_suffix in E2. assert (S2 : suffix r2 line) by (eapply suffix_trans; eassumption).
  destruct (skipn_suffix _ _ S2) as [Hs2 Hl2].
  rewrite parse_arguments_refine by lia. rewrite Hs2.
  destruct (Parser.parse_arguments r2) as [args|e]; cbn [inj]; [|reflexivity].
  destruct label, output, command; reflexivity.
Qed.

(* ---- parse_pre_process_line ------------------------------------------------------------------------ *)
Lemma pp_loop_refine line : forall l i acc,
  skipn i line = l -> (i + length l = length line)%nat ->
  pp_loop line (length l) i acc =
  IOk ((length line - length (snd (pp_command l acc)))%nat, fst (pp_command l acc)).
Proof.
  induction l as [|c l IH]; intros i acc Hs Hl.
  - cbn [length] in *. cbn. now replace (length line - 0)%nat with i by lia.
  - destruct (skipn_cons_nth _ _ _ _ Hs) as [Hn Hs']. cbn [length] in Hl.
    cbn [length pp_loop pp_command]. rewrite Hn.
    split_char c c_sp.
    + destruct acc as [|a acc].
      * apply (IH (S i)); [assumption|lia].
      * cbn [fst snd]. do 2 f_equal. lia.
    + apply (IH (S i)); [assumption|lia].
Qed.

Lemma pp_command_suffix l : forall acc, suffix (snd (pp_command l acc)) l.
Proof.
  induction l as [|c l IH]; intros acc; cbn [pp_command].
  - apply suffix_refl.
  - destruct (c =? c_sp).
    + destruct acc; [apply suffix_cons, IH|cbn [snd]; apply suffix_cons, suffix_refl].
    + apply suffix_cons, IH.
Qed.

Lemma parse_pre_process_line_refine c0 t :
  ParserIx.parse_pre_process_line (c0 :: t) 1 = inj (Parser.parse_pre_process_line t).
Proof.
  unfold ParserIx.parse_pre_process_line, Parser.parse_pre_process_line. set (line := c0 :: t).
  assert (Hlen : (length line - 1)%nat = length t) by (cbn; lia). rewrite Hlen.
  rewrite (pp_loop_refine line t 1 []); [|reflexivity|cbn; lia].
  pose proof (pp_command_suffix t []) as S1.
  destruct (pp_command t []) as [cmd rest]. cbn [fst snd] in *.
  destruct cmd as [|x cmd]; [reflexivity|].
  assert (S2 : suffix rest line) by (apply suffix_cons; exact S1).
  destruct (skipn_suffix _ _ S2) as [Hs2 Hl2].
  rewrite parse_arguments_refine by lia. rewrite Hs2.
  destruct (Parser.parse_arguments rest); reflexivity.
Qed.

(* ---- parse_line, parse_text ------------------------------------------------------------------------ *)
Theorem parse_line_refine s : ParserIx.parse_line s = inj (Parser.parse_line s).
Proof.
  unfold ParserIx.parse_line, Parser.parse_line.
  destruct (trim s) as [|c t]; [reflexivity|]. cbn [nth_error].
  destruct (c =? c_hash); [reflexivity|].
  destruct (c =? c_bang); [apply parse_pre_process_line_refine|apply parse_command_line_refine].
Qed.

Theorem parse_lines_refine inc src : forall ls ln,
  ParserIx.parse_lines_from inc src ln ls = inj_tres (Parser.parse_lines_from inc src ln ls).
Proof.
  induction ls as [|s ls IH]; intros ln; [reflexivity|].
  cbn [ParserIx.parse_lines_from Parser.parse_lines_from]. rewrite parse_line_refine.
  destruct (Parser.parse_line s) as [t|e]; cbn [inj]; [|reflexivity].
  destruct (preprocess inc src ln t); [|reflexivity].
  rewrite IH. destruct (Parser.parse_lines_from inc src (ln + 1) ls); reflexivity.
Qed.

Theorem parse_text_refine t : ParserIx.parse_text t = inj_tres (Parser.parse_text t).
Proof. apply parse_lines_refine. Qed.

Theorem parse_text_no_panic t : ParserIx.parse_text t <> ITPanic.
Proof. rewrite parse_text_refine. destruct (Parser.parse_text t); discriminate. Qed.

Theorem parse_line_no_panic s : ParserIx.parse_line s <> IPanic.
Proof. rewrite parse_line_refine. destruct (Parser.parse_line s); discriminate. Qed.

