(* FlowFnLemmas.v — infrastructure of the C05 simulation: runs of the extended machine, placement,
   layout of the function definitions, the generalised frame relation (junk lines given by a
   predicate), meta-info lemmas for the C05 syntax, dispatch lemmas. *)
Require Import DS.Base DS.FlowTables DS.FlowTablesWf DS.FlowScan DS.Flow DS.FlowTree DS.FlowScanProof
  DS.FlowLemmas DS.FlowFrame DS.FlowFn DS.FlowFnTree DS.FlowFnDom DS.FlowFnScan.
Require Import DSG.GenFlowNames DSG.GenFnNames.
Open Scope nat_scope.

(* ---- runs -------------------------------------------------------------------------------------- *)
Lemma fsteps_trans P a b c c' c'' :
  fsteps a P c = Some c' -> fsteps b P c' = Some c'' -> fsteps (a + b) P c = Some c''.
Proof.
  revert c. induction a as [|a IH]; intros c H1 H2; cbn in *.
  - inversion H1; subst. exact H2.
  - destruct (fstep1 P c) as [c1|]; [|discriminate]. eauto.
Qed.

Section Runs.
Variable P : list finstr.
Definition fruns (c c' : nat * fstate) : Prop := exists n, fsteps n P c = Some c'.
Lemma fruns_refl c : fruns c c.
Proof. exists 0. reflexivity. Qed.
Lemma fruns_trans c1 c2 c3 : fruns c1 c2 -> fruns c2 c3 -> fruns c1 c3.
Proof. intros (a & Ha) (b & Hb). exists (a + b). eapply fsteps_trans; eauto. Qed.
Lemma fruns_step c c' : fstep1 P c = Some c' -> fruns c c'.
Proof. intros H. exists 1. cbn. now rewrite H. Qed.
Lemma fruns_step_then c c' c'' : fstep1 P c = Some c' -> fruns c' c'' -> fruns c c''.
Proof. intros H1 H2. eapply fruns_trans; [apply fruns_step; exact H1|exact H2]. Qed.

Lemma fstep1_continue l i s s' :
  nth_error P l = Some i -> fstep P l i s = (RContinue, s') -> fstep1 P (l, s) = Some (S l, s').
Proof. intros H1 H2. unfold fstep1. now rewrite H1, H2. Qed.
Lemma fstep1_goto l i s s' l' :
  nth_error P l = Some i -> fstep P l i s = (RGoto l', s') -> fstep1 P (l, s) = Some (l', s').
Proof. intros H1 H2. unfold fstep1. now rewrite H1, H2. Qed.

(* ---- placement ----------------------------------------------------------------------------------- *)
Definition fplaced (l : nat) (code : list finstr) : Prop :=
  exists pre post, P = pre ++ code ++ post /\ length pre = l.
Lemma fplaced_app_l l a b : fplaced l (a ++ b) -> fplaced l a.
Proof. intros (pre & post & E & L). exists pre, (b ++ post). now rewrite E, <- app_assoc. Qed.
Lemma fplaced_app_r l a b : fplaced l (a ++ b) -> fplaced (l + length a) b.
Proof.
  intros (pre & post & E & L). exists (pre ++ a), post. split.
  - now rewrite E, <- !app_assoc.
  - rewrite app_length. lia.
Qed.
Lemma fplaced_nth l i r : fplaced l (i :: r) -> nth_error P l = Some i.
Proof.
  intros (pre & post & E & L). rewrite E, nth_error_app2 by lia.
  replace (l - length pre) with 0 by lia. reflexivity.
Qed.
Lemma fplaced_tail l i r : fplaced l (i :: r) -> fplaced (S l) r.
Proof.
  intros (pre & post & E & L). exists (pre ++ [i]), post. split.
  - rewrite E, <- app_assoc. reflexivity.
  - rewrite app_length. cbn. lia.
Qed.
Lemma fplaced_bound l code : fplaced l code -> l + length code <= length P.
Proof. intros (pre & post & E & L). rewrite E, !app_length. lia. Qed.
End Runs.

(* ---- generalised frame: junk lines are those satisfying R ----------------------------------- *)
Record gframe (R : nat -> Prop) (f f' : flow) : Prop := mkGF {
  gf_if : exists J, f_ifstk f' = J ++ f_ifstk f /\
                    Forall (fun e => R (ic_current e) /\ ic_passed e = true) J;
  gf_wh : exists J, f_whstk f' = J ++ f_whstk f /\ Forall (fun e => R (lm_end e)) J;
  gf_for : f_forstk f' = f_forstk f;
  gf_end : forall l, ~ R l -> aget Nat.eqb l (f_end f') = aget Nat.eqb l (f_end f) }.

Lemma gframe_refl R f : gframe R f f.
Proof. constructor; auto; exists []; auto. Qed.
Lemma gframe_weaken (R R' : nat -> Prop) f f' : (forall l, R l -> R' l) -> gframe R f f' -> gframe R' f f'.
Proof.
  intros HR [(Ji & E1 & F1) (Jw & E2 & F2) E3 E4]. constructor.
  - exists Ji. split; auto. eapply Forall_impl; [|exact F1]. intros a [H1 H2]. split; auto.
  - exists Jw. split; auto. eapply Forall_impl; [|exact F2]. intros a. auto.
  - exact E3.
  - intros l Hl. apply E4. intros H. apply Hl. auto.
Qed.
Lemma gframe_trans R f1 f2 f3 : gframe R f1 f2 -> gframe R f2 f3 -> gframe R f1 f3.
Proof.
  intros [(Ji & E1 & F1) (Jw & E2 & F2) E3 E4] [(Ji' & E1' & F1') (Jw' & E2' & F2') E3' E4'].
  constructor.
  - exists (Ji' ++ Ji). split; [rewrite E1', E1, app_assoc; reflexivity|apply Forall_app; auto].
  - exists (Jw' ++ Jw). split; [rewrite E2', E2, app_assoc; reflexivity|apply Forall_app; auto].
  - congruence.
  - intros l Hl. rewrite E4', E4; auto.
Qed.
Lemma gframe_intro (R : nat -> Prop) f f' Ji Jw :
  f_ifstk f' = Ji ++ f_ifstk f -> Forall (fun e => R (ic_current e) /\ ic_passed e = true) Ji ->
  f_whstk f' = Jw ++ f_whstk f -> Forall (fun e => R (lm_end e)) Jw ->
  f_forstk f' = f_forstk f ->
  (forall l, ~ R l -> aget Nat.eqb l (f_end f') = aget Nat.eqb l (f_end f)) ->
  gframe R f f'.
Proof. intros. constructor; eauto. Qed.
Lemma gframe_meta (R : nat -> Prop) f f1 E name : same_stacks f f1 ->
  f_end f1 = aset Nat.eqb E name (f_end f) -> R E -> gframe R f f1.
Proof.
  intros (S1 & S2 & S3) HE Hr. apply (gframe_intro R f f1 [] []); auto.
  intros l Hl. rewrite HE. apply aget_aset_other. intros ->. contradiction.
Qed.

Definition fout (R : nat -> Prop) (f : flow) : Prop :=
  Forall (fun e => ~ R (lm_start (fc_meta e)) /\ ~ R (lm_end (fc_meta e))) (f_forstk f).
Lemma fout_weaken (R R' : nat -> Prop) f : (forall l, R' l -> R l) -> fout R f -> fout R' f.
Proof.
  intros HR H. unfold fout in *. eapply Forall_impl; [|exact H]. intros a [H1 H2]. split; auto.
Qed.
Lemma fout_same R f f' : f_forstk f' = f_forstk f -> fout R f -> fout R f'.
Proof. unfold fout. now intros ->. Qed.
Lemma for_pop_top_fout (R : nat -> Prop) p f : fout R f -> R p ->
  for_pop_top p (f_forstk f) = (None, f_forstk f).
Proof.
  unfold fout. intros H Hp. destruct (f_forstk f) as [|e r]; [reflexivity|].
  inversion H as [|? ? (H1 & H2) _]; subst. cbn. unfold for_match.
  destruct (Nat.eqb_spec (lm_start (fc_meta e)) p); [subst; contradiction|].
  destruct (Nat.eqb_spec (lm_end (fc_meta e)) p); [subst; contradiction|]. reflexivity.
Qed.
Lemma junk_ne_if (R : nat -> Prop) L J : Forall (fun e => R (ic_current e) /\ ic_passed e = true) J ->
  ~ R L -> Forall (fun x => ic_current x <> L) J.
Proof. intros H HL. eapply Forall_impl; [|exact H]. intros a [H1 _] E. rewrite E in H1. contradiction. Qed.
Lemma junk_ne_wh (R : nat -> Prop) L J : Forall (fun e => R (lm_end e)) J -> ~ R L ->
  Forall (fun x => lm_end x <> L) J.
Proof. intros H HL. eapply Forall_impl; [|exact H]. intros a H1 E. cbv beta in H1. rewrite E in H1. contradiction. Qed.

(* ---- meta info of constructs placed in a C05 program --------------------------------------------- *)
Section Meta.
Variable P : list finstr.
Hypothesis TW : tables_wf = true.
Variable callable : str -> Prop.
Let P0 := map down P.

Lemma gown_meta k infn sp a b els e p :
  fplaced P p (bkw sp a :: gb b ++ ge els ++ [bkw e ANone]) ->
  pgb callable infn b -> pge callable infn els -> In e (closers k) ->
  find_commands (table_of k) (cmds P0) (S p)
  = SOk (gmids k els (S p + length (gb b))) (S p + length (gb b) + length (ge els)).
Proof.
  intros (pre & post & E & L) Hb He Hc. unfold P0. rewrite cmds_down.
  assert (EP : fcmds P = (fcmds pre ++ [Some sp]) ++ fcmds (gb b) ++ fcmds (ge els) ++ Some e :: fcmds post).
  { rewrite E. unfold fcmds. rewrite !map_app. cbn [map fi_cmd bkw]. rewrite !map_app. cbn [map fi_cmd bkw].
    rewrite <- !app_assoc. cbn [app]. rewrite <- !app_assoc. cbn [app]. reflexivity. }
  rewrite EP.
  replace (S p) with (length (fcmds pre ++ [Some sp])) by (rewrite app_length, fcmds_length; cbn; lia).
  eapply gfind_own_end; eauto.
Qed.

Lemma gif_meta_placed infn p sp c b els e :
  fplaced P p (gs (GIf sp c b els e)) -> pgs callable infn (GIf sp c b els e) ->
  create_if_meta P0 p = Some (mkIM p (S p + length (gb b) + length (ge els))
                                   (gmid_pos els (S p + length (gb b)))).
Proof.
  intros Hp (Ho & Hc & Hb & He). unfold create_if_meta.
  change gen_if_tables with (table_of CkIf).
  rewrite (gown_meta CkIf infn sp (ACond c) b els e p Hp Hb He Hc). reflexivity.
Qed.
Lemma gwhile_meta_placed infn p sp c b e :
  fplaced P p (gs (GWhile sp c b e)) -> pgs callable infn (GWhile sp c b e) ->
  create_loop_meta gen_while_tables P0 p = Some (mkLM p (S p + length (gb b))).
Proof.
  intros Hp (Ho & Hc & Hb). unfold create_loop_meta.
  change gen_while_tables with (table_of CkWhile).
  rewrite (gown_meta CkWhile infn sp (ACond c) b HNil e p Hp Hb I Hc).
  cbn [ge length]. now rewrite Nat.add_0_r.
Qed.
Lemma gfor_meta_placed infn p sp x hv b e :
  fplaced P p (gs (GFor sp x hv b e)) -> pgs callable infn (GFor sp x hv b e) ->
  create_loop_meta gen_for_tables P0 p = Some (mkLM p (S p + length (gb b))).
Proof.
  intros Hp (Ho & Hc & Hb). unfold create_loop_meta.
  change gen_for_tables with (table_of CkFor).
  rewrite (gown_meta CkFor infn sp (AFor x hv) b HNil e p Hp Hb I Hc).
  cbn [ge length]. now rewrite Nat.add_0_r.
Qed.

(* the scan of [fn name] *)
Lemma gfn_meta_placed p sp scoped name b e :
  fplaced P p (fkw sp (FFn scoped name) :: gb b ++ [bkw e ANone]) ->
  pgb callable true b -> In e fn_closers ->
  (if gen_function_allow_recursive
   then find_commands gen_function_tables (fcmds P) (S p)
   else find_commands_nr gen_function_tables (fcmds P) (S p))
  = SOk [] (S p + length (gb b)).
Proof.
  intros (pre & post & E & L) Hb He.
  assert (EP : fcmds P = (fcmds pre ++ [Some sp]) ++ fcmds (gb b) ++ Some e :: fcmds post).
  { rewrite E. unfold fcmds. rewrite !map_app. cbn [map fi_cmd fkw]. rewrite !map_app. cbn [map fi_cmd bkw].
    rewrite <- !app_assoc. cbn [app]. rewrite <- !app_assoc. cbn [app]. reflexivity. }
  rewrite EP.
  replace (S p) with (length (fcmds pre ++ [Some sp])) by (rewrite app_length, fcmds_length; cbn; lia).
  eapply find_fn_end; eauto.
Qed.

(* ---- dispatch ------------------------------------------------------------------------------------ *)
Lemma base_kind c : In c (n_if ++ n_elseif ++ n_else ++ n_endif ++ n_while ++ n_endwhile ++ n_for ++
                          n_endfor ++ [gen_end_name] ++ prim_names) ->
  classify_fn c = FKBase (classify c).
Proof.
  intros H. pose proof fn_tables_wf as W. unfold fn_tables_ok in W.
  apply andb_prop in W. destruct W as [_ W]. rewrite forallb_forall in W. specialize (W c H).
  unfold classify_fn in *. destruct (str_in c n_function); [discriminate|].
  destruct (str_in c n_endfunction); [discriminate|]. destruct (str_in c n_return); [discriminate|].
  reflexivity.
Qed.

Ltac in_names := repeat (first [apply in_or_app; left; assumption | apply in_or_app; right]).

Lemma fdisp_base l i w f g :
  (exists c, fi_cmd i = Some c /\ classify_fn c = FKBase (classify c) /\ classify c <> KEnd) ->
  (exists a, fi_arg i = FBase a) ->
  fstep P l i (w, f, g) = lift g (step P0 l (down i) (w, f)).
Proof.
  intros (c & Hc & Hk & Hne) (a & Ha). unfold fstep. rewrite Hc, Hk, Ha.
  destruct (classify c); try reflexivity; try congruence; destruct a; reflexivity.
Qed.
End Meta.
