(* FsCmd.v — the COMMAND layer of the C18 model: what the `run` function of each file command does with its argument
   VECTOR, in terms of the history steps of FsTree.v (the `op`s the C18 theorems and the extracted driver are about).
   DEFINITIONS ONLY.  The tie FsGenTie.v proves each of these equal to the mechanical translation of the current
   duckscript_sdk/src/sdk/std/fs/<cmd>/mod.rs::run (+ utils/io.rs) for every argument vector, tree and environment.

   A command (1) checks the number of arguments (too few: CommandResult::Error, the tree is untouched), (2) reads its
   path arguments as paths (path_of: the OS's business), its text argument as UTF-8 bytes, its handle argument through the
   handles sub-state, (3) performs exactly ONE step of FsTree.M_step on the tree.  This is the correspondence the harness
   (harness/src/bin/c18.rs) and the driver (ocaml/c18_driver.ml) of C18 assume when they turn a case line into a
   command invocation on one side and an `op` on the other. *)
From Coq Require Import NArith List.
From stdpp Require Import gmap list.
Require Import DS.FsTree DS.Rs2vFsLib.

Definition fs_step (E : fsenv) (o : op) (t : tree) : out * tree :=
  M_step (e_rename E) (e_dir_copy E) (e_move_dir E) o t.

(* one path argument *)
Definition cmd1 (E : fsenv) (mk : path -> op) (args : list (list N)) (t : tree) : out * tree :=
  match args with
  | [] => (OErr, t)
  | a :: _ => fs_step E (mk (path_of E a)) t
  end.

Definition cmd_touch E := cmd1 E Touch.
Definition cmd_mkdir E := cmd1 E Mkdir.
Definition cmd_rmdir E := cmd1 E Rmdir.
Definition cmd_exists E := cmd1 E Exists.
Definition cmd_is_file E := cmd1 E IsFile.
Definition cmd_is_dir E := cmd1 E IsDir.
Definition cmd_size E := cmd1 E Size.
Definition cmd_read E := cmd1 E Read.
Definition cmd_readb E := cmd1 E ReadB.

(* a path and a text *)
Definition cmd_write (E : fsenv) (args : list (list N)) (t : tree) : out * tree :=
  match args with
  | a0 :: a1 :: _ => fs_step E (Write (path_of E a0) a1) t
  | _ => (OErr, t)
  end.
Definition cmd_append (E : fsenv) (args : list (list N)) (t : tree) : out * tree :=
  match args with
  | a0 :: a1 :: _ => fs_step E (Append (path_of E a0) a1) t
  | _ => (OErr, t)
  end.
(* a path and the handle of a byte array *)
Definition cmd_writeb (E : fsenv) (args : list (list N)) (t : tree) : out * tree :=
  match args with
  | a0 :: a1 :: _ =>
    match handle_of E a1 with
    | Some (HBytes b) => fs_step E (WriteB (path_of E a0) b) t
    | _ => (OErr, t)
    end
  | _ => (OErr, t)
  end.
(* two paths *)
Definition cmd_cp (E : fsenv) (args : list (list N)) (t : tree) : out * tree :=
  match args with
  | a0 :: a1 :: _ => fs_step E (Cp (path_of E a0) (path_of E a1)) t
  | _ => (OErr, t)
  end.
Definition cmd_mv (E : fsenv) (args : list (list N)) (t : tree) : out * tree :=
  match args with
  | a0 :: a1 :: _ => fs_step E (Mv (path_of E a0) (path_of E a1)) t
  | _ => (OErr, t)
  end.
(* rm: a first argument that looks like unix flags is the flags, everything else is a path *)
Definition cmd_rm (E : fsenv) (args : list (list N)) (t : tree) : out * tree :=
  fs_step E (match args with
             | [] => Rm None []
             | a :: r => if is_unix_flags a then Rm (Some a) (map (path_of E) r)
                         else Rm None (map (path_of E) args)
             end) t.
