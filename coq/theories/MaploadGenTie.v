(* MaploadGenTie.v — `run` of duckscript_sdk/src/sdk/std/collections/map_load_properties/mod.rs and `mutate_map` of
   duckscript_sdk/src/utils/state.rs: the models of CodecMapload.v (C17) are EQUAL, for all inputs, to the mechanical translation
   of the CURRENT Rust source (coq/generated/GenMaploadFn.v, rewritten on every run by lib/rs2v.py, grammar PColl / executor
   FnColl + FnCodec, through lib/gen/mapload_gen.py).

     gen_mutate_map_sv_eq                 gen_mutate_map_sv key st handler = mutate_map_sv key st handler      every key, table, handler
     gen_cmd_map_load_properties_eq       gen_cmd_map_load_properties rnd args s = cmd_map_load_properties_run args s   every rnd, args, s
     gen_cmd_map_load_properties_defined  the translation never yields CPanic (nor CFuel): every `context.arguments[i]` of the
                                          source is an explicit `(CPanic, s)` arm of the translation, a panicking closure an
                                          MPanic arm; the equality with a model that has no such arm proves them dead

   Every proof starts with `unfold <flag>; intros U; try discriminate U` and goes on with `all:` so that the file compiles
   both against the real translation and against the stubs (flag false: nothing left to prove). *)
Require Import DS.Base DS.Utf8 DS.Strings DS.Codec DS.CodecProps DS.Rs2vStrLib DS.Rs2vCodecLib DS.CodecCmds DS.CodecCmdsProof
  DS.CodecMapload DS.CodecMaploadProof.
Require Import DSG.GenMaploadFn.

Theorem gen_mutate_map_sv_eq : gen_mutate_map_sv_understood = true ->
  forall key st handler, gen_mutate_map_sv key st handler = mutate_map_sv key st handler.
Proof.
  unfold gen_mutate_map_sv_understood; intros U; try discriminate U.
  all: clear U; intros key st handler; unfold gen_mutate_map_sv, mutate_map_sv.
  all: destruct (ht_get key st) as [[]|]; reflexivity.
Qed.

(* one call site: the reader's three outcomes, mutate_map replaced by its model, the kind of the value found; for a SubState the
   body of the translated `for` loop is taken from the goal and shown equal, pair by pair, to load_step of the prefix p *)
Ltac tie_load U p s :=
  unfold map_load_properties_at;
  match goal with |- context [pp_read ?t] => destruct (pp_read t) end; try reflexivity;
  rewrite (gen_mutate_map_sv_eq U); unfold mutate_map_sv;
  match goal with |- context [ht_get ?k (handles s)] => destruct (ht_get k (handles s)) as [[]|] end; try reflexivity;
  cbv beta iota;
  match goal with
  | |- (_, CS (ht_insert _ (SSub (fold_left ?f _ _)) _) _) = _ =>
      rewrite (fold_left_ext2 f (load_step p))
        by (let acc := fresh "acc" in let k := fresh "k" in let v := fresh "v" in
            intros acc [k v]; unfold load_step, pp_prefix_key; cbn [fst snd]; destruct p; reflexivity)
  end;
  reflexivity.

Theorem gen_cmd_map_load_properties_eq : gen_mutate_map_sv_understood = true -> gen_cmd_map_load_properties_understood = true ->
  forall rnd args s, gen_cmd_map_load_properties rnd args s = cmd_map_load_properties_run args s.
Proof.
  intros U1; unfold gen_cmd_map_load_properties_understood; intros U; try discriminate U.
  all: clear U; intros rnd args s; unfold gen_cmd_map_load_properties, cmd_map_load_properties_run, s_prefix_flag.
  all: destruct args as [|a0 [|a1 [|a2 [|a3 r]]]]; cbn [vec_is_empty nth_error length Nat.ltb Nat.leb Nat.eqb negb]; try reflexivity.
  all: try (destruct (str_eqb a0 _)).
  all: first [tie_load U1 a1 s | tie_load U1 (@nil N) s].
Qed.

Theorem gen_cmd_map_load_properties_defined : gen_mutate_map_sv_understood = true -> gen_cmd_map_load_properties_understood = true ->
  forall rnd args s, cdefined (fst (gen_cmd_map_load_properties rnd args s)).
Proof. intros U1 U rnd args s. rewrite (gen_cmd_map_load_properties_eq U1 U). apply cmd_map_load_properties_run_defined. Qed.
