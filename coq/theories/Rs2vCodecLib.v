(* Rs2vCodecLib.v — support for the translations of lib/gen/codeccmds_gen.py (coq/generated/GenCodeccmdsFn.v).

     for_each_ret f l s     `for x in l { body }` whose body may `return r` from the enclosing function: a left fold of
                            f : S -> A -> S + R over l that stops at the first inr *)
Require Import DS.Base.

Fixpoint for_each_ret {A S R : Type} (f : S -> A -> S + R) (l : list A) (s : S) : S + R :=
  match l with
  | [] => inl s
  | x :: r => match f s x with inl s' => for_each_ret f r s' | inr e => inr e end
  end.

Lemma for_each_ret_ext {A S R : Type} (f g : S -> A -> S + R) l :
  (forall a x, f a x = g a x) -> forall s, for_each_ret f l s = for_each_ret g l s.
Proof.
  intros E. induction l as [|x l IH]; intros s; cbn; [reflexivity|]. rewrite E. destruct (g s x); [apply IH|reflexivity].
Qed.

(* a body that never returns is a plain fold *)
Lemma for_each_ret_inl {A S R : Type} (f : S -> A -> S) l : forall s,
  for_each_ret (R := R) (fun a x => inl (f a x)) l s = inl (fold_left f l s).
Proof. induction l as [|x l IH]; intros s; cbn; [reflexivity|apply IH]. Qed.
