(* ExpansionSpec.v — specification side of C02 (definitions only).

   A written argument is a template: literal text, ${name}, \${name}; or the whole argument is
   %{name}.  [denote] is what the property says the command receives. *)
Require Import DS.Base DS.Parser DS.Expansion.

Inductive piece := Lit (s : str) | Var (n : str) | Esc (n : str).
Definition tmpl := list piece.

(* literal text: free of $, % and backslash *)
Definition lit_char_ok (c : char) : bool :=
  negb (c =? c_dollar) && negb (c =? c_pct) && negb (c =? c_bs).
Definition lit_ok (s : str) : bool := forallb lit_char_ok s.

(* names: free of "spaces" (the implementation's should_break_key: space TAB CR LF =) and of } *)
Definition name_char_ok (c : char) : bool := negb (should_break_key c) && negb (c =? c_rbrace).
Definition name_ok (n : str) : bool := forallb name_char_ok n.

(* the name of \${name} is literal text to the scanner: it carries the literal-text restriction
   (and needs no other) *)
Definition wf_piece (p : piece) : bool :=
  match p with Lit s => lit_ok s | Var n => name_ok n | Esc n => lit_ok n end.
Definition wf_tmpl (t : tmpl) : bool := forallb wf_piece t.

Definition render_piece (p : piece) : str :=
  match p with
  | Lit s => s
  | Var n => c_dollar :: c_lbrace :: n ++ [c_rbrace]
  | Esc n => c_bs :: c_dollar :: c_lbrace :: n ++ [c_rbrace]
  end.
Definition render_tmpl (t : tmpl) : str := concat (map render_piece t).

Definition lookup_or_empty (e : env) (n : str) : str :=
  match e n with Some v => v | None => [] end.

Definition denote (e : env) (p : piece) : str :=
  match p with
  | Lit s => s
  | Var n => lookup_or_empty e n
  | Esc n => c_dollar :: c_lbrace :: n ++ [c_rbrace]
  end.
Definition denote_tmpl (e : env) (t : tmpl) : str := concat (map (denote e) t).

(* Single, or None when the text is empty (the runner then binds one empty argument) *)
Definition of_text (s : str) : expanded := match s with [] => ENone | _ => Single s end.

(* the space-separated words of a value (U+0020 only, empty words dropped) *)
Fixpoint words_aux (l : str) (cur : str) : list str :=   (* cur: current word, reversed *)
  match l with
  | [] => match cur with [] => [] | _ => [rev cur] end
  | c :: l' =>
    if c =? c_sp then match cur with [] => words_aux l' [] | _ => rev cur :: words_aux l' [] end
    else words_aux l' (c :: cur)
  end.
Definition words (v : str) : list str := words_aux v [].

(* whole written arguments *)
Inductive warg := WT (t : tmpl) | WSpread (n : str).
Definition wf_arg (a : warg) : bool := match a with WT t => wf_tmpl t | WSpread n => name_ok n end.
Definition render_spread (n : str) : str := c_pct :: c_lbrace :: n ++ [c_rbrace].
Definition render_arg (a : warg) : str :=
  match a with WT t => render_tmpl t | WSpread n => render_spread n end.

(* what the property says the command receives for one written argument *)
Definition denote_arg (e : env) (a : warg) : list str :=
  match a with
  | WT t => [denote_tmpl e t]
  | WSpread n => words (lookup_or_empty e n)
  end.
Definition denote_args (e : env) (args : list warg) : list str := concat (map (denote_arg e) args).

(* ---- known-finding classes (F9 = KF-C02-1, KF-C02-3); the same predicates are extracted and
   used by the check as classifiers ---- *)
Definition has_char (c : char) (s : str) : bool := existsb (N.eqb c) s.

(* KF-C02-1: some space-separated word of the spread value begins with a double quote *)
Fixpoint word_initial_quote_from (at_start : bool) (v : str) : bool :=
  match v with
  | [] => false
  | c :: v' => (at_start && (c =? c_quote)) || word_initial_quote_from (c =? c_sp) v'
  end.
Definition known_spread_quote (v : str) : bool := word_initial_quote_from true v.
(* (KF-C02-2, '#' in a spread value dropping the rest, is repaired: with control_as_char the parser
   treats '#' as an ordinary character, so the class is part of the theorem's domain) *)
Definition known_spread_value (v : str) : bool := known_spread_quote v.

(* KF-C02-3: a \${name} whose name is inside the property's quantifier (free of spaces, = and })
   but is not literal text (contains $, % or backslash) *)
Definition known_esc_piece (p : piece) : bool :=
  match p with Esc n => name_ok n && negb (lit_ok n) | _ => false end.
Definition known_esc_tmpl (t : tmpl) : bool := existsb known_esc_piece t.
(* the property's own reading of a well-formed template *)
Definition wf_piece_literal (p : piece) : bool :=
  match p with Lit s => lit_ok s | Var n => name_ok n | Esc n => name_ok n end.

Definition known_arg (e : env) (a : warg) : bool :=
  match a with
  | WT t => known_esc_tmpl t
  | WSpread n => known_spread_value (lookup_or_empty e n)
  end.
