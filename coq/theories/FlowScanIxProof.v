(* FlowScanIxProof.v — the index-faithful model of instruction_query::find_commands (FlowScanIx.v)
     * never panics and never runs out of fuel: every `instructions[line]` is in range, the
       recursion on nested openers is bounded by the vector length, `block_delta` cannot overflow
       below 2^31 instructions (and in the wrapping release profile an overflow is no panic);
     * never returns Ok(None) nor the error of the `None =>` arm after the nested call (dead code);
     * REFINES the suffix-style scanner model the C04 / C05 theorems are about:
         allow_recursive = true   ->  FlowScan.find_commands   (if / while / for-in)
         allow_recursive = false  ->  FlowFn.find_commands_nr  (function)
       for every instruction vector below 2^31 instructions, every table, every start and end. *)
Require Import DS.Base DS.Parser DS.FlowTables DS.FlowScan DS.CondIx DS.FlowScanIx.
Require DS.FlowFn.
Require Import Lia.
Open Scope nat_scope.

Local Arguments i32_result : simpl never.

(* ---- the embedding of the suffix models' results ------------------------------------------------
   The suffix models abstract the error TEXT: FlowScan.scan answers SNested whenever the nested call
   fails.  The Rust code hands the nested call's own error on (`Err(error) => return Err(error)`),
   and that error is always "Missing end of structure" (shown below), hence SNested |-> XEMissing in
   recursive mode; with allow_recursive = false SNested is "Unsupported nested structure: {} found." *)
Definition inject (r : sres) : xres :=
  match r with
  | SOk m e => XOk (Some (mkPos m e))
  | SMissing => XErr XEMissing
  | SNested => XErr XEMissing
  | SNoNames => XErr XENoNames
  end.
Definition inject_nr (r : sres) : xres :=
  match r with
  | SOk m e => XOk (Some (mkPos m e))
  | SMissing => XErr XEMissing
  | SNested => XErr XENested
  | SNoNames => XErr XENoNames
  end.

(* what a call of find_commands can return: Ok(Some(..)) or one of the three live errors *)
Definition good (r : xres) : Prop :=
  match r with
  | XOk (Some _) => True
  | XErr e => e <> XENestedNoEnd
  | _ => False
  end.

Lemma good_inject r : good (inject r).
Proof. destruct r; cbn; congruence || exact I. Qed.
Lemma good_inject_nr r : good (inject_nr r).
Proof. destruct r; cbn; congruence || exact I. Qed.
Lemma good_safe r : good r -> r <> XPanic /\ r <> XFuel /\ r <> XOk None /\ r <> XErr XENestedNoEnd.
Proof. destruct r as [[p|]|e| |]; cbn; intros H; repeat split; congruence. Qed.

(* ---- lists --------------------------------------------------------------------------------------- *)
Lemma skipn_nth_cons {A} (l : list A) : forall n x, nth_error l n = Some x -> skipn n l = x :: skipn (S n) l.
Proof.
  induction l as [|a l IH]; intros [|n] x H; cbn in *; try discriminate.
  - now inversion H.
  - now apply IH.
Qed.

Lemma nth_error_firstn_lt {A} (l : list A) : forall E n, n < E -> nth_error (firstn E l) n = nth_error l n.
Proof.
  induction l as [|a l IH]; intros [|E] [|n] H; cbn; try reflexivity; try lia.
  apply IH. lia.
Qed.

Lemma scan_not_nonames T l : forall pos sk d m, scan T l pos sk d m <> SNoNames.
Proof.
  induction l as [|i l IH]; intros pos sk d m; cbn [scan]; [discriminate|].
  destruct (pos <? sk); [apply IH|]. destruct i as [c|]; [|apply IH].
  repeat match goal with |- (if ?b then _ else _) <> _ => destruct b end; try apply IH; try discriminate.
  destruct (scan T l (S pos) (S pos) 0 []); try discriminate. apply IH.
Qed.

(* ---- i32 ------------------------------------------------------------------------------------------ *)
Lemma i32_fits checked z : (-1 <= z < 2147483648)%Z -> i32_result checked z = Some z.
Proof.
  intros H. unfold i32_result, in_i32, i32_min, i32_max.
  destruct (Z.leb_spec (-2147483648) z); [|lia]. destruct (Z.leb_spec z 2147483647); [|lia]. reflexivity.
Qed.
Lemma i32_release z : exists d, i32_result false z = Some d.
Proof. unfold i32_result. destruct (in_i32 z); eauto. Qed.

(* the overflow side condition: wrapping profile, or block_delta + (iterations left) stays in range *)
Definition room (checked : bool) (d : Z) (n : nat) : Prop :=
  checked = false \/ (0 <= d /\ d + Z.of_nat n < 2147483648)%Z.
Lemma room_inc checked d n : room checked d (S n) ->
  exists d', i32_result checked (d + 1) = Some d' /\ room checked d' n.
Proof.
  intros [->|[H0 H1]].
  - destruct (i32_release (d + 1)) as [d' E]. exists d'. split; [exact E|now left].
  - exists (d + 1)%Z. split; [apply i32_fits; lia|right; lia].
Qed.
Lemma room_dec checked d n : room checked d (S n) -> (0 < d)%Z ->
  exists d', i32_result checked (d - 1) = Some d' /\ room checked d' n.
Proof.
  intros [->|[H0 H1]] Hp.
  - destruct (i32_release (d - 1)) as [d' E]. exists d'. split; [exact E|now left].
  - exists (d - 1)%Z. split; [apply i32_fits; lia|right; lia].
Qed.
Lemma room_keep checked d n : room checked d (S n) -> room checked d n.
Proof. intros [->|[H0 H1]]; [now left|right; lia]. Qed.

Section Proofs.
Variable checked : bool.
Variable T : tables.
Variable instrs : list instr.

(* ---- no panic, no fuel exhaustion, no dead result ------------------------------------------------ *)
Lemma loop_good rec allow E : E <= length instrs ->
  forall n line s, n = E - line -> room checked (x_delta s) n ->
    (forall s', line < s' -> s' <= E -> good (rec (Some s') (Some E))) ->
    match for_range (body_ix checked T rec instrs allow E) n line s with
    | XNext _ => True
    | XRet r => good r
    end.
Proof.
  intros HE. induction n as [|n IH]; intros line s Hn Hroom Hrec; cbn [for_range]; [exact I|].
  assert (Hnext : forall s', room checked (x_delta s') n ->
            match for_range (body_ix checked T rec instrs allow E) n (S line) s' with
            | XNext _ => True | XRet r => good r end).
  { intros s' Hr. apply IH; [lia|exact Hr|]. intros s2 H2 H3. apply Hrec; lia. }
  pose proof (room_keep _ _ _ Hroom) as Hkeep.
  unfold body_ix at 1.
  destruct (x_skip s <=? line); [|now apply Hnext].
  destruct (nth_error instrs line) as [i|] eqn:Hi.
  2:{ apply nth_error_None in Hi. lia. }
  destruct (i_type i) as [|pc pa|lb out [c|] args]; try now apply Hnext.
  destruct (str_in c (sblocks T)).
  { destruct (room_inc _ _ _ Hroom) as (d' & -> & Hr'). now apply Hnext. }
  destruct (str_in c (middles T)); [now apply Hnext|].
  destruct (str_in c (eblocks T) && (0 <? x_delta s)%Z) eqn:Eb.
  { apply andb_prop in Eb. destruct Eb as [_ Eb]. apply Z.ltb_lt in Eb.
    destruct (room_dec _ _ _ Hroom Eb) as (d' & -> & Hr'). now apply Hnext. }
  destruct (str_in c (ends T)); [exact I|].
  destruct (str_in c (starts T)); [|now apply Hnext].
  destruct allow; [|cbn; congruence].
  pose proof (Hrec (line + 1) ltac:(lia) ltac:(lia)) as Hg.
  destruct (rec (Some (line + 1)) (Some E)) as [[sub|]|e| |]; cbn in Hg; try contradiction.
  - now apply Hnext.
  - exact Hg.
Qed.

Lemma go_good rec allow start e :
  room checked 0 (get_end_ix e instrs - get_start_ix start) ->
  (forall s', get_start_ix start < s' -> s' <= get_end_ix e instrs -> good (rec (Some s') (Some (get_end_ix e instrs)))) ->
  good (go_ix checked T rec instrs allow start e).
Proof.
  intros Hroom Hrec. unfold go_ix.
  destruct (_ || _); [cbn; congruence|]. cbv zeta.
  assert (HE : get_end_ix e instrs <= length instrs).
  { unfold get_end_ix. destruct e; [apply Nat.le_min_l|apply Nat.le_refl]. }
  pose proof (loop_good rec allow _ HE (get_end_ix e instrs - get_start_ix start) (get_start_ix start)
                (xinit (get_start_ix start)) eq_refl Hroom Hrec) as H.
  destruct (for_range _ _ _ _); [cbn; congruence|exact H].
Qed.

Lemma get_end_some E : E <= length instrs -> get_end_ix (Some E) instrs = E.
Proof. intros H. cbn. now apply Nat.min_r. Qed.

Lemma fuel_good allow E : E <= length instrs ->
  (checked = false \/ (Z.of_nat E < 2147483648)%Z) ->
  forall fuel s, E - s < fuel -> good (find_commands_fuel checked T fuel instrs allow (Some s) (Some E)).
Proof.
  intros HE Hb. induction fuel as [|fuel IH]; intros s Hf; [lia|].
  cbn [find_commands_fuel]. apply go_good; rewrite (get_end_some E HE); cbn [get_start_ix].
  - destruct Hb as [->|Hb]; [now left|right; lia].
  - intros s' Hs Hs2. apply IH. lia.
Qed.

Theorem find_commands_ix_good allow start e :
  (checked = false \/ (Z.of_nat (length instrs) < 2147483648)%Z) ->
  good (find_commands_ix checked T instrs allow start e).
Proof.
  intros Hb. unfold find_commands_ix. cbn [find_commands_fuel].
  assert (HE : get_end_ix e instrs <= length instrs).
  { unfold get_end_ix. destruct e; [apply Nat.le_min_l|apply Nat.le_refl]. }
  apply go_good.
  - destruct Hb as [->|Hb]; [now left|right; lia].
  - intros s' Hs Hs2. apply fuel_good; [exact HE| |lia]. destruct Hb as [->|Hb]; [now left|right; lia].
Qed.

(* ---- refinement ---------------------------------------------------------------------------------- *)
Section Refine.
Variable E : nat.
Hypothesis HE : E <= length instrs.
Hypothesis Hbound : (Z.of_nat E < 2147483648)%Z.
Let L := firstn E (map cmd_of instrs).

Lemma L_nth line i : line < E -> nth_error instrs line = Some i -> nth_error L line = Some (cmd_of i).
Proof. intros Hl Hi. unfold L. rewrite nth_error_firstn_lt by exact Hl. now apply map_nth_error. Qed.
Lemma L_end line : E <= line -> skipn line L = [].
Proof.
  intros Hl. apply skipn_all2. unfold L. rewrite firstn_length, map_length. lia.
Qed.

Lemma loop_refines rec :
  forall n line mid e0 sk d,
    n = E - line ->
    (forall s', line < s' -> s' <= E -> rec (Some s') (Some E) = inject (scan T (skipn s' L) s' s' 0 [])) ->
    (Z.of_nat d + Z.of_nat n < 2147483648)%Z ->
    match for_range (body_ix checked T rec instrs true E) n line (mkX (mkPos mid e0) sk (Z.of_nat d)) with
    | XNext _ => XErr XEMissing
    | XRet r => r
    end = inject (scan T (skipn line L) line sk d mid).
Proof.
  induction n as [|n IH]; intros line mid e0 sk d Hn Hrec Hd; cbn [for_range].
  { rewrite L_end by lia. reflexivity. }
  assert (Hnext : forall mid' sk' d', (Z.of_nat d' + Z.of_nat n < 2147483648)%Z ->
            match for_range (body_ix checked T rec instrs true E) n (S line) (mkX (mkPos mid' e0) sk' (Z.of_nat d')) with
            | XNext _ => XErr XEMissing | XRet r => r end
            = inject (scan T (skipn (S line) L) (S line) sk' d' mid')).
  { intros mid' sk' d' Hd'. apply IH; [lia| |exact Hd']. intros s2 H2 H3. apply Hrec; lia. }
  destruct (nth_error instrs line) as [i|] eqn:Hi.
  2:{ apply nth_error_None in Hi. lia. }
  rewrite (skipn_nth_cons L line _ (L_nth line i ltac:(lia) Hi)).
  cbn [scan]. unfold body_ix at 1. cbn [x_skip x_delta x_pos p_middle p_end].
  destruct (Nat.leb_spec sk line) as [Hsk|Hsk]; destruct (Nat.ltb_spec line sk) as [Hsk'|Hsk']; try lia.
  2:{ apply Hnext. lia. }
  rewrite Hi. unfold cmd_of.
  destruct (i_type i) as [|pc pa|lb out [c|] args]; try (apply Hnext; lia).
  destruct (str_in c (sblocks T)).
  { rewrite i32_fits by lia. replace (Z.of_nat d + 1)%Z with (Z.of_nat (S d)) by lia. apply Hnext. lia. }
  destruct (str_in c (middles T)); [apply Hnext; lia|].
  destruct (str_in c (eblocks T)); cbn [andb].
  { destruct d as [|d].
    - change (0 <? Z.of_nat 0)%Z with false. change (0 <? 0) with false. cbv iota.
      destruct (str_in c (ends T)); [reflexivity|].
      destruct (str_in c (starts T)); [|apply Hnext; lia].
      rewrite Nat.add_1_r. rewrite Hrec by lia.
      pose proof (scan_not_nonames T (skipn (S line) L) (S line) (S line) 0 []) as Hnn.
      destruct (scan T (skipn (S line) L) (S line) (S line) 0 []) as [m e| | |]; cbn [inject]; try reflexivity; try congruence.
      rewrite Nat.add_1_r. apply Hnext. lia.
    - replace (0 <? Z.of_nat (S d))%Z with true by (symmetry; apply Z.ltb_lt; lia).
      change (0 <? S d) with true. cbv iota.
      rewrite i32_fits by lia. replace (Z.of_nat (S d) - 1)%Z with (Z.of_nat d) by lia.
      replace (S d - 1) with d by lia. apply Hnext. lia. }
  destruct (str_in c (ends T)); [reflexivity|].
  destruct (str_in c (starts T)); [|apply Hnext; lia].
  rewrite Nat.add_1_r. rewrite Hrec by lia.
  pose proof (scan_not_nonames T (skipn (S line) L) (S line) (S line) 0 []) as Hnn.
  destruct (scan T (skipn (S line) L) (S line) (S line) 0 []) as [m e| | |]; cbn [inject]; try reflexivity; try congruence.
  rewrite Nat.add_1_r. apply Hnext. lia.
Qed.

(* allow_recursive = false: FlowFn.scan_nr (skip_to stays at the start index) *)
Lemma loop_refines_nr rec :
  forall n line mid e0 sk d,
    n = E - line -> sk <= line ->
    (Z.of_nat d + Z.of_nat n < 2147483648)%Z ->
    match for_range (body_ix checked T rec instrs false E) n line (mkX (mkPos mid e0) sk (Z.of_nat d)) with
    | XNext _ => XErr XEMissing
    | XRet r => r
    end = inject_nr (DS.FlowFn.scan_nr T (skipn line L) line d mid).
Proof.
  induction n as [|n IH]; intros line mid e0 sk d Hn Hsk Hd; cbn [for_range].
  { rewrite L_end by lia. reflexivity. }
  assert (Hnext : forall mid' d', (Z.of_nat d' + Z.of_nat n < 2147483648)%Z ->
            match for_range (body_ix checked T rec instrs false E) n (S line) (mkX (mkPos mid' e0) sk (Z.of_nat d')) with
            | XNext _ => XErr XEMissing | XRet r => r end
            = inject_nr (DS.FlowFn.scan_nr T (skipn (S line) L) (S line) d' mid')).
  { intros mid' d' Hd'. apply IH; [lia|lia|exact Hd']. }
  destruct (nth_error instrs line) as [i|] eqn:Hi.
  2:{ apply nth_error_None in Hi. lia. }
  rewrite (skipn_nth_cons L line _ (L_nth line i ltac:(lia) Hi)).
  cbn [DS.FlowFn.scan_nr]. unfold body_ix at 1. cbn [x_skip x_delta x_pos p_middle p_end].
  destruct (Nat.leb_spec sk line) as [Hsk2|Hsk2]; [|lia].
  rewrite Hi. unfold cmd_of.
  destruct (i_type i) as [|pc pa|lb out [c|] args]; try (apply Hnext; lia).
  destruct (str_in c (sblocks T)).
  { rewrite i32_fits by lia. replace (Z.of_nat d + 1)%Z with (Z.of_nat (S d)) by lia. apply Hnext. lia. }
  destruct (str_in c (middles T)); [apply Hnext; lia|].
  destruct (str_in c (eblocks T)); cbn [andb].
  { destruct d as [|d].
    - change (0 <? Z.of_nat 0)%Z with false. change (0 <? 0) with false. cbv iota.
      destruct (str_in c (ends T)); [reflexivity|].
      destruct (str_in c (starts T)); [reflexivity|apply Hnext; lia].
    - replace (0 <? Z.of_nat (S d))%Z with true by (symmetry; apply Z.ltb_lt; lia).
      change (0 <? S d) with true. cbv iota.
      rewrite i32_fits by lia. replace (Z.of_nat (S d) - 1)%Z with (Z.of_nat d) by lia.
      replace (S d - 1) with d by lia. apply Hnext. lia. }
  destruct (str_in c (ends T)); [reflexivity|].
  destruct (str_in c (starts T)); [reflexivity|apply Hnext; lia].
Qed.

Lemma fuel_refines : forall fuel s, E - s < fuel ->
  (match starts T with [] => true | _ => false end) || (match ends T with [] => true | _ => false end) = false ->
  find_commands_fuel checked T fuel instrs true (Some s) (Some E) = inject (scan T (skipn s L) s s 0 []).
Proof.
  induction fuel as [|fuel IH]; intros s Hf Hn; [lia|].
  cbn [find_commands_fuel]. unfold go_ix. rewrite Hn. rewrite (get_end_some E HE). cbn [get_start_ix].
  unfold xinit. change 0%Z with (Z.of_nat 0).
  apply loop_refines; try reflexivity; try lia.
  intros s' Hs Hs2. apply IH; [lia|exact Hn].
Qed.
End Refine.

Lemma get_end_le e : get_end_ix e instrs <= length instrs.
Proof. unfold get_end_ix. destruct e; [apply Nat.le_min_l|apply Nat.le_refl]. Qed.

(* find_commands(.., start, end, true, ..) is the suffix scanner on the first `end_index` command names *)
Theorem find_commands_ix_refines start e :
  (Z.of_nat (length instrs) < 2147483648)%Z ->
  find_commands_ix checked T instrs true start e
  = inject (find_commands T (firstn (get_end_ix e instrs) (map cmd_of instrs)) (get_start_ix start)).
Proof.
  intros Hb. pose proof (get_end_le e) as HE.
  unfold find_commands_ix, find_commands. cbn [find_commands_fuel]. unfold go_ix.
  destruct (starts T) as [|s0 ss] eqn:Es; [reflexivity|]. destruct (ends T) as [|e0 es] eqn:Ee; [reflexivity|].
  cbn [orb]. cbv zeta. unfold xinit. change 0%Z with (Z.of_nat 0).
  apply loop_refines; try exact HE; try lia; try reflexivity.
  intros s' Hs Hs2. apply fuel_refines; try exact HE; try lia.
  rewrite Es, Ee. reflexivity.
Qed.

Theorem find_commands_ix_refines_nr start e :
  (Z.of_nat (length instrs) < 2147483648)%Z ->
  find_commands_ix checked T instrs false start e
  = inject_nr (DS.FlowFn.find_commands_nr T (firstn (get_end_ix e instrs) (map cmd_of instrs)) (get_start_ix start)).
Proof.
  intros Hb. pose proof (get_end_le e) as HE.
  unfold find_commands_ix, DS.FlowFn.find_commands_nr. cbn [find_commands_fuel]. unfold go_ix.
  destruct (starts T) as [|s0 ss]; [reflexivity|]. destruct (ends T) as [|e0 es]; [reflexivity|].
  cbn [orb]. cbv zeta. unfold xinit. change 0%Z with (Z.of_nat 0).
  apply loop_refines_nr; try exact HE; try lia; try reflexivity.
Qed.
End Proofs.

(* ---- as the flow-control commands call it: Some(line + 1), None ---------------------------------- *)
Lemma firstn_cmds instrs : firstn (get_end_ix None instrs) (map cmd_of instrs) = map cmd_of instrs.
Proof. cbn [get_end_ix]. rewrite <- (map_length cmd_of instrs). apply firstn_all. Qed.

Theorem find_commands_ix_scan checked T instrs start :
  (Z.of_nat (length instrs) < 2147483648)%Z ->
  find_commands_ix checked T instrs true (Some start) None
  = inject (find_commands T (map cmd_of instrs) start).
Proof. intros Hb. rewrite find_commands_ix_refines by exact Hb. now rewrite firstn_cmds. Qed.

Theorem find_commands_ix_scan_nr checked T instrs start :
  (Z.of_nat (length instrs) < 2147483648)%Z ->
  find_commands_ix checked T instrs false (Some start) None
  = inject_nr (DS.FlowFn.find_commands_nr T (map cmd_of instrs) start).
Proof. intros Hb. rewrite find_commands_ix_refines_nr by exact Hb. now rewrite firstn_cmds. Qed.

(* no panic, no fuel exhaustion, no Ok(None), no dead error: release profile for EVERY vector, the
   overflow-checked profile below 2^31 instructions *)
Theorem find_commands_ix_total T instrs allow start e :
  let r := find_commands_ix false T instrs allow start e in
  r <> XPanic /\ r <> XFuel /\ r <> XOk None /\ r <> XErr XENestedNoEnd.
Proof. apply good_safe. apply find_commands_ix_good. now left. Qed.

Theorem find_commands_ix_checked_total T instrs allow start e :
  (Z.of_nat (length instrs) < 2147483648)%Z ->
  let r := find_commands_ix true T instrs allow start e in
  r <> XPanic /\ r <> XFuel /\ r <> XOk None /\ r <> XErr XENestedNoEnd.
Proof. intros Hb. apply good_safe. apply find_commands_ix_good. now right. Qed.
