(* Json.v — C17: the JSON <-> nested-handle glue of `json_parse --collection` and
   `json_encode --collection` (definitions only; proofs in JsonProof.v).

   Rust functions mirrored (one Coq function each, same control structure):
     duckscript_sdk/src/sdk/std/json/parse/mod.rs   create_structure
     duckscript_sdk/src/sdk/std/json/encode/mod.rs  encode_from_state_value, encode_from_state
     duckscript_sdk/src/utils/state.rs              put_handle (+ return_handle: insert into the
                                                    "handles" sub-state)

   What is a model and what is not:
   * [json] is serde_json's already parsed [Value].  A number is carried as its [to_string] text
     (that is all the glue ever asks of it).  An object is its key/value list in the iteration
     order of serde_json's [Map] (a BTreeMap: sorted, unique keys).  serde_json's text layer
     ([from_str], [Value::to_string]) is NOT modelled; it stays an oracle of the correspondence run.
   * [sv] is the part of [StateValue] that create_structure can build: String, List, SubState.
     (The Boolean/Number arms of encode_from_state_value and its three "Unsupported value type"
     arms are unreachable from stores built by create_structure and are not modelled.)
   * A HashMap / Map is modelled by an association list with [alist_insert] = insert-or-replace;
     the list order is insertion order.  The real HashMap iteration order is arbitrary, but the
     result of the encoder is a BTreeMap, i.e. sorted again: for sorted input the model's order and
     the real order coincide (the correspondence run sends sorted keys).
   * Handles are "handle:" + 20 random alphanumerics in the code.  The model allocates
     [hname next] from a counter.  Freshness of a new handle (w.r.t. the store AND w.r.t. the string
     leaves of the document, which the encoder re-reads as handle names) is an assumption about the
     RNG; in the model it is the hypothesis [no_handle_leafb j = true]. *)
Require Import DS.Base DS.Strings.

Inductive json :=
| JNull
| JBool (b : bool)
| JNum (text : str)
| JStr (s : str)
| JArr (items : list json)
| JObj (fields : list (str * json)).

Inductive sv :=
| SStr (s : str)
| SList (items : list sv)
| SMap (fields : list (str * sv)).

(* ------------------------------------------------------------------------------------------- *)
(* association lists: HashMap::get / HashMap::insert (also serde_json::Map::insert)              *)

Section Alist.
  Context {V : Type}.
  Fixpoint alist_get (k : str) (m : list (str * V)) : option V :=
    match m with
    | [] => None
    | (k', v) :: r => if str_eqb k k' then Some v else alist_get k r
    end.
  Fixpoint alist_insert (k : str) (v : V) (m : list (str * V)) : list (str * V) :=
    match m with
    | [] => [(k, v)]
    | (k', v') :: r => if str_eqb k k' then (k, v) :: r else (k', v') :: alist_insert k v r
    end.
End Alist.

(* ------------------------------------------------------------------------------------------- *)
(* the handle store = the "handles" sub-state, plus the allocation counter that stands for the RNG *)

Record store := mkStore { next : N; cells : list (str * sv) }.

Definition empty_store : store := mkStore 0 [].

Definition handle_prefix : str := [104; 97; 110; 100; 108; 101; 58].   (* "handle:" *)
Definition hname (n : N) : str := handle_prefix ++ show_N n.

(* state.rs put_handle: key = fresh name; return_handle inserts it into the handles sub-state *)
Definition put_handle (st : store) (v : sv) : str * store :=
  let key := hname (next st) in
  (key, mkStore (N.succ (next st)) (alist_insert key v (cells st))).

(* bool::to_string *)
Definition bool_text (b : bool) : str := if b then s_true else s_false.

(* ------------------------------------------------------------------------------------------- *)
(* json/parse/mod.rs create_structure                                                            *)

(* `for item in list { if let Some(value) = create_structure(item, state) { state_list.push(String(value)) } }` *)
Definition cs_items (cs : json -> store -> option str * store)
  : list json -> store -> list sv -> list sv * store :=
  fix go l st acc :=
    match l with
    | [] => (acc, st)
    | x :: r =>
        let '(o, st1) := cs x st in
        go r st1 (match o with Some v => acc ++ [SStr v] | None => acc end)
    end.

(* `for (key, value) in map { if let Some(value) = create_structure(value, state) { state_map.insert(key, String(value)) } }` *)
Definition cs_fields (cs : json -> store -> option str * store)
  : list (str * json) -> store -> list (str * sv) -> list (str * sv) * store :=
  fix go l st acc :=
    match l with
    | [] => (acc, st)
    | (k, x) :: r =>
        let '(o, st1) := cs x st in
        go r st1 (match o with Some v => alist_insert k (SStr v) acc | None => acc end)
    end.

Fixpoint create_structure (data : json) (st : store) : option str * store :=
  match data with
  | JNull => (None, st)
  | JBool b => (Some (bool_text b), st)
  | JNum t => (Some t, st)
  | JStr s => (Some s, st)
  | JArr l =>
      let '(state_list, st1) := cs_items create_structure l st [] in
      let '(key, st2) := put_handle st1 (SList state_list) in
      (Some key, st2)
  | JObj m =>
      let '(state_map, st1) := cs_fields create_structure m st [] in
      let '(key, st2) := put_handle st1 (SMap state_map) in
      (Some key, st2)
  end.

(* ------------------------------------------------------------------------------------------- *)
(* json/encode/mod.rs encode_from_state_value, encode_from_state.
   The Rust function recurses through handle names, which is not structural: explicit fuel = bound
   on the depth of the Rust call stack; [None] = out of fuel (a cyclic store overflows the real
   stack).  JsonProof.encode_fuel_enough excludes it for stores built by create_structure. *)

Definition enc_list (ev : sv -> option json) : list sv -> option (list json) :=
  fix go l :=
    match l with
    | [] => Some []
    | x :: r =>
        match ev x with
        | Some y => match go r with Some ys => Some (y :: ys) | None => None end
        | None => None
        end
    end.

Definition enc_fields (ev : sv -> option json) : list (str * sv) -> list (str * json) -> option (list (str * json)) :=
  fix go l acc :=
    match l with
    | [] => Some acc
    | (k, x) :: r =>
        match ev x with
        | Some y => go r (alist_insert k y acc)
        | None => None
        end
    end.

Definition enc_step (ev : sv -> option json) (state : list (str * sv)) (v : sv) : option json :=
  match v with
  | SStr s =>
      match alist_get s state with
      | Some sub => ev sub
      | None => Some (JStr s)
      end
  | SList l => option_map JArr (enc_list ev l)
  | SMap m => option_map JObj (enc_fields ev m [])
  end.

Fixpoint encode_from_state_value (fuel : nat) (state : list (str * sv)) (v : sv) : option json :=
  match fuel with
  | O => None
  | S f => enc_step (encode_from_state_value f state) state v
  end.

Definition encode_from_state (fuel : nat) (state : list (str * sv)) (value : str) : option json :=
  match alist_get value state with
  | Some v => encode_from_state_value fuel state v
  | None => Some (JStr value)
  end.

(* ------------------------------------------------------------------------------------------- *)
(* the specification: the documented normalisation (scalars become strings, nulls are dropped;
   a top-level null gives no value at all) *)

Definition filter_map {A B} (f : A -> option B) : list A -> list B :=
  fix go l := match l with [] => [] | x :: r => match f x with Some y => y :: go r | None => go r end end.

Fixpoint normalise (j : json) : option json :=
  match j with
  | JNull => None
  | JBool b => Some (JStr (bool_text b))
  | JNum t => Some (JStr t)
  | JStr s => Some (JStr s)
  | JArr l => Some (JArr (filter_map normalise l))
  | JObj m => Some (JObj (filter_map (fun kv => match kv with (k, x) =>
                             match normalise x with Some y => Some (k, y) | None => None end end) m))
  end.

(* nesting depth; the encoder needs two stack frames per level (handle name -> list -> item) *)
Fixpoint depth (j : json) : nat :=
  match j with
  | JArr l => S (list_max (map depth l))
  | JObj m => S (list_max (map (fun kv => match kv with (_, x) => depth x end) m))
  | _ => O
  end.
Definition fuel_for (j : json) : nat := 2 * depth j.

(* json_parse --collection then json_encode --collection on the parsed values:
   None = out of fuel; Some None = no value (output variable unset); Some (Some v) = the document *)
Definition roundtrip (fuel : nat) (j : json) (st : store) : option (option json) :=
  let '(o, st') := create_structure j st in
  match o with
  | None => Some None
  | Some h => option_map Some (encode_from_state fuel (cells st') h)
  end.
Definition roundtrip_model (j : json) : option (option json) := roundtrip (fuel_for j) j empty_store.

(* ------------------------------------------------------------------------------------------- *)
(* the domain of the theorem, as computable predicates *)

(* s is literally one of the model's handle names *)
Fixpoint strip_prefix (p s : str) : option str :=
  match p, s with
  | [], _ => Some s
  | a :: p', b :: s' => if (a =? b)%N then strip_prefix p' s' else None
  | _ :: _, [] => None
  end.
Definition is_hnameb (s : str) : bool :=
  match strip_prefix handle_prefix s with
  | Some d => match digits_val d with Some n => str_eqb d (show_N n) | None => false end
  | None => false
  end.

(* the texts that create_structure stores as strings and the encoder re-reads as handle names *)
Fixpoint leaves (j : json) : list str :=
  match j with
  | JNull => []
  | JBool b => [bool_text b]
  | JNum t => [t]
  | JStr s => [s]
  | JArr l => flat_map leaves l
  | JObj m => flat_map (fun kv => match kv with (_, x) => leaves x end) m
  end.
Definition no_handle_leafb (j : json) : bool := forallb (fun s => negb (is_hnameb s)) (leaves j).

(* serde_json::Map invariant: the keys of an object are pairwise different *)
Fixpoint nodupb (l : list str) : bool :=
  match l with [] => true | x :: r => negb (str_in x r) && nodupb r end.
Fixpoint json_wfb (j : json) : bool :=
  match j with
  | JArr l => forallb json_wfb l
  | JObj m => nodupb (map fst m) && forallb (fun kv => match kv with (_, x) => json_wfb x end) m
  | _ => true
  end.

(* every cell of the store was allocated by put_handle (so the next name is fresh) *)
Definition store_wf (st : store) : Prop :=
  forall k v, alist_get k (cells st) = Some v -> exists n, (n < next st)%N /\ k = hname n.
(* st' has everything st has (allocation only adds cells) *)
Definition extends (st st' : store) : Prop :=
  (next st <= next st')%N /\ forall k v, alist_get k (cells st) = Some v -> alist_get k (cells st') = Some v.
Definition json_dom (j : json) : Prop := json_wfb j = true /\ no_handle_leafb j = true.
