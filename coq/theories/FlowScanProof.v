(* FlowScanProof.v — the scanner lemma of C04: from the line after an opener of the scanner's own
   kind, over any well-nested body, [find_commands] returns exactly the positions of the middle
   keywords and of the construct's own end.  The only facts used about the tables are the
   membership facts of [table_ok] (FlowTables.v), i.e. [tables_wf]. *)
Require Import DS.Base DS.FlowTables DS.FlowScan DS.Flow DS.FlowTree.
Require Import DSG.GenFlowNames.
Open Scope nat_scope.

(* ---- the facts behind [table_ok] ---------------------------------------------------------- *)
Record facts (k : ckind) : Prop := {
  f_open_own : forall o, In o (openers k) -> own_open (table_of k) o = true;
  f_close_own : forall c, In c (closers k) -> own_close (table_of k) c = true;
  f_mid : forall m, In m (n_elseif ++ n_else) ->
          (if ckind_eqb k CkIf then own_mid (table_of k) m else inert (table_of k) m) = true;
  f_open_other : forall k' o, k' <> k -> In o (openers k') -> other_open (table_of k) o = true;
  f_close_other : forall k' c, k' <> k -> In c (closers k') -> other_close (table_of k) c = true;
  f_prim : forall c, In c prim_names -> inert (table_of k) c = true;
  f_starts : starts (table_of k) <> [];
  f_ends : ends (table_of k) <> [] }.

Lemma ckind_eqb_eq a b : ckind_eqb a b = true <-> a = b.
Proof. destruct a, b; cbn; split; congruence. Qed.

Lemma table_ok_facts k : table_ok k = true -> facts k.
Proof.
  unfold table_ok. intros H.
  apply andb_prop in H; destruct H as [H Hends].
  apply andb_prop in H; destruct H as [H Hstarts].
  apply andb_prop in H; destruct H as [H Hprim].
  apply andb_prop in H; destruct H as [H Hother].
  apply andb_prop in H; destruct H as [H Hmid].
  apply andb_prop in H; destruct H as [Hopen Hclose].
  rewrite forallb_forall in Hprim, Hother, Hmid, Hopen, Hclose.
  constructor.
  - exact Hopen.
  - exact Hclose.
  - intros m Hm. specialize (Hmid m Hm). destruct (ckind_eqb k CkIf); exact Hmid.
  - intros k' o Hk Ho.
    assert (Hin : In k' all_ckinds) by (destruct k'; cbn; auto).
    specialize (Hother k' Hin).
    apply orb_prop in Hother. destruct Hother as [HX|HX].
    + apply ckind_eqb_eq in HX. congruence.
    + apply andb_prop in HX. destruct HX as [HX _]. rewrite forallb_forall in HX. auto.
  - intros k' c Hk Hc.
    assert (Hin : In k' all_ckinds) by (destruct k'; cbn; auto).
    specialize (Hother k' Hin).
    apply orb_prop in Hother. destruct Hother as [HX|HX].
    + apply ckind_eqb_eq in HX. congruence.
    + apply andb_prop in HX. destruct HX as [_ HX]. rewrite forallb_forall in HX. auto.
  - exact Hprim.
  - destruct (starts (table_of k)); [discriminate|congruence].
  - destruct (ends (table_of k)); [discriminate|congruence].
Qed.

(* ---- generic facts about [scan] ----------------------------------------------------------- *)
Section Scan.
Variable T : tables.

Lemma skip_irrel l : forall pos s1 s2 d m, s1 <= pos -> s2 <= pos ->
  scan T l pos s1 d m = scan T l pos s2 d m.
Proof.
  induction l as [|i l IH]; intros pos s1 s2 d m H1 H2; cbn [scan]; [reflexivity|].
  destruct (Nat.ltb_spec pos s1); [lia|]. destruct (Nat.ltb_spec pos s2); [lia|].
  destruct i as [c|]; [|apply IH; lia].
  repeat match goal with |- context [if ?b then _ else _] => destruct b end;
    try reflexivity; try (apply IH; lia).
Qed.

Lemma skip_ahead l1 : forall rest pos sk d m, pos + length l1 <= sk ->
  scan T (l1 ++ rest) pos sk d m = scan T rest (pos + length l1) sk d m.
Proof.
  induction l1 as [|i l1 IH]; intros rest pos sk d m H; cbn [app length scan].
  - now rewrite Nat.add_0_r.
  - cbn in H. destruct (Nat.ltb_spec pos sk); [|lia]. rewrite IH by lia. f_equal; lia.
Qed.

Lemma scan0 i l pos d m : scan T (i :: l) pos 0 d m =
  match i with
  | None => scan T l (S pos) 0 d m
  | Some c =>
    if str_in c (sblocks T) then scan T l (S pos) 0 (S d) m
    else if str_in c (middles T) then scan T l (S pos) 0 d (m ++ [pos])
    else if str_in c (eblocks T) && (0 <? d) then scan T l (S pos) 0 (d - 1) m
    else if str_in c (ends T) then SOk m pos
    else if str_in c (starts T) then
      match scan T l (S pos) (S pos) 0 [] with
      | SOk _ e => scan T l (S pos) (S e) d m
      | _ => SNested
      end
    else scan T l (S pos) 0 d m
  end.
Proof. cbn [scan]. rewrite (proj2 (Nat.ltb_ge pos 0)) by lia. reflexivity. Qed.

(* a body that the scanner walks over, collecting the middle positions [mp pos] *)
Definition walks (body : list (option str)) (mp : nat -> list nat) : Prop :=
  forall rest pos d m,
    scan T (body ++ rest) pos 0 d m = scan T rest (pos + length body) 0 d (m ++ mp pos).

Lemma inert_step c l pos d m : inert T c = true ->
  scan T (Some c :: l) pos 0 d m = scan T l (S pos) 0 d m.
Proof.
  unfold inert. intros H. repeat (apply andb_prop in H; destruct H as [H ?]).
  rewrite scan0.
  repeat match goal with X : negb _ = true |- _ => apply negb_true_iff in X; rewrite X end.
  reflexivity.
Qed.

(* the recursive call issued at an own-kind opener finds the construct's own end *)
Lemma own_end c body mp rest pos :
  own_close T c = true -> walks body mp ->
  scan T (body ++ Some c :: rest) pos pos 0 [] = SOk (mp pos) (pos + length body).
Proof.
  unfold own_close. intros Hc Hb. repeat (apply andb_prop in Hc; destruct Hc as [Hc ?]).
  apply negb_true_iff in Hc. match goal with X : negb _ = true |- _ => apply negb_true_iff in X; rename X into Hc2 end.
  rewrite (skip_irrel _ _ pos 0) by lia. rewrite Hb. rewrite scan0. rewrite Hc, Hc2.
  cbn [Nat.ltb Nat.leb]. rewrite andb_false_r.
  match goal with X : str_in c (ends T) = true |- _ => rewrite X end. reflexivity.
Qed.

Lemma own_construct o c body mp :
  own_open T o = true -> own_close T c = true -> walks body mp ->
  walks (Some o :: body ++ [Some c]) (fun _ => []).
Proof.
  intros Ho Hc Hb rest pos d m.
  pose proof (own_end c body mp rest (S pos) Hc Hb) as Hrec.
  unfold own_open in Ho. repeat (apply andb_prop in Ho; destruct Ho as [Ho ?]).
  repeat match goal with X : negb _ = true |- _ => apply negb_true_iff in X end.
  cbn [app]. rewrite scan0.
  repeat match goal with X : str_in o _ = _ |- _ => rewrite X end. cbn [andb].
  rewrite <- app_assoc. cbn [app]. rewrite Hrec.
  replace (body ++ Some c :: rest) with ((body ++ [Some c]) ++ rest) by (rewrite <- app_assoc; reflexivity).
  rewrite skip_ahead by (rewrite app_length; cbn [length]; lia).
  rewrite (skip_irrel _ _ _ 0) by (rewrite app_length; cbn [length]; lia).
  rewrite app_nil_r. f_equal. cbn [length]. rewrite app_length. cbn [length]. lia.
Qed.

Lemma other_construct o c body :
  other_open T o = true -> other_close T c = true -> walks body (fun _ => []) ->
  walks (Some o :: body ++ [Some c]) (fun _ => []).
Proof.
  intros Ho Hc Hb rest pos d m.
  unfold other_open in Ho. unfold other_close in Hc.
  repeat (apply andb_prop in Hc; destruct Hc as [Hc ?]).
  repeat match goal with X : negb _ = true |- _ => apply negb_true_iff in X end.
  cbn [app]. rewrite scan0, Ho. rewrite <- app_assoc. rewrite Hb. rewrite app_nil_r. cbn [app].
  rewrite scan0.
  repeat match goal with X : str_in c _ = _ |- _ => rewrite X end.
  change (0 <? S d) with true. cbn [andb]. replace (S d - 1) with d by lia. rewrite ?app_nil_r.
  f_equal. cbn [length]. rewrite app_length. cbn [length]. lia.
Qed.

Lemma walks_nil : walks [] (fun _ => []).
Proof. intros rest pos d m. cbn. now rewrite Nat.add_0_r, app_nil_r. Qed.

Lemma walks_app b1 b2 mp1 mp2 : walks b1 mp1 -> walks b2 mp2 ->
  walks (b1 ++ b2) (fun pos => mp1 pos ++ mp2 (pos + length b1)).
Proof.
  intros H1 H2 rest pos d m. rewrite <- app_assoc, H1, H2. rewrite app_length, <- app_assoc.
  f_equal. lia.
Qed.

Lemma walks_ext b mp mp' : (forall p, mp p = mp' p) -> walks b mp -> walks b mp'.
Proof. intros E H rest pos d m. rewrite H, E. reflexivity. Qed.

Lemma walks_inert c : inert T c = true -> walks [Some c] (fun _ => []).
Proof.
  intros H rest pos d m. cbn [app]. rewrite inert_step by exact H. rewrite app_nil_r.
  f_equal. cbn. lia.
Qed.

Lemma walks_none : walks [None] (fun _ => []).
Proof.
  intros rest pos d m. cbn [app]. rewrite scan0. rewrite app_nil_r. f_equal. cbn. lia.
Qed.

Lemma walks_mid c : own_mid T c = true -> walks [Some c] (fun pos => [pos]).
Proof.
  unfold own_mid. intros H. apply andb_prop in H. destruct H as [H1 H2]. apply negb_true_iff in H1.
  intros rest pos d m. cbn [app]. rewrite scan0, H1, H2. f_equal. cbn. lia.
Qed.
End Scan.

(* ---- the compiled syntax is walked over by every scanner --------------------------------- *)
Fixpoint mid_pos (els : elses) (pos : nat) : list nat :=
  match els with
  | ENil => []
  | EElseIf _ _ b r => pos :: mid_pos r (S pos + length (cb b))
  | EElse _ _ => [pos]
  end.
Definition mids (k : ckind) (els : elses) (pos : nat) : list nat :=
  if ckind_eqb k CkIf then mid_pos els pos else [].

Lemma cmds_app a b : cmds (a ++ b) = cmds a ++ cmds b.
Proof. apply map_app. Qed.
Lemma cmds_length a : length (cmds a) = length a.
Proof. apply map_length. Qed.

Lemma prim_cmd_names p c : prim_cmd p = Some c -> In c prim_names.
Proof. destruct p; cbn; intros E; inversion E; subst; auto 6. Qed.

Section Syntax.
Variable k : ckind.
Hypothesis F : facts k.
Let T := table_of k.

Lemma ckind_dec (a b : ckind) : {a = b} + {a <> b}.
Proof. decide equality. Qed.

(* a construct of kind [k'] around a walked body *)
Lemma construct_walks k' o c body mp :
  In o (openers k') -> In c (closers k') -> walks T body mp ->
  (k' <> k -> forall p, mp p = []) ->
  walks T (Some o :: body ++ [Some c]) (fun _ => []).
Proof.
  intros Ho Hc Hb Hmp. destruct (ckind_dec k' k) as [->|Hne].
  - eapply own_construct; eauto using f_open_own, f_close_own.
  - apply other_construct; eauto using f_open_other, f_close_other.
    eapply walks_ext; [|exact Hb]. intros p. cbn. now apply Hmp.
Qed.

Lemma scan_syntax :
  (forall s, wfs s -> walks T (cmds (cs s)) (fun _ => [])) /\
  (forall b, wfb b -> walks T (cmds (cb b)) (fun _ => [])) /\
  (forall els, wfe els -> walks T (cmds (ce els)) (mids k els)).
Proof.
  apply syntax_ind.
  - (* SCmd *) intros p _. cbn [cs cmds map i_cmd]. destruct (prim_cmd p) as [c|] eqn:E.
    + apply walks_inert. apply (f_prim k F). eapply prim_cmd_names; eauto.
    + apply walks_none.
  - (* SIf *) intros sp c b IHb els IHe e (Ho & Hc & Hwb & Hwe).
    cbn [cs]. unfold cmds in *. cbn [map i_cmd kw]. rewrite !map_app. cbn [map i_cmd kw].
    rewrite app_assoc.
    eapply (construct_walks CkIf); eauto.
    + apply walks_app; [apply IHb; auto|apply IHe; auto].
    + intros Hne p. cbn. unfold mids. destruct k; cbn; congruence.
  - (* SWhile *) intros sp c b IHb e (Ho & Hc & Hwb).
    cbn [cs]. unfold cmds in *. cbn [map i_cmd kw]. rewrite !map_app. cbn [map i_cmd kw].
    eapply (construct_walks CkWhile); eauto.
  - (* SFor *) intros sp x hv b IHb e (Ho & Hc & Hwb).
    cbn [cs]. unfold cmds in *. cbn [map i_cmd kw]. rewrite !map_app. cbn [map i_cmd kw].
    eapply (construct_walks CkFor); eauto.
  - (* BNil *) intros _. apply walks_nil.
  - (* BCons *) intros s IHs b IHb (Hs & Hb). cbn [cb]. rewrite cmds_app.
    eapply walks_ext; [|apply walks_app; [apply IHs; auto|apply IHb; auto]]. reflexivity.
  - (* ENil *) intros _. cbn [ce]. eapply walks_ext; [|apply walks_nil].
    intros p. unfold mids. destruct (ckind_eqb k CkIf); reflexivity.
  - (* EElseIf *) intros sp c b IHb r IHr (Hm & Hwb & Hwr).
    cbn [ce]. unfold cmds in *. cbn [map i_cmd kw]. rewrite !map_app.
    change (Some sp :: map i_cmd (cb b) ++ map i_cmd (ce r))
      with ([Some sp] ++ (map i_cmd (cb b) ++ map i_cmd (ce r))).
    pose proof (f_mid k F sp (in_or_app _ _ _ (or_introl Hm))) as Hmid.
    unfold mids in *. destruct (ckind_eqb k CkIf) eqn:Ek.
    + eapply walks_ext; [|apply walks_app; [apply walks_mid; exact Hmid|
                                            apply walks_app; [apply IHb; auto|apply IHr; auto]]].
      intros p. cbn [app mid_pos length]. rewrite map_length. do 2 f_equal. lia.
    + eapply walks_ext; [|apply walks_app; [apply walks_inert; exact Hmid|
                                            apply walks_app; [apply IHb; auto|apply IHr; auto]]].
      reflexivity.
  - (* EElse *) intros sp b IHb (Hm & Hwb).
    cbn [ce]. unfold cmds in *. cbn [map i_cmd kw].
    change (Some sp :: map i_cmd (cb b)) with ([Some sp] ++ map i_cmd (cb b)).
    pose proof (f_mid k F sp (in_or_app _ _ _ (or_intror Hm))) as Hmid.
    unfold mids in *. destruct (ckind_eqb k CkIf) eqn:Ek.
    + eapply walks_ext; [|apply walks_app; [apply walks_mid; exact Hmid|apply IHb; auto]].
      intros p. reflexivity.
    + eapply walks_ext; [|apply walks_app; [apply walks_inert; exact Hmid|apply IHb; auto]].
      reflexivity.
Qed.

(* from the line after an own-kind opener, over a well-nested body (and else-chain), the scan
   returns the middle positions and the end position *)
Theorem find_own_end pre b els c rest :
  wfb b -> wfe els -> In c (closers k) ->
  find_commands T (pre ++ cmds (cb b) ++ cmds (ce els) ++ Some c :: rest) (length pre)
  = SOk (mids k els (length pre + length (cb b)))
        (length pre + length (cb b) + length (ce els)).
Proof.
  intros Hb He Hc. unfold find_commands.
  pose proof (f_starts k F) as Hs. pose proof (f_ends k F) as Hen. fold T in Hs, Hen.
  destruct (starts T) as [|s0 ss]; [congruence|]. destruct (ends T) as [|e0 es]; [congruence|].
  replace (skipn (length pre) (pre ++ cmds (cb b) ++ cmds (ce els) ++ Some c :: rest))
    with ((cmds (cb b) ++ cmds (ce els)) ++ Some c :: rest).
  2:{ rewrite skipn_app, skipn_all, Nat.sub_diag. cbn [skipn app]. now rewrite <- app_assoc. }
  destruct scan_syntax as (_ & Hwb & Hwe).
  rewrite (own_end T c _ _ rest (length pre) (f_close_own k F c Hc)
             (walks_app T _ _ _ _ (Hwb b Hb) (Hwe els He))).
  cbn [app]. rewrite app_length, !cmds_length. f_equal. lia.
Qed.
End Syntax.
