(* ExpansionGenTie.v — the hand-written model of duckscript/src/expansion.rs (Expansion.expand_by_wrapper with
   should_break_key, push_prefix, the loop body xstep and the code after the loop) is EQUAL, for every value
   and every variable environment, to the mechanical translation of the CURRENT Rust source
   (coq/generated/GenExpandFn.v, rewritten on every run by lib/rs2v.py).  Stated under
   [gen_expand_understood = true] (see ParserGenTie.v). *)
Require Import DS.Base DS.Parser DS.Expansion DS.Rs2vLib.
Require Import DSG.GenExpandFn.

Lemma gen_should_break_key_eq : gen_expand_understood = true ->
  forall c, gen_should_break_key c = should_break_key c.
Proof.
  unfold gen_expand_understood; intros U; try discriminate U. all: clear U.
  all: intros c. all: unfold gen_should_break_key, should_break_key. all: tree_eq.
Qed.

Lemma gen_push_prefix_eq : gen_expand_understood = true ->
  forall b s f, gen_push_prefix b s f = push_prefix b s f.
Proof.
  unfold gen_expand_understood; intros U; try discriminate U. all: clear U.
  all: intros b s f. all: unfold gen_push_prefix, push_prefix. all: destruct s, f; reflexivity.
Qed.

Lemma gen_x_body_eq : gen_expand_understood = true ->
  forall variables s c, gen_x_body variables s c = xstep variables s c.
Proof.
  intros U variables s c.
  pose proof (gen_should_break_key_eq U c) as K.
  pose proof (gen_push_prefix_eq U) as PP. revert U.
  unfold gen_expand_understood; intros U; try discriminate U. all: clear U.
  all: unfold gen_x_body, xstep, flush_prefix. all: rewrite K. all: clear K.
  all: destruct s as [v p f k fo si]; cbn.
  all: rewrite ?PP.
  all: destruct (should_break_key c) eqn:SB; destruct f, fo; cbn;
    destruct (variables k); destruct (N.eqb_spec p 0); try subst p; cbn; tree_eq.
Qed.

Theorem gen_expand_by_wrapper_eq : gen_expand_understood = true ->
  forall value variables, gen_expand_by_wrapper value variables = expand_by_wrapper value variables.
Proof.
  intros U value variables.
  pose proof (gen_x_body_eq U variables) as B.
  pose proof (gen_push_prefix_eq U) as PP. revert U.
  unfold gen_expand_understood; intros U; try discriminate U. all: clear U.
  all: unfold gen_expand_by_wrapper, expand_by_wrapper, xscan, xinit.
  all: rewrite (fold_left_ext _ _ B).
  all: destruct (fold_left (xstep variables) value _) as [v p f k fo si].
  all: unfold xfinish, spread_of, is_nil; cbn. all: rewrite ?PP. all: unfold push_prefix.
  all: tree_eq.
Qed.
