(* FlowTree.v — the specification side of C04: structured programs, their compilation to
   instruction lists (= the script text, one instruction per line) and a fuelled tree-walking
   interpreter.  Definitions only.

   Every keyword carries its spelling (any alias or the full command name; the generic [end] or the
   block-specific end command); [wf_*] says that the spelling is drawn from the regenerated
   tables. *)
Require Import DS.Base DS.FlowTables DS.Flow.
Require Import DSG.GenFlowNames.

Inductive stmt :=
| SCmd (p : prim)
| SIf (sp : str) (c : cond) (b : block) (els : elses) (e : str)
| SWhile (sp : str) (c : cond) (b : block) (e : str)
| SFor (sp : str) (x hv : str) (b : block) (e : str)
with block := BNil | BCons (s : stmt) (b : block)
with elses :=
| ENil
| EElseIf (sp : str) (c : cond) (b : block) (r : elses)
| EElse (sp : str) (b : block).
Scheme stmt_ind3 := Induction for stmt Sort Prop
  with block_ind3 := Induction for block Sort Prop
  with elses_ind3 := Induction for elses Sort Prop.
Combined Scheme syntax_ind from stmt_ind3, block_ind3, elses_ind3.

(* ---- compilation ------------------------------------------------------------------------- *)
Definition kw (sp : str) (a : iarg) : instr := mkI (Some sp) a.
Fixpoint cs (s : stmt) : list instr :=
  match s with
  | SCmd p => [mkI (prim_cmd p) (APrim p)]
  | SIf sp c b els e => kw sp (ACond c) :: cb b ++ ce els ++ [kw e ANone]
  | SWhile sp c b e => kw sp (ACond c) :: cb b ++ [kw e ANone]
  | SFor sp x hv b e => kw sp (AFor x hv) :: cb b ++ [kw e ANone]
  end
with cb (b : block) : list instr :=
  match b with BNil => [] | BCons s b' => cs s ++ cb b' end
with ce (els : elses) : list instr :=
  match els with
  | ENil => []
  | EElseIf sp c b r => kw sp (ACond c) :: cb b ++ ce r
  | EElse sp b => kw sp ANone :: cb b
  end.
Definition compile (b : block) : list instr := cb b.

(* ---- well-formedness: spellings come from the tables -------------------------------------- *)
Fixpoint wfs (s : stmt) : Prop :=
  match s with
  | SCmd _ => True
  | SIf sp _ b els e => In sp (openers CkIf) /\ In e (closers CkIf) /\ wfb b /\ wfe els
  | SWhile sp _ b e => In sp (openers CkWhile) /\ In e (closers CkWhile) /\ wfb b
  | SFor sp _ _ b e => In sp (openers CkFor) /\ In e (closers CkFor) /\ wfb b
  end
with wfb (b : block) : Prop :=
  match b with BNil => True | BCons s b' => wfs s /\ wfb b' end
with wfe (els : elses) : Prop :=
  match els with
  | ENil => True
  | EElseIf sp _ b r => In sp n_elseif /\ wfb b /\ wfe r
  | EElse sp b => In sp n_else /\ wfb b
  end.

(* boolean version, used by the driver to decide whether a generated program is in the domain *)
Fixpoint wfs_b (s : stmt) : bool :=
  match s with
  | SCmd _ => true
  | SIf sp _ b els e => str_in sp (openers CkIf) && str_in e (closers CkIf) && wfb_b b && wfe_b els
  | SWhile sp _ b e => str_in sp (openers CkWhile) && str_in e (closers CkWhile) && wfb_b b
  | SFor sp _ _ b e => str_in sp (openers CkFor) && str_in e (closers CkFor) && wfb_b b
  end
with wfb_b (b : block) : bool :=
  match b with BNil => true | BCons s b' => wfs_b s && wfb_b b' end
with wfe_b (els : elses) : bool :=
  match els with
  | ENil => true
  | EElseIf sp _ b r => str_in sp n_elseif && wfb_b b && wfe_b r
  | EElse sp b => str_in sp n_else && wfb_b b
  end.

(* ---- the tree-walking interpreter ----------------------------------------------------------- *)
Inductive tres := TOk (w : world) | TErr | TFuel.

(* one fuel unit per call; [tfor] re-reads the handle variable and the array at every iteration *)
Fixpoint ts (n : nat) (s : stmt) (w : world) {struct n} : tres :=
  match n with
  | O => TFuel
  | S n' =>
    match s with
    | SCmd p => match exec_prim p w with Some w' => TOk w' | None => TErr end
    | SIf _ c b els _ =>
        let (v, w1) := eval_cond c w in
        if v then tb n' b w1 else te n' els w1
    | SWhile _ c b _ =>
        let (v, w1) := eval_cond c w in
        if v then match tb n' b w1 with TOk w2 => ts n' s w2 | r => r end
        else TOk w1
    | SFor _ x hv b _ => tfor n' x hv b 0 w
    end
  end
with tb (n : nat) (b : block) (w : world) {struct n} : tres :=
  match n with
  | O => TFuel
  | S n' =>
    match b with
    | BNil => TOk w
    | BCons s b' => match ts n' s w with TOk w1 => tb n' b' w1 | r => r end
    end
  end
with te (n : nat) (els : elses) (w : world) {struct n} : tres :=
  match n with
  | O => TFuel
  | S n' =>
    match els with
    | ENil => TOk w
    | EElseIf _ c b r =>
        let (v, w1) := eval_cond c w in
        if v then tb n' b w1 else te n' r w1
    | EElse _ b => tb n' b w
    end
  end
with tfor (n : nat) (x hv : str) (b : block) (i : nat) (w : world) {struct n} : tres :=
  match n with
  | O => TFuel
  | S n' =>
    match get_next_iteration i (vval hv w) w with
    | None => TOk w
    | Some v => match tb n' b (vset x v w) with
                | TOk w2 => tfor n' x hv b (S i) w2
                | r => r
                end
    end
  end.
Definition tree_run (n : nat) (b : block) (w : world) : tres := tb n b w.

(* ---- rendering of an instruction as script tokens (output variable, command, arguments) ---- *)
Definition s_next : str := [110;101;120;116].   (* next *)
Definition s_not : str := [110;111;116].        (* not *)
Definition s_in : str := [105;110].             (* in *)
Definition var_ref (v : str) : str := [36;123] ++ v ++ [125].   (* ${v} *)
Fixpoint cond_tokens (c : cond) : list str :=
  match c with
  | CNext n => [s_next; n]
  | CVar n => [var_ref n]
  | CNot c' => s_not :: cond_tokens c'
  end.
Definition render (i : instr) : option str * option str * list str :=
  match i_arg i with
  | ACond c => (None, i_cmd i, cond_tokens c)
  | AFor x hv => (None, i_cmd i, [x; s_in; var_ref hv])
  | ANone => (None, i_cmd i, [])
  | APrim p =>
    match p with
    | PEmit tag vs => (None, i_cmd i, tag :: map var_ref vs)
    | PSet x v => (Some x, i_cmd i, [v])
    | PCopy x y => (Some x, i_cmd i, [var_ref y])
    | PArr h elems => (Some h, i_cmd i, elems)
    | PPush hv v => (None, i_cmd i, [var_ref hv; v])
    | PNop => (None, i_cmd i, [])
    end
  end.
