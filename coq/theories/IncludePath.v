(* IncludePath.v — lexical model of the path computation of
   preprocessor/include_files_preprocessor.rs (lines 20-43), definitions only (proofs: IncludePathProof.v).

       let path_buffer = PathBuf::from(&value);            // value = meta_info.source
       match path_buffer.parent() {
           Some(path) => { let mut b = path.to_path_buf(); b.push(argument);
                           match b.canonicalize() { Ok(c) => c, _ => b }.to_string_lossy() }
           _ => argument }

   [parent] and [push] are std::path::Path::parent and PathBuf::push for Unix paths (no prefixes,
   separator '/'), written after library/std/src/path.rs, one Coq function per Rust function:
       Components::{include_cur_dir, len_before_body, parse_single_component,
                    parse_next_component_back, trim_right, next_back, as_path}, Path::parent,
       PathBuf::_push.
   Paths are Rust [String]s here (meta_info.source and the argument are Strings), so bytes and code
   points agree on everything the code inspects ('/' and '.'), and to_string_lossy is the identity on
   the joined path.  The two loops (next_back, trim_right) get fuel; IncludePathProof.parent_total
   shows that the fuel handed out by [parent] is never exhausted.

   What stays a parameter: [canon], std::fs::canonicalize followed by to_string_lossy (None when the
   OS call fails: a missing component, a file used as a directory, a symlink loop).  It needs the
   directory tree, the current directory and the symbolic links. *)
Require Import DS.Base DS.Parser DS.Include.
Local Open Scope nat_scope.

Definition c_slash : char := 47%N.
Definition c_dot : char := 46%N.
Definition is_sep (c : char) : bool := (c =? c_slash)%N.

(* ---- Components, as far as Path::parent uses it: the front never moves (State::Prefix), the back
   is Body, StartDir or Done (cfg: HAS_PREFIXES = false) -------------------------------------------- *)
Inductive bstate := BBody | BStartDir | BDone.
Record comps := Comps {
  cp_path : str;        (* the slice still to be iterated *)
  cp_root : bool;       (* has_physical_root of the ORIGINAL path *)
  cp_back : bstate
}.
Inductive component := CRootDir | CCurDir | CParentDir | CNormal (s : str).

(* has_physical_root (unix): the path starts with a separator; also Path::is_absolute / has_root *)
Definition has_physical_root (s : str) : bool :=
  match s with c :: _ => is_sep c | [] => false end.

(* Path::components *)
Definition components (s : str) : comps := Comps s (has_physical_root s) BBody.

(* "Should the normalized path include a leading . ?" *)
Definition include_cur_dir (c : comps) : bool :=
  if cp_root c then false
  else match cp_path c with
       | [a] => (a =? c_dot)%N
       | a :: b :: _ => (a =? c_dot)%N && is_sep b
       | [] => false
       end.

(* front <= StartDir always holds here *)
Definition len_before_body (c : comps) : nat :=
  (if cp_root c then 1 else 0) + (if include_cur_dir c then 1 else 0).

Definition s_dot : str := [c_dot].
Definition s_dotdot : str := [c_dot; c_dot].

Definition parse_single_component (comp : str) : option component :=
  if str_eqb comp s_dot then None          (* "." is normalised away (not verbatim) *)
  else if str_eqb comp s_dotdot then Some CParentDir
  else match comp with [] => None | _ => Some (CNormal comp) end.

(* `slice.iter().rposition(is_sep)`: (a separator was found, the part after the last one) *)
Fixpoint last_comp (l : str) : bool * str :=
  match l with
  | [] => (false, [])
  | c :: r =>
    let '(found, comp) := last_comp r in
    if found then (true, comp) else if is_sep c then (true, r) else (false, c :: r)
  end.

(* (bytes to remove, component) *)
Definition parse_next_component_back (c : comps) : nat * option component :=
  let '(found, comp) := last_comp (skipn (len_before_body c) (cp_path c)) in
  (length comp + (if found then 1 else 0), parse_single_component comp).

(* self.path = &self.path[..self.path.len() - size] *)
Definition truncate (c : comps) (size : nat) : comps :=
  Comps (firstn (length (cp_path c) - size) (cp_path c)) (cp_root c) (cp_back c).
Definition set_back (c : comps) (b : bstate) : comps := Comps (cp_path c) (cp_root c) b.

(* trim_right: "trim away repeated separators (i.e., empty components) on the right"; None = out of fuel *)
Fixpoint trim_right (fuel : nat) (c : comps) : option comps :=
  match fuel with
  | O => None
  | S f =>
    if len_before_body c <? length (cp_path c) then
      let '(size, comp) := parse_next_component_back c in
      match comp with
      | Some _ => Some c
      | None => trim_right f (truncate c size)
      end
    else Some c
  end.

(* DoubleEndedIterator::next_back; None = out of fuel, Some (None, _) = the iterator is finished *)
Fixpoint next_back (fuel : nat) (c : comps) : option (option component * comps) :=
  match fuel with
  | O => None
  | S f =>
    match cp_back c with
    | BDone => Some (None, c)
    | BBody =>
      if len_before_body c <? length (cp_path c) then
        let '(size, comp) := parse_next_component_back c in
        let c' := truncate c size in
        match comp with
        | Some x => Some (Some x, c')
        | None => next_back f c'
        end
      else next_back f (set_back c BStartDir)
    | BStartDir =>
      let c' := set_back c BDone in
      if cp_root c then Some (Some CRootDir, truncate c' 1)
      else if include_cur_dir c then Some (Some CCurDir, truncate c' 1)
      else next_back f c'
    end
  end.

(* Components::as_path (front is not Body: no trim_left) *)
Definition as_path (fuel : nat) (c : comps) : option str :=
  match cp_back c with
  | BBody => match trim_right fuel c with Some c' => Some (cp_path c') | None => None end
  | _ => Some (cp_path c)
  end.

Inductive popt := PSome (p : str) | PNone | PFuel.

Definition path_fuel (s : str) : nat := S (S (S (length s))).

(* Path::parent *)
Definition parent (s : str) : popt :=
  match next_back (path_fuel s) (components s) with
  | None => PFuel
  | Some (Some (CNormal _), c) | Some (Some CCurDir, c) | Some (Some CParentDir, c) =>
    match as_path (path_fuel s) c with Some p => PSome p | None => PFuel end
  | Some (_, _) => PNone
  end.

(* PathBuf::_push (unix: no prefix, so `path.is_absolute()` is has_physical_root) *)
Definition push (buf a : str) : str :=
  let need_sep := match last (map Some buf) None with Some c => negb (is_sep c) | None => false end in
  if has_physical_root a then a
  else if need_sep then buf ++ c_slash :: a
  else buf ++ a.

(* the path string before canonicalisation; the argument itself when the source has no parent *)
Definition lex_join (value a : str) : str :=
  match parent value with
  | PSome d => push d a
  | _ => a
  end.

Section Resolve.
Variable canon : path -> option path.

Definition or_canon (p : path) : path := match canon p with Some c => c | None => p end.

(* the instance of Include.v's [resolve]: only called for a source that is Some *)
Definition resolve (src : option path) (a : str) : path :=
  match src with
  | None => a
  | Some value =>
    match parent value with
    | PSome d => or_canon (push d a)
    | _ => a
    end
  end.
End Resolve.

(* ---- vocabulary of the theorems ---------------------------------------------------------------- *)
(* a file name: one Normal or ParentDir component *)
Definition plain (f : str) : bool :=
  match f with [] => false | _ => forallb (fun c => negb (is_sep c)) f && negb (str_eqb f s_dot) end.

(* what Path::parent leaves of the directory part: trailing separators and "/." components go *)
Definition trim_dir (d : str) : str :=
  match trim_right (S (length d)) (components d) with Some c => cp_path c | None => d end.

(* the directory part ends with a component that is kept (or has none at all: "/", ".") *)
Definition clean_dir (d : str) : bool :=
  let c := components d in
  if len_before_body c <? length d then
    match snd (parse_next_component_back c) with Some _ => true | None => false end
  else true.
