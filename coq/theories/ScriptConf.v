(* ScriptConf.v — C19: a decidable syntactic confinement check for script-implemented commands
   (definitions only).  A script is confined to its scope prefix when every output variable and
   every for-in loop variable it writes begins with "scope::<scope name>::", and every command it
   invokes is (a) a flow keyword, (b) a command of the table [pure_cmds] — native commands whose
   only effect on variables is through their own output variable (this table is an assertion about
   the native commands; the correspondence run checks it against the real commands on every run) —
   (c) another script-implemented command, or (d) set_by_name in the one script documented to
   write caller variables (unset).  Conditions of if / elif / while / not start with a variable
   reference or with such a command. *)
Require Import DS.Base DS.Parser.
Require DSG.GenScripts.

Fixpoint starts_with (p s : str) : bool :=
  match p, s with
  | [], _ => true
  | a :: p', b :: s' => (a =? b) && starts_with p' s'
  | _ :: _, [] => false
  end.

Definition s_scope : str := [115;99;111;112;101;58;58].   (* "scope::" *)
Definition s_sep : str := [58;58].   (* "::" *)
Definition scope_prefix (scope : str) : str := s_scope ++ scope ++ s_sep.

Definition pure_cmds : list str :=
  [[115;101;116] (* set *);
   [101;113;117;97;108;115] (* equals *);
   [101;113] (* eq *);
   [110;111;116] (* not *);
   [105;115;95;97;114;114;97;121] (* is_array *);
   [105;115;95;109;97;112] (* is_map *);
   [105;115;95;115;101;116] (* is_set *);
   [116;114;105;103;103;101;114;95;101;114;114;111;114] (* trigger_error *);
   [97;114;114;97;121] (* array *);
   [97;114;114;97;121;95;112;117;115;104] (* array_push *);
   [97;114;114;97;121;95;97;100;100] (* array_add *);
   [97;114;114;97;121;95;112;117;116] (* array_put *);
   [97;114;114;97;121;95;108;101;110;103;116;104] (* array_length *);
   [97;114;114;97;121;95;115;105;122;101] (* array_size *);
   [97;114;114;108;101;110] (* arrlen *);
   [97;114;114;97;121;95;112;111;112] (* array_pop *);
   [99;97;108;99] (* calc *);
   [105;115;95;101;109;112;116;121] (* is_empty *);
   [115;116;114;108;101;110] (* strlen *);
   [108;101;110;103;116;104] (* length *);
   [115;117;98;115;116;114;105;110;103] (* substring *);
   [109;97;112;95;103;101;116] (* map_get *);
   [109;97;112;95;115;105;122;101] (* map_size *);
   [109;97;112;95;107;101;121;115] (* map_keys *);
   [105;115;95;100;101;102;105;110;101;100] (* is_defined *);
   [114;101;108;101;97;115;101] (* release *);
   [115;101;116;95;110;101;119] (* set_new *);
   [115;101;116;95;112;117;116] (* set_put *);
   [115;101;116;95;97;100;100] (* set_add *);
   [115;101;116;95;115;105;122;101] (* set_size *);
   [111;115;95;102;97;109;105;108;121] (* os_family *);
   [111;115;95;110;97;109;101] (* os_name *);
   [111;115;95;114;101;108;101;97;115;101] (* os_release *);
   [111;115;95;118;101;114;115;105;111;110] (* os_version *);
   [101;110;118;95;116;111;95;109;97;112] (* env_to_map *);
   [109;97;112;95;116;111;95;112;114;111;112;101;114;116;105;101;115] (* map_to_properties *);
   [101;99;104;111] (* echo *);
   [99;111;110;116;97;105;110;115] (* contains *);
   [115;116;97;114;116;115;95;119;105;116;104] (* starts_with *);
   [101;110;100;115;95;119;105;116;104] (* ends_with *);
   [103;108;111;98;95;97;114;114;97;121] (* glob_array *);
   [103;108;111;98;97;114;114;97;121] (* globarray *);
   [100;105;114;110;97;109;101] (* dirname *);
   [98;97;115;101;110;97;109;101] (* basename *);
   [105;115;95;102;105;108;101] (* is_file *);
   [105;115;95;100;105;114] (* is_dir *);
   [99;112] (* cp *);
   [100;105;103;101;115;116] (* digest *);
   [108;111;119;101;114;99;97;115;101] (* lowercase *);
   [117;112;112;101;114;99;97;115;101] (* uppercase *);
   [114;101;112;108;97;99;101] (* replace *);
   [98;97;115;101;54;52;95;101;110;99;111;100;101] (* base64_encode *);
   [98;97;115;101;54;52;95;100;101;99;111;100;101] (* base64_decode *);
   [99;104;109;111;100] (* chmod *);
   [104;116;116;112;95;99;108;105;101;110;116] (* http_client *)].
Definition flow_cmds : list str :=
  [[105;102] (* if *);
   [101;108;105;102] (* elif *);
   [101;108;115;101;105;102] (* elseif *);
   [101;108;115;101] (* else *);
   [101;110;100] (* end *);
   [101;110;100;95;105;102] (* end_if *);
   [101;110;100;105;102] (* endif *);
   [102;105] (* fi *);
   [119;104;105;108;101] (* while *);
   [101;110;100;95;119;104;105;108;101] (* end_while *);
   [101;110;100;119;104;105;108;101] (* endwhile *);
   [101;110;100;95;102;111;114] (* end_for *)].
Definition cond_cmds : list str :=
  [[105;102] (* if *);
   [101;108;105;102] (* elif *);
   [101;108;115;101;105;102] (* elseif *);
   [119;104;105;108;101] (* while *);
   [110;111;116] (* not *)].
Definition s_for : str := [102;111;114].
Definition s_not : str := [110;111;116].
Definition s_set_by_name : str := [115;101;116;95;98;121;95;110;97;109;101].
Definition s_unset_scope : str := [117;110;115;101;116].   (* the scope name of the one script allowed to use set_by_name *)

Definition script_aliases : list str := flat_map DSG.GenScripts.sc_aliases DSG.GenScripts.gen_scripts.

Definition cmd_ok (scope : str) (c : str) : bool :=
  str_in c pure_cmds || str_in c flow_cmds || str_in c script_aliases ||
  (str_eqb c s_set_by_name && str_eqb scope s_unset_scope).

(* a condition: leading `not`s, then a variable reference / literal that is not a command we
   reject, or an allowed command *)
Fixpoint cond_ok (scope : str) (args : list str) : bool :=
  match args with
  | [] => true
  | a :: r =>
    if str_eqb a s_not then cond_ok scope r
    else match a with
         | 36 :: _ => true                         (* starts with '$': a value *)
         | _ => cmd_ok scope a
         end
  end.

Definition instr_ok (scope : str) (t : itype) : bool :=
  match t with
  | IEmpty => true
  | IPre _ _ => false
  | IScript _ out cmd args =>
    (match out with Some o => starts_with (scope_prefix scope) o | None => true end) &&
    (match cmd with
     | None => true
     | Some c =>
       let a := match args with Some l => l | None => [] end in
       if str_eqb c s_for then
         match a with v :: _ => starts_with (scope_prefix scope) v | [] => false end
       else cmd_ok scope c && (if str_in c cond_cmds then cond_ok scope a else true)
     end)
  end.

Definition script_confined (s : DSG.GenScripts.script_cmd) : bool :=
  match parse_text (DSG.GenScripts.sc_text s) with
  | TOk is => forallb (fun i => instr_ok (DSG.GenScripts.sc_scope s) (i_type i)) is
  | TErr _ _ _ => false
  end.

(* the wrapper is created with the scope name the script writes under, and arguments are read
   from that scope only *)
Definition all_scripts_confined : bool := forallb script_confined DSG.GenScripts.gen_scripts.
