(* RunnerScripted.v — the command instance used by the correspondence runs of C03 and C13
   (definitions only): every command is a script of results; its k-th invocation answers the k-th
   element (and may raise the halt flag first).  When the script is used up a cyclic command
   starts again, any other command crashes with [exhausted_msg] — so only programs over cyclic
   commands can run forever. *)
From stdpp Require Import gmap.
Require Import DS.Base DS.Runner.
Local Open Scope nat_scope.

Record sres := SRes { sr_res : result; sr_halt : bool }.
Record scmd := SCmd { sc_left : list sres; sc_all : list sres; sc_cyclic : bool }.
Definition sstate := gmap str scmd.

Definition exhausted_msg : str := [101;120;104;97;117;115;116;101;100]%N.   (* "exhausted" *)

Definition s_exists (st : sstate) (name : str) : bool :=
  match st !! name with Some _ => true | None => false end.

Definition s_answer (name : str) (sc : scmd) (r : sres) (rest : list sres) (w : world sstate) : result * world sstate :=
  (sr_res r, World (vars w) (<[name := SCmd rest (sc_all sc) (sc_cyclic sc)]> (cst w)) (halt w || sr_halt r)).

Definition s_cmd_run (name : str) (a : inv) (w : world sstate) : result * world sstate :=
  match cst w !! name with
  | None => (Crash (NotFound name), w)
  | Some sc =>
    match sc_left sc with
    | r :: rest => s_answer name sc r rest w
    | [] =>
      if sc_cyclic sc then
        match sc_all sc with
        | r :: rest => s_answer name sc r rest w
        | [] => (Crash (Msg exhausted_msg), w)
        end
      else (Crash (Msg exhausted_msg), w)
    end
  end.

Definition mk_state (cmds : list (str * (list sres * bool))) : sstate :=
  list_to_map (map (fun '(n, (rs, cyc)) => (n, SCmd rs rs cyc)) cmds).

(* external flag: raised from poll number [k] on (None: never) *)
Definition ext_from (k : option nat) (poll : nat) : bool :=
  match k with Some k => k <=? poll | None => false end.

Definition s_run (fuel : nat) (halt_at : option nat) (p : program) (v : list (str * str))
                 (cmds : list (str * (list sres * bool))) : outcome sstate :=
  run sstate s_exists s_cmd_run (ext_from halt_at) fuel p (World (list_to_map v) (mk_state cmds) false).

(* the un-halted machine after [n] iterations (C13): None when the run is over earlier *)
Definition s_iter_nohalt (n : nat) (p : program) (v : list (str * str))
                         (cmds : list (str * (list sres * bool))) : option (config sstate) :=
  iter_nohalt sstate s_exists s_cmd_run p (label_table p) n (init (World (list_to_map v) (mk_state cmds) false)).

(* one un-halted iteration, for drivers that walk the run configuration by configuration *)
Definition s_init (v : list (str * str)) (cmds : list (str * (list sres * bool))) : config sstate :=
  init (World (list_to_map v) (mk_state cmds) false).
Definition s_exec (p : program) (lt : gmap str nat) (c : config sstate) : config sstate + final sstate * list event :=
  exec sstate s_exists s_cmd_run p lt c.

Definition vars_list (w : world sstate) : list (str * str) := map_to_list (vars w).
