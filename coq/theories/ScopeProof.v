(* ScopeProof.v — M (Scope.v) refines S (ScopeSpec.v); no crash; LIFO. *)
From stdpp Require Import gmap list sorting.
From Coq Require Import NArith Lia.
Require Import DS.Registry DS.RegistryProof DS.Scope DS.ScopeSpec.

(* ------------------------------------------------------------------------------------------- *)
(* prefixes *)
Lemma starts_with_app p s : starts_with p (p ++ s) = true.
Proof. induction p as [|a p IH]; cbn; [done|]. by rewrite N.eqb_refl. Qed.
Lemma args_key_unsafe : starts_with unset_prefix args_key = true.
Proof. apply starts_with_app. Qed.
Lemma loop_key_unsafe : starts_with unset_prefix loop_key = true.
Proof. apply starts_with_app. Qed.
Lemma arg_key_unsafe i : starts_with unset_prefix (arg_key i) = true.
Proof. apply starts_with_app. Qed.

Lemma map_subseteq_size_le (m1 m2 : vmap) : m1 ⊆ m2 -> size m1 <= size m2.
Proof. intros H. unfold size, map_size. apply submseteq_length, map_to_list_submseteq, H. Qed.

(* ------------------------------------------------------------------------------------------- *)
(* the loops of push / pop *)
Lemma collect_fold_lookup (vs acc : vmap) (copy : list name) (k : name) :
  foldl (fun nv key => match vs !! key with Some v => <[key := v]> nv | None => nv end) acc copy !! k
  = if decide (k ∈ copy) then (match vs !! k with Some v => Some v | None => acc !! k end) else acc !! k.
Proof.
  revert acc; induction copy as [|c copy IH]; intros acc; cbn [foldl].
  - rewrite decide_False; [done|]. intros H. by apply elem_of_nil in H.
  - rewrite IH. destruct (decide (k ∈ copy)) as [Hin|Hin].
    + rewrite decide_True by (by apply elem_of_list_further).
      destruct (vs !! k) eqn:Hk; [done|].
      destruct (vs !! c) eqn:Hc; [|done].
      rewrite lookup_insert_ne; [done|]. intros ->. congruence.
    + destruct (decide (k = c)) as [->|Hne].
      * rewrite decide_True by apply elem_of_list_here.
        destruct (vs !! c) eqn:Hc; [by rewrite lookup_insert|done].
      * rewrite decide_False by (intros [->|?]%elem_of_cons; done).
        destruct (vs !! c) eqn:Hc; [|done]. by rewrite lookup_insert_ne.
Qed.

Lemma collect_lookup (vs : vmap) (copy : list name) (k : name) : collect vs copy !! k = if decide (k ∈ copy) then vs !! k else None.
Proof.
  unfold collect. rewrite collect_fold_lookup. rewrite lookup_empty.
  destruct (decide (k ∈ copy)); [|done]. by destruct (vs !! k).
Qed.

Lemma collect_filter (vs : vmap) (copy : list name) : collect vs copy = filter (fun kv : name * value => kv.1 ∈ copy) vs.
Proof.
  apply map_eq. intros k. rewrite collect_lookup.
  destruct (decide (k ∈ copy)) as [Hin|Hin].
  - destruct (vs !! k) as [v|] eqn:Hk; symmetry.
    + by apply map_filter_lookup_Some.
    + apply map_filter_lookup_None. by left.
  - symmetry. apply map_filter_lookup_None. right. intros v _. done.
Qed.

Lemma foldl_insert_list (l : list (name * value)) : forall (dst : vmap) k,
  NoDup l.*1 ->
  foldl (fun m kv => <[kv.1 := kv.2]> m) dst l !! k
  = match (list_to_map l : vmap) !! k with Some v => Some v | None => dst !! k end.
Proof.
  induction l as [|[k0 v0] l IH]; intros dst k Hnd; cbn [foldl].
  - cbn. by rewrite lookup_empty.
  - cbn in Hnd. apply NoDup_cons in Hnd as [Hnot Hnd]. rewrite IH by done. cbn.
    destruct (decide (k = k0)) as [->|Hne].
    + rewrite (not_elem_of_list_to_map_1 _ _ Hnot). by rewrite !lookup_insert.
    + by rewrite !lookup_insert_ne by congruence.
Qed.

Lemma insert_all_union (src dst : vmap) : insert_all src dst = src ∪ dst.
Proof.
  apply map_eq. intros k. unfold insert_all.
  rewrite foldl_insert_list by apply NoDup_fst_map_to_list.
  rewrite list_to_map_to_list. rewrite lookup_union.
  by destruct (src !! k), (dst !! k).
Qed.

Lemma insert_all_empty (src : vmap) : insert_all src ∅ = src.
Proof. rewrite insert_all_union. apply (right_id_L ∅ (∪)). Qed.

Lemma m_push_spec s copy : m_push s copy = s_push s copy.
Proof. unfold m_push, s_push. by rewrite insert_all_empty, collect_filter. Qed.

Lemma m_pop_spec s copy : m_pop s copy = s_pop true s copy.
Proof.
  unfold m_pop, s_pop. destruct (stack s) as [|old rest]; [done|].
  by rewrite insert_all_empty, insert_all_union, collect_filter.
Qed.

(* ------------------------------------------------------------------------------------------- *)
(* unset through its wrapper and script *)
Definition safe_map (m : vmap) : Prop := forall k, is_Some (m !! k) -> safe_name k.

Lemma put_args_lookup ns : forall i (m : vmap) k, safe_name k -> put_args i ns m !! k = m !! k.
Proof.
  induction ns as [|a ns IH]; intros i m k Hk; cbn [put_args]; [done|].
  rewrite IH by done. apply lookup_insert_ne. intros E. rewrite <- E in Hk.
  unfold safe_name in Hk. by rewrite arg_key_unsafe in Hk.
Qed.

Lemma loop_fold_lookup ns : forall (m : vmap) k, k <> loop_key ->
  foldl (fun m a => delete a (<[loop_key := a]> m)) m ns !! k
  = if decide (k ∈ ns) then None else m !! k.
Proof.
  induction ns as [|a ns IH]; intros m k Hk; cbn [foldl].
  - rewrite decide_False; [done|]. intros H. by apply elem_of_nil in H.
  - rewrite IH by done. destruct (decide (k ∈ ns)) as [Hin|Hin].
    + by rewrite decide_True by (by apply elem_of_list_further).
    + destruct (decide (k = a)) as [->|Hne].
      * rewrite decide_True by apply elem_of_list_here. by rewrite lookup_delete.
      * rewrite decide_False by (intros [->|?]%elem_of_cons; done).
        rewrite lookup_delete_ne by congruence. by rewrite lookup_insert_ne by congruence.
Qed.

Lemma s_unset_lookup (ns : list name) (vs : vmap) (k : name) :
  s_unset vs ns !! k = if decide (k ∈ ns) then None else vs !! k.
Proof.
  unfold s_unset. induction ns as [|a ns IH]; cbn [foldr].
  - rewrite decide_False; [done|]. intros H. by apply elem_of_nil in H.
  - destruct (decide (k = a)) as [->|Hne].
    + rewrite lookup_delete. by rewrite decide_True by apply elem_of_list_here.
    + rewrite lookup_delete_ne by congruence. rewrite IH.
      destruct (decide (k ∈ ns)) as [Hin|Hin].
      * by rewrite decide_True by (by apply elem_of_list_further).
      * by rewrite decide_False by (intros [->|?]%elem_of_cons; done).
Qed.

(* the variables after the wrapper has cleared its scope, for any starting map *)
Definition unset_v3 (vs : vmap) (ns : list name) (h : value) : vmap :=
  let v1 := match ns with [] => vs | _ => <[args_key := h]> (put_args 1 ns vs) end in
  let v2 := foldl (fun m a => delete a (<[loop_key := a]> m)) v1 ns in
  filter (fun kv => starts_with unset_prefix kv.1 = false) v2.

Lemma unset_v3_lookup (vs : vmap) (ns : list name) (h : value) (k : name) :
  unset_v3 vs ns h !! k =
  if decide (safe_name k) then (if decide (k ∈ ns) then None else vs !! k) else None.
Proof.
  unfold unset_v3. set (v1 := match ns with [] => vs | _ => _ end).
  assert (Hv1 : safe_name k -> v1 !! k = vs !! k).
  { intros Hk. subst v1. destruct ns as [|a ns]; [done|].
    rewrite lookup_insert_ne.
    - by apply put_args_lookup.
    - intros E. rewrite <- E in Hk. unfold safe_name in Hk. by rewrite args_key_unsafe in Hk. }
  destruct (decide (safe_name k)) as [Hk|Hk].
  - assert (k <> loop_key) as Hne.
    { intros ->. unfold safe_name in Hk. by rewrite loop_key_unsafe in Hk. }
    destruct (decide (k ∈ ns)) as [Hin|Hin].
    + apply map_filter_lookup_None. left. rewrite loop_fold_lookup by done. by rewrite decide_True.
    + destruct (vs !! k) as [v|] eqn:Hv.
      * apply map_filter_lookup_Some. split; [|done].
        rewrite loop_fold_lookup by done. rewrite decide_False by done. by rewrite Hv1.
      * apply map_filter_lookup_None. left.
        rewrite loop_fold_lookup by done. rewrite decide_False by done. by rewrite Hv1.
  - apply map_filter_lookup_None. right. intros v _. done.
Qed.

Lemma unset_v3_subseteq vs ns h : unset_v3 vs ns h ⊆ vs.
Proof.
  apply map_subseteq_spec. intros k v. rewrite unset_v3_lookup.
  destruct (decide (safe_name k)); [|done]. by destruct (decide (k ∈ ns)).
Qed.

Lemma m_unset_eq vs ns h : m_unset vs ns h = (ONone, unset_v3 vs ns h).
Proof.
  unfold m_unset. fold (unset_v3 vs ns h).
  pose proof (map_subseteq_size_le _ _ (unset_v3_subseteq vs ns h)) as Hle.
  destruct (Nat.ltb_spec (size vs) (size (unset_v3 vs ns h))); [lia|done].
Qed.

Lemma unset_v3_safe vs ns h : safe_map vs -> unset_v3 vs ns h = s_unset vs ns.
Proof.
  intros Hs. apply map_eq. intros k. rewrite unset_v3_lookup, s_unset_lookup.
  destruct (decide (safe_name k)) as [Hk|Hk]; [done|].
  destruct (decide (k ∈ ns)); [done|].
  destruct (vs !! k) eqn:Hv; [|done]. exfalso. apply Hk, Hs. by eexists.
Qed.

Lemma m_unset_spec vs ns h : safe_map vs -> m_unset vs ns h = (ONone, s_unset vs ns).
Proof. intros Hs. by rewrite m_unset_eq, unset_v3_safe. Qed.

(* ------------------------------------------------------------------------------------------- *)
(* one step *)
Definition safe_state (s : mstate) : Prop := safe_map (vars s) /\ Forall safe_map (stack s).

Lemma m_cmd_spec s c : safe_map (vars s) -> m_cmd s c = s_cmd true s c.
Proof.
  intros Hs. destruct c as [v|ns h|n [v|]|n|n|[p|]|n|c|c]; cbn; try done.
  - by rewrite m_unset_spec.
  - destruct (vars s !! n) eqn:E.
    + rewrite bool_decide_eq_true_2; [done|by eexists].
    + rewrite bool_decide_eq_false_2; [done|]. by intros [? [=]].
  - by rewrite m_push_spec.
  - by rewrite m_pop_spec.
Qed.

Lemma m_step_spec s o : safe_map (vars s) -> m_step s o = s_step true s o.
Proof. intros Hs. destruct o as [out c|]; cbn; [|done]. by rewrite m_cmd_spec. Qed.

(* preservation of the domain invariant *)
Lemma safe_map_insert (m : vmap) (k : name) (v : value) : safe_map m -> safe_name k -> safe_map (<[k := v]> m).
Proof.
  intros Hm Hk j [x Hj]. destruct (decide (j = k)) as [->|]; [done|].
  rewrite lookup_insert_ne in Hj by congruence. apply Hm. by eexists.
Qed.
Lemma safe_map_sub (m m' : vmap) : safe_map m -> m' ⊆ m -> safe_map m'.
Proof. intros Hm Hsub j [x Hj]. apply Hm. exists x. eapply lookup_weaken; eauto. Qed.
Lemma safe_map_union (m1 m2 : vmap) : safe_map m1 -> safe_map m2 -> safe_map (m1 ∪ m2).
Proof.
  intros H1 H2 j [x Hj]. apply lookup_union_Some_raw in Hj as [Hj|[_ Hj]]; [apply H1|apply H2]; by eexists.
Qed.
Lemma safe_map_empty : safe_map ∅.
Proof. intros j [x Hj]. by rewrite lookup_empty in Hj. Qed.
Lemma s_unset_subseteq (vs : vmap) (ns : list name) : s_unset vs ns ⊆ vs.
Proof.
  unfold s_unset. induction ns as [|a ns IH]; cbn; [done|].
  etrans; [apply delete_subseteq|done].
Qed.

Lemma update_output_safe (out : option name) (r : outcome) (m : vmap) :
  safe_map m -> match out with Some x => safe_name x | None => True end -> safe_map (update_output out r m).
Proof.
  intros Hm Ho. destruct out as [x|]; cbn; [|done].
  destruct r; auto using safe_map_insert.
  eapply safe_map_sub; [done|apply delete_subseteq].
Qed.

Lemma s_cmd_safe pol s c : safe_state s -> cmd_safe c -> safe_state (s_cmd pol s c).2.
Proof.
  intros [Hv Hst] Hc. destruct c as [v|ns h|n [v|]|n|n|[p|]|n|c|c]; cbn in *; try done.
  - split; [|done]. eapply safe_map_sub; [done|apply s_unset_subseteq].
  - split; [|done]. by apply safe_map_insert.
  - split; [|done]. eapply safe_map_sub; [done|apply delete_subseteq].
  - split; [|done]. eapply safe_map_sub; [done|apply map_filter_subseteq].
  - split; [|done]. apply safe_map_empty.
  - split; [|done]. eapply safe_map_sub; [done|apply map_filter_subseteq].
  - split; [|by constructor]. eapply safe_map_sub; [done|apply map_filter_subseteq].
  - unfold s_pop. destruct s as [vs st]; cbn in *. destruct st as [|old rest]; cbn; [by split|].
    apply Forall_cons in Hst as [Hold Hrest]. split; [|done]. cbn.
    apply safe_map_union.
    + apply (safe_map_sub vs); [done|apply map_filter_subseteq].
    + destruct pol; [done|]. apply (safe_map_sub old); [done|apply map_filter_subseteq].
Qed.

Lemma s_step_safe pol s o : safe_state s -> op_safe o -> safe_state (s_step pol s o).2.
Proof.
  intros Hs Ho. destruct o as [out c|]; cbn in *; [|done]. destruct Ho as [Hout Hc].
  pose proof (s_cmd_safe pol s c Hs Hc) as [Hv Hst]. destruct (s_cmd pol s c) as [r s']. cbn in *.
  split; [|done]. by apply update_output_safe.
Qed.

(* ------------------------------------------------------------------------------------------- *)
(* histories *)
Lemma run_refines ops : forall s, safe_state s -> Forall op_safe ops -> m_run s ops = s_run true s ops.
Proof.
  induction ops as [|o ops IH]; intros s Hs Hops; cbn; [done|].
  apply Forall_cons in Hops as [Ho Hops]. rewrite (m_step_spec s o (proj1 Hs)).
  pose proof (s_step_safe true s o Hs Ho) as Hs1.
  destruct (s_step true s o) as [r s1]. cbn in Hs1. by rewrite (IH s1 Hs1 Hops).
Qed.

Lemma safe_init : safe_state ms_init.
Proof. split; [apply safe_map_empty|constructor]. Qed.

(* M never crashes (whatever the names are) *)
Lemma m_cmd_nocrash s c : (m_cmd s c).1 <> OCrash.
Proof.
  destruct c as [v|ns h|n [v|]|n|n|[p|]|n|c|c]; cbn; try done.
  - by rewrite m_unset_eq.
  - by destruct (vars s !! n).
  - unfold m_pop. by destruct (stack s).
Qed.
Lemma m_step_nocrash s o : (m_step s o).1 <> OCrash.
Proof.
  destruct o as [out c|]; cbn; [|done].
  pose proof (m_cmd_nocrash s c). by destruct (m_cmd s c).
Qed.
Lemma m_run_nocrash ops : forall s, Forall (fun rv => rv.1 <> OCrash) (m_run s ops).1.
Proof.
  induction ops as [|o ops IH]; intros s; cbn; [constructor|].
  pose proof (m_step_nocrash s o) as H. destruct (m_step s o) as [r s1].
  specialize (IH s1). destruct (m_run s1 ops). cbn in *. by constructor.
Qed.

(* popping an empty stack is an error that changes nothing *)
Lemma m_pop_empty s c : stack s = [] -> m_cmd s (CPop c) = (OErr, s).
Proof. intros E. cbn. unfold m_pop. by rewrite E. Qed.

(* ------------------------------------------------------------------------------------------- *)
(* the two admissible treatments of a name that is undefined when copied on pop agree everywhere
   else *)
Lemma s_pop_pol_agree s copy k :
  k ∉ copy \/ is_Some (vars s !! k) ->
  vars (s_pop true s copy).2 !! k = vars (s_pop false s copy).2 !! k.
Proof.
  intros Hk. unfold s_pop. destruct (stack s) as [|old rest]; [done|]. cbn.
  rewrite !lookup_union. f_equal.
  destruct (old !! k) as [v|] eqn:Ho; symmetry.
  - by apply map_filter_lookup_Some.
  - apply map_filter_lookup_None. by left.
Qed.
Lemma s_pop_pol_same s copy :
  (forall k, k ∈ copy -> is_Some (vars s !! k)) -> s_pop false s copy = s_pop true s copy.
Proof.
  intros H. unfold s_pop. destruct (stack s) as [|old rest]; [done|]. do 3 f_equal.
  apply map_filter_id. intros k v _. cbn. destruct (decide (k ∈ copy)); auto.
Qed.

(* ------------------------------------------------------------------------------------------- *)
(* LIFO *)
Lemma s_step_stack pol s o :
  stack (s_step pol s o).2 =
  match o with
  | Op _ (CPush _) => vars s :: stack s
  | Op _ (CPop _) => tail (stack s)
  | _ => stack s
  end.
Proof.
  destruct o as [out c|]; [|done]. destruct s as [vs st]. cbn.
  destruct c as [v|ns h|n [v|]|n|n|[p|]|n|c|c]; cbn; try done.
  unfold s_pop. cbn. by destruct st.
Qed.

Lemma s_run_stack pol ops : forall k k' s top base,
  balanced k ops = Some k' -> stack s = top ++ base -> length top = k ->
  exists top', stack (s_run pol s ops).2 = top' ++ base /\ length top' = k'.
Proof.
  induction ops as [|o ops IH]; intros k k' s top base Hb Hs Hl; cbn in *.
  - simplify_eq. eauto.
  - pose proof (s_step_stack pol s o) as Hst. destruct (s_step pol s o) as [r s1]. cbn in Hst.
    assert (exists top1 k1, stack s1 = top1 ++ base /\ length top1 = k1 /\ balanced k1 ops = Some k')
      as (top1 & k1 & Hs1 & Hl1 & Hb1).
    { destruct o as [out c|]; [|by exists top, k; rewrite Hst].
      destruct c; try (by exists top, k; rewrite Hst).
      - exists (vars s :: top), (S k). rewrite Hst, Hs. cbn. auto.
      - destruct k as [|k0]; [done|]. destruct top as [|t top0]; [done|].
        exists top0, k0. rewrite Hst, Hs. cbn in *. split; [done|]. split; [lia|done]. }
    destruct (IH _ _ s1 _ _ Hb1 Hs1 Hl1) as (top' & H1 & H2).
    destruct (s_run pol s1 ops). cbn in *. eauto.
Qed.

Lemma s_run_app pol ops1 ops2 s :
  s_run pol s (ops1 ++ ops2) =
  let '(o1, s1) := s_run pol s ops1 in let '(o2, s2) := s_run pol s1 ops2 in (o1 ++ o2, s2).
Proof.
  revert s; induction ops1 as [|o ops1 IH]; intros s; cbn.
  - by destruct (s_run pol s ops2).
  - destruct (s_step pol s o) as [r s1]. rewrite IH.
    destruct (s_run pol s1 ops1) as [o1 s1']. by destruct (s_run pol s1' ops2).
Qed.

(* a push, any balanced history, and a pop without --copy give back exactly the variables and the
   stack there were before the push *)
Lemma s_lifo pol s out c mid :
  balanced 0 mid = Some 0 ->
  (s_run pol s (Op out (CPush c) :: mid ++ [Op None (CPop None)])).2 = s.
Proof.
  intros Hb. cbn [s_run].
  pose proof (s_step_stack pol s (Op out (CPush c))) as Hst.
  destruct (s_step pol s (Op out (CPush c))) as [r s1]. cbn in Hst.
  rewrite s_run_app.
  destruct (s_run_stack pol mid 0 0 s1 [] (vars s :: stack s) Hb Hst eq_refl) as (top' & H1 & H2).
  destruct top'; [|done]. cbn in H1.
  destruct (s_run pol s1 mid) as [o1 s2]. cbn in *.
  unfold s_pop. rewrite H1. cbn.
  destruct s as [vs st]. cbn. f_equal.
  match goal with |- ?f ∪ _ = _ => assert (Hf : f = ∅) end.
  { apply map_eq. intros k. rewrite lookup_empty. apply map_filter_lookup_None. right.
    intros v _ Hin. cbn in Hin. by apply elem_of_nil in Hin. }
  rewrite Hf, (left_id_L ∅ (∪)). destruct pol; [done|].
  apply map_filter_id. intros k v _. left. cbn. intros Hin. by apply elem_of_nil in Hin.
Qed.

(* names *)
Lemma var_names_spec vs :
  StronglySorted name_lt (var_names vs) /\ NoDup (var_names vs) /\
  forall n, n ∈ var_names vs <-> is_Some (vs !! n).
Proof.
  assert (Hnd : NoDup (var_names vs)).
  { unfold var_names. rewrite merge_sort_Permutation. apply NoDup_fst_map_to_list. }
  split; [|split; [done|]].
  - apply sorted_strict; [|done]. apply (StronglySorted_merge_sort name_le).
  - intros n. unfold var_names. rewrite merge_sort_Permutation, elem_of_list_fmap. split.
    + intros ([k v] & -> & H). apply elem_of_map_to_list in H. by eexists.
    + intros [v H]. exists (n, v). split; [done|]. by apply elem_of_map_to_list.
Qed.

(* ------------------------------------------------------------------------------------------- *)
(* non-vacuity: the F4 situations are in the domain, M handles them without failure *)
Definition nm_a : name := [97%N]. Definition nm_nope : name := [110; 111; 112; 101]%N.
Definition v_1 : value := [49%N].
Definition f4_history : list op :=
  [Op (Some nm_a) (CSet v_1); Op None (CPush (Some [nm_a; nm_nope; nm_a]));
   Op None (CPop (Some [nm_nope])); Op None (CPop None)].
Lemma f4_witness :
  Forall op_safe f4_history /\
  (m_run ms_init f4_history).1.*1 = [OVal v_1; OVal lit_true; OVal lit_true; OErr] /\
  vars (m_run ms_init f4_history).2 = {[ nm_a := v_1 ]}.
Proof. split; [repeat constructor|]. vm_compute. done. Qed.

Lemma m_lifo s out c mid :
  safe_state s -> Forall op_safe (Op out (CPush c) :: mid ++ [Op None (CPop None)]) ->
  balanced 0 mid = Some 0 ->
  (m_run s (Op out (CPush c) :: mid ++ [Op None (CPop None)])).2 = s.
Proof. intros Hs Ho Hb. rewrite run_refines by done. by apply s_lifo. Qed.
