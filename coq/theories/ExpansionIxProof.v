(* ExpansionIxProof.v — the index-faithful expansion / binding model (ExpansionIx) never panics and
   computes what DS.Expansion computes, for every written argument (any string over all scalar
   values) and every variable environment.  (C02_ix_total, C02_ix_refines) *)
Require Import DS.Base DS.Parser DS.ParserFacts DS.ParserIx DS.ParserIxProof DS.Expansion DS.ExpansionIx.

Lemma reparse_ix_refines line :
  reparse_arguments_ix line 0 = ParserIxProof.inj (Parser.reparse_arguments line).
Proof.
  unfold reparse_arguments_ix, ParserIx.parse_arguments_with, Parser.reparse_arguments, Parser.parse_arguments_with.
  rewrite args_refine by lia. cbn [skipn]. rewrite Nat.sub_0_r.
  destruct (Parser.parse_args_fuel (S (length line)) fl_rearg line); reflexivity.
Qed.

(* the re-parse at any start index inside the vector (the code only uses 0) *)
Lemma reparse_ix_refines_at line idx : (idx <= length line)%nat ->
  reparse_arguments_ix line idx = ParserIxProof.inj (Parser.reparse_arguments (skipn idx line)).
Proof.
  intros H. unfold reparse_arguments_ix, ParserIx.parse_arguments_with, Parser.reparse_arguments, Parser.parse_arguments_with.
  rewrite args_refine by assumption. rewrite skipn_length.
  destruct (Parser.parse_args_fuel (S (length line - idx)) fl_rearg (skipn idx line)); reflexivity.
Qed.

Lemma spread_of_ix_refines v : spread_of_ix v = XOk (spread_of v).
Proof.
  unfold spread_of_ix, spread_of. destruct v as [|c v]; [reflexivity|].
  rewrite reparse_ix_refines.
  destruct (reparse_arguments (c :: v)) as [[values|]|e]; reflexivity.
Qed.

Theorem expand_ix_refines : forall value variables,
  expand_by_wrapper_ix value variables = XOk (expand_by_wrapper value variables).
Proof.
  intros value variables. unfold expand_by_wrapper_ix, expand_by_wrapper.
  destruct (xfinish (xscan variables value)) as [vs single].
  destruct single.
  - destruct vs; reflexivity.
  - apply spread_of_ix_refines.
Qed.

Theorem expand_ix_total : forall value variables, expand_by_wrapper_ix value variables <> XPanic.
Proof. intros. rewrite expand_ix_refines. discriminate. Qed.

Theorem bind_args_ix_refines : forall variables arguments,
  bind_args_ix variables arguments = BOk (bind_args variables arguments).
Proof.
  intros variables. induction arguments as [|a rest IH]; [reflexivity|].
  cbn [bind_args_ix bind_args]. rewrite expand_ix_refines, IH. reflexivity.
Qed.

Theorem bind_ix_refines : forall variables arguments,
  bind_command_arguments_ix variables arguments = BOk (bind_command_arguments variables arguments).
Proof. intros variables [l|]; [apply bind_args_ix_refines|reflexivity]. Qed.

Theorem bind_ix_total : forall variables arguments, bind_command_arguments_ix variables arguments <> BPanic.
Proof. intros. rewrite bind_ix_refines. discriminate. Qed.
