(* CodecMapload.v — C17: the COMMAND layer of map_load_properties (definitions only; proofs in CodecMaploadProof.v, the tie to
   the source in MaploadGenTie.v).  Extends CodecCmds.v (builder B32: sval, htable, cstate, cres, the error kinds) with

   Rust                                                      model
   --------------------------------------------------------- ---------------------------------------------------------
   Result<Option<String>, String> of utils/state.rs          mres   (MOk o | MErr kind: message texts erased to kinds)
   utils/state.rs mutate_map(key, state, handler)            mutate_map_sv: the entry is REMOVED, the handler runs on the map
                                                             of a SubState, the (new) value is INSERTED again — on the
                                                             association list the entry moves to the end, as a HashMap entry
                                                             may move; any other kind is put back unchanged with
                                                             "Invalid handle provided."; a missing key is "Handle: .. not found."
   the closure of map_load_properties::run                   fold_left (load_step prefix) data: every pair read is inserted
                                                             as a StateValue::String under the prefixed key into the GIVEN map
   java_properties::read(text.as_bytes())                    CodecProps.pp_read (pp_decode_text text)
   map_load_properties::run                                  cmd_map_load_properties_run

   The reader runs BEFORE the handle is looked at: a rejected text leaves the handle table as it is (even for a missing /
   wrong-kind handle the answer is then the reader's error). *)
Require Import DS.Base DS.Utf8 DS.Strings DS.Codec DS.CodecProps DS.Rs2vCodecLib DS.CodecCmds.

Inductive mres := MOk (o : option str) | MErr (kind : N).
(* the outcome of mutate_map: its result and the handle table afterwards, or the handler panicked *)
Inductive mout := MDone (r : mres) (st : htable) | MPanic.

Definition mutate_map_sv (key : str) (st : htable) (handler : list (str * sval) -> option (mres * list (str * sval))) : mout :=
  match ht_get key st with
  | Some (SSub m) =>
      match handler m with
      | Some (r, m') => MDone r (ht_insert key (SSub m') (ht_remove key st))
      | None => MPanic
      end
  | Some v => MDone (MErr ce_kind) (ht_insert key v (ht_remove key st))
  | None => MDone (MErr ce_notfound) (ht_remove key st)
  end.

(* one round of `for (property_key, property_value) in &data` *)
Definition load_step (prefix : str) (acc : list (str * sval)) (kv : str * str) : list (str * sval) :=
  ht_insert (pp_prefix_key prefix (fst kv)) (SString (snd kv)) acc.

Definition map_load_properties_at (prefix key text : str) (s : cstate) : cres * cstate :=
  match pp_read (pp_decode_text text) with
  | POk data =>
      match ht_get key (handles s) with
      | Some (SSub m) =>
          (CVal s_true, CS (ht_insert key (SSub (fold_left (load_step prefix) data m)) (ht_remove key (handles s))) (cdraws s))
      | Some v => (CErr ce_kind 0, CS (ht_insert key v (ht_remove key (handles s))) (cdraws s))
      | None => (CErr ce_notfound 0, CS (ht_remove key (handles s)) (cdraws s))
      end
  | PErr k l => (CErr k l, s)
  | PFuel => (CFuel, s)
  end.

(* the flag is recognised only when at least FOUR arguments are given; otherwise the first two are handle and text *)
Definition cmd_map_load_properties_run (args : list str) (s : cstate) : cres * cstate :=
  match args with
  | a0 :: a1 :: a2 :: a3 :: _ =>
      if str_eqb a0 s_prefix_flag then map_load_properties_at a1 a2 a3 s else map_load_properties_at [] a0 a1 s
  | a0 :: a1 :: _ => map_load_properties_at [] a0 a1 s
  | _ => (CErr ce_args 0, s)
  end.
