(* ParserGenTie.v — the hand-written index-faithful token scanner (ParserIx.parse_next_value, proved equal
   to the suffix model DS.Parser that C01 / C08 / C09 / C14 reason about) is EQUAL, for every flag setting,
   every line and every start index, to the mechanical translation of the CURRENT Rust source of
   duckscript/src/parser.rs::parse_next_value (coq/generated/GenParserFn.v, rewritten on every run by
   lib/rs2v.py).  Stated under [gen_pnv_understood = true]: when the translator no longer understands the
   source the generated file holds stubs and the checks fall back to the correspondence run. *)
Require Import DS.Base DS.Parser DS.ParserIx DS.Rs2vLib.
Require Import DSG.GenParserFn.

Lemma gen_pnv_body_eq : gen_pnv_understood = true ->
  forall fl line s, gen_pnv_body fl line s = pnv_body fl line s.
Proof.
  intros U fl line s. revert U.
  unfold gen_pnv_understood; intros U; try discriminate U. all: clear U.
  all: unfold gen_pnv_body, pnv_body, push.
  all: destruct fl as [aq ac se cc]; destruct s as [arg ix ia uq ic fe fv]; cbn.
  all: destruct (nth_error line ix) as [c|]; [|reflexivity].
  all: destruct ia, ic, fv, uq, cc, ac, se, aq; tree_eq.
Qed.

Lemma for_n_pnv_loop fl line : forall n s, for_n (pnv_body fl line) n s = pnv_loop fl line n s.
Proof.
  induction n as [|n IH]; intros s; cbn [for_n pnv_loop]; [reflexivity|].
  destruct (pnv_body fl line s); try reflexivity. apply IH.
Qed.

Theorem gen_parse_next_value_eq : gen_pnv_understood = true ->
  forall fl line start_index, gen_parse_next_value fl line start_index = parse_next_value fl line start_index.
Proof.
  intros U fl line start_index.
  pose proof (gen_pnv_body_eq U) as B. revert U.
  unfold gen_pnv_understood; intros U; try discriminate U. all: clear U.
  all: unfold gen_parse_next_value, parse_next_value.
  all: destruct (Nat.leb (length line) start_index); [reflexivity|].
  all: rewrite (for_n_ext _ _ (B fl line)), for_n_pnv_loop.
  all: destruct (pnv_loop fl line _ _) as [s| |]; try reflexivity.
  all: unfold pnv_finish. all: destruct s as [arg ix ia uq ic fe fv]; cbn.
  all: destruct arg, ia, fe, ic, uq; reflexivity.
Qed.
