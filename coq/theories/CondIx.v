(* CondIx.v — index-faithful model of duckscript_sdk/src/utils/condition.rs
   (eval_condition_for_slice and eval_condition's dispatch).  Definitions only; proofs are in
   CondIxProof.v.

   Where DS.Cond collects the tokens of a group into a list ([grp]) and keeps one signed counter,
   this model keeps what the Rust code keeps: the whole argument slice, the loop variables
   [searching_block_end], [start_block] (usize), [counter] (i32: the literal 0 is compared with
   `counter < 0`, so the variable is not an unsigned type and defaults to i32), [index] (usize),
   [total_evaluated], [partial_evaluated], [found_token], and the recursive call on
   `&arguments[start_block..index]`.  Every operation that can unwind in Rust is explicit:
     &arguments[a..b]      -> [IPanic] unless a <= b <= len            ([slice] = None)
     arguments[0]          -> [IPanic] on an empty vector              ([nth_error] = None)
     counter + 1, counter - 1 on i32:
                           overflow checks on  (dev profile; also the verification harness, whose release
                                                profile sets overflow-checks = true): [IPanic] outside the i32 range
                           overflow checks off (cargo's default release profile, e.g. the installed `duck`): wraps
   The [checked] flag of the section selects the profile.  `index + 1` / `start_block = index + 1`
   are usize additions bounded by the slice length (<= isize::MAX), they cannot overflow and are
   modelled on [nat].  The `for argument in arguments` loop is an iterator (no indexing): [loop]
   walks the remaining tokens while [index] is carried separately, exactly as in the source. *)
Require Import DS.Base DS.Cond.

Inductive ires := IOk (b : bool) | IErr (code : N) | IFuel | IPanic.

(* the embedding of the suffix model's results *)
Definition inj (r : res) : ires :=
  match r with Ok b => IOk b | Err c => IErr c | Fuel => IFuel end.

(* `&v[a..b]` *)
Definition slice {A} (v : list A) (a b : nat) : option (list A) :=
  if (Nat.leb a b && Nat.leb b (length v))%bool then Some (firstn (b - a) (skipn a v)) else None.

(* i32 arithmetic *)
Definition i32_min : Z := (-2147483648)%Z.
Definition i32_max : Z := 2147483647%Z.
Definition wrap_i32 (z : Z) : Z := ((z + 2147483648) mod 4294967296 - 2147483648)%Z.
Definition in_i32 (z : Z) : bool := ((i32_min <=? z) && (z <=? i32_max))%Z.
(* result of an i32 `+`/`-` whose mathematical value is z *)
Definition i32_result (checked : bool) (z : Z) : option Z :=
  if in_i32 z then Some z else if checked then None else Some (wrap_i32 z).

Record ist := mki {
  searching : bool;          (* searching_block_end *)
  start_block : nat;
  counter : Z;               (* i32 *)
  index : nat;
  itotal : option bool;      (* total_evaluated *)
  ipartial : option bool;    (* partial_evaluated *)
  ifound : ftok              (* found_token *)
}.
Definition iinit : ist := mki false 0 0 0 None None FNone.

(* the `match found_token { .. }` that stores an evaluated value or group *)
Definition store (found : ftok) (partial : option bool) (evaluated : bool) : option (option bool * ftok) :=
  match found with
  | FNone => Some (Some evaluated, FValue)
  | FAnd => Some (Some evaluated, FValue)
  | FOr => Some (Some (evaluated || unwrap_or partial false), FValue)
  | FValue => None
  end.

Definition ifinal (s : ist) : bool :=
  match itotal s, ipartial s with
  | None, None => false                                   (* is_true(None) *)
  | _, _ => unwrap_or (ipartial s) true && unwrap_or (itotal s) true
  end.

Inductive bstep := BNext (s : ist) | BRet (r : ires).

Section CondIx.
Variable truth : str -> bool.
Variable checked : bool.

(* one iteration of the loop body, up to (not including) `index = index + 1` *)
Definition body (ev : list str -> ires) (arguments : list str) (argument : str) (s : ist) : bstep :=
  if str_eqb argument s_open then
    let sb := if (counter s =? 0)%Z then S (index s) else start_block s in
    match i32_result checked (counter s + 1) with
    | None => BRet IPanic
    | Some c => BNext (mki true sb c (index s) (itotal s) (ipartial s) (ifound s))
    end
  else if str_eqb argument s_close then
    match i32_result checked (counter s - 1) with
    | None => BRet IPanic
    | Some c =>
      if (c =? 0)%Z then
        match slice arguments (start_block s) (index s) with
        | None => BRet IPanic
        | Some sub =>
          match ev sub with
          | IOk evaluated =>
            match store (ifound s) (ipartial s) evaluated with
            | Some (p, f) => BNext (mki false 0 c (index s) (itotal s) p f)
            | None => BRet (IErr 2)
            end
          | r => BRet r
          end
        end
      else if (c <? 0)%Z then BRet (IErr 3)
      else BNext (mki (searching s) (start_block s) c (index s) (itotal s) (ipartial s) (ifound s))
    end
  else if negb (searching s) then
    if str_eqb argument s_and then
      match ifound s with
      | FValue =>
        let t := unwrap_or (itotal s) true && unwrap_or (ipartial s) true in
        if negb t then BRet (IOk false)
        else BNext (mki (searching s) (start_block s) (counter s) (index s) (Some t) None FAnd)
      | _ => BRet (IErr 4)
      end
    else if str_eqb argument s_or then
      match ifound s with
      | FValue => BNext (mki (searching s) (start_block s) (counter s) (index s) (itotal s) (ipartial s) FOr)
      | _ => BRet (IErr 5)
      end
    else
      match store (ifound s) (ipartial s) (truth argument) with
      | Some (p, f) => BNext (mki (searching s) (start_block s) (counter s) (index s) (itotal s) p f)
      | None => BRet (IErr 2)
      end
  else BNext s.

Definition bump (s : ist) : ist :=
  mki (searching s) (start_block s) (counter s) (S (index s)) (itotal s) (ipartial s) (ifound s).

(* `for argument in arguments { body; index = index + 1 }` and the code after the loop *)
Fixpoint loop (ev : list str -> ires) (arguments : list str) (rest : list str) (s : ist) {struct rest} : ires :=
  match rest with
  | [] => if searching s then IErr 1 else IOk (ifinal s)
  | argument :: rest' =>
    match body ev arguments argument s with
    | BRet r => r
    | BNext s' => loop ev arguments rest' (bump s')
    end
  end.

(* eval_condition_for_slice; the recursion on sub-slices is bounded by fuel *)
Fixpoint eval_ix (fuel : nat) (arguments : list str) {struct fuel} : ires :=
  match fuel with
  | O => IFuel
  | S fuel' =>
    match arguments with
    | [] => IOk false                                      (* is_true(None) *)
    | _ => loop (eval_ix fuel') arguments arguments iinit
    end
  end.

(* ---- eval_condition: the dispatch in front of it ---------------------------------------------- *)
(* what eval::eval_with_instructions answers for a statement whose first word is a command;
   6 = the command's error, 7 = "Invalid condition evaluation result." *)
Inductive stmt_res := SContinue (v : option str) | SError | SOther | SPanic.

Definition eval_condition_with (fuel : nat) (exists_cmd : str -> bool) (run_stmt : list str -> stmt_res)
    (arguments : list str) : ires :=
  match arguments with
  | [] => IOk false
  | _ =>
    match nth_error arguments 0 with          (* arguments[0] *)
    | None => IPanic
    | Some a0 =>
      if exists_cmd a0 then
        match run_stmt arguments with
        | SContinue (Some v) => IOk (truth v)
        | SContinue None => IOk false
        | SError => IErr 6
        | SOther => IErr 7
        | SPanic => IPanic
        end
      else
        match slice arguments 0 (length arguments) with      (* &arguments[..] *)
        | None => IPanic
        | Some a => eval_ix fuel a
        end
    end
  end.
End CondIx.

(* as the SDK runs it: default release profile (wrapping i32) and overflow-checked profile (dev; the harness) *)
Definition eval_slice_ix (args : list str) : ires := eval_ix is_true_some false (S (length args)) args.
Definition eval_slice_ix_checked (args : list str) : ires := eval_ix is_true_some true (S (length args)) args.
Definition eval_condition_ix (exists_cmd : str -> bool) (run_stmt : list str -> stmt_res) (args : list str) : ires :=
  eval_condition_with is_true_some false (S (length args)) exists_cmd run_stmt args.
