(* StringsGenTie.v — the `run` functions of the string / range / number-comparison / hex commands of the SDK
   (duckscript_sdk/src/sdk/std/string/*/mod.rs, collections/range/mod.rs, math/{less_than,greater_than,hex_encode,
   hex_decode}/mod.rs): the hand models of Strings.v (C16) and Codec.v (C17) are EQUAL, for all argument vectors, to the
   mechanical translation of the CURRENT Rust source (coq/generated/GenStringsFn.v, rewritten on every run by
   lib/rs2v.py, class FnCmd, through lib/gen/strings_gen.py).

     gen_cmd_<name>_eq        gen_cmd_<name> args = cmd_<name> args        for every args : list str
     gen_cmd_substring_eq     the same under [args_small args] (every argument at most isize::MAX bytes long, true of every
                              Rust String): that is what makes `string_value.len() as isize` exact
     gen_cmd_<name>_defined   the translation never yields RPanic (nor ROod) — for the string family and range; this is
                              the no-panic content: every `context.arguments[i]`, every `unwrap()`, every checked `+` / `-`
                              of the source is an explicit RPanic arm of the translation

   In the translation every `context.arguments[i]` is `match nth_error args i with None => RPanic | ..`: the equality
   with a model that has no such arm proves the argument-count guard of the source makes the access safe.

   Every theorem is stated under its own flag [gen_cmd_<name>_understood = true]: when the translator does not
   understand a function any more the generated file holds [false] and a stub for it and the theorem holds vacuously (the
   check reports that tie as inactive).  Every proof must also compile against the stub: the first sentence then closes
   the goal by [discriminate], so every later sentence is prefixed with [all:] and no bullets / braces are used.  No proof
   mentions a generated variable name or the position of a test in a decision tree: after a case analysis of the
   argument vector that decides every argument-count test, [tie_tree] splits on whatever tests the two sides contain
   and closes the leaves by [reflexivity] or linear arithmetic over the collected facts. *)
Require Import Lia.
Require Import DS.Base DS.Utf8 DS.Strings DS.StringsProof DS.StringsProof2 DS.Codec DS.Rs2vStrLib.
Require Import DSG.GenStringsFn.

Lemma usize_as_isize_small n : (Z.of_N n <= i64_max)%Z -> usize_as_isize n = Z.of_N n.
Proof. intros H. unfold usize_as_isize. apply Z.leb_le in H. rewrite H. reflexivity. Qed.

(* the hand models' auxiliary definitions and the run-time library of the translation, opened *)
Ltac tie_open :=
  unfold cmd_length, cmd_indexof, cmd_last_indexof, cmd_substring, substring1, substring2, substring3, sub_finish,
         cmd_contains, cmd_starts_with, cmd_ends_with, cmd_equals, cmd_is_empty, cmd_replace, cmd_split, cmd_trim,
         cmd_trim_start, cmd_trim_end, cmd_range, cmd_less_than, cmd_greater_than, cmd_compare, cmd_hex_encode,
         cmd_hex_decode, hex_decode, of_index, of_bool, parse_f64, f64_ltb, isize_add, isize_sub, isize_to_usize,
         in_isize, usize_add, usize_sub, usize_max, option_map, str_is_empty.

Ltac tie_simpl :=
  cbn [length nth_error Nat.ltb Nat.leb Nat.eqb vec_is_empty negb andb orb app]; cbn beta iota zeta.

(* boolean facts about integers as propositions *)
Ltac tie_props :=
  repeat match goal with
         | H : parse_isize _ = Some _ |- _ => apply parse_int_range in H
         | H : parse_i64 _ = Some _ |- _ => apply parse_int_range in H
         | H : andb _ _ = true |- _ => apply andb_prop in H; destruct H
         | H : andb _ _ = false |- _ => apply Bool.andb_false_iff in H; destruct H
         | H : negb _ = true |- _ => apply Bool.negb_true_iff in H
         | H : negb _ = false |- _ => apply Bool.negb_false_iff in H
         | H : (_ <? _)%Z = true |- _ => apply Z.ltb_lt in H
         | H : (_ <? _)%Z = false |- _ => apply Z.ltb_ge in H
         | H : (_ <=? _)%Z = true |- _ => apply Z.leb_le in H
         | H : (_ <=? _)%Z = false |- _ => apply Z.leb_gt in H
         | H : (_ =? _)%Z = true |- _ => apply Z.eqb_eq in H
         | H : (_ =? _)%Z = false |- _ => apply Z.eqb_neq in H
         end;
  unfold i64_min, i64_max in *.

(* two slices of the same text whose bounds are the same numbers written differently (`a + b` / `b + a`) *)
Ltac tie_unify :=
  repeat match goal with
         | H1 : slice_bytes ?s ?a1 ?b1 = _, H2 : slice_bytes ?s ?a2 ?b2 = _ |- _ =>
             first [ constr_eq a1 a2; constr_eq b1 b2; fail 1
                   | let E := fresh "E" in
                     assert (E : slice_bytes s a2 b2 = slice_bytes s a1 b1) by (f_equal; try f_equal; lia);
                     rewrite E in H2; clear E ]
         end.

Ltac tie_leaf :=
  first [ reflexivity
        | exfalso; tie_props; lia
        | tie_props; tie_unify; first [ congruence | f_equal; lia ] ].

(* split on every test of either side, innermost scrutinee first (a scrutinee that mentions a variable bound by an
   enclosing match is simply not offered by [context]) *)
Ltac tie_tree :=
  repeat (tie_simpl;
          match goal with
          | |- context [match ?x with _ => _ end] =>
              lazymatch x with
              | context [match _ with _ => _ end] => fail
              | _ => destruct x eqn:?
              end
          end);
  tie_simpl; tie_leaf.

Ltac tie_args args :=
  destruct args as [|?a [|?a [|?a [|?a ?rest]]]]; tie_simpl.

(* facts about the first argument (substring only) *)
Ltac tie_small H :=
  repeat match type of H with
         | args_small (_ :: _) => let H1 := fresh "Hsmall" in let H2 := fresh "Hrest" in
                                  apply Forall_cons_iff in H; destruct H as [H1 H2];
                                  rewrite ?(usize_as_isize_small _ H1); try clear H2
         end.

Ltac tie_cmd :=
  let args := fresh "args" in
  intros args; tie_args args; tie_open; rewrite ?for_push_map; rewrite ?map_id; tie_tree.

(* ---- string family ------------------------------------------------------------------------------------------- *)
Theorem gen_cmd_length_eq : gen_cmd_length_understood = true -> forall args, gen_cmd_length args = cmd_length args.
Proof.
  unfold gen_cmd_length_understood; intros U; try discriminate U; clear U.
  all: unfold gen_cmd_length; tie_cmd.
Qed.

Theorem gen_cmd_indexof_eq : gen_cmd_indexof_understood = true -> forall args, gen_cmd_indexof args = cmd_indexof args.
Proof.
  unfold gen_cmd_indexof_understood; intros U; try discriminate U; clear U.
  all: unfold gen_cmd_indexof; tie_cmd.
Qed.

Theorem gen_cmd_last_indexof_eq : gen_cmd_last_indexof_understood = true ->
  forall args, gen_cmd_last_indexof args = cmd_last_indexof args.
Proof.
  unfold gen_cmd_last_indexof_understood; intros U; try discriminate U; clear U.
  all: unfold gen_cmd_last_indexof; tie_cmd.
Qed.

Theorem gen_cmd_substring_eq : gen_cmd_substring_understood = true ->
  forall args, args_small args -> gen_cmd_substring args = cmd_substring args.
Proof.
  unfold gen_cmd_substring_understood; intros U; try discriminate U; clear U.
  all: intros args Hs; unfold gen_cmd_substring.
  all: tie_args args; tie_small Hs; tie_open; tie_tree.
Qed.

Theorem gen_cmd_contains_eq : gen_cmd_contains_understood = true -> forall args, gen_cmd_contains args = cmd_contains args.
Proof.
  unfold gen_cmd_contains_understood; intros U; try discriminate U; clear U.
  all: unfold gen_cmd_contains; tie_cmd.
Qed.

Theorem gen_cmd_starts_with_eq : gen_cmd_starts_with_understood = true ->
  forall args, gen_cmd_starts_with args = cmd_starts_with args.
Proof.
  unfold gen_cmd_starts_with_understood; intros U; try discriminate U; clear U.
  all: unfold gen_cmd_starts_with; tie_cmd.
Qed.

Theorem gen_cmd_ends_with_eq : gen_cmd_ends_with_understood = true ->
  forall args, gen_cmd_ends_with args = cmd_ends_with args.
Proof.
  unfold gen_cmd_ends_with_understood; intros U; try discriminate U; clear U.
  all: unfold gen_cmd_ends_with; tie_cmd.
Qed.

Theorem gen_cmd_equals_eq : gen_cmd_equals_understood = true -> forall args, gen_cmd_equals args = cmd_equals args.
Proof.
  unfold gen_cmd_equals_understood; intros U; try discriminate U; clear U.
  all: unfold gen_cmd_equals; tie_cmd.
Qed.

Theorem gen_cmd_is_empty_eq : gen_cmd_is_empty_understood = true -> forall args, gen_cmd_is_empty args = cmd_is_empty args.
Proof.
  unfold gen_cmd_is_empty_understood; intros U; try discriminate U; clear U.
  all: unfold gen_cmd_is_empty; tie_cmd.
Qed.

Theorem gen_cmd_replace_eq : gen_cmd_replace_understood = true -> forall args, gen_cmd_replace args = cmd_replace args.
Proof.
  unfold gen_cmd_replace_understood; intros U; try discriminate U; clear U.
  all: unfold gen_cmd_replace; tie_cmd.
Qed.

Theorem gen_cmd_split_eq : gen_cmd_split_understood = true -> forall args, gen_cmd_split args = cmd_split args.
Proof.
  unfold gen_cmd_split_understood; intros U; try discriminate U; clear U.
  all: unfold gen_cmd_split; tie_cmd.
Qed.

Theorem gen_cmd_trim_eq : gen_cmd_trim_understood = true -> forall args, gen_cmd_trim args = cmd_trim args.
Proof.
  unfold gen_cmd_trim_understood; intros U; try discriminate U; clear U.
  all: unfold gen_cmd_trim; tie_cmd.
Qed.

Theorem gen_cmd_trim_start_eq : gen_cmd_trim_start_understood = true ->
  forall args, gen_cmd_trim_start args = cmd_trim_start args.
Proof.
  unfold gen_cmd_trim_start_understood; intros U; try discriminate U; clear U.
  all: unfold gen_cmd_trim_start; tie_cmd.
Qed.

Theorem gen_cmd_trim_end_eq : gen_cmd_trim_end_understood = true -> forall args, gen_cmd_trim_end args = cmd_trim_end args.
Proof.
  unfold gen_cmd_trim_end_understood; intros U; try discriminate U; clear U.
  all: unfold gen_cmd_trim_end; tie_cmd.
Qed.

(* ---- range, less_than / greater_than ------------------------------------------------------------------------- *)
Theorem gen_cmd_range_eq : gen_cmd_range_understood = true -> forall args, gen_cmd_range args = cmd_range args.
Proof.
  unfold gen_cmd_range_understood; intros U; try discriminate U; clear U.
  all: unfold gen_cmd_range; tie_cmd.
Qed.

Theorem gen_cmd_less_than_eq : gen_cmd_less_than_understood = true ->
  forall args, gen_cmd_less_than args = cmd_less_than args.
Proof.
  unfold gen_cmd_less_than_understood; intros U; try discriminate U; clear U.
  all: unfold gen_cmd_less_than; tie_cmd.
Qed.

Theorem gen_cmd_greater_than_eq : gen_cmd_greater_than_understood = true ->
  forall args, gen_cmd_greater_than args = cmd_greater_than args.
Proof.
  unfold gen_cmd_greater_than_understood; intros U; try discriminate U; clear U.
  all: unfold gen_cmd_greater_than; tie_cmd.
Qed.

(* ---- hex (C17) ----------------------------------------------------------------------------------------------- *)
Theorem gen_cmd_hex_encode_eq : gen_cmd_hex_encode_understood = true ->
  forall args, gen_cmd_hex_encode args = cmd_hex_encode args.
Proof.
  unfold gen_cmd_hex_encode_understood; intros U; try discriminate U; clear U.
  all: unfold gen_cmd_hex_encode; tie_cmd.
Qed.

Theorem gen_cmd_hex_decode_eq : gen_cmd_hex_decode_understood = true ->
  forall args, gen_cmd_hex_decode args = cmd_hex_decode args.
Proof.
  unfold gen_cmd_hex_decode_understood; intros U; try discriminate U; clear U.
  all: unfold gen_cmd_hex_decode; tie_cmd.
Qed.

(* ---- no panic: the translation, with its explicit RPanic arms, never yields RPanic --------------------------------- *)
(* string family and range: from the model's C16_never_ood ([string_family_defined]) through the equalities *)
Ltac tie_defined args eq :=
  rewrite eq;
  destruct (string_family_defined args) as (D1 & D2 & D3 & D4 & D5 & D6 & D7 & D8 & D9 & D10 & D11 & D12 & D13 & D14 & D15 & D16);
  assumption.

Theorem gen_cmd_length_defined : gen_cmd_length_understood = true -> forall args, defined (gen_cmd_length args).
Proof. intros U args. tie_defined args (gen_cmd_length_eq U args). Qed.
Theorem gen_cmd_indexof_defined : gen_cmd_indexof_understood = true -> forall args, defined (gen_cmd_indexof args).
Proof. intros U args. tie_defined args (gen_cmd_indexof_eq U args). Qed.
Theorem gen_cmd_last_indexof_defined : gen_cmd_last_indexof_understood = true ->
  forall args, defined (gen_cmd_last_indexof args).
Proof. intros U args. tie_defined args (gen_cmd_last_indexof_eq U args). Qed.
Theorem gen_cmd_substring_defined : gen_cmd_substring_understood = true ->
  forall args, args_small args -> defined (gen_cmd_substring args).
Proof. intros U args Hs. tie_defined args (gen_cmd_substring_eq U args Hs). Qed.
Theorem gen_cmd_contains_defined : gen_cmd_contains_understood = true -> forall args, defined (gen_cmd_contains args).
Proof. intros U args. tie_defined args (gen_cmd_contains_eq U args). Qed.
Theorem gen_cmd_starts_with_defined : gen_cmd_starts_with_understood = true ->
  forall args, defined (gen_cmd_starts_with args).
Proof. intros U args. tie_defined args (gen_cmd_starts_with_eq U args). Qed.
Theorem gen_cmd_ends_with_defined : gen_cmd_ends_with_understood = true -> forall args, defined (gen_cmd_ends_with args).
Proof. intros U args. tie_defined args (gen_cmd_ends_with_eq U args). Qed.
Theorem gen_cmd_equals_defined : gen_cmd_equals_understood = true -> forall args, defined (gen_cmd_equals args).
Proof. intros U args. tie_defined args (gen_cmd_equals_eq U args). Qed.
Theorem gen_cmd_is_empty_defined : gen_cmd_is_empty_understood = true -> forall args, defined (gen_cmd_is_empty args).
Proof. intros U args. tie_defined args (gen_cmd_is_empty_eq U args). Qed.
Theorem gen_cmd_replace_defined : gen_cmd_replace_understood = true -> forall args, defined (gen_cmd_replace args).
Proof. intros U args. tie_defined args (gen_cmd_replace_eq U args). Qed.
Theorem gen_cmd_split_defined : gen_cmd_split_understood = true -> forall args, defined (gen_cmd_split args).
Proof. intros U args. tie_defined args (gen_cmd_split_eq U args). Qed.
Theorem gen_cmd_trim_defined : gen_cmd_trim_understood = true -> forall args, defined (gen_cmd_trim args).
Proof. intros U args. tie_defined args (gen_cmd_trim_eq U args). Qed.
Theorem gen_cmd_trim_start_defined : gen_cmd_trim_start_understood = true ->
  forall args, defined (gen_cmd_trim_start args).
Proof. intros U args. tie_defined args (gen_cmd_trim_start_eq U args). Qed.
Theorem gen_cmd_trim_end_defined : gen_cmd_trim_end_understood = true -> forall args, defined (gen_cmd_trim_end args).
Proof. intros U args. tie_defined args (gen_cmd_trim_end_eq U args). Qed.
Theorem gen_cmd_range_defined : gen_cmd_range_understood = true -> forall args, defined (gen_cmd_range args).
Proof. intros U args. tie_defined args (gen_cmd_range_eq U args). Qed.

(* comparison and hex commands: by cases on the model (ROod — outside the modelled f64 domain — is possible for the
   comparisons, RPanic is not) *)
Ltac model_no_panic :=
  let args := fresh "args" in
  intros args; tie_args args; tie_open;
  repeat (tie_simpl;
          match goal with
          | |- context [match ?x with _ => _ end] =>
              lazymatch x with
              | context [match _ with _ => _ end] => fail
              | _ => destruct x eqn:?
              end
          end);
  discriminate.

Lemma cmd_compare_no_panic gt : forall args, cmd_compare gt args <> RPanic.
Proof. destruct gt; model_no_panic. Qed.
Lemma cmd_hex_encode_no_panic : forall args, cmd_hex_encode args <> RPanic.
Proof. model_no_panic. Qed.
Lemma cmd_hex_decode_no_panic : forall args, cmd_hex_decode args <> RPanic.
Proof. model_no_panic. Qed.

Theorem gen_cmd_less_than_no_panic : gen_cmd_less_than_understood = true -> forall args, gen_cmd_less_than args <> RPanic.
Proof. intros U args. rewrite (gen_cmd_less_than_eq U args). apply cmd_compare_no_panic. Qed.
Theorem gen_cmd_greater_than_no_panic : gen_cmd_greater_than_understood = true ->
  forall args, gen_cmd_greater_than args <> RPanic.
Proof. intros U args. rewrite (gen_cmd_greater_than_eq U args). apply cmd_compare_no_panic. Qed.
Theorem gen_cmd_hex_encode_no_panic : gen_cmd_hex_encode_understood = true ->
  forall args, gen_cmd_hex_encode args <> RPanic.
Proof. intros U args. rewrite (gen_cmd_hex_encode_eq U args). apply cmd_hex_encode_no_panic. Qed.
Theorem gen_cmd_hex_decode_no_panic : gen_cmd_hex_decode_understood = true ->
  forall args, gen_cmd_hex_decode args <> RPanic.
Proof. intros U args. rewrite (gen_cmd_hex_decode_eq U args). apply cmd_hex_decode_no_panic. Qed.
