(* FlowFnC.v — calls in condition position (C05_cond): the machine of FlowFn.v extended with
   duckscript_sdk/src/utils/condition.rs::eval_condition for a condition whose first token is a
   user function, i.e. duckscript_sdk/src/utils/eval.rs::eval_with_instructions /
   eval_instructions, the nested mini-runner.  Definitions only.

   eval_with_instructions appends the call as an extra instruction behind the program and runs
   [eval_instructions] from there: the call jumps into the function body, the loop goes on until
   the line counter leaves the instruction list (the return jumps to call line + 1, behind the
   appended instruction).  The mini-runner differs from runner::run_instructions in that
     * Error / Crash stop it (no on_error), the condition then fails as an error;
     * a GoTo result does NOT update the instruction's output variable: a call `r = g x` made
       under it does not remove r at call time;
   its result is the output of the last instruction run: the value given to `return`, or nothing.
   The appended instruction sits at line [length P] (for a nested evaluation even later); only
   "behind the program" matters, so the model uses [length P] as the call line throughout. *)
Require Import DS.Base DS.Cond DS.FlowTables DS.FlowScan DS.Flow DS.FlowFn.
Require Import DSG.GenFlowNames DSG.GenFnNames.

Definition ev_t := fcond -> fstate -> option (bool * fstate).

(* run_call without the runner's update_output (eval_instructions ignores the output variable
   on GoTo results) *)
Definition step_call_eval (line : nat) (out : option str) (name : str) (args : list carg) (s : fstate)
  : cres * fstate :=
  let '(w, f, g) := s in
  match aget str_eqb name (fs_meta g) with
  | None => (RCrash 3, s)
  | Some m =>
    let vals := map (fun a => arg_val a w) args in
    let w1 := if fm_scoped m then set_vars [] w else w in
    let scopes1 := if fm_scoped m then w_vars w :: fs_scopes g else fs_scopes g in
    let w2 := bind_args 1 vals w1 in
    let ci := mkFNC line (fm_start m) (fm_end m) out (fm_scoped m) in
    (RGoto (S (fm_start m)), (w2, f, mkFS (fs_meta g) (ci :: fs_stk g) scopes1))
  end.

(* if / elseif / while whose condition is evaluated by [ev] (same control structure as
   Flow.step_if / step_elseif / step_while) *)
Definition cstep_if (ev : ev_t) (P : list finstr) (line : nat) (c : fcond) (s : fstate) : cres * fstate :=
  let '(w, f, g) := s in
  match if_meta_info (map down P) line f with
  | (None, f1) => (RCrash 1, (w, f1, g))
  | (Some m, f1) =>
    match ev c (w, f1, g) with
    | None => (RError 30, (w, f1, g))
    | Some (passed, (w1, f2, g2)) =>
      if passed then
        let next_line := match im_else m with [] => im_end m | l0 :: _ => l0 end in
        (RContinue, (w1, if_push (mkIC next_line true 0 m) f2, g2))
      else match im_else m with
           | [] => (RGoto (S (im_end m)), (w1, f2, g2))
           | l0 :: _ => (RGoto l0, (w1, if_push (mkIC l0 false 0 m) f2, g2))
           end
    end
  end.

Definition cstep_elseif (ev : ev_t) (line : nat) (c : fcond) (s : fstate) : cres * fstate :=
  let '(w, f, g) := s in
  match if_pop line (f_ifstk f) with
  | (None, stk) => (RError 2, (w, set_ifstk stk f, g))
  | (Some ci, stk) =>
    let f1 := set_ifstk stk f in
    if ic_passed ci then (RGoto (S (im_end (ic_meta ci))), (w, f1, g))
    else
      let m := ic_meta ci in
      match ev c (w, f1, g) with
      | None => (RError 30, (w, f1, g))
      | Some (passed, (w1, f2, g2)) =>
        if passed then
          match (if (S (ic_idx ci) <? length (im_else m))%nat
                 then nth_error (im_else m) (S (ic_idx ci)) else nth_error (im_else m) 0) with
          | Some next_line => (RContinue, (w1, if_push (mkIC next_line true (ic_idx ci) m) f2, g2))
          | None => (RPanic, (w1, f2, g2))
          end
        else if (S (ic_idx ci) <? length (im_else m))%nat then
          match nth_error (im_else m) (S (ic_idx ci)) with
          | Some next_line => (RGoto next_line, (w1, if_push (mkIC next_line false (S (ic_idx ci)) m) f2, g2))
          | None => (RPanic, (w1, f2, g2))
          end
        else (RGoto (S (im_end m)), (w1, f2, g2))
      end
  end.

Definition cstep_while (ev : ev_t) (P : list finstr) (line : nat) (c : fcond) (s : fstate) : cres * fstate :=
  let '(w, f, g) := s in
  match while_meta_info (map down P) line f with
  | (None, f1) => (RCrash 1, (w, f1, g))
  | (Some m, f1) =>
    match ev c (w, f1, g) with
    | None => (RError 30, (w, f1, g))
    | Some (passed, (w1, f2, g2)) =>
      if passed then (RContinue, (w1, wh_push m f2, g2))
      else (RGoto (S (lm_end m)), (w1, f2, g2))
    end
  end.

(* one instruction; [emode] = running under eval_instructions *)
Definition cstep (ev : ev_t) (emode : bool) (P : list finstr) (line : nat) (i : finstr) (s : fstate)
  : cres * fstate :=
  match fi_cmd i, fi_arg i with
  | Some c, FCondC fc =>
    match classify_fn c with
    | FKBase KIf => cstep_if ev P line fc s
    | FKBase KElseIf => cstep_elseif ev line fc s
    | FKBase KWhile => cstep_while ev P line fc s
    | _ => (RError 10, s)
    end
  | Some c, FCall out args =>
    if emode then
      match classify_fn c with
      | FKBase KOther => step_call_eval line out c args s
      | _ => (RError 10, s)
      end
    else fstep P line i s
  | _, _ => fstep P line i s
  end.

(* eval_instructions: run from [line] until the line counter leaves the program; the value is the
   output of the last instruction (only `return` produces one in these programs) *)
Fixpoint erun (fuel : nat) (ev : ev_t) (P : list finstr) (line : nat) (out : option str) (s : fstate)
  : option (option str * fstate) :=
  match fuel with
  | O => None
  | S k =>
    match nth_error P line with
    | None => Some (out, s)
    | Some i =>
      let out' := match fi_arg i with
                  | FReturn a => option_map (fun x => arg_val x (fst (fst s))) a
                  | _ => None
                  end in
      match cstep ev true P line i s with
      | (RContinue, s') => erun k ev P (S line) out' s'
      | (RGoto l, s') => erun k ev P l out' s'
      | _ => None                                  (* Error / Crash: the condition is an error *)
      end
    end
  end.

(* eval_condition *)
Fixpoint ceval (fuel : nat) (P : list finstr) (c : fcond) (s : fstate) {struct fuel}
  : option (bool * fstate) :=
  match fuel with
  | O => None
  | S k =>
    match c with
    | FCBase c' => let '(w, f, g) := s in let (b, w') := eval_cond c' w in Some (b, (w', f, g))
    | FCNot c' => match ceval k P c' s with Some (b, s') => Some (negb b, s') | None => None end
    | FCCall fn args =>
      (* the appended instruction `fn args` (no output variable) at line [length P] *)
      match step_call_eval (length P) None fn args s with
      | (RGoto l, s1) =>
        match erun k (ceval k P) P l None s1 with
        | Some (v, s2) => Some (is_true v, s2)
        | None => None
        end
      | _ => None
      end
    end
  end.

(* ---- runner -------------------------------------------------------------------------------------- *)
Definition ev_fuel : nat := 5000.
Definition crun_body (rec : nat -> fstate -> foutcome) (ev : ev_t) (P : list finstr) (line : nat) (s : fstate)
  : foutcome :=
  match nth_error P line with
  | None => FDone s
  | Some i => match cstep ev false P line i s with
              | (RContinue, s') => rec (S line) s'
              | (RGoto l, s') => rec l s'
              | (r, s') => FStopped line r s'
              end
  end.
Fixpoint crun (fuel : nat) (ev : ev_t) (P : list finstr) (line : nat) (s : fstate) : foutcome :=
  match fuel with
  | O => FOutOfFuel
  | S f => crun_body (crun f ev P) ev P line s
  end.
(* [efuel]: fuel of every condition evaluation *)
Definition crun_program (fuel efuel : nat) (P : list finstr) (w : world) : foutcome :=
  crun fuel (ceval efuel P) P 0 (w, flow0, fnst0).
