(* FlowFrame.v — invariant, frame relation and per-command lemmas of the C04 simulation
   (DESIGN Appendix B).  [Inv]: every cached meta entry equals what the scanner computes.
   [frame p q f f']: running code compiled at [p, q) leaves the if/while stacks of [f] untouched
   below their height, leaves above it only junk entries whose lines lie in [p, q) (if-junk has
   passed = true), leaves the for-in stack exactly as found and changes the end table only inside
   [p, q). *)
Require Import DS.Base DS.FlowTables DS.FlowTablesWf DS.FlowScan DS.Flow DS.FlowTree DS.FlowScanProof
  DS.FlowLemmas.
Require Import DSG.GenFlowNames.
Open Scope nat_scope.

Lemma set_forstk_id f : set_forstk (f_forstk f) f = f.
Proof. destruct f; reflexivity. Qed.
Lemma for_push_pop e r f : f_forstk f = e :: r -> for_push e (set_forstk r f) = f.
Proof. destruct f; cbn. intros ->. reflexivity. Qed.
Lemma set_forstk_push e f : set_forstk (f_forstk f) (for_push e f) = f.
Proof. destruct f; reflexivity. Qed.

Section Frame.
Variable P : list instr.
Hypothesis TW : tables_wf = true.

(* ---- invariant -------------------------------------------------------------------------------- *)
Definition Inv (f : flow) : Prop :=
  (forall l m, aget Nat.eqb l (f_ifmeta f) = Some m -> create_if_meta P l = Some m) /\
  (forall l m, aget Nat.eqb l (f_whmeta f) = Some m -> create_loop_meta gen_while_tables P l = Some m) /\
  (forall l m, aget Nat.eqb l (f_formeta f) = Some m -> create_loop_meta gen_for_tables P l = Some m).

Lemma Inv_flow0 : Inv flow0.
Proof. repeat split; cbn; discriminate. Qed.

Lemma Inv_same f f' :
  f_ifmeta f' = f_ifmeta f -> f_whmeta f' = f_whmeta f -> f_formeta f' = f_formeta f ->
  Inv f -> Inv f'.
Proof. unfold Inv. intros -> -> ->. auto. Qed.

Definition same_stacks (f f' : flow) : Prop :=
  f_ifstk f' = f_ifstk f /\ f_whstk f' = f_whstk f /\ f_forstk f' = f_forstk f.

Lemma if_meta_info_ok f l m : Inv f -> create_if_meta P l = Some m ->
  exists f', if_meta_info P l f = (Some m, f') /\ Inv f' /\ same_stacks f f' /\
             f_end f' = aset Nat.eqb (im_end m) gen_endif_name (f_end f).
Proof.
  intros HI Hc. unfold if_meta_info. destruct (aget Nat.eqb l (f_ifmeta f)) as [m0|] eqn:E.
  - assert (m0 = m) by (destruct HI as (H1 & _); apply H1 in E; congruence). subst m0.
    eexists. split; [reflexivity|]. split; [|split; [repeat split|reflexivity]].
    eapply Inv_same; [| | |exact HI]; reflexivity.
  - rewrite Hc. eexists. split; [reflexivity|]. split; [|split; [repeat split|reflexivity]].
    destruct HI as (H1 & H2 & H3). split; [|split]; cbn; auto;
      intros l' m'; destruct (Nat.eqb_spec l' l); [subst; congruence|auto].
Qed.
Lemma while_meta_info_ok f l m : Inv f -> create_loop_meta gen_while_tables P l = Some m ->
  exists f', while_meta_info P l f = (Some m, f') /\ Inv f' /\ same_stacks f f' /\
             f_end f' = aset Nat.eqb (lm_end m) gen_endwhile_name (f_end f).
Proof.
  intros HI Hc. unfold while_meta_info. destruct (aget Nat.eqb l (f_whmeta f)) as [m0|] eqn:E.
  - assert (m0 = m) by (destruct HI as (_ & H1 & _); apply H1 in E; congruence). subst m0.
    eexists. split; [reflexivity|]. split; [|split; [repeat split|reflexivity]].
    eapply Inv_same; [| | |exact HI]; reflexivity.
  - rewrite Hc. eexists. split; [reflexivity|]. split; [|split; [repeat split|reflexivity]].
    destruct HI as (H1 & H2 & H3). split; [|split]; cbn; auto;
      intros l' m'; destruct (Nat.eqb_spec l' l); [subst; congruence|auto].
Qed.
Lemma for_meta_info_ok f l m : Inv f -> create_loop_meta gen_for_tables P l = Some m ->
  exists f', for_meta_info P l f = (Some m, f') /\ Inv f' /\ same_stacks f f' /\
             f_end f' = aset Nat.eqb (lm_end m) gen_endfor_name (f_end f).
Proof.
  intros HI Hc. unfold for_meta_info. destruct (aget Nat.eqb l (f_formeta f)) as [m0|] eqn:E.
  - assert (m0 = m) by (destruct HI as (_ & _ & H1); apply H1 in E; congruence). subst m0.
    eexists. split; [reflexivity|]. split; [|split; [repeat split|reflexivity]].
    eapply Inv_same; [| | |exact HI]; reflexivity.
  - rewrite Hc. eexists. split; [reflexivity|]. split; [|split; [repeat split|reflexivity]].
    destruct HI as (H1 & H2 & H3). split; [|split]; cbn; auto;
      intros l' m'; destruct (Nat.eqb_spec l' l); [subst; congruence|auto].
Qed.

(* the meta info of a construct placed in the program *)
Lemma if_meta_placed p sp c b els e :
  placed P p (cs (SIf sp c b els e)) -> wfs (SIf sp c b els e) ->
  create_if_meta P p = Some (mkIM p (S p + length (cb b) + length (ce els))
                                  (mid_pos els (S p + length (cb b)))).
Proof.
  intros Hp (Ho & Hc & Hb & He). unfold create_if_meta.
  change gen_if_tables with (table_of CkIf).
  rewrite (own_meta P CkIf sp (ACond c) b els e p (facts_of TW CkIf) Hp Hb He Hc). reflexivity.
Qed.
Lemma while_meta_placed p sp c b e :
  placed P p (cs (SWhile sp c b e)) -> wfs (SWhile sp c b e) ->
  create_loop_meta gen_while_tables P p = Some (mkLM p (S p + length (cb b))).
Proof.
  intros Hp (Ho & Hc & Hb). unfold create_loop_meta.
  change gen_while_tables with (table_of CkWhile).
  rewrite (own_meta P CkWhile sp (ACond c) b ENil e p (facts_of TW CkWhile) Hp Hb I Hc).
  cbn [ce length]. now rewrite Nat.add_0_r.
Qed.
Lemma for_meta_placed p sp x hv b e :
  placed P p (cs (SFor sp x hv b e)) -> wfs (SFor sp x hv b e) ->
  create_loop_meta gen_for_tables P p = Some (mkLM p (S p + length (cb b))).
Proof.
  intros Hp (Ho & Hc & Hb). unfold create_loop_meta.
  change gen_for_tables with (table_of CkFor).
  rewrite (own_meta P CkFor sp (AFor x hv) b ENil e p (facts_of TW CkFor) Hp Hb I Hc).
  cbn [ce length]. now rewrite Nat.add_0_r.
Qed.

(* ---- frame ------------------------------------------------------------------------------------ *)
Definition if_junk (p q : nat) (e : ifcall) : Prop := p <= ic_current e < q /\ ic_passed e = true.
Definition wh_junk (p q : nat) (e : lmeta) : Prop := p <= lm_end e < q.
Record frame (p q : nat) (f f' : flow) : Prop := mkFrame {
  fr_if : exists J, f_ifstk f' = J ++ f_ifstk f /\ Forall (if_junk p q) J;
  fr_wh : exists J, f_whstk f' = J ++ f_whstk f /\ Forall (wh_junk p q) J;
  fr_for : f_forstk f' = f_forstk f;
  fr_end : forall l, ~ (p <= l < q) -> aget Nat.eqb l (f_end f') = aget Nat.eqb l (f_end f) }.

Lemma frame_refl p q f : frame p q f f.
Proof. constructor; auto; exists []; auto. Qed.

Lemma frame_weaken p q p' q' f f' : p' <= p -> q <= q' -> frame p q f f' -> frame p' q' f f'.
Proof.
  intros Hp Hq [(Ji & E1 & F1) (Jw & E2 & F2) E3 E4]. constructor; auto.
  - exists Ji. split; auto. eapply Forall_impl; [|exact F1]. unfold if_junk. intros a [H1 H2]. split; [lia|exact H2].
  - exists Jw. split; auto. eapply Forall_impl; [|exact F2]. unfold wh_junk. intros a. lia.
  - intros l Hl. apply E4. lia.
Qed.

Lemma frame_trans p q f1 f2 f3 : frame p q f1 f2 -> frame p q f2 f3 -> frame p q f1 f3.
Proof.
  intros [(Ji & E1 & F1) (Jw & E2 & F2) E3 E4] [(Ji' & E1' & F1') (Jw' & E2' & F2') E3' E4'].
  constructor.
  - exists (Ji' ++ Ji). split; [rewrite E1', E1, app_assoc; reflexivity|apply Forall_app; auto].
  - exists (Jw' ++ Jw). split; [rewrite E2', E2, app_assoc; reflexivity|apply Forall_app; auto].
  - congruence.
  - intros l Hl. rewrite E4', E4; auto.
Qed.

(* a frame given by explicit junk lists *)
Lemma frame_intro p q f f' Ji Jw :
  f_ifstk f' = Ji ++ f_ifstk f -> Forall (if_junk p q) Ji ->
  f_whstk f' = Jw ++ f_whstk f -> Forall (wh_junk p q) Jw ->
  f_forstk f' = f_forstk f ->
  (forall l, ~ (p <= l < q) -> aget Nat.eqb l (f_end f') = aget Nat.eqb l (f_end f)) ->
  frame p q f f'.
Proof. intros. constructor; eauto. Qed.

(* ---- for-in stack: entries of enclosing loops only ---------------------------------------- *)
Definition for_outside (p q : nat) (e : forcall) : Prop :=
  ~ (p <= lm_start (fc_meta e) < q) /\ ~ (p <= lm_end (fc_meta e) < q).
Definition for_out (p q : nat) (f : flow) : Prop := Forall (for_outside p q) (f_forstk f).

Lemma for_out_weaken p q p' q' f : p <= p' -> q' <= q -> for_out p q f -> for_out p' q' f.
Proof.
  intros Hp Hq H. unfold for_out in *. eapply Forall_impl; [|exact H].
  unfold for_outside. intros a. lia.
Qed.
Lemma for_out_same p q f f' : f_forstk f' = f_forstk f -> for_out p q f -> for_out p q f'.
Proof. unfold for_out. now intros ->. Qed.

(* ---- pops ------------------------------------------------------------------------------------- *)
Lemma if_pop_junk L J e base :
  Forall (fun x => ic_current x <> L) J -> ic_current e = L ->
  if_pop L (J ++ e :: base) = (Some e, base).
Proof.
  intros HJ He. induction HJ as [|x J Hx HJ IH]; cbn.
  - now rewrite He, Nat.eqb_refl.
  - destruct (Nat.eqb_spec (ic_current x) L); [contradiction|exact IH].
Qed.
Lemma if_junk_ne p q L J : Forall (if_junk p q) J -> ~ (p <= L < q) ->
  Forall (fun x => ic_current x <> L) J.
Proof. intros H HL. eapply Forall_impl; [|exact H]. unfold if_junk. intros a [H1 H2]. lia. Qed.

Lemma wh_pop_junk L J e base :
  Forall (fun x => lm_end x <> L) J -> lm_end e = L ->
  wh_pop L (J ++ e :: base) = (Some e, base).
Proof.
  intros HJ He. induction HJ as [|x J Hx HJ IH]; cbn.
  - now rewrite He, Nat.eqb_refl.
  - destruct (Nat.eqb_spec (lm_end x) L); [contradiction|exact IH].
Qed.
Lemma wh_junk_ne p q L J : Forall (wh_junk p q) J -> ~ (p <= L < q) ->
  Forall (fun x => lm_end x <> L) J.
Proof. intros H HL. eapply Forall_impl; [|exact H]. unfold wh_junk. intros a. lia. Qed.

Lemma for_pop_top_out p q f : for_out p q f -> p < q ->
  for_pop_top p (f_forstk f) = (None, f_forstk f).
Proof.
  unfold for_out. intros H Hpq. destruct (f_forstk f) as [|e r]; [reflexivity|].
  inversion H as [|? ? (H1 & H2) _]; subst. cbn. unfold for_match.
  destruct (Nat.eqb_spec (lm_start (fc_meta e)) p); [lia|].
  destruct (Nat.eqb_spec (lm_end (fc_meta e)) p); [lia|]. reflexivity.
Qed.

(* ---- dispatch: which command a keyword line runs ---------------------------------------------- *)
Lemma disp_if l sp c s : In sp n_if -> step P l (kw sp (ACond c)) s = step_if P l c s.
Proof. intros H. unfold step. cbn [i_cmd i_arg kw]. now rewrite (cl_if TW sp H). Qed.
Lemma disp_elseif l sp c s : In sp n_elseif -> step P l (kw sp (ACond c)) s = step_elseif l c s.
Proof. intros H. unfold step. cbn [i_cmd i_arg kw]. now rewrite (cl_elseif TW sp H). Qed.
Lemma disp_else l sp s : In sp n_else -> step P l (kw sp ANone) s = step_else l s.
Proof. intros H. unfold step. cbn [i_cmd i_arg kw]. now rewrite (cl_else TW sp H). Qed.
Lemma disp_while l sp c s : In sp n_while -> step P l (kw sp (ACond c)) s = step_while P l c s.
Proof. intros H. unfold step. cbn [i_cmd i_arg kw]. now rewrite (cl_while TW sp H). Qed.
Lemma disp_for l sp x hv s : In sp n_for -> step P l (kw sp (AFor x hv)) s = step_for P l x hv s.
Proof. intros H. unfold step. cbn [i_cmd i_arg kw]. now rewrite (cl_for TW sp H). Qed.

(* the block's end line, spelled with the block-specific end command or with the generic [end]
   (then resolved through the end table) *)
Lemma close_if l e w f : In e (closers CkIf) ->
  aget Nat.eqb l (f_end f) = Some gen_endif_name ->
  step P l (kw e ANone) (w, f) = (RContinue, (w, f)).
Proof.
  intros He Ht. unfold closers in He. apply in_app_or in He. destruct He as [He|[<-|[]]].
  - unfold step. cbn [i_cmd i_arg kw]. now rewrite (cl_endif TW e He).
  - unfold step. cbn [i_cmd i_arg kw]. rewrite (cl_end TW). unfold step_end. cbn [snd].
    rewrite Ht, (cl_endif_name TW). reflexivity.
Qed.
Lemma close_while l e w f : In e (closers CkWhile) ->
  aget Nat.eqb l (f_end f) = Some gen_endwhile_name ->
  step P l (kw e ANone) (w, f) = step_endwhile l (w, f).
Proof.
  intros He Ht. unfold closers in He. apply in_app_or in He. destruct He as [He|[<-|[]]].
  - unfold step. cbn [i_cmd i_arg kw]. now rewrite (cl_endwhile TW e He).
  - unfold step. cbn [i_cmd i_arg kw]. rewrite (cl_end TW). unfold step_end. cbn [snd].
    rewrite Ht, (cl_endwhile_name TW). reflexivity.
Qed.
Lemma close_for l e w f : In e (closers CkFor) ->
  aget Nat.eqb l (f_end f) = Some gen_endfor_name ->
  step P l (kw e ANone) (w, f) = step_endfor l (w, f).
Proof.
  intros He Ht. unfold closers in He. apply in_app_or in He. destruct He as [He|[<-|[]]].
  - unfold step. cbn [i_cmd i_arg kw]. now rewrite (cl_endfor TW e He).
  - unfold step. cbn [i_cmd i_arg kw]. rewrite (cl_end TW). unfold step_end. cbn [snd].
    rewrite Ht, (cl_endfor_name TW). reflexivity.
Qed.

(* a straight-line command *)
Lemma prim_step l p w w' f : exec_prim p w = Some w' ->
  step P l (mkI (prim_cmd p) (APrim p)) (w, f) = (RContinue, (w', f)).
Proof.
  intros H. unfold step. cbn [i_cmd i_arg]. destruct (prim_cmd p) as [c|] eqn:E.
  - rewrite (cl_prim TW c (prim_cmd_names p c E)). cbn [fst snd]. now rewrite H.
  - destruct p; try discriminate. cbn in H. now inversion H.
Qed.
End Frame.
