(* JsonRun.v — C17: hand models of the two `run` functions of the JSON commands, restricted to what the property is about
   (the `--collection` paths), and the one-step form of Json.create_structure (definitions only; the proofs that these ARE the
   current source are in JsonGenTie.v).

   Rust functions mirrored:
     duckscript_sdk/src/sdk/std/json/parse/mod.rs   impl Command for CommandImpl :: run
     duckscript_sdk/src/sdk/std/json/encode/mod.rs  impl Command for CommandImpl :: run

   * the argument vector is `context.arguments`; `out` is `context.output_variable`; `st` is the handle store behind
     `context.state` (Json.store);
   * serde_json's text layer is an oracle: `parse : str -> option json` (None = a syntax error; its message is erased) and
     `render : json -> str` (Value::to_string);
   * the paths through the VARIABLE glue (create_variables / encode_from_variables: no `--collection` flag) are not modelled:
     they end in JVars;
   * `--collection` counts as the flag only when another argument follows it (`arguments.len() > 1`): `json_parse --collection`
     alone parses the text "--collection" (a syntax error), `json_encode --collection` alone encodes the variable of that name;
   * json_parse with a document but without an output variable answers "true" and does NOT build the structure. *)
Require Import DS.Base DS.Strings DS.Json DS.Rs2vJsonLib.

(* one recursion step of Json.create_structure, the recursive call a parameter *)
Definition cs_step (cs : json -> store -> option str * store) (data : json) (st : store) : option str * store :=
  match data with
  | JNull => (None, st)
  | JBool b => (Some (bool_text b), st)
  | JNum t => (Some t, st)
  | JStr s => (Some s, st)
  | JArr l =>
      let '(state_list, st1) := cs_items cs l st [] in
      let '(key, st2) := put_handle st1 (SList state_list) in
      (Some key, st2)
  | JObj m =>
      let '(state_map, st1) := cs_fields cs m st [] in
      let '(key, st2) := put_handle st1 (SMap state_map) in
      (Some key, st2)
  end.

(* is the first argument the flag: `context.arguments.len() > 1 && context.arguments[0] == "--collection"` *)
Definition collection_flag (args : list str) : bool :=
  match args with
  | a0 :: _ :: _ => str_eqb a0 s_collection_flag
  | _ => false
  end.

Definition run_parse (parse : str -> option json) (args : list str) (out : option str) (st : store) : jres * store :=
  match args with
  | [] => (JError, st)
  | a0 :: rest =>
      let doc := if collection_flag args then nth 1 args [] else a0 in
      match parse doc with
      | None => (JError, st)
      | Some data =>
          match out with
          | None => (JCont (Some s_true), st)
          | Some _ =>
              if collection_flag args
              then let '(o, st') := create_structure data st in (JCont o, st')
              else (JVars, st)
          end
      end
  end.

Definition run_encode (render : json -> str) (fuel : nat) (args : list str) (st : store) : jres :=
  match args with
  | [] => JError
  | _ :: _ =>
      if collection_flag args
      then match encode_from_state fuel (cells st) (nth 1 args []) with
           | Some j => JCont (Some (render j))
           | None => JFuel
           end
      else JVars
  end.
