(* CondThms.v — the C06 statements about the model: truthiness table, and-of-ors evaluation at the
   fuel the model actually uses, termination for every token list. *)
Require Import DS.Base DS.Cond DS.CondSpec DS.CondProof.
Require DSG.GenTruth.

(* ---- truthiness --------------------------------------------------------------------------- *)
(* obligation on the regenerated table *)
Lemma gen_truth_wf :
  DSG.GenTruth.gen_lowercased = true /\
  (forall s, str_in s DSG.GenTruth.gen_falsy = str_in s [[]; lit_0; lit_false; lit_no]).
Proof.
  split; [reflexivity|]. apply same_elems_in. vm_compute. reflexivity.
Qed.

Theorem truth_table : forall v, is_true_some v = negb (falsy v).
Proof.
  intros v. unfold is_true_some, falsy. destruct gen_truth_wf as [-> H]. rewrite H.
  unfold str_in; cbn [existsb]. now rewrite orb_false_r, !orb_assoc.
Qed.

Theorem truth_absent : is_true None = false.
Proof. reflexivity. Qed.

(* ---- evaluation at the model's own fuel ---------------------------------------------------- *)
Lemma depth_le_len :
  (forall c, (depth c <= length (toks c))%nat) /\ (forall a, (adepth a <= length (atoks a))%nat).
Proof.
  apply cond_atom_ind; intros; cbn [depth adepth toks atoks length];
    rewrite ?app_length; cbn [length]; try lia.
Qed.

Theorem eval_slice_sem : forall c, wf c ->
  eval_slice (toks c) = Ok (sem is_true_some c).
Proof.
  intros c Hw. unfold eval_slice. apply eval_sem; [exact Hw|].
  destruct depth_le_len as [H _]. specialize (H c). lia.
Qed.

Lemma runs_nonempty c : runs c <> [].
Proof. destruct c; cbn; try discriminate. destruct (runs c); discriminate. Qed.

Lemma semc_runs truth c : forall cur,
  semc truth c cur =
  match runs c with
  | r :: rs => (cur || existsb (sema truth) r) && forallb (existsb (sema truth)) rs
  | [] => cur
  end.
Proof.
  induction c as [a|a c IH|a c IH]; intros cur.
  - cbn. now rewrite orb_false_r, andb_true_r.
  - change (semc truth (CAnd a c) cur) with ((cur || sema truth a) && semc truth c false).
    rewrite IH. cbn [runs]. pose proof (runs_nonempty c) as Hn.
    destruct (runs c) as [|r rs]; [congruence|]. cbn [existsb forallb orb].
    now rewrite orb_false_r.
  - change (semc truth (COr a c) cur) with (semc truth c (cur || sema truth a)).
    rewrite IH. cbn [runs]. pose proof (runs_nonempty c) as Hn.
    destruct (runs c) as [|r rs]; [congruence|]. cbn [existsb].
    now rewrite orb_assoc.
Qed.

Theorem sem_and_of_ors truth c :
  sem truth c = forallb (existsb (sema truth)) (runs c).
Proof.
  unfold sem. rewrite semc_runs. pose proof (runs_nonempty c) as Hn.
  destruct (runs c) as [|r rs]; [congruence|]. reflexivity.
Qed.

(* ---- termination: the fuel S (length ts) is enough for every token list --------------------- *)
Section Total.
Variable truth : str -> bool.

Lemma go_not_fuel ev m : (forall g, (length g < m)%nat -> ev g <> Fuel) ->
  forall l s, (length (grp s) + length l <= m)%nat -> go truth ev l s <> Fuel.
Proof.
  intros Hev. induction l as [|a l IH]; intros s Hlen; cbn [go].
  - destruct (0 <? cnt s)%Z; discriminate.
  - cbn [length] in Hlen.
    destruct (str_eqb a s_open).
    { apply IH; cbn [grp]. destruct (cnt s =? 0)%Z; cbn [length]; lia. }
    destruct (str_eqb a s_close).
    { destruct (cnt s - 1 =? 0)%Z.
      - destruct (ev (rev (grp s))) eqn:E.
        + destruct (put_value _ _) as [s'|] eqn:P; [|discriminate].
          apply IH. unfold put_value in P; cbn in P.
          destruct (found s); inversion P; cbn; lia.
        + discriminate.
        + exfalso. revert E. apply Hev. rewrite rev_length. lia.
      - destruct (cnt s - 1 <? 0)%Z; [discriminate|]. apply IH; cbn [grp length]; lia. }
    destruct (0 <? cnt s)%Z.
    { apply IH; cbn [grp length]; lia. }
    destruct (str_eqb a s_and).
    { destruct (found s); try discriminate.
      destruct (unwrap_or (total s) true && unwrap_or (partial s) true); [|discriminate].
      apply IH; cbn [grp]; lia. }
    destruct (str_eqb a s_or).
    { destruct (found s); try discriminate. apply IH; cbn [grp]; lia. }
    destruct (put_value s (truth a)) as [s'|] eqn:P; [|discriminate].
    apply IH. unfold put_value in P. destruct (found s); inversion P; cbn; lia.
Qed.

Lemma eval_not_fuel : forall k args, (length args <= k)%nat -> eval truth (S k) args <> Fuel.
Proof.
  induction k as [|k IH]; intros args Hl; cbn [eval].
  - destruct args; [discriminate|cbn in Hl; lia].
  - destruct args as [|a args]; [discriminate|].
    apply go_not_fuel with (m := length (a :: args)); [|cbn; lia].
    intros g Hg. apply IH. cbn [length] in *. lia.
Qed.
End Total.

Theorem eval_slice_total : forall ts, eval_slice ts <> Fuel.
Proof. intros ts. unfold eval_slice. apply eval_not_fuel. lia. Qed.

(* ---- non-vacuity and regression witnesses -------------------------------------------------- *)
Definition t_true : str := [116;114;117;101].
(* ( false ) or true  — the F1 witness: a leading group is an or-operand *)
Definition c_f1 : cond := COr (AGrp (CAtom (AVal lit_false))) (CAtom (AVal t_true)).
Example f1_wf : wf c_f1. Proof. cbn. auto. Qed.
Example f1_value : eval_slice (toks c_f1) = Ok true. Proof. vm_compute. reflexivity. Qed.
Example nested_value :
  eval_slice [lit_false; s_or; t_true; s_and; s_open; s_open; s_close; s_or; lit_no; s_close] = Ok false.
Proof. vm_compute. reflexivity. Qed.
