(* ParserIxFns.v — hand-written index-faithful models of the functions of duckscript/src/parser.rs that
   ParserIx.v folds into their callers or gives a different signature (definitions only):

     parse_next_argument            (ParserIx calls parse_next_value with fl_arg / fl_rearg directly)
     parse_arguments_with_options   (ParserIx.parse_arguments_with takes the flag record, Rust the bool control_as_char)
     reparse_arguments
     find_output_and_command_ins    the Rust function with its `&mut ScriptInstruction` parameter: the instruction goes
                                    in and comes out (ParserIx.find_output_and_command returns (index, output, command)
                                    and so silently assumes that the incoming instruction has no output yet — true of
                                    the only caller; ParserGenTie2.foc_ins_spec states and proves exactly that).

   ParserGenTie2.v proves each of them equal to the translation of the current Rust source and relates them to
   the ParserIx functions. *)
Require Import DS.Base DS.Parser DS.ParserIx.

(* ScriptInstruction (duckscript/src/types/instruction.rs); ScriptInstruction::new() = all None *)
Record sinstr := { si_label : option str; si_output : option str; si_command : option str;
                   si_arguments : option (list str) }.
Definition sinstr_new : sinstr := {| si_label := None; si_output := None; si_command := None; si_arguments := None |}.
Definition set_output (i : sinstr) (o : option str) : sinstr :=
  {| si_label := si_label i; si_output := o; si_command := si_command i; si_arguments := si_arguments i |}.
Definition set_command (i : sinstr) (c : option str) : sinstr :=
  {| si_label := si_label i; si_output := si_output i; si_command := c; si_arguments := si_arguments i |}.

(* parse_next_argument(meta, line, start, control_as_char) =
   parse_next_value(meta, line, start, true, !control_as_char, false, control_as_char) *)
Definition fl_cac (cac : bool) : flags := if cac then fl_rearg else fl_arg.
Definition parse_next_argument (cac : bool) (line : str) (start_index : nat) : ires (nat * option str) :=
  ParserIx.parse_next_value (fl_cac cac) line start_index.

Definition parse_arguments_with_options (cac : bool) (line : str) (start_index : nat) : ires (option (list str)) :=
  ParserIx.parse_arguments_with (fl_cac cac) line start_index.
Definition reparse_arguments (line : str) (start_index : nat) : ires (option (list str)) :=
  ParserIx.parse_arguments_with fl_rearg line start_index.

Definition find_output_and_command_ins (line : str) (start_index : nat) (ins : sinstr) : ires (nat * sinstr) :=
  match ParserIx.parse_next_value fl_out line start_index with
  | IPanic => IPanic
  | IErr e => IErr e
  | IOk (next_index, None) => IOk (next_index, ins)
  | IOk (next_index, Some v) =>
    match equals_loop line (Nat.sub (length line) next_index) next_index with
    | IPanic => IPanic
    | IErr e => IErr e
    | IOk (index, found) =>
      let ins1 := if found then set_output ins (Some v) else ins in       (* instruction.output = value.clone() *)
      match si_output ins1 with                                           (* if instruction.output.is_some() *)
      | Some _ =>
        match ParserIx.parse_next_value fl_name line index with
        | IPanic => IPanic
        | IErr e => IErr e
        | IOk (_, None) => IOk (index, ins1)
        | IOk (next2, Some cmd) => IOk (next2, set_command ins1 (Some cmd))
        end
      | None => IOk (next_index, set_command ins1 (Some v))
      end
    end
  end.
