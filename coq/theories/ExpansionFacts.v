(* ExpansionFacts.v — proofs about Expansion.v against ExpansionSpec.v (C02). *)
Require Import DS.Base DS.Parser DS.Expansion DS.ExpansionSpec.

(* ------------------------------------------------------------------------------------------- *)
(* one-step lemmas of the scanner *)

Lemma lit_char_ok_inv c : lit_char_ok c = true ->
  (c =? c_dollar) = false /\ (c =? c_pct) = false /\ (c =? c_bs) = false.
Proof.
  unfold lit_char_ok. intros H.
  apply andb_prop in H. destruct H as [H H3]. apply andb_prop in H. destruct H as [H1 H2].
  apply negb_true_iff in H1, H2, H3. auto.
Qed.

Lemma xstep_lit e acc k st c : lit_char_ok c = true ->
  xstep e (mk_xst acc 0 false k false st) c = mk_xst (acc ++ [c]) 0 false k false st.
Proof.
  intros H. apply lit_char_ok_inv in H. destruct H as (H1 & H2 & H3).
  unfold xstep, flush_prefix. cbn [x_found x_force x_pidx x_value x_key x_single negb].
  rewrite H1, H2, H3. reflexivity.
Qed.

Lemma xscan_lit e s : forall acc k st, lit_ok s = true ->
  fold_left (xstep e) s (mk_xst acc 0 false k false st) = mk_xst (acc ++ s) 0 false k false st.
Proof.
  induction s as [|c s IH]; intros acc k st H.
  - cbn. now rewrite app_nil_r.
  - cbn [lit_ok forallb] in H. apply andb_prop in H. destruct H as [Hc Hs].
    cbn [fold_left]. rewrite xstep_lit by assumption. rewrite IH by assumption.
    now rewrite <- app_assoc.
Qed.

Lemma name_char_ok_inv c : name_char_ok c = true ->
  should_break_key c = false /\ (c =? c_rbrace) = false.
Proof.
  unfold name_char_ok. intros H. apply andb_prop in H. destruct H as [H1 H2].
  apply negb_true_iff in H1, H2. auto.
Qed.

Lemma xstep_key e acc k st c : name_char_ok c = true ->
  xstep e (mk_xst acc 0 true k false st) c = mk_xst acc 0 true (k ++ [c]) false st.
Proof.
  intros H. apply name_char_ok_inv in H. destruct H as (H1 & H2).
  unfold xstep. cbn [x_found x_force x_pidx x_value x_key x_single negb].
  rewrite H1, H2. reflexivity.
Qed.

Lemma xscan_key e n : forall acc k st, name_ok n = true ->
  fold_left (xstep e) n (mk_xst acc 0 true k false st) = mk_xst acc 0 true (k ++ n) false st.
Proof.
  induction n as [|c n IH]; intros acc k st H.
  - cbn. now rewrite app_nil_r.
  - cbn [name_ok forallb] in H. apply andb_prop in H. destruct H as [Hc Hn].
    cbn [fold_left]. rewrite xstep_key by assumption. rewrite IH by assumption.
    now rewrite <- app_assoc.
Qed.

(* "${" and "%{" from the neutral state *)
Lemma xstep_open_single e acc st :
  fold_left (xstep e) [c_dollar; c_lbrace] (mk_xst acc 0 false [] false st)
  = mk_xst acc 0 true [] false true.
Proof. reflexivity. Qed.
Lemma xstep_open_multi e acc st :
  fold_left (xstep e) [c_pct; c_lbrace] (mk_xst acc 0 false [] false st)
  = mk_xst acc 0 true [] false false.
Proof. reflexivity. Qed.
Lemma xstep_close e acc k st :
  xstep e (mk_xst acc 0 true k false st) c_rbrace
  = mk_xst (acc ++ lookup_or_empty e k) 0 false [] false st.
Proof.
  unfold xstep, lookup_or_empty. cbn [x_found x_force x_pidx x_value x_key x_single negb].
  replace (c_rbrace =? c_rbrace) with true by reflexivity.
  destruct (e k); [reflexivity | now rewrite app_nil_r].
Qed.
(* "\$" from the neutral state *)
Lemma xstep_escape e acc st :
  fold_left (xstep e) [c_bs; c_dollar] (mk_xst acc 0 false [] false st)
  = mk_xst (acc ++ [c_dollar]) 0 false [] false st.
Proof. reflexivity. Qed.

(* ------------------------------------------------------------------------------------------- *)
(* pieces and templates *)

Lemma xscan_var e n acc st : name_ok n = true ->
  fold_left (xstep e) (render_piece (Var n)) (mk_xst acc 0 false [] false st)
  = mk_xst (acc ++ lookup_or_empty e n) 0 false [] false true.
Proof.
  intros H. cbn [render_piece].
  change (c_dollar :: c_lbrace :: n ++ [c_rbrace]) with ([c_dollar; c_lbrace] ++ n ++ [c_rbrace]).
  rewrite !fold_left_app, xstep_open_single, xscan_key by assumption.
  cbn [fold_left app]. apply xstep_close.
Qed.

Lemma lit_ok_app a b : lit_ok (a ++ b) = lit_ok a && lit_ok b.
Proof. unfold lit_ok. apply forallb_app. Qed.

Lemma xscan_esc e n acc st : lit_ok n = true ->
  fold_left (xstep e) (render_piece (Esc n)) (mk_xst acc 0 false [] false st)
  = mk_xst (acc ++ denote e (Esc n)) 0 false [] false st.
Proof.
  intros H. cbn [render_piece denote].
  change (c_bs :: c_dollar :: c_lbrace :: n ++ [c_rbrace])
    with ([c_bs; c_dollar] ++ (c_lbrace :: n ++ [c_rbrace])).
  rewrite fold_left_app, xstep_escape, xscan_lit.
  - now rewrite <- app_assoc.
  - change (c_lbrace :: n ++ [c_rbrace]) with ([c_lbrace] ++ n ++ [c_rbrace]).
    rewrite !lit_ok_app, H. reflexivity.
Qed.

Lemma xscan_piece e p acc : wf_piece p = true ->
  fold_left (xstep e) (render_piece p) (mk_xst acc 0 false [] false true)
  = mk_xst (acc ++ denote e p) 0 false [] false true.
Proof.
  destruct p as [s|n|n]; cbn [wf_piece]; intros H.
  - now apply xscan_lit.
  - now apply xscan_var.
  - now apply xscan_esc.
Qed.

(* the invariant of DESIGN §7 C02: after a prefix of pieces the state is (acc,0,false,"",false,true) *)
Lemma xscan_tmpl e t : forall acc, wf_tmpl t = true ->
  fold_left (xstep e) (render_tmpl t) (mk_xst acc 0 false [] false true)
  = mk_xst (acc ++ denote_tmpl e t) 0 false [] false true.
Proof.
  induction t as [|p t IH]; intros acc H.
  - cbn. now rewrite app_nil_r.
  - cbn [wf_tmpl forallb] in H. apply andb_prop in H. destruct H as [Hp Ht].
    unfold render_tmpl, denote_tmpl in *. cbn [map concat].
    rewrite fold_left_app, xscan_piece by assumption. rewrite IH by assumption.
    now rewrite <- app_assoc.
Qed.

Theorem expand_tmpl : forall t e, wf_tmpl t = true ->
  expand_by_wrapper (render_tmpl t) e = of_text (denote_tmpl e t).
Proof.
  intros t e H. unfold expand_by_wrapper, xscan, xinit.
  rewrite xscan_tmpl by assumption. cbn [app]. reflexivity.
Qed.

(* ------------------------------------------------------------------------------------------- *)
(* %{name} *)

Theorem expand_spread : forall n e, name_ok n = true ->
  expand_by_wrapper (render_spread n) e = spread_of (lookup_or_empty e n).
Proof.
  intros n e H. unfold expand_by_wrapper, xscan, xinit, render_spread.
  change (c_pct :: c_lbrace :: n ++ [c_rbrace]) with ([c_pct; c_lbrace] ++ n ++ [c_rbrace]).
  rewrite !fold_left_app, xstep_open_multi, xscan_key by assumption.
  cbn [fold_left app]. rewrite xstep_close. reflexivity.
Qed.

(* ------------------------------------------------------------------------------------------- *)
(* reparse_arguments = words, for values without '#' and without a word-initial quote *)

Definition cont (fuel : nat) (fl : flags) (r : pres (str * option str)) : pres (list str) :=
  match r with
  | PErr e => PErr e
  | POk (_, None) => POk []
  | POk (rest, Some a) =>
    match parse_args_fuel fuel fl rest with
    | PErr e => PErr e
    | POk args => POk (a :: args)
    end
  end.
Lemma parse_args_fuel_S f fl l : parse_args_fuel (S f) fl l = cont f fl (skip fl l).
Proof. reflexivity. Qed.

Lemma in_arg_rearg_step c l acc : (c =? c_sp) = false ->
  in_arg fl_rearg (c :: l) acc false false false = in_arg fl_rearg l (c :: acc) false false false.
Proof.
  intros H1. cbn [in_arg fl_rearg control_as_char allow_control stop_on_equals andb negb].
  rewrite H1, andb_false_r. destruct (c =? c_bs); reflexivity.
Qed.
Lemma in_arg_rearg_sp l acc :
  in_arg fl_rearg (c_sp :: l) acc false false false = POk (c_sp :: l, finish acc false).
Proof. reflexivity. Qed.
Lemma skip_sp fl l : skip fl (c_sp :: l) = skip fl l.
Proof. reflexivity. Qed.
Lemma skip_rearg_start c l : (c =? c_sp) = false -> (c =? c_quote) = false ->
  skip fl_rearg (c :: l) = in_arg fl_rearg l [c] false false false.
Proof.
  intros H1 H3. cbn [skip fl_rearg control_as_char allow_control allow_quotes negb].
  rewrite andb_false_r, H1, H3. destruct (c =? c_bs); reflexivity.
Qed.

Lemma finish_nonempty acc : acc <> [] -> finish acc false = Some (rev acc).
Proof. destruct acc; [congruence | reflexivity]. Qed.

Lemma has_char_cons c x s : has_char c (x :: s) = (c =? x) || has_char c s.
Proof. reflexivity. Qed.

Lemma rearg_words_joint : forall l,
  (forall cur f, cur <> [] -> word_initial_quote_from false l = false ->
     (length l < f)%nat ->
     cont f fl_rearg (in_arg fl_rearg l cur false false false) = POk (words_aux l cur)) /\
  (forall f, word_initial_quote_from true l = false ->
     (length l <= f)%nat ->
     cont f fl_rearg (skip fl_rearg l) = POk (words_aux l [])).
Proof.
  induction l as [|c l [IHA IHB]]; split.
  - intros cur f Hc _ Hf. cbn [in_arg]. rewrite finish_nonempty by assumption.
    destruct f as [|f]; [inversion Hf|]. cbn. destruct cur; [congruence | reflexivity].
  - intros f _ _. reflexivity.
  - intros cur f Hc Hq Hf.
    cbn [word_initial_quote_from andb orb] in Hq.
    destruct (c =? c_sp) eqn:Esp.
    + apply N.eqb_eq in Esp. subst c. rewrite in_arg_rearg_sp, finish_nonempty by assumption.
      destruct f as [|f]; [inversion Hf|]. cbn [cont]. rewrite parse_args_fuel_S, skip_sp.
      cbn [length] in Hf. rewrite IHB by (try assumption; lia).
      cbn [words_aux]. replace (c_sp =? c_sp) with true by reflexivity.
      destruct cur; [congruence | reflexivity].
    + rewrite in_arg_rearg_step by assumption. cbn [length] in Hf.
      rewrite IHA by (try assumption; try discriminate; lia).
      cbn [words_aux]. now rewrite Esp.
  - intros f Hq Hf.
    cbn [word_initial_quote_from andb] in Hq. apply orb_false_iff in Hq. destruct Hq as [Hq1 Hq].
    cbn [length] in Hf.
    destruct (c =? c_sp) eqn:Esp.
    + apply N.eqb_eq in Esp. subst c. rewrite skip_sp.
      cbn [words_aux]. replace (c_sp =? c_sp) with true by reflexivity.
      apply IHB; try assumption; lia.
    + rewrite skip_rearg_start by assumption.
      rewrite IHA by (try assumption; try discriminate; lia).
      cbn [words_aux]. now rewrite Esp.
Qed.

Theorem reparse_words : forall v, known_spread_value v = false ->
  reparse_arguments v = POk (opt_list (words v)).
Proof.
  intros v Hq. unfold known_spread_value, known_spread_quote in Hq.
  unfold reparse_arguments, parse_arguments_with. rewrite parse_args_fuel_S.
  destruct (rearg_words_joint v) as [_ B]. rewrite B; auto.
Qed.

Lemma spread_of_words v : known_spread_value v = false -> spread_of v = Multi (words v).
Proof.
  intros H. destruct v as [|c v]; [reflexivity|].
  unfold spread_of. rewrite reparse_words by assumption.
  destruct (words (c :: v)); reflexivity.
Qed.

Theorem expand_spread_words : forall n e, name_ok n = true ->
  known_spread_value (lookup_or_empty e n) = false ->
  expand_by_wrapper (render_spread n) e = Multi (words (lookup_or_empty e n)).
Proof. intros n e Hn Hk. rewrite expand_spread by assumption. now apply spread_of_words. Qed.

(* ------------------------------------------------------------------------------------------- *)
(* binding a whole argument list *)

(* what the model binds for one written argument, whatever the values are *)
Definition model_arg (e : env) (a : warg) : list str :=
  match a with
  | WT t => [denote_tmpl e t]
  | WSpread n => bound_of (spread_of (lookup_or_empty e n))
  end.

Lemma bound_of_text s : bound_of (of_text s) = [s].
Proof. destruct s; reflexivity. Qed.

Theorem bind_model : forall args e, forallb wf_arg args = true ->
  bind_args e (map render_arg args) = concat (map (model_arg e) args).
Proof.
  induction args as [|a args IH]; intros e H; [reflexivity|].
  cbn [forallb] in H. apply andb_prop in H. destruct H as [Ha Hr].
  cbn [map bind_args concat]. rewrite IH by assumption. f_equal.
  destruct a as [t|n]; cbn [render_arg model_arg wf_arg] in *.
  - rewrite expand_tmpl by assumption. apply bound_of_text.
  - now rewrite expand_spread.
Qed.

Theorem bind_spec : forall args e, forallb wf_arg args = true ->
  existsb (known_arg e) args = false ->
  bind_args e (map render_arg args) = denote_args e args.
Proof.
  intros args e H K. rewrite bind_model by assumption. unfold denote_args. f_equal.
  apply map_ext_in. intros a Ha.
  destruct a as [t|n]; [reflexivity|]. cbn [model_arg denote_arg].
  assert (Hk : known_arg e (WSpread n) = false).
  { destruct (known_arg e (WSpread n)) eqn:E; [|reflexivity].
    assert (existsb (known_arg e) args = true) by (apply existsb_exists; eauto). congruence. }
  cbn [known_arg] in Hk. now rewrite spread_of_words.
Qed.

(* exactly one received argument per non-spread written argument *)
Definition arg_count (e : env) (a : warg) : nat :=
  match a with
  | WT _ => 1%nat
  | WSpread n => length (words (lookup_or_empty e n))
  end.

Lemma length_concat_map {A B} (f : A -> list B) l :
  length (concat (map f l)) = fold_right (fun a k => (length (f a) + k)%nat) 0%nat l.
Proof. induction l as [|a l IH]; [reflexivity|]. cbn. now rewrite app_length, IH. Qed.

Theorem bind_count : forall args e, forallb wf_arg args = true ->
  existsb (known_arg e) args = false ->
  length (bind_args e (map render_arg args))
  = fold_right (fun a k => (arg_count e a + k)%nat) 0%nat args.
Proof.
  intros args e H K. rewrite bind_spec by assumption. unfold denote_args.
  rewrite length_concat_map. clear. induction args as [|a args IH]; [reflexivity|].
  cbn [fold_right]. rewrite IH. destruct a; reflexivity.
Qed.

(* the non-spread part of the count statement needs no hypothesis on the values at all *)
Theorem bind_count_templates : forall ts e, forallb wf_tmpl ts = true ->
  bind_args e (map render_tmpl ts) = map (denote_tmpl e) ts.
Proof.
  induction ts as [|t ts IH]; intros e H; [reflexivity|].
  cbn [forallb] in H. apply andb_prop in H. destruct H as [Ha Hr].
  cbn [map bind_args]. rewrite IH, expand_tmpl by assumption. now rewrite bound_of_text.
Qed.

(* ------------------------------------------------------------------------------------------- *)
(* refuted literal readings: witnesses of the known-finding classes *)

Definition s_v : str := [118].                      (* v *)
Definition env1 (v : str) : env := env_of_list [(s_v, v)].

(* KF-C02-1a: quotes in a spread value group words and are stripped *)
Definition w_quote : str := [97; 32; 34; 98; 32; 99; 34].        (* a "b c" *)
Lemma spread_quote_refuted :
  name_ok s_v = true /\
  expand_by_wrapper (render_spread s_v) (env1 w_quote) = Multi [[97]; [98; 32; 99]] /\
  words w_quote = [[97]; [34; 98]; [99; 34]].
Proof. vm_compute. auto. Qed.
(* KF-C02-1b: an unterminated quote makes the whole spread one empty argument *)
Definition w_quote_open : str := [97; 32; 34; 98].               (* a QUOTE b *)
Lemma spread_quote_open_refuted :
  expand_by_wrapper (render_spread s_v) (env1 w_quote_open) = ENone /\
  bind_args (env1 w_quote_open) [render_spread s_v] = [[]] /\
  words w_quote_open = [[97]; [34; 98]].
Proof. vm_compute. auto. Qed.
(* former KF-C02-2 (repaired): '#' in a spread value is data; a#b c spreads to [a#b; c] *)
Definition w_hash : str := [97; 35; 98; 32; 99].                 (* a#b c *)
Lemma spread_hash_example :
  known_spread_value w_hash = false /\
  expand_by_wrapper (render_spread s_v) (env1 w_hash) = Multi [[97; 35; 98]; [99]] /\
  words w_hash = [[97; 35; 98]; [99]].
Proof. vm_compute. auto. Qed.
(* KF-C02-3: a '%' inside the name of \${name} flips the whole argument to spread mode *)
Definition t_esc_pct : tmpl := [Lit [120; 32; 121]; Esc [97; 37; 98]].   (* x y\${a%b} *)
Lemma esc_pct_refuted :
  forallb wf_piece_literal t_esc_pct = true /\ known_esc_tmpl t_esc_pct = true /\
  expand_by_wrapper (render_tmpl t_esc_pct) env_empty = Multi [[120]; [121; 36; 123; 97; 37; 98; 125]] /\
  of_text (denote_tmpl env_empty t_esc_pct) = Single [120; 32; 121; 36; 123; 97; 37; 98; 125].
Proof. vm_compute. auto. Qed.
(* KF-C02-3, second shape: a backslash before '$' inside the name is swallowed *)
Definition t_esc_bs : tmpl := [Esc [97; 92; 36; 98]].                    (* \${a\$b} *)
Lemma esc_bs_refuted :
  forallb wf_piece_literal t_esc_bs = true /\ known_esc_tmpl t_esc_bs = true /\
  expand_by_wrapper (render_tmpl t_esc_bs) env_empty = Single [36; 123; 97; 36; 98; 125] /\
  of_text (denote_tmpl env_empty t_esc_bs) = Single [36; 123; 97; 92; 36; 98; 125].
Proof. vm_compute. auto. Qed.

(* non-vacuity / no re-scan: a value that looks like syntax is inserted verbatim *)
Definition w_hostile : str := [36; 123; 118; 125; 32; 37; 123; 118; 125; 34; 92; 35; 10].  (* ${v} %{v} QUOTE BACKSLASH # LF *)
Lemma verbatim_example :
  wf_tmpl [Lit [97]; Var s_v; Esc s_v] = true /\
  expand_by_wrapper (render_tmpl [Lit [97]; Var s_v; Esc s_v]) (env1 w_hostile)
  = Single ([97] ++ w_hostile ++ [36; 123; 118; 125]).
Proof. vm_compute. auto. Qed.
