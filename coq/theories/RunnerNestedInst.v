(* RunnerNestedInst.v — executable instance for the nested-flow part of the C13 correspondence run
   (definitions only).  Base commands are scripted (RunnerScripted.v) and log every invocation in
   the command state; a name in the alias table is a command that runs a nested flow: its body is
   evaluated by eval_instructions (SdkErr.v) over the base commands, and an optional override says
   what the enclosing command (an `if` with a condition function) answers when the flow ends
   normally. *)
From stdpp Require Import gmap.
Require Import DS.Base DS.Runner DS.RunnerScripted DS.SdkErr.
Local Open Scope nat_scope.

Record nstate := NState {
  n_cmds : sstate;
  n_alias : gmap str (program * option result);
  n_log : list call }.

Definition fuel_msg : str := [102;117;101;108]%N.

Definition nb_exists (st : nstate) (name : str) : bool := s_exists (n_cmds st) name.

(* a base command: log, then answer like the scripted command *)
Definition nb_cmd (name : str) (a : inv) (w : world nstate) : result * world nstate :=
  let st := cst w in
  let rw := s_cmd_run name a (World (vars w) (n_cmds st) (halt w)) in
  (fst rw, World (vars (snd rw)) (NState (cst (snd rw)) (n_alias st) (n_log st ++ [Call name a])) (halt (snd rw))).

Definition n_exists (st : nstate) (name : str) : bool :=
  match n_alias st !! name with Some _ => true | None => nb_exists st name end.

Definition n_cmd (name : str) (a : inv) (w : world nstate) : result * world nstate :=
  match n_alias (cst w) !! name with
  | Some (body, ovr) =>
    match alias_run nstate nb_exists nb_cmd (fun _ w0 => w0) (fun _ w1 => w1) (fun _ _ => false) 500 0 body a w with
    | Some (r, w', _) =>
      (match r, ovr with Continue _, Some r' => r' | _, _ => r end, w')
    | None => (Crash (Msg fuel_msg), w)
    end
  | None => nb_cmd name a w
  end.

Definition n_run (fuel : nat) (p : program) (cmds : list (str * (list sres * bool)))
                 (aliases : list (str * (program * option result))) : outcome nstate :=
  run nstate n_exists n_cmd (fun _ => false) fuel p
      (World ∅ (NState (mk_state cmds) (list_to_map aliases) []) false).

Definition n_log_of (w : world nstate) : list call := n_log (cst w).
Definition n_var (w : world nstate) (v : str) : option str := vars w !! v.
(* the log of a failed run is read from the configuration before the failing instruction *)
Definition n_iter (n : nat) (p : program) (cmds : list (str * (list sres * bool)))
                  (aliases : list (str * (program * option result))) : option (config nstate) :=
  iter_nohalt nstate n_exists n_cmd p (label_table p) n
      (init (World ∅ (NState (mk_state cmds) (list_to_map aliases) []) false)).
