(* RunnerSpec.v — the abstract machine of property C03 as an inductive relation, one rule per
   sentence of the property statement.  Definitions only; RunnerProof.v proves that the model of
   runner.rs (Runner.v) refines it and is complete for it.

   Nothing here is shared with the model except the data types: the label table is the declarative
   "last line carrying the label", the halt test is a disjunction, the fetch is a length
   comparison, storing a result is [assign]. *)
From stdpp Require Import gmap.
Require Import DS.Base DS.Runner.
Local Open Scope nat_scope.

Section Spec.
Variable cstate : Type.
Variable exists_cmd : cstate -> str -> bool.
Variable cmd : str -> inv -> world cstate -> result * world cstate.
Variable ext : nat -> bool.
Variable prog : program.

Notation world := (world cstate).
Notation config := (config cstate).
Notation final := (final cstate).

(* "the line carrying that label": the last one, when several lines carry it *)
Definition carries (k : nat) (l : str) : Prop :=
  exists i, prog !! k = Some i /\ label_of i = Some l.
Definition last_label (l : str) (k : nat) : Prop :=
  carries k l /\ forall j, k < j -> ~ carries j l.
Definition no_label (l : str) : Prop := forall j, ~ carries j l.

(* "continue stores (or, with no value, deletes) the output variable" *)
Definition assign (w : world) (ov : option str) (o : option str) : world :=
  match ov, o with
  | None, _ => w
  | Some v, Some x => World (<[v := x]> (vars w)) (cst w) (halt w)
  | Some v, None => World (delete v (vars w)) (cst w) (halt w)
  end.

(* the run is at instruction [i]: the flag has not been seen and the line exists *)
Definition at_instr (c : config) (i : instr) : Prop :=
  halt (wd c) = false /\ ext (polls c) = false /\ prog !! pc c = Some i.

(* the instruction at the current line names a registered command, which is invoked with the
   instruction's arguments, output variable name and line index and answers [r] *)
Definition invokes (c : config) (i : instr) (s : sinstr) (k : call) (r : result) (w' : world) : Prop :=
  at_instr c i /\ i_type i = IScript s /\
  exists name, s_cmd s = Some name /\ exists_cmd (cst (wd c)) name = true /\
               k = Call name (Inv (s_args s) (s_out s) (pc c)) /\
               cmd name (c_inv k) (wd c) = (r, w').

(* "reports the message, source line and source file to the on_error command if one exists" *)
Inductive handled (w : world) (msg : str) (m : meta) : option result -> world -> list call -> Prop :=
| H_absent : exists_cmd (cst w) on_error_name = false -> handled w msg m None w []
| H_called r w' a :
    exists_cmd (cst w) on_error_name = true ->
    a = Inv [msg; nat_str (default 0 (m_line m)); default [] (m_src m)] None 0 ->
    cmd on_error_name a w = (r, w') ->
    handled w msg m (Some r) w' [Call on_error_name a].

(* the handler lets the script go on unless it exits or crashes *)
Definition survives (r : option result) : Prop :=
  match r with Some (Exit _) | Some (Crash _) => False | _ => True end.

(* bookkeeping shared by all rules: one more poll, one more trace entry *)
Definition moves (c : config) (line : nat) (w : world) (calls : list call) : config :=
  Config line w (S (polls c)) (trace c ++ [Event (pc c) calls]).
Definition logged (c : config) (calls : list call) : list event :=
  trace c ++ [Event (pc c) calls].

Inductive spec_step (c : config) : config + final * list event -> Prop :=
(* the flag is looked at before anything else; a halted run succeeds with the context as it is *)
| S_halted :
    halt (wd c) = true \/ ext (polls c) = true ->
    spec_step c (inr (FOk Halted (wd c), trace c))
(* running past the last line (also by a jump) ends the run successfully *)
| S_end :
    halt (wd c) = false -> ext (polls c) = false -> length prog <= pc c ->
    spec_step c (inr (FOk ReachedEnd (wd c), trace c))
(* empty and pre-processor lines do nothing *)
| S_blank i :
    at_instr c i -> i_type i = IEmpty \/ i_type i = IPre ->
    spec_step c (inl (moves c (S (pc c)) (wd c) []))
(* a script line without a command behaves as a continue without value *)
| S_nocmd i s :
    at_instr c i -> i_type i = IScript s -> s_cmd s = None ->
    spec_step c (inl (moves c (S (pc c)) (assign (wd c) (s_out s) None) []))
(* an unknown command stops the run with an error naming the instruction's source line *)
| S_unknown i s name :
    at_instr c i -> i_type i = IScript s -> s_cmd s = Some name ->
    exists_cmd (cst (wd c)) name = false ->
    spec_step c (inr (FErr (RCrash (NotFound name)) (i_meta i), logged c []))
(* continue: store or delete the output variable, next line *)
| S_continue i s k o w' :
    invokes c i s k (Continue o) w' ->
    spec_step c (inl (moves c (S (pc c)) (assign w' (s_out s) o) [k]))
(* goto label: the last line carrying it *)
| S_goto_label i s k o l w' n :
    invokes c i s k (GoTo o (GLabel l)) w' -> last_label l n ->
    spec_step c (inl (moves c n (assign w' (s_out s) o) [k]))
(* goto an unknown label stops the run with an error naming the instruction's source line *)
| S_goto_nolabel i s k o l w' :
    invokes c i s k (GoTo o (GLabel l)) w' -> no_label l ->
    spec_step c (inr (FErr (RLabel l) (i_meta i), logged c [k]))
(* goto line: any line number, in range or not *)
| S_goto_line i s k o n w' :
    invokes c i s k (GoTo o (GLine n)) w' ->
    spec_step c (inl (moves c n (assign w' (s_out s) o) [k]))
(* exit stops the run; the value is stored *)
| S_exit i s k o w' :
    invokes c i s k (Exit o) w' ->
    (forall v z, o = Some v -> parse_i32 v = Some z -> z = 0%Z) ->
    spec_step c (inr (FOk ExitCalled (assign w' (s_out s) o), logged c [k]))
(* ... an integer non-zero exit value makes the run fail *)
| S_exit_code i s k v z w' :
    invokes c i s k (Exit (Some v)) w' -> parse_i32 v = Some z -> z <> 0%Z ->
    spec_step c (inr (FErr (RExitCode z) (i_meta i), logged c [k]))
(* error: store "false", report (message, source line, source file) to on_error if there is one,
   continue with the next line *)
| S_error i s k e w' h w'' ks :
    invokes c i s k (Error e) w' ->
    handled (assign w' (s_out s) (Some false_str)) e (i_meta i) h w'' ks -> survives h ->
    spec_step c (inl (moves c (S (pc c)) w'' (k :: ks)))
(* ... unless the handler exits *)
| S_error_exit i s k e w' o w'' ks :
    invokes c i s k (Error e) w' ->
    handled (assign w' (s_out s) (Some false_str)) e (i_meta i) (Some (Exit o)) w'' ks ->
    spec_step c (inr (FErr RHandlerExit (i_meta i), logged c (k :: ks)))
(* ... or crashes *)
| S_error_crash i s k e w' e' w'' ks :
    invokes c i s k (Error e) w' ->
    handled (assign w' (s_out s) (Some false_str)) e (i_meta i) (Some (Crash e')) w'' ks ->
    spec_step c (inr (FErr (RHandlerCrash e') (i_meta i), logged c (k :: ks)))
(* crash stops the run with an error naming the instruction's source line *)
| S_crash i s k e w' :
    invokes c i s k (Crash e) w' ->
    spec_step c (inr (FErr (RCrash e) (i_meta i), logged c [k])).

(* a run: steps until a final answer *)
Inductive spec_run (c : config) : final -> list event -> Prop :=
| R_final f t : spec_step c (inr (f, t)) -> spec_run c f t
| R_more c' f t : spec_step c (inl c') -> spec_run c' f t -> spec_run c f t.

(* running a whole program from the embedder's context *)
Definition spec_program (w : world) (f : final) (t : list event) : Prop := spec_run (init w) f t.

End Spec.
