(* CollectionsJoinStr.v — the two facts about other properties' models that the array_join
   translation (CollectionsJoin.v) needs, proved in the style of those developments (stdlib lists):
     rebound_ok   `if not <cmd> <arg>` hands <arg> to <cmd> unchanged when <arg> is in none of the
                  classes of C09's finding F7 (EvalSerFacts.roundtrip, twice)
     aj_trim_ok   strlen / calc / substring cut exactly the trailing separator (C16: Strings*.v) *)
Require Import DS.Base DS.Utf8 DS.Strings DS.StringsProof DS.Parser DS.Expansion DS.EvalSer DS.EvalSerFacts.
Require DS.Collections DS.CollectionsJoin DS.CollectionsProof.

Lemma rebound_ok e cmd a :
  is_cmd cmd = true -> safe cmd = true -> cls_E cmd = false ->
  DS.CollectionsJoin.ok_arg a = true ->
  DS.CollectionsJoin.rebound e cmd a = Some [a].
Proof.
  intros Hc Hs He Ha. unfold DS.CollectionsJoin.ok_arg in Ha.
  apply andb_prop in Ha. destruct Ha as [Ha HW]. apply andb_prop in Ha. destruct Ha as [Hsa HE].
  unfold DS.CollectionsJoin.rebound.
  match goal with |- context [eval_call e ?l] =>
    replace (eval_call e l) with (Call None None DS.CollectionsJoin.t_not [cmd; a])
  end.
  2:{ symmetry. apply roundtrip; [reflexivity| | |exact HW].
      - cbn [forallb]. now rewrite Hs, Hsa.
      - cbn [head_ok]. now rewrite He. }
  rewrite DS.CollectionsProof.str_eqb_refl.
  match goal with |- context [eval_call e ?l] =>
    replace (eval_call e l) with (Call None None cmd [a])
  end.
  2:{ symmetry. apply roundtrip; [exact Hc| |exact HE|exact HW]. cbn [forallb]. now rewrite Hsa. }
  now rewrite DS.CollectionsProof.str_eqb_refl.
Qed.

Lemma show_Z_of_N n : show_Z (Z.of_N n) = show_N n.
Proof. destruct n; reflexivity. Qed.

Lemma aj_trim_ok (x sep : str) :
  sep <> [] -> (Z.of_N (blen (x ++ sep)) <= two53)%Z ->
  DS.CollectionsJoin.aj_trim (x ++ sep) sep = Some x.
Proof.
  intros Hne Hsz. unfold DS.CollectionsJoin.aj_trim. cbn [cmd_length].
  unfold DS.CollectionsJoin.calc_sub. rewrite !digits_val_show_N.
  assert (Hsep : 1 <= blen sep).
  { destruct sep as [|c r]; [contradiction|]. cbn [blen]. pose proof (utf8_len_bounds c). lia. }
  rewrite blen_app in *.
  assert (Hr : ((- two53 <=? Z.of_N (blen x)) && (Z.of_N (blen x) <=? two53))%Z = true).
  { apply andb_true_intro. unfold two53 in *. split; apply Z.leb_le; lia. }
  assert (Hi : forall z, (0 <= z <= two53)%Z -> ((i64_min <=? z) && (z <=? i64_max))%Z = true).
  { intros z Hz. apply andb_true_intro. unfold two53, i64_min, i64_max in *. split; apply Z.leb_le; lia. }
  unfold cmd_calc_expr. cbn [eval_expr].
  assert (H1 : (Z.of_N (blen x + blen sep) <=? i64_max)%Z = true)
    by (apply Z.leb_le; unfold two53, i64_max in *; lia).
  assert (H2 : (Z.of_N (blen sep) <=? i64_max)%Z = true)
    by (apply Z.leb_le; unfold two53, i64_max in *; lia).
  rewrite H1, H2. cbn [N.eqb Pos.eqb]. unfold in_i64.
  replace (Z.of_N (blen x + blen sep) - Z.of_N (blen sep))%Z with (Z.of_N (blen x)) by lia.
  rewrite Hi by (unfold two53 in *; lia). rewrite Hr.
  rewrite show_Z_of_N.
  match goal with |- context [cmd_substring ?l] => replace (cmd_substring l) with (RVal x) end;
    [reflexivity|].
  symmetry. transitivity (substring3 (x ++ sep) 0 (Z.of_N (blen x))).
  - apply cmd_substring3; [reflexivity|]. apply parse_int_show_N. unfold two53, i64_min, i64_max in *. lia.
  - apply substring3_spec. split; [lia|]. split; [rewrite blen_app; lia|].
    exists [], sep. split; [reflexivity|]. split; reflexivity.
Qed.
