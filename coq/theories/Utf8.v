(* Utf8.v — byte offsets into the UTF-8 encoding of a code-point list (definitions only).

   A Rust [String] is modelled as its list of Unicode scalar values ([Base.str]).  The commands of
   C16 (length, indexof, last_indexof, substring) count in BYTES of the UTF-8 encoding, so the model
   needs the byte length of every scalar value and the notion of a char boundary; it does not need
   the bytes themselves (those are in Codec*.v, property C17).

   Rust facts mirrored here (core::str):
     [char::len_utf8]            = [utf8_len]
     [str::len]                  = [blen]
     [str::is_char_boundary i]   = [is_boundary s i]   (0, len, or the first byte of a character)
     [str::get (a..b)]           = [slice_bytes s a b] (None unless a <= b and both are boundaries)  *)
Require Import DS.Base.

Definition utf8_len (c : char) : N :=
  if c <? 128 then 1 else if c <? 2048 then 2 else if c <? 65536 then 3 else 4.

(* a Unicode scalar value: a code point that is not a surrogate *)
Definition scalar (c : char) : bool := (c <? 55296) || ((57343 <? c) && (c <? 1114112)).

Fixpoint blen (s : str) : N :=
  match s with
  | [] => 0
  | c :: s' => utf8_len c + blen s'
  end.

(* the prefix of [s] that occupies exactly [k] bytes, if [k] is a char boundary of [s] *)
Fixpoint take_bytes (s : str) (k : N) : option str :=
  match s with
  | [] => if k =? 0 then Some [] else None
  | c :: s' =>
      if k =? 0 then Some []
      else if utf8_len c <=? k then
        match take_bytes s' (k - utf8_len c) with
        | Some p => Some (c :: p)
        | None => None
        end
      else None
  end.

(* the rest of [s] after exactly [k] bytes, if [k] is a char boundary of [s] *)
Fixpoint drop_bytes (s : str) (k : N) : option str :=
  match s with
  | [] => if k =? 0 then Some [] else None
  | c :: s' =>
      if k =? 0 then Some s
      else if utf8_len c <=? k then drop_bytes s' (k - utf8_len c)
      else None
  end.

Definition is_boundary (s : str) (k : N) : bool :=
  match take_bytes s k with Some _ => true | None => false end.

(* [s.get(a..b)] *)
Definition slice_bytes (s : str) (a b : N) : option str :=
  if a <=? b then
    match drop_bytes s a with
    | Some r => take_bytes r (b - a)
    | None => None
    end
  else None.
