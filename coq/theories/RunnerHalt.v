(* RunnerHalt.v — C13: the halt flag stops the run at the next instruction boundary.
   The flag is [halt] of the world (raised by a command) or'ed with the oracle [ext] on poll
   numbers (raised by the embedder / another thread).  [iter_nohalt n c] is the configuration the
   machine that never looks at the flag reaches after n instruction executions. *)
From stdpp Require Import gmap.
Require Import DS.Base DS.Runner.
Local Open Scope nat_scope.

Section Halt.
Variable cstate : Type.
Variable exists_cmd : cstate -> str -> bool.
Variable cmd : str -> inv -> world cstate -> result * world cstate.
Variable ext : nat -> bool.
Variable prog : program.
Variable lt : gmap str nat.

Notation config := (config cstate).
Notation step := (step cstate exists_cmd cmd ext prog lt).
Notation exec := (exec cstate exists_cmd cmd prog lt).
Notation loop := (loop cstate exists_cmd cmd ext prog lt).
Notation iter := (iter_nohalt cstate exists_cmd cmd prog lt).
Notation loop_nohalt := (loop_nohalt cstate exists_cmd cmd prog lt).
Notation seen := (flag_seen cstate ext).

(* no poll before the k-th sees the flag, along the un-halted run from c *)
Definition unseen_before (c : config) (k : nat) : Prop :=
  forall j cj, j < k -> iter j c = Some cj -> seen cj = false.

Lemma iter_S n c : iter (S n) c = match exec c with inl c' => iter n c' | inr _ => None end.
Proof. reflexivity. Qed.

Lemma step_unseen c : seen c = false -> step c = exec c.
Proof. unfold Runner.step. intros ->. reflexivity. Qed.

Lemma step_seen c : seen c = true -> step c = inr (FOk Halted (wd c), trace c).
Proof. unfold Runner.step. intros ->. reflexivity. Qed.

(* one execution appends exactly one trace entry and counts one more poll *)
Lemma exec_inl c c' : exec c = inl c' ->
  polls c' = S (polls c) /\ exists ev, trace c' = trace c ++ [ev].
Proof.
  unfold Runner.exec. destruct (prog !! pc c) as [i|]; [|discriminate].
  destruct (ri_res _) as [o|o [l|n]|e|e|o].
  - intros [= <-]. cbn. eauto.
  - destruct (lt !! l); [|discriminate]. intros [= <-]. cbn. eauto.
  - intros [= <-]. cbn. eauto.
  - destruct (oe_err _); [discriminate|]. intros [= <-]. cbn. eauto.
  - discriminate.
  - destruct (exit_code o); discriminate.
Qed.

Lemma exec_inr c f t : exec c = inr (f, t) -> exists evs, t = trace c ++ evs /\ length evs <= 1.
Proof.
  unfold Runner.exec. destruct (prog !! pc c) as [i|].
  2:{ intros [= <- <-]. exists []. rewrite app_nil_r. auto. }
  destruct (ri_res _) as [o|o [l|n]|e|e|o].
  - discriminate.
  - destruct (lt !! l); [discriminate|]. intros [= <- <-]. eexists [_]. auto.
  - discriminate.
  - destruct (oe_err _); [|discriminate]. intros [= <- <-]. eexists [_]. auto.
  - intros [= <- <-]. eexists [_]. auto.
  - destruct (exit_code o); intros [= <- <-]; eexists [_]; auto.
Qed.

Lemma iter_trace n : forall c cn, iter n c = Some cn ->
  polls cn = polls c + n /\ exists evs, trace cn = trace c ++ evs /\ length evs = n.
Proof.
  induction n as [|n IH]; intros c cn.
  - intros [= <-]. split; [lia|]. exists []. rewrite app_nil_r. auto.
  - rewrite iter_S. destruct (exec c) as [c'|] eqn:E; [|discriminate]. intros H.
    destruct (exec_inl _ _ E) as (Hp & ev & Ht).
    destruct (IH _ _ H) as (Hp' & evs & Ht' & Hl).
    split; [lia|]. exists (ev :: evs). rewrite Ht', Ht, <- app_assoc. cbn. auto.
Qed.

Lemma iter_add k : forall m c ck, iter k c = Some ck -> iter (k + m) c = iter m ck.
Proof.
  induction k as [|k IH]; intros m c ck.
  - intros [= <-]. reflexivity.
  - cbn [Nat.add]. rewrite !iter_S. destruct (exec c) as [c'|]; [|discriminate]. apply IH.
Qed.

Lemma iter_prefix k n c ck cn : k <= n -> iter k c = Some ck -> iter n c = Some cn ->
  exists evs, trace cn = trace ck ++ evs.
Proof.
  intros Hle Hk Hn. replace n with (k + (n - k)) in Hn by lia.
  rewrite (iter_add _ _ _ _ Hk) in Hn. destruct (iter_trace _ _ _ Hn) as (_ & evs & Ht & _). eauto.
Qed.

(* while nobody has seen the flag the halting machine and the un-halted one walk together *)
Lemma loop_follows k : forall c ck fuel,
  iter k c = Some ck -> unseen_before c k -> loop (k + fuel) c = loop fuel ck.
Proof.
  induction k as [|k IH]; intros c ck fuel.
  - intros [= <-] _. reflexivity.
  - rewrite iter_S. destruct (exec c) as [c'|] eqn:E; [|discriminate]. intros Hk Hun.
    cbn [Nat.add Runner.loop]. rewrite step_unseen by (apply (Hun 0 c); [lia|reflexivity]).
    rewrite E. apply IH; [exact Hk|].
    intros j cj Hj Hi. apply (Hun (S j) cj); [lia|]. rewrite iter_S, E. exact Hi.
Qed.

(* C13, prefix form: if poll number k is the first that sees the flag, the run returns
   successfully with exactly the context and the trace the un-halted machine has after its
   first k instruction executions *)
Theorem halt_prefix c k ck fuel :
  iter k c = Some ck -> unseen_before c k -> seen ck = true -> k < fuel ->
  loop fuel c = Done (FOk Halted (wd ck)) (trace ck).
Proof.
  intros Hk Hun Hs Hf. replace fuel with (k + S (fuel - S k)) by lia.
  rewrite (loop_follows _ _ _ _ Hk Hun). cbn [Runner.loop]. rewrite step_seen by exact Hs. reflexivity.
Qed.

(* ... and that trace is the first k entries of the un-halted trace, however long that one gets *)
Theorem halt_trace_prefix c k ck n cn :
  trace c = [] -> iter k c = Some ck -> k <= n -> iter n c = Some cn ->
  trace ck = firstn k (trace cn) /\ length (trace ck) = k.
Proof.
  intros Ht Hk Hle Hn.
  destruct (iter_trace _ _ _ Hk) as (_ & evk & Htk & Hlk). rewrite Ht in Htk. cbn in Htk. subst evk.
  destruct (iter_prefix _ _ _ _ _ Hle Hk Hn) as (evs & Hevs).
  split; [|exact Hlk]. rewrite Hevs. rewrite <- Hlk at 1.
  rewrite firstn_app, firstn_all, Nat.sub_diag. cbn. rewrite app_nil_r. reflexivity.
Qed.

(* the same against a finished un-halted run *)
Lemma loop_nohalt_done fuel : forall c f t, loop_nohalt fuel c = Done f t ->
  exists n cn, iter n c = Some cn /\ exec cn = inr (f, t) /\ forall m, n < m -> iter m c = None.
Proof.
  induction fuel as [|fuel IH]; intros c f t; [discriminate|]. cbn [Runner.loop_nohalt].
  destruct (exec c) as [c'|[f' t']] eqn:E.
  - intros H. destruct (IH _ _ _ H) as (n & cn & Hn & He & Hm). exists (S n), cn.
    rewrite iter_S, E. repeat split; auto. intros [|m] Hlt; [lia|]. rewrite iter_S, E. apply Hm. lia.
  - intros [= <- <-]. exists 0, c. repeat split; auto. intros [|m] Hlt; [lia|]. rewrite iter_S, E. reflexivity.
Qed.

Theorem halt_trace_prefix_done c k ck fuel f t :
  trace c = [] -> iter k c = Some ck -> loop_nohalt fuel c = Done f t ->
  trace ck = firstn k t /\ length (trace ck) = k.
Proof.
  intros Ht Hk Hd. destruct (loop_nohalt_done _ _ _ _ Hd) as (n & cn & Hn & He & Hm).
  assert (Hle : k <= n).
  { destruct (le_lt_dec k n); [assumption|]. rewrite Hm in Hk by assumption. discriminate. }
  destruct (halt_trace_prefix _ _ _ _ _ Ht Hk Hle Hn) as (Hp & Hl). split; [|exact Hl].
  destruct (exec_inr _ _ _ He) as (evs & -> & _). rewrite Hp.
  destruct (iter_trace _ _ _ Hn) as (_ & evn & Htn & Hln). rewrite Ht in Htn. cbn in Htn. subst evn.
  rewrite firstn_app. replace (k - length (trace cn)) with 0 by lia. cbn. rewrite app_nil_r. reflexivity.
Qed.

(* the first poll that sees the flag, given that some poll would *)
Lemma first_seen n : forall c cn, iter n c = Some cn -> seen cn = true ->
  exists k ck, k <= n /\ iter k c = Some ck /\ seen ck = true /\ unseen_before c k.
Proof.
  induction n as [|n IH]; intros c cn.
  - intros [= <-] Hs. exists 0, c. repeat split; auto. intros j cj Hj. lia.
  - destruct (seen c) eqn:Hc.
    + intros _ _. exists 0, c. repeat split; auto; [lia|]. intros j cj Hj. lia.
    + rewrite iter_S. destruct (exec c) as [c'|] eqn:E; [|discriminate]. intros Hn Hs.
      destruct (IH _ _ Hn Hs) as (k & ck & Hle & Hk & Hsk & Hun).
      exists (S k), ck. repeat split; [lia|rewrite iter_S, E; exact Hk|exact Hsk|].
      intros [|j] cj Hj; [intros [= <-]; exact Hc|]. rewrite iter_S, E. apply Hun. lia.
Qed.

(* a run that would never end keeps executing instructions *)
Lemma nonterminating_iter n : forall c, (forall fuel, loop_nohalt fuel c = OutOfFuel) ->
  exists cn, iter n c = Some cn.
Proof.
  induction n as [|n IH]; intros c Hnt; [eauto|].
  rewrite iter_S. destruct (exec c) as [c'|[f t]] eqn:E.
  - apply IH. intros fuel. specialize (Hnt (S fuel)). cbn [Runner.loop_nohalt] in Hnt. rewrite E in Hnt. exact Hnt.
  - specialize (Hnt 1). cbn [Runner.loop_nohalt] in Hnt. rewrite E in Hnt. discriminate.
Qed.

(* C13, termination form: a program that never ends by itself returns successfully within n + 1
   iterations once the flag is up from poll n on, with the context of an instruction boundary *)
Theorem halt_terminates c n :
  (forall fuel, loop_nohalt fuel c = OutOfFuel) ->
  (forall p, polls c + n <= p -> ext p = true) ->
  exists k ck, k <= n /\ iter k c = Some ck /\
               forall fuel, k < fuel -> loop fuel c = Done (FOk Halted (wd ck)) (trace ck).
Proof.
  intros Hnt Hext. destruct (nonterminating_iter n c Hnt) as (cn & Hn).
  assert (Hs : seen cn = true).
  { unfold flag_seen. destruct (iter_trace _ _ _ Hn) as (Hp & _). rewrite Hext by lia. apply orb_true_r. }
  destruct (first_seen _ _ _ Hn Hs) as (k & ck & Hle & Hk & Hsk & Hun).
  exists k, ck. repeat split; auto. intros fuel Hf. eapply halt_prefix; eauto.
Qed.

(* the same when a command raises the flag: the run stops at the first boundary after it *)
Theorem halt_by_command c n cn :
  iter n c = Some cn -> halt (wd cn) = true ->
  exists k ck, k <= n /\ iter k c = Some ck /\
               forall fuel, k < fuel -> loop fuel c = Done (FOk Halted (wd ck)) (trace ck).
Proof.
  intros Hn Hh. assert (Hs : seen cn = true) by (unfold flag_seen; rewrite Hh; reflexivity).
  destruct (first_seen _ _ _ Hn Hs) as (k & ck & Hle & Hk & Hsk & Hun).
  exists k, ck. repeat split; auto. intros fuel Hf. eapply halt_prefix; eauto.
Qed.

(* a halted run never fails and never reports another end reason after the flag was seen; and
   conversely a run that ends Halted stopped at a boundary of the un-halted run *)
Theorem halted_is_boundary fuel : forall c w t,
  loop fuel c = Done (FOk Halted w) t ->
  exists k ck, iter k c = Some ck /\ unseen_before c k /\ seen ck = true /\ w = wd ck /\ t = trace ck.
Proof.
  induction fuel as [|fuel IH]; intros c w t; [discriminate|]. cbn [Runner.loop].
  destruct (seen c) eqn:Hc.
  - rewrite step_seen by exact Hc. intros [= <- <-]. exists 0, c. repeat split; auto. intros j cj Hj. lia.
  - rewrite step_unseen by exact Hc. destruct (exec c) as [c'|[f' t']] eqn:E.
    + intros H. destruct (IH _ _ _ H) as (k & ck & Hk & Hun & Hs & -> & ->).
      exists (S k), ck. rewrite iter_S, E. repeat split; auto.
      intros [|j] cj Hj; [intros [= <-]; exact Hc|]. rewrite iter_S, E. apply Hun. lia.
    + intros [= -> ->]. exfalso. revert E. unfold Runner.exec.
      destruct (prog !! pc c); [|discriminate].
      destruct (ri_res _) as [o|o [l|n]|e|e|o]; try discriminate.
      * destruct (lt !! l); discriminate.
      * destruct (oe_err _); discriminate.
      * destruct (exit_code o); discriminate.
Qed.

End Halt.
