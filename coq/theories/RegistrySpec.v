(* RegistrySpec.v — what the property says about the registry, as definitions (no proofs here).
   The registry is "a name table plus an alias table consulted first". *)
From stdpp Require Import gmap list sorting.
From Coq Require Import NArith.
Require Import DS.Registry.

(* every alias points to a registered name and is declared by it *)
Definition Inv (r : reg) : Prop :=
  forall a n, als r !! a = Some n -> exists decl, cmds r !! n = Some decl /\ a ∈ decl.

(* no alias points to a command that is gone *)
Definition NoDangling (r : reg) : Prop :=
  forall a n, als r !! a = Some n -> is_Some (cmds r !! n).

(* the property's refusal condition *)
Definition refused (r : reg) (n : name) (decl : list name) : Prop :=
  is_Some (cmds r !! n) \/ exists a, a ∈ decl /\ is_Some (als r !! a).
Global Instance refused_dec r n decl : Decision (refused r n decl).
Proof.
  unfold refused. apply or_dec; [apply _|].
  destruct (decide (Exists (fun a => is_Some (als r !! a)) decl)) as [H|H].
  - left. apply Exists_exists in H. exact H.
  - right. intros E. apply H. apply Exists_exists. exact E.
Defined.

(* map-level description of an accepted registration: the name table gets n, the alias table
   loses the key n (if any) and then maps every declared alias to n *)
Definition spec_set (r : reg) (n : name) (decl : list name) : option reg :=
  if decide (refused r n decl) then None
  else Some (Reg (<[n := decl]> (cmds r))
                 (list_to_map ((fun a => (a, n)) <$> decl) ∪ delete n (als r))).

(* map-level description of removal: the command goes, and exactly the aliases pointing to it *)
Definition spec_remove (r : reg) (x : name) : reg * bool :=
  let n := resolve r x in
  match cmds r !! n with
  | Some _ => (Reg (delete n (cmds r)) (filter (fun p => p.2 <> n) (als r)), true)
  | None => (r, false)
  end.

(* the registry changes of the script-level commands, as a relation on registries *)
Inductive reg_change (r : reg) : reg -> Prop :=
| rc_id : reg_change r r
| rc_set n r' : reg_set r n [] = SetOk r' -> reg_change r r'
| rc_remove k r' : reg_remove r k = (r', true) -> reg_change r r'
| rc_unalias k : is_Some (als r !! k) -> reg_change r (Reg (cmds r) (delete k (als r))).
