(* FlowFnRec.v — the C05 simulation with recursion (call-graph cycles outside KnownF6).
   Instead of bounding the lines of stale ("junk") call-stack entries by regions (FlowFnSim.v), the
   invariant is: every if / while entry on the stacks belongs to a site of the program (FlowFnSites),
   so every entry for a given line carries the same block positions ([sites_unique]); junk if-entries
   have passed = true.  An activation that finds another activation's stale entry instead of its own
   therefore behaves identically.  The end table maps a line to the end command of the site ending
   there.  The for-in stack needs the KnownF6 discipline: entries of the current activation lie
   outside the statement being run, entries of outer activations belong to functions the current
   one is not reachable from ... cannot reach. *)
Require Import DS.Base DS.FlowTables DS.FlowTablesWf DS.FlowScan DS.Flow DS.FlowTree DS.FlowScanProof
  DS.FlowLemmas DS.FlowFrame DS.FlowFn DS.FlowFnTree DS.FlowFnDom DS.FlowFnScan DS.FlowFnLemmas DS.FlowFnSim
  DS.FlowFnSites.
Require DS.FlowSim.
Require Import DSG.GenFlowNames DSG.GenFnNames.
Open Scope nat_scope.

Ltac kwn := first [apply kw_in_0; assumption|apply kw_in_1; assumption|apply kw_in_2; assumption|apply kw_in_3; assumption|apply kw_in_4; assumption|apply kw_in_5; assumption|apply kw_in_6; assumption|apply kw_in_7; assumption].

Definition site_end_name (x : site) : str :=
  match s_kind x with Some k => end_name_of k | None => gen_endfunction_name end.

Section Rec.
Variable pr : prog.
Hypothesis TW : tables_wf = true.
Let ds := p_defs pr.
Let P := compile_prog pr.
Let P0 := map down P.
Let M := length (gdefs ds).
Let Sites := prog_sites pr.
Notation DefAt := (DefAt pr).

Definition callable (f : str) : Prop := exists d s, find_def f ds = Some d /\ DefAt d s.

(* ---- state invariants ------------------------------------------------------------------------------ *)
Definition if_ok (e : ifcall) : Prop :=
  exists x, In x Sites /\ s_kind x = Some CkIf /\
            ic_meta e = mkIM (s_start x) (s_end x) (s_mids x) /\ In (ic_current e) (keys x).
Definition wh_ok (m : lmeta) : Prop :=
  exists x, In x Sites /\ s_kind x = Some CkWhile /\ m = mkLM (s_start x) (s_end x).
Definition end_ok (f : flow) : Prop :=
  forall L n, aget Nat.eqb L (f_end f) = Some n -> exists x, In x Sites /\ s_end x = L /\ n = site_end_name x.
Definition EndSet (f : flow) : Prop :=
  forall d s, DefAt d s -> aget Nat.eqb (d_end d s) (f_end f) <> None.
Definition Good (f : flow) : Prop :=
  Inv P0 f /\ Forall if_ok (f_ifstk f) /\ Forall wh_ok (f_whstk f) /\ end_ok f /\ EndSet f.

Record hframe (f f' : flow) : Prop := mkHF {
  hf_if : exists J, f_ifstk f' = J ++ f_ifstk f /\ Forall (fun e => ic_passed e = true) J;
  hf_wh : exists J, f_whstk f' = J ++ f_whstk f;
  hf_for : f_forstk f' = f_forstk f;
  hf_end : forall l, aget Nat.eqb l (f_end f) <> None -> aget Nat.eqb l (f_end f') <> None }.
Lemma hframe_refl f : hframe f f.
Proof. constructor; auto; exists []; auto. Qed.
Lemma hframe_trans f1 f2 f3 : hframe f1 f2 -> hframe f2 f3 -> hframe f1 f3.
Proof.
  intros [(Ji & E1 & F1) (Jw & E2) E3 E4] [(Ji' & E1' & F1') (Jw' & E2') E3' E4'].
  constructor.
  - exists (Ji' ++ Ji). split; [rewrite E1', E1, app_assoc; reflexivity|apply Forall_app; auto].
  - exists (Jw' ++ Jw). rewrite E2', E2, app_assoc; reflexivity.
  - congruence.
  - auto.
Qed.

Lemma aget_aset_ne {B} l k (v : B) t : aget Nat.eqb l t <> None -> aget Nat.eqb l (aset Nat.eqb k v t) <> None.
Proof.
  intros H. destruct (Nat.eq_dec l k) as [->|Hne].
  - rewrite aget_aset_same. discriminate.
  - rewrite aget_aset_other by exact Hne. exact H.
Qed.

(* ---- lookups among stale entries -------------------------------------------------------------------- *)
Lemma if_same_site e1 e2 : if_ok e1 -> if_ok e2 -> ic_current e1 = ic_current e2 -> ic_meta e1 = ic_meta e2.
Proof.
  intros (x1 & I1 & _ & M1 & K1) (x2 & I2 & _ & M2 & K2) E. rewrite E in K1.
  assert (x1 = x2) by (eapply (sites_unique pr); eauto). subst. congruence.
Qed.

(* the pop at an else line finds an entry equivalent to ours *)
Lemma if_pop_sites L : forall J ours base,
  Forall (fun e => ic_passed e = true) J -> Forall if_ok J ->
  ic_current ours = L -> ic_passed ours = true -> if_ok ours ->
  exists e J', if_pop L (J ++ ours :: base) = (Some e, J' ++ base) /\
               ic_passed e = true /\ ic_meta e = ic_meta ours /\
               Forall (fun e => ic_passed e = true) J' /\ Forall if_ok J'.
Proof.
  induction J as [|a J IH]; intros ours base HP HO Hc Hp Ho.
  - exists ours, []. cbn. rewrite Hc, Nat.eqb_refl. auto.
  - pose proof (Forall_inv HP) as Pa. pose proof (Forall_inv_tail HP) as HP'.
    pose proof (Forall_inv HO) as Oa. pose proof (Forall_inv_tail HO) as HO'.
    cbn [app if_pop]. destruct (Nat.eqb_spec (ic_current a) L) as [Ea|Ea].
    + exists a, (J ++ [ours]). rewrite <- app_assoc. cbn [app]. split; [reflexivity|]. split; [exact Pa|].
      split; [apply if_same_site; auto; congruence|]. split; apply Forall_app; auto.
    + apply IH; auto.
Qed.
Lemma wh_pop_sites E : forall J ours base,
  Forall wh_ok J -> lm_end ours = E -> wh_ok ours ->
  exists J', wh_pop E (J ++ ours :: base) = (Some ours, J' ++ base) /\ Forall wh_ok J'.
Proof.
  induction J as [|a J IH]; intros ours base HO Hc Ho.
  - exists []. cbn. rewrite Hc, Nat.eqb_refl. auto.
  - pose proof (Forall_inv HO) as Oa. pose proof (Forall_inv_tail HO) as HO'. cbn [app wh_pop]. subst E.
    destruct (Nat.eqb_spec (lm_end a) (lm_end ours)) as [Ea|Ea].
    + exists (J ++ [ours]). rewrite <- app_assoc. cbn [app].
      assert (a = ours).
      { destruct Oa as (x1 & I1 & _ & ->). destruct Ho as (x2 & I2 & _ & ->). cbn [lm_end] in Ea.
        assert (x1 = x2) by (eapply (sites_unique pr) with (k := s_end x1); eauto; [now left|rewrite Ea; now left]).
        now subst. }
      subst a. split; [reflexivity|]. apply Forall_app; auto.
    + apply IH; auto.
Qed.

(* the generic end at the end line of a site of kind k *)
Lemma end_name_at f x : end_ok f -> In x Sites -> aget Nat.eqb (s_end x) (f_end f) <> None ->
  aget Nat.eqb (s_end x) (f_end f) = Some (site_end_name x).
Proof.
  intros HE Hx Hn. destruct (aget Nat.eqb (s_end x) (f_end f)) as [n|] eqn:E; [|congruence].
  destruct (HE _ _ E) as (y & Hy & Ey & ->).
  assert (y = x) by (eapply (sites_unique pr) with (k := s_end x); eauto; [rewrite <- Ey; now left|now left]).
  now subst.
Qed.

Lemma Good_push_if f e : Good f -> if_ok e -> Good (if_push e f).
Proof.
  intros (A & B & C & D & E) He. split; [exact A|]. split; [cbn; constructor; auto|]. split; [exact C|].
  split; [exact D|exact E].
Qed.

(* ---- owners, reachability, the for-in stack discipline ---------------------------------------------- *)
Inductive own := OMain | OFn (d : fndef) (s : nat).
Definition valid (o : own) : Prop := match o with OMain => True | OFn d s => DefAt d s end.
Definition in_range (o : own) (l : nat) : Prop :=
  match o with OMain => M <= l | OFn d s => s < l < d_end d s end.
Definition calls_rel (f f' : str) : Prop :=
  exists d, find_def f ds = Some d /\ In f' (calls_b (fd_body d)).
Inductive Reach : str -> str -> Prop :=
| R_refl f : Reach f f
| R_step f f' h : calls_rel f f' -> Reach f' h -> Reach f h.
Definition CR (f : str) (o : own) : Prop :=
  match o with OMain => False | OFn d _ => Reach f (fd_name d) end.
Definition fe_lines_in (o : own) (e : forcall) : Prop :=
  in_range o (lm_start (fc_meta e)) /\ in_range o (lm_end (fc_meta e)).
Definition outer_ok (cx : own) (e : forcall) : Prop :=
  match cx with
  | OMain => False
  | OFn d _ => exists o, valid o /\ fe_lines_in o e /\ ~ CR (fd_name d) o
  end.
Definition outside (p q : nat) (e : forcall) : Prop :=
  ~ (p <= lm_start (fc_meta e) < q) /\ ~ (p <= lm_end (fc_meta e) < q).
Definition calls_in (cx : own) (fs : list str) : Prop :=
  match cx with OMain => True | OFn d _ => forall f', In f' fs -> calls_rel (fd_name d) f' end.
Definition ForPre (cx : own) (p q : nat) (cs : list str) (bs : list fblock) (f : flow) : Prop :=
  exists Cur Outer, f_forstk f = Cur ++ Outer /\
    Forall (fun e => outside p q e /\ fe_lines_in cx e) Cur /\ Forall (outer_ok cx) Outer /\
    (Cur <> [] -> forall f', In f' cs -> ~ CR f' cx) /\
    (forall B, In B bs -> has_return_b B = false /\ forall f', In f' (calls_b B) -> ~ CR f' cx) /\
    calls_in cx cs.

Lemma ForPre_sub cx p q p' q' cs cs' bs bs' f f' :
  ForPre cx p q cs bs f -> p <= p' -> q' <= q -> incl cs' cs -> incl bs' bs ->
  f_forstk f' = f_forstk f -> ForPre cx p' q' cs' bs' f'.
Proof.
  intros (Cur & Outer & E & HC & HO & Hs & Hb & Hi) H1 H2 I1 I2 Ef.
  exists Cur, Outer. split; [congruence|]. split.
  - eapply Forall_impl; [|exact HC]. unfold outside. intros a [[A B] C]. split; [split; lia|exact C].
  - split; [exact HO|]. split; [intros Hne f0 Hf0; apply Hs; auto|]. split; [intros B HB; apply Hb; auto|].
    destruct cx; [exact I|]. intros f0 Hf0. apply Hi. auto.
Qed.

Lemma in_range_unique o1 o2 l : valid o1 -> valid o2 -> in_range o1 l -> in_range o2 l -> o1 = o2.
Proof.
  destruct o1 as [|d1 s1], o2 as [|d2 s2]; cbn; intros V1 V2 R1 R2; auto.
  - destruct (DefAt_placed pr d2 s2 V2) as (_ & Hb). fold ds in Hb. fold M in Hb. rewrite gdef_length in Hb.
    unfold d_end in R2. lia.
  - destruct (DefAt_placed pr d1 s1 V1) as (_ & Hb). fold ds in Hb. fold M in Hb. rewrite gdef_length in Hb.
    unfold d_end in R1. lia.
  - destruct (layout_disjoint ds 0 d1 s1 d2 s2 V1 V2) as [(-> & ->)|[H|H]]; [reflexivity| |];
      rewrite gdef_length in H; unfold d_end in *; lia.
Qed.

(* the top of the for-in stack does not match the opener line of a loop of the statement *)
Lemma for_top_nomatch cx p q cs bs f l : ForPre cx p q cs bs f -> valid cx -> in_range cx l -> p <= l < q ->
  for_pop_top l (f_forstk f) = (None, f_forstk f).
Proof.
  intros (Cur & Outer & E & HC & HO & _) Hv Hr Hl. rewrite E.
  destruct Cur as [|e Cur].
  - cbn [app]. destruct Outer as [|e Outer]; [reflexivity|]. cbn [for_pop_top].
    pose proof (Forall_inv HO) as He. destruct cx as [|d s]; [contradiction|].
    destruct He as (o & Vo & (R1 & R2) & Hn).
    unfold for_match.
    destruct (Nat.eqb_spec (lm_start (fc_meta e)) l) as [E1|E1].
    + exfalso. rewrite E1 in R1. rewrite (in_range_unique _ _ _ Vo Hv R1 Hr) in Hn. apply Hn. cbn. constructor.
    + destruct (Nat.eqb_spec (lm_end (fc_meta e)) l) as [E2|E2]; [|reflexivity].
      exfalso. rewrite E2 in R2. rewrite (in_range_unique _ _ _ Vo Hv R2 Hr) in Hn. apply Hn. cbn. constructor.
  - cbn [app for_pop_top]. pose proof (Forall_inv HC) as ((A & B) & _). unfold for_match.
    destruct (Nat.eqb_spec (lm_start (fc_meta e)) l); [lia|].
    destruct (Nat.eqb_spec (lm_end (fc_meta e)) l); [lia|]. reflexivity.
Qed.

(* ---- what a statement needs, what it establishes ------------------------------------------------------ *)
Definition rng (cx : own) (p q : nat) : Prop := forall l, p <= l < q -> in_range cx l.
Definition ready (cx : own) (infn : bool) (cs : list str) (bs : list fblock) (sts : list site)
  (p q : nat) (f : flow) (g : fnst) : Prop :=
  Good f /\ FnInv pr g /\ act_ok infn p q g /\ incl sts Sites /\ valid cx /\ rng cx p q /\
  ForPre cx p q cs bs f.

Definition post (c0 : nat * fstate) (q : nat) (f : flow) (g : fnst) (r : fres) : Prop :=
  match r with
  | FOk w' => exists f', fruns P c0 (q, (w', f', g)) /\ Good f' /\ hframe f f'
  | FRet v w' => exists ci rest f', fs_stk g = ci :: rest /\
       fruns P c0 (S (fn_call ci), (ret_world ci v w' (fs_scopes g), f', popf ci g)) /\
       Good f' /\ hframe f f'
  | _ => True
  end.
Lemma post_runs c0 c1 q f g r : fruns P c0 c1 -> post c1 q f g r -> post c0 q f g r.
Proof.
  intros Hr. destruct r as [w'|v w'| |]; cbn; auto.
  - intros (f' & H1 & H2 & H3). exists f'. split; [eapply fruns_trans; eauto|auto].
  - intros (ci & rest & f' & H0 & H1 & H2 & H3). exists ci, rest, f'.
    split; [exact H0|]. split; [eapply fruns_trans; eauto|auto].
Qed.
Lemma post_pre c0 c1 q f f1 g r :
  fruns P c0 c1 -> hframe f f1 -> post c1 q f1 g r -> post c0 q f g r.
Proof.
  intros Hr Hg. destruct r as [w'|v w'| |]; cbn; auto.
  - intros (f' & H1 & H2 & H3). exists f'. split; [eapply fruns_trans; eauto|]. eauto using hframe_trans.
  - intros (ci & rest & f' & H0 & H1 & H2 & H3). exists ci, rest, f'.
    split; [exact H0|]. split; [eapply fruns_trans; eauto|]. eauto using hframe_trans.
Qed.
(* run a body from c1 (reached from c0, frame f -> f2), then go on from where it ends *)
Lemma post_bind_in c0 c1 a q f f2 g r (k : world -> fres) :
  fruns P c0 c1 -> hframe f f2 -> post c1 a f2 g r ->
  (forall w1 f3, Good f3 -> hframe f2 f3 -> hframe f f3 -> post (a, (w1, f3, g)) q f g (k w1)) ->
  post c0 q f g (match r with FOk w1 => k w1 | FRet v w0 => FRet v w0 | FErr => FErr | FFuel => FFuel end).
Proof.
  intros Hr HF Hp Hk. destruct r as [w1|v w'| |]; cbn [post] in *; auto.
  - destruct Hp as (f3 & R3 & I3 & F3).
    eapply post_runs; [eapply fruns_trans; [exact Hr|exact R3]|]. apply Hk; auto.
    eapply hframe_trans; eauto.
  - destruct Hp as (ci & rest & f3 & E & R3 & I3 & F3). exists ci, rest, f3.
    split; [exact E|]. split; [eapply fruns_trans; eauto|]. split; [exact I3|]. eapply hframe_trans; eauto.
Qed.
Lemma post_then c0 c1 a q f f2 g r :
  fruns P c0 c1 -> hframe f f2 -> post c1 a f2 g r ->
  (forall w1 f3, Good f3 -> hframe f2 f3 -> hframe f f3 ->
     exists f', fruns P (a, (w1, f3, g)) (q, (w1, f', g)) /\ Good f' /\ hframe f f') ->
  post c0 q f g r.
Proof.
  intros Hr HF Hp Hk. rewrite <- (res_eta r).
  eapply (post_bind_in c0 c1 a q f f2 g r (fun w1 => FOk w1)); eauto.
Qed.

Definition stmt_ok (n : nat) : Prop := forall cx infn s w p f g,
  pgs callable infn s -> nfr_s s = true -> fplaced P p (gs s) ->
  ready cx infn (calls_s s) (for_bodies_s s) (sites_s s p) p (p + length (gs s)) f g ->
  post (p, (w, f, g)) (p + length (gs s)) f g (hs ds n s w).
Definition block_ok (n : nat) : Prop := forall cx infn b w p f g,
  pgb callable infn b -> nfr_b b = true -> fplaced P p (gb b) ->
  ready cx infn (calls_b b) (for_bodies_b b) (sites_b b p) p (p + length (gb b)) f g ->
  post (p, (w, f, g)) (p + length (gb b)) f g (hb ds n b w).

(* descending into a part of the statement *)
Lemma ready_sub cx infn cs bs sts cs' bs' sts' p q p' q' f f' g :
  ready cx infn cs bs sts p q f g -> p <= p' -> q' <= q ->
  incl cs' cs -> incl bs' bs -> incl sts' sts ->
  Good f' -> f_forstk f' = f_forstk f -> ready cx infn cs' bs' sts' p' q' f' g.
Proof.
  intros (A & B & C & D & E & F & G) H1 H2 I1 I2 I3 HG Ef.
  split; [exact HG|]. split; [exact B|]. split; [eapply act_ok_sub; eauto|].
  split; [eapply incl_tran; eauto|]. split; [exact E|]. split.
  - intros l Hl. apply F. lia.
  - eapply ForPre_sub; eauto.
Qed.

(* ---- the program is well-formed and outside KnownF6 --------------------------------------------------- *)
Hypothesis Hwf : forall d s, DefAt d s ->
  In (fd_sp d) n_function /\ In (fd_end d) fn_closers /\
  pgb callable true (fd_body d) /\ nfr_b (fd_body d) = true /\ find_def (fd_name d) ds = Some d.
Hypothesis HnoF6 : forall d s, DefAt d s -> forall B, In B (for_bodies_b (fd_body d)) ->
  has_return_b B = false /\ forall f', In f' (calls_b B) -> ~ Reach f' (fd_name d).

Lemma def_sites_in : forall l d s, In (d, s) l ->
  incl (mkSite None s (d_end d s) [] :: sites_b (fd_body d) (S s)) (def_sites l).
Proof.
  induction l as [|[d0 s0] r IH]; intros d s H; [contradiction|]. cbn [def_sites].
  destruct H as [E|H].
  - inversion E; subst. apply incl_appl. apply incl_refl.
  - apply incl_appr. now apply IH.
Qed.
Lemma def_site_in d s : DefAt d s -> incl (mkSite None s (d_end d s) [] :: sites_b (fd_body d) (S s)) Sites.
Proof. intros H. unfold Sites, prog_sites. apply incl_appl. now apply def_sites_in. Qed.

Lemma Good_same f f' :
  f_ifmeta f' = f_ifmeta f -> f_whmeta f' = f_whmeta f -> f_formeta f' = f_formeta f ->
  f_ifstk f' = f_ifstk f -> f_whstk f' = f_whstk f -> f_end f' = f_end f -> Good f -> Good f'.
Proof.
  intros E1 E2 E3 E4 E5 E6 (A & B & C & D & E). unfold Good, end_ok, EndSet. rewrite E4, E5, E6.
  split; [eapply Inv_same; eauto|]. auto.
Qed.

(* after get_or_create_*_meta_info of a site of the program *)
Lemma Good_meta f f1 x : Good f -> In x Sites -> Inv P0 f1 -> same_stacks f f1 ->
  f_end f1 = aset Nat.eqb (s_end x) (site_end_name x) (f_end f) -> Good f1 /\ hframe f f1.
Proof.
  intros (A & B & C & D & E) Hx I1 (S1 & S2 & S3) HE. split.
  - split; [exact I1|]. rewrite S1, S2. split; [exact B|]. split; [exact C|]. split.
    + intros L n. rewrite HE. destruct (Nat.eq_dec L (s_end x)) as [->|Hne].
      * rewrite aget_aset_same. intros H. inversion H; subst. eauto.
      * rewrite aget_aset_other by exact Hne. apply D.
    + intros d s Hd. rewrite HE. apply aget_aset_ne. now apply E.
  - constructor.
    + exists []. split; [exact S1|constructor].
    + exists []. exact S2.
    + exact S3.
    + intros l Hl. rewrite HE. now apply aget_aset_ne.
Qed.

(* ---- straight-line command, return --------------------------------------------------------------------- *)
Lemma cmd_case n : forall cx infn cs bs sts p0 w p f g,
  fplaced P p (gs (GCmd p0)) -> ready cx infn cs bs sts p (p + 1) f g ->
  post (p, (w, f, g)) (p + 1) f g (hs ds (S n) (GCmd p0) w).
Proof.
  intros cx infn cs bs sts p0 w p f g Hp Hr. rewrite hs_cmd.
  destruct (exec_prim p0 w) as [w1|] eqn:E; [|exact I].
  exists f. split; [|split; [apply Hr|apply hframe_refl]].
  apply fruns_step. replace (p + 1) with (S p) by lia.
  eapply fstep1_continue; [eapply fplaced_nth; exact Hp|].
  destruct (prim_cmd p0) as [c|] eqn:Ec.
  - rewrite (fdisp_base P).
    + rewrite <- Ec.
      change (down {| fi_cmd := prim_cmd p0; fi_arg := FBase (APrim p0) |}) with (mkI (prim_cmd p0) (APrim p0)).
      rewrite (prim_step (map down P) TW p p0 w w1 f E). reflexivity.
    + exists c. split; [reflexivity|].
      assert (Hin : In c prim_names) by (eapply prim_cmd_names; eauto).
      split; [apply base_kind; do 9 (apply in_or_app; right); exact Hin|].
      rewrite (cl_prim TW c Hin). discriminate.
    + eexists. reflexivity.
  - unfold fstep. cbn [fi_cmd]. destruct p0; try discriminate. cbn in E. now inversion E.
Qed.

Lemma return_case n : forall cx cs bs sts sp a w p f g,
  In sp n_return -> fplaced P p (gs (GReturn sp a)) -> ready cx true cs bs sts p (p + 1) f g ->
  post (p, (w, f, g)) (p + 1) f g (hs ds (S n) (GReturn sp a) w).
Proof.
  intros cx cs bs sts sp a w p f g Hsp Hp Hr. rewrite hs_return.
  destruct Hr as (HG & _ & Hact & _).
  destruct (Hact eq_refl) as (ci & rest & Estk & Hs & He & Hsc).
  exists ci, rest, f. split; [exact Estk|]. split; [|split; [exact HG|apply hframe_refl]].
  apply fruns_step. eapply fstep1_goto; [eapply fplaced_nth; exact Hp|].
  unfold fstep. cbn [fi_cmd fi_arg fkw]. rewrite (proj2 (proj2 fcl_parts) sp Hsp).
  unfold step_return. rewrite Estk.
  assert (Hrange : ((fn_start ci <? p) && (p <? fn_end ci)) = true).
  { apply andb_true_intro. split; apply Nat.ltb_lt; lia. }
  rewrite Hrange. unfold ret_world, popf. rewrite Estk. cbn [tl].
  destruct (fn_scoped ci) eqn:Esc.
  - destruct (fs_scopes g) as [|saved rs] eqn:Es; [exfalso; now apply Hsc|]. reflexivity.
  - reflexivity.
Qed.

Lemma Reach_step_l f f' o : calls_rel f f' -> CR f' o -> CR f o.
Proof. destruct o; cbn; [auto|]. intros H1 H2. econstructor; eauto. Qed.

Lemma call_case n : block_ok n -> forall cx infn out fn args w p f g,
  pgs callable infn (GCall out fn args) -> fplaced P p (gs (GCall out fn args)) ->
  ready cx infn (calls_s (GCall out fn args)) (for_bodies_s (GCall out fn args)) (sites_s (GCall out fn args) p)
        p (p + 1) f g ->
  post (p, (w, f, g)) (p + 1) f g (hs ds (S n) (GCall out fn args) w).
Proof.
  intros Hb cx infn out fn args w p f g ((d & s & Hfd & Hd) & Hfree & Hargs) Hp Hr.
  pose proof Hr as (HG & HF & Hact & Hsites & Hv & Hrng & (Cur & Outer & Efor & HC & HO & Hcs & Hbs & Hci)).
  destruct (Hwf d s Hd) as (Hsp & Hend & Hbody & Hnfr & Hfind).
  destruct (DefAt_placed pr d s Hd) as (Hpd & HM). fold P in Hpd.
  pose proof (find_def_name fn ds d Hfd) as Hname.
  rewrite hs_call. fold ds. rewrite Hfd. cbv zeta.
  set (vals := map (fun a => arg_val a w) args).
  set (w1 := if fd_scoped d then set_vars [] w else w).
  set (w3 := clear_out out (bind_args 1 vals w1)).
  set (ci := mkFNC p s (d_end d s) out (fd_scoped d)).
  set (gc := mkFS (fs_meta g) (ci :: fs_stk g) (if fd_scoped d then w_vars w :: fs_scopes g else fs_scopes g)).
  assert (St : fstep1 P (p, (w, f, g)) = Some (S s, (w3, f, gc))).
  { eapply fstep1_goto; [eapply fplaced_nth; exact Hp|].
    unfold fstep. cbn [fi_cmd fi_arg fkw]. rewrite (free_name_kind fn Hfree).
    unfold step_call. rewrite <- Hname at 1. rewrite (HF d s Hd). reflexivity. }
  unfold gdef in Hpd. pose proof (fplaced_tail _ _ _ _ Hpd) as Hpb0.
  pose proof (fplaced_app_l _ _ _ _ Hpb0) as Hpb.
  pose proof (fplaced_app_r _ _ _ _ Hpb0) as Hpe.
  pose proof (fplaced_nth _ _ _ _ Hpe) as HnE.
  pose proof (def_site_in d s Hd) as Hdsites.
  set (xd := mkSite None s (d_end d s) []).
  assert (Hxd : In xd Sites) by (apply Hdsites; now left).
  assert (Hready : ready (OFn d s) true (calls_b (fd_body d)) (for_bodies_b (fd_body d)) (sites_b (fd_body d) (S s))
                         (S s) (S s + length (gb (fd_body d))) f gc).
  { split; [exact HG|]. split; [exact HF|]. split.
    - intros _. exists ci, (fs_stk g). cbn. repeat split; try lia. intros Hs. rewrite Hs. discriminate.
    - split; [intros y Hy; apply Hdsites; now right|]. split; [exact Hd|]. split.
      + intros l Hl. cbn. unfold d_end. lia.
      + exists [], (f_forstk f). split; [reflexivity|]. split; [constructor|]. split.
        * rewrite Efor. apply Forall_app. split.
          -- (* loops of the calling activation *)
             assert (Hnr : Cur <> [] -> ~ CR (fd_name d) cx).
             { intros Hne. apply Hcs; [exact Hne|]. cbn. left. symmetry. exact Hname. }
             clear - HC Hnr Hv. induction HC as [|e Cur (He1 & He2) HC IH]; constructor.
             ++ cbn. exists cx. split; [exact Hv|]. split; [exact He2|]. apply Hnr. discriminate.
             ++ apply IH. intros _. apply Hnr. discriminate.
          -- destruct cx as [|dc sc].
             ++ eapply Forall_impl; [|exact HO]. intros a [].
             ++ eapply Forall_impl; [|exact HO]. intros a (o & Vo & Ro & Hn). cbn.
                exists o. split; [exact Vo|]. split; [exact Ro|]. intros Hc. apply Hn.
                eapply Reach_step_l; [|exact Hc]. apply Hci. cbn. left. symmetry. exact Hname.
        * split; [intros Hne; congruence|]. split.
          -- intros B HB. destruct (HnoF6 d s Hd B HB) as (H1 & H2). split; [exact H1|]. intros f' Hf'. cbn. auto.
          -- cbn. intros f' Hf'. exists d. split; [exact Hfind|exact Hf']. }
  pose proof (Hb (OFn d s) true (fd_body d) w3 (S s) f gc Hbody Hnfr Hpb Hready) as IH.
  destruct (hb ds n (fd_body d) w3) as [w4|v w4| |] eqn:Er; cbn [post]; [| |exact I|exact I].
  - destruct IH as (f4 & R4 & G4 & F4).
    assert (HE4 : aget Nat.eqb (d_end d s) (f_end f4) = Some gen_endfunction_name).
    { apply (end_name_at f4 xd); [apply G4|exact Hxd|]. cbn [xd s_end].
      apply (hf_end _ _ F4). destruct HG as (_ & _ & _ & _ & HES). now apply HES. }
    assert (Sendfn : step_endfn (d_end d s) (w4, f4, gc)
                     = (RGoto (S p), (if fd_scoped d then set_vars (w_vars w) w4 else w4, f4, g))).
    { unfold step_endfn. cbn [gc fs_stk ci fn_end fn_scoped fn_call fs_scopes fs_meta]. rewrite Nat.eqb_refl.
      destruct g as [gm gs0 gsc]. destruct (fd_scoped d); reflexivity. }
    exists f4. split; [|split; [exact G4|exact F4]].
    eapply fruns_step_then; [exact St|]. eapply fruns_trans; [exact R4|].
    apply fruns_step. replace (p + 1) with (S p) by lia.
    eapply fstep1_goto; [exact HnE|]. fold (d_end d s).
    unfold fn_closers in Hend. apply in_app_or in Hend. destruct Hend as [Hend|[<-|[]]].
    + unfold fstep. cbn [fi_cmd fi_arg bkw]. rewrite (proj1 (proj2 fcl_parts) _ Hend). exact Sendfn.
    + unfold fstep. cbn [fi_cmd fi_arg bkw]. rewrite (fcl_end TW). unfold step_end_fn. rewrite HE4, fcl_endfn_name.
      exact Sendfn.
  - destruct IH as (ci' & rest & f4 & Estk & R4 & G4 & F4).
    cbn [gc fs_stk] in Estk. inversion Estk; subst ci' rest.
    exists f4. split; [|split; [exact G4|exact F4]].
    eapply fruns_step_then; [exact St|]. replace (p + 1) with (S p) by lia.
    replace (S (fn_call ci)) with (S p) in R4 by reflexivity.
    assert (Epop : popf ci gc = g).
    { unfold popf. cbn [gc fs_stk fs_meta fs_scopes ci fn_scoped tl]. destruct g as [gm gs0 gsc].
      destruct (fd_scoped d); reflexivity. }
    assert (Eret : ret_world ci v w4 (fs_scopes gc)
                   = (let w5 := match out with
                                | Some o => match v with Some x => vset o x w4 | None => vunset o w4 end
                                | None => w4
                                end in
                      if fd_scoped d then set_vars (overlay (w_vars w) out w5) w5 else w5)).
    { unfold ret_world. cbn [gc fs_scopes ci fn_out fn_scoped]. destruct (fd_scoped d); reflexivity. }
    rewrite Epop, Eret in R4. exact R4.
Qed.

Lemma block_case n : stmt_ok n -> block_ok n -> block_ok (S n).
Proof.
  intros Hs Hb cx infn b w p f g Hw Hn Hp Hr. destruct b as [|s b].
  - rewrite hb_nil. cbn [gb length]. rewrite Nat.add_0_r. exists f.
    split; [apply fruns_refl|split; [apply Hr|apply hframe_refl]].
  - rewrite hb_cons. destruct Hw as (Hws & Hwb). cbn [nfr_b] in Hn. apply andb_prop in Hn. destruct Hn as (Hns & Hnb).
    cbn [gb calls_b for_bodies_b sites_b] in Hp, Hr |- *. rewrite app_length in *.
    pose proof (fplaced_app_l _ _ _ _ Hp) as Hp1. pose proof (fplaced_app_r _ _ _ _ Hp) as Hp2.
    set (q := p + (length (gs s) + length (gb b))) in *.
    eapply (post_bind_in (p, (w, f, g)) (p, (w, f, g)) (p + length (gs s)) q f f g (hs ds n s w) (fun w1 => hb ds n b w1));
      [apply fruns_refl|apply hframe_refl| |].
    + apply (Hs cx infn s w p f g Hws Hns Hp1).
      eapply ready_sub; try exact Hr; try (unfold q; lia); try (apply incl_appl; apply incl_refl); try apply Hr; reflexivity.
    + intros w1 f1 G1 _ F1.
      replace q with (p + length (gs s) + length (gb b)) by (unfold q; lia).
      eapply post_pre; [apply fruns_refl|exact F1|].
      apply (Hb cx infn b w1 (p + length (gs s)) f1 g Hwb Hnb Hp2).
      replace (p + length (gs s) + length (gb b)) with q by (unfold q; lia).
      eapply ready_sub; try exact Hr; try (unfold q; lia); try (apply incl_appr; apply incl_refl); auto.
      exact (hf_for _ _ F1).
Qed.

(* ---- if ---------------------------------------------------------------------------------------------- *)
Definition chain_ok (n : nat) : Prop := forall cx infn els w L e m x pfx fb g,
  els <> HNil -> pge callable infn els -> nfr_e els = true -> In e (closers CkIf) ->
  fplaced P L (ge els ++ [bkw e ANone]) ->
  In x Sites -> s_kind x = Some CkIf -> m = mkIM (s_start x) (s_end x) (s_mids x) ->
  im_else m = pfx ++ gmid_pos els L -> im_end m = L + length (ge els) ->
  ready cx infn (calls_e els) (for_bodies_e els) (sites_e els L) L (S (im_end m)) fb g ->
  aget Nat.eqb (im_end m) (f_end fb) <> None ->
  post (L, (w, if_push (mkIC L false (length pfx) m) fb, g)) (S (im_end m)) fb g (he ds n els w).

Lemma felse_passed2 r infn L rest w f g e stk' :
  r <> HNil -> pge callable infn r -> fplaced P L (ge r ++ rest) ->
  if_pop L (f_ifstk f) = (Some e, stk') -> ic_passed e = true ->
  fstep1 P (L, (w, f, g)) = Some (S (im_end (ic_meta e)), (w, set_ifstk stk' f, g)).
Proof.
  intros Hr Hw Hp Hpop Hpass. destruct r as [|sp c b r|sp b]; [congruence| |].
  - cbn [ge app] in Hp. destruct Hw as (Hsp & _).
    eapply fstep1_goto; [eapply fplaced_nth; exact Hp|]. rewrite (fstep_kw pr TW) by kwn.
    rewrite (disp_elseif (map down P) TW) by exact Hsp. unfold step_elseif.
    rewrite Hpop, Hpass. reflexivity.
  - cbn [ge app] in Hp. destruct Hw as (Hsp & _).
    eapply fstep1_goto; [eapply fplaced_nth; exact Hp|]. rewrite (fstep_kw pr TW) by kwn.
    rewrite (disp_else (map down P) TW) by exact Hsp. unfold step_else.
    rewrite Hpop, Hpass. reflexivity.
Qed.

(* after the body of a taken branch: the following else line jumps behind the block *)
Lemma after_branch r infn L e w' f f2 f3 g (ent : ifcall) :
  r <> HNil -> pge callable infn r -> fplaced P L (ge r ++ [bkw e ANone]) ->
  Good f -> hframe f f3 -> Good f3 -> hframe f2 f3 ->
  f_ifstk f2 = ent :: f_ifstk f -> ic_current ent = L -> ic_passed ent = true -> if_ok ent ->
  exists f', fruns P (L, (w', f3, g)) (S (im_end (ic_meta ent)), (w', f', g)) /\ Good f' /\ hframe f f'.
Proof.
  intros Hr Hw Hp HG F3' G3 F3 E2 Hc Hpass Hok.
  destruct (hf_if _ _ F3) as (Jb & Ei & Fi). rewrite E2 in Ei.
  pose proof G3 as (I3 & O3 & W3 & D3 & S3). rewrite Ei in O3. apply Forall_app in O3. destruct O3 as (OJ & Orest).
  destruct (if_pop_sites L Jb ent (f_ifstk f) Fi OJ Hc Hpass Hok) as (e0 & J' & Hpop & Pe & Me & PJ & OJ').
  rewrite <- Ei in Hpop.
  exists (set_ifstk (J' ++ f_ifstk f) f3). split; [|split].
  - apply fruns_step. rewrite <- Me. eapply felse_passed2; eauto.
  - split; [eapply Inv_same; [| | |exact I3]; reflexivity|]. split.
    + cbn. apply Forall_app. split; [exact OJ'|]. apply HG.
    + split; [exact W3|]. split; [exact D3|exact S3].
  - constructor.
    + exists J'. split; [reflexivity|exact PJ].
    + exact (hf_wh _ _ F3').
    + exact (hf_for _ _ F3').
    + exact (hf_end _ _ F3').
Qed.

Lemma gif_case n : block_ok n -> chain_ok n -> forall cx infn sp c b els e w p f g,
  pgs callable infn (GIf sp c b els e) -> nfr_s (GIf sp c b els e) = true ->
  fplaced P p (gs (GIf sp c b els e)) ->
  ready cx infn (calls_s (GIf sp c b els e)) (for_bodies_s (GIf sp c b els e)) (sites_s (GIf sp c b els e) p)
        p (p + length (gs (GIf sp c b els e))) f g ->
  post (p, (w, f, g)) (p + length (gs (GIf sp c b els e))) f g (hs ds (S n) (GIf sp c b els e) w).
Proof.
  intros Hb Hch cx infn sp c b els e w p f g Hw Hn Hp Hr.
  pose proof (gif_meta_placed P TW callable infn p sp c b els e Hp Hw) as Hm. fold P0 in Hm.
  destruct Hw as (Hsp & He & Hwb & Hwe).
  cbn [nfr_s] in Hn. apply andb_prop in Hn. destruct Hn as (Hnb & Hne).
  rewrite gs_length_if in *.
  cbn [calls_s for_bodies_s sites_s] in Hr.
  set (nb := length (gb b)) in *. set (ne := length (ge els)) in *.
  set (E := S p + nb + ne) in *.
  set (x := mkSite (Some CkIf) p E (gmid_pos els (S p + nb))) in *.
  set (m := mkIM p E (gmid_pos els (S p + nb))) in *.
  replace (S (S (nb + ne))) with (S E - p) in * by (unfold E; lia).
  replace (p + (S E - p)) with (S E) in * by (unfold E; lia).
  pose proof Hr as (HG & HF & Hact & Hsites & Hv & Hrng & HFP).
  assert (Hx : In x Sites) by (apply Hsites; now left).
  cbn [gs] in Hp.
  pose proof (fplaced_nth _ _ _ _ Hp) as Hn0.
  pose proof (fplaced_tail _ _ _ _ Hp) as Hp1.
  pose proof (fplaced_app_l _ _ _ _ Hp1) as Hpb.
  pose proof (fplaced_app_r _ _ _ _ Hp1) as Hpe. fold nb in Hpe.
  pose proof (fplaced_app_r _ _ _ _ Hpe) as Hpend. fold ne in Hpend.
  pose proof (fplaced_nth _ _ _ _ Hpend) as HnE. fold E in HnE.
  destruct (if_meta_info_ok P0 f p m (proj1 HG) Hm) as (f1 & Hmi & I1 & SS1 & E1).
  pose proof SS1 as (S1a & S1b & S1c).
  destruct (Good_meta f f1 x HG Hx I1 SS1 E1) as (G1 & Fr1).
  assert (HE1 : aget Nat.eqb E (f_end f1) <> None).
  { rewrite E1. cbn [m im_end]. rewrite aget_aset_same. discriminate. }
  assert (Hstep : fstep P p (bkw sp (ACond c)) (w, f, g) = lift g (step_if P0 p c (w, f))).
  { rewrite (fstep_kw pr TW) by kwn. rewrite (disp_if (map down P) TW) by exact Hsp. reflexivity. }
  rewrite hs_if. destruct (eval_cond c w) as [v w1] eqn:Ec.
  destruct v.
  - (* the condition holds: run the body *)
    set (next := match im_else m with [] => im_end m | l0 :: _ => l0 end).
    set (ent := mkIC next true 0 m).
    set (f2 := if_push ent f1).
    assert (St : fstep1 P (p, (w, f, g)) = Some (S p, (w1, f2, g))).
    { eapply fstep1_continue; [exact Hn0|]. rewrite Hstep. unfold step_if. rewrite Hmi, Ec. reflexivity. }
    assert (Hok : if_ok ent).
    { exists x. split; [exact Hx|]. split; [reflexivity|]. split; [reflexivity|].
      unfold ent, next, m, keys. cbn [ic_current im_else im_end x s_end s_mids].
      destruct (gmid_pos els (S p + nb)); [now left|right; now left]. }
    assert (G2 : Good f2) by (apply Good_push_if; auto).
    assert (Fr2 : hframe f f2).
    { eapply hframe_trans; [exact Fr1|]. constructor.
      - exists [ent]. split; [reflexivity|]. constructor; [reflexivity|constructor].
      - exists []. reflexivity.
      - reflexivity.
      - auto. }
    assert (Hready2 : ready cx infn (calls_b b) (for_bodies_b b) (sites_b b (S p)) (S p) (S p + nb) f2 g).
    { apply (ready_sub cx infn _ _ _ (calls_b b) (for_bodies_b b) (sites_b b (S p)) p (S E) (S p) (S p + nb) f f2 g Hr);
        [lia|lia|apply incl_appl; apply incl_refl|apply incl_appl; apply incl_refl
        |apply incl_tl; apply incl_appl; apply incl_refl|exact G2|cbn; exact S1c]. }
    pose proof (Hb cx infn b w1 (S p) f2 g Hwb Hnb Hpb Hready2) as IH. fold nb in IH.
    apply (post_then (p, (w, f, g)) (S p, (w1, f2, g)) (S p + nb) (S E) f f2 g);
      [apply fruns_step; exact St|exact Fr2|exact IH|].
    intros w' f3 G3 F3 F3'.
    destruct (felses_dec els) as [Eels|Hnel].
    + assert (ne = 0) by (unfold ne; rewrite Eels; reflexivity). assert (E = S p + nb) by lia.
      exists f3. split; [|split; [exact G3|exact F3']].
      apply fruns_step. replace (S p + nb) with E by lia.
      eapply fstep1_continue; [exact HnE|]. apply (fclose_if pr TW); [exact He|].
      apply (end_name_at f3 x); [apply G3|exact Hx|]. apply (hf_end _ _ F3). exact HE1.
    + destruct (gmid_pos_hd els (S p + nb) Hnel) as (t & Ht0).
      assert (Hnx : ic_current ent = S p + nb) by (unfold ent, next, m; cbn [ic_current im_else]; now rewrite Ht0).
      destruct (after_branch els infn (S p + nb) e w' f f2 f3 g ent Hnel Hwe Hpe HG F3' G3 F3) as (f' & R' & G' & F');
        auto.
      * cbn. now rewrite S1a.
      * exists f'. auto.
  - (* the condition fails *)
    destruct (felses_dec els) as [Eels|Hnel].
    + rewrite Eels. destruct n as [|n']; [exact I|]. rewrite he_nil.
      exists f1. split; [|split; [exact G1|exact Fr1]].
      apply fruns_step. eapply fstep1_goto; [exact Hn0|]. rewrite Hstep.
      unfold step_if. rewrite Hmi, Ec. unfold m at 1. cbn [im_else]. rewrite Eels. reflexivity.
    + destruct (gmid_pos_hd els (S p + nb) Hnel) as (t & Ht0).
      assert (St : fstep1 P (p, (w, f, g)) = Some (S p + nb, (w1, if_push (mkIC (S p + nb) false 0 m) f1, g))).
      { eapply fstep1_goto; [exact Hn0|]. rewrite Hstep.
        unfold step_if. rewrite Hmi, Ec. unfold m at 1. cbn [im_else]. rewrite Ht0. reflexivity. }
      eapply post_pre; [apply fruns_step; exact St|exact Fr1|].
      apply (Hch cx infn els w1 (S p + nb) e m x [] f1 g Hnel Hwe Hne He Hpe Hx eq_refl eq_refl eq_refl eq_refl).
      * apply (ready_sub cx infn _ _ _ (calls_e els) (for_bodies_e els) (sites_e els (S p + nb)) p (S E)
                         (S p + nb) (S (im_end m)) f f1 g Hr);
          [lia|cbn [m im_end]; lia|apply incl_appr; apply incl_refl|apply incl_appr; apply incl_refl
          |apply incl_tl; apply incl_appr; apply incl_refl|exact G1|exact S1c].
      * exact HE1.
Qed.

(* ---- the else chain -------------------------------------------------------------------------------------- *)
Lemma gchain_case n : block_ok n -> chain_ok n -> chain_ok (S n).
Proof.
  intros Hb Hch cx infn els w L e m x pfx fb g Hnel Hwe Hnfr He Hp Hx Hk Hm Hel Hend Hr HE.
  set (entry := mkIC L false (length pfx) m).
  pose proof Hr as (HG & HF & Hact & Hsites & Hv & Hrng & HFP).
  assert (Hmids : forall l, In l (im_else m) -> In l (keys x)).
  { intros l Hl. rewrite Hm in Hl. cbn [im_else] in Hl. right. exact Hl. }
  assert (Hmend : im_end m = s_end x) by (rewrite Hm; reflexivity).
  destruct els as [|sp c b r|sp b]; [congruence| |].
  - (* elseif *)
    destruct Hwe as (Hsp & Hwb & Hwr).
    cbn [nfr_e] in Hnfr. apply andb_prop in Hnfr. destruct Hnfr as (Hnb & Hnr).
    cbn [ge app] in Hp. rewrite <- app_assoc in Hp.
    pose proof (fplaced_nth _ _ _ _ Hp) as Hn0.
    pose proof (fplaced_tail _ _ _ _ Hp) as Hp1.
    pose proof (fplaced_app_l _ _ _ _ Hp1) as Hpb.
    pose proof (fplaced_app_r _ _ _ _ Hp1) as Hpr.
    cbn [gmid_pos] in Hel. cbn [ge length] in Hend. rewrite app_length in Hend.
    cbn [calls_e for_bodies_e sites_e] in Hr.
    set (nb := length (gb b)) in *. set (nr := length (ge r)) in *.
    assert (HEq : im_end m = S L + nb + nr) by lia.
    assert (Hstep : fstep P L (bkw sp (ACond c)) (w, if_push entry fb, g)
                    = lift g (step_elseif L c (w, if_push entry fb))).
    { rewrite (fstep_kw pr TW) by kwn. rewrite (disp_elseif (map down P) TW) by exact Hsp. reflexivity. }
    rewrite he_elseif. destruct (eval_cond c w) as [v w1] eqn:Ec.
    assert (Hpop : if_pop L (f_ifstk (if_push entry fb)) = (Some entry, f_ifstk fb)).
    { cbn. now rewrite Nat.eqb_refl. }
    assert (Hlen : length (im_else m) = length pfx + S (length (gmid_pos r (S L + nb)))).
    { rewrite Hel, app_length. reflexivity. }
    destruct v.
    + (* this branch is taken *)
      assert (Htaken : forall x0, In x0 (im_else m) ->
        fstep1 P (L, (w, if_push entry fb, g)) = Some (S L, (w1, if_push (mkIC x0 true (length pfx) m) fb, g)) ->
        (forall w' f3, Good f3 -> hframe (if_push (mkIC x0 true (length pfx) m) fb) f3 -> hframe fb f3 ->
           exists f', fruns P (S L + nb, (w', f3, g)) (S (im_end m), (w', f', g)) /\ Good f' /\ hframe fb f') ->
        post (L, (w, if_push entry fb, g)) (S (im_end m)) fb g (hb ds n b w1)).
      { intros x0 Hx0 St Hcont.
        set (ent := mkIC x0 true (length pfx) m).
        set (f2 := if_push ent fb).
        assert (Hok : if_ok ent).
        { exists x. split; [exact Hx|]. split; [exact Hk|]. split; [exact Hm|]. apply Hmids. exact Hx0. }
        assert (G2 : Good f2) by (apply Good_push_if; auto).
        assert (Fr2 : hframe fb f2).
        { constructor.
          - exists [ent]. split; [reflexivity|]. constructor; [reflexivity|constructor].
          - exists []. reflexivity.
          - reflexivity.
          - auto. }
        assert (Hready2 : ready cx infn (calls_b b) (for_bodies_b b) (sites_b b (S L)) (S L) (S L + nb) f2 g).
        { apply (ready_sub cx infn _ _ _ (calls_b b) (for_bodies_b b) (sites_b b (S L)) L (S (im_end m))
                           (S L) (S L + nb) fb f2 g Hr);
            [lia|lia|apply incl_appl; apply incl_refl|apply incl_appl; apply incl_refl
            |apply incl_appl; apply incl_refl|exact G2|reflexivity]. }
        pose proof (Hb cx infn b w1 (S L) f2 g Hwb Hnb Hpb Hready2) as IH. fold nb in IH.
        apply (post_then (L, (w, if_push entry fb, g)) (S L, (w1, f2, g)) (S L + nb) (S (im_end m)) fb f2 g);
          [apply fruns_step; exact St|exact Fr2|exact IH|exact Hcont]. }
      destruct (felses_dec r) as [Er|Hr0].
      * (* last else line: the entry pushed here stays as junk *)
        assert (Hnr0 : nr = 0) by (unfold nr; rewrite Er; reflexivity).
        assert (Hlt : (S (length pfx) <? length (im_else m)) = false).
        { apply Nat.ltb_ge. rewrite Hlen, Er. cbn. lia. }
        destruct (nth_error (im_else m) 0) as [x0|] eqn:Ex0.
        2:{ apply nth_error_None in Ex0. rewrite Hlen in Ex0. lia. }
        apply (Htaken x0 (nth_error_In _ _ Ex0)).
        -- eapply fstep1_continue; [exact Hn0|]. rewrite Hstep.
           unfold step_elseif. rewrite Hpop. cbn [entry ic_passed ic_meta ic_idx]. rewrite Ec, Hlt, Ex0.
           rewrite FlowSim.set_ifstk_push. reflexivity.
        -- intros w' f3 G3 F3 F3'. exists f3. split; [|split; [exact G3|exact F3']].
           assert (HnE : nth_error P (im_end m) = Some (bkw e ANone)).
           { rewrite Er in Hpr. cbn [ge app] in Hpr. fold nb in Hpr. apply fplaced_nth in Hpr.
             rewrite HEq, Hnr0, Nat.add_0_r. exact Hpr. }
           apply fruns_step. replace (S L + nb) with (im_end m) by lia.
           eapply fstep1_continue; [exact HnE|]. apply (fclose_if pr TW); [exact He|].
           rewrite Hmend. replace gen_endif_name with (site_end_name x) by (unfold site_end_name; rewrite Hk; reflexivity).
           apply (end_name_at f3 x); [apply G3|exact Hx|].
           rewrite <- Hmend. apply (hf_end _ _ F3'). exact HE.
      * (* another else line follows *)
        destruct (gmid_pos_hd r (S L + nb) Hr0) as (t & Ht0).
        assert (Hlt : (S (length pfx) <? length (im_else m)) = true).
        { apply Nat.ltb_lt. rewrite Hlen, Ht0. cbn. lia. }
        assert (Ex1 : nth_error (im_else m) (S (length pfx)) = Some (S L + nb)).
        { rewrite Hel, Ht0. apply FlowSim.nth_error_mid1. }
        apply (Htaken (S L + nb) (nth_error_In _ _ Ex1)).
        -- eapply fstep1_continue; [exact Hn0|]. rewrite Hstep.
           unfold step_elseif. rewrite Hpop. cbn [entry ic_passed ic_meta ic_idx]. rewrite Ec, Hlt, Ex1.
           rewrite FlowSim.set_ifstk_push. reflexivity.
        -- intros w' f3 G3 F3 F3'.
           set (ent := mkIC (S L + nb) true (length pfx) m) in *.
           assert (Hok : if_ok ent).
           { exists x. split; [exact Hx|]. split; [exact Hk|]. split; [exact Hm|]. apply Hmids.
             exact (nth_error_In _ _ Ex1). }
           destruct (after_branch r infn (S L + nb) e w' fb (if_push ent fb) f3 g ent Hr0 Hwr Hpr HG F3' G3 F3)
             as (f' & R' & G' & F'); auto.
           exists f'. auto.
    + (* this branch is not taken *)
      destruct (felses_dec r) as [Er|Hr0].
      * rewrite Er. destruct n as [|n']; [exact I|]. rewrite he_nil.
        assert (Hlt : (S (length pfx) <? length (im_else m)) = false).
        { apply Nat.ltb_ge. rewrite Hlen, Er. cbn. lia. }
        exists fb. split; [|split; [exact HG|apply hframe_refl]].
        apply fruns_step. eapply fstep1_goto; [exact Hn0|]. rewrite Hstep.
        unfold step_elseif. rewrite Hpop. cbn [entry ic_passed ic_meta ic_idx]. rewrite Ec, Hlt.
        rewrite FlowSim.set_ifstk_push. reflexivity.
      * destruct (gmid_pos_hd r (S L + nb) Hr0) as (t & Ht0).
        assert (Hlt : (S (length pfx) <? length (im_else m)) = true).
        { apply Nat.ltb_lt. rewrite Hlen, Ht0. cbn. lia. }
        assert (Ex1 : nth_error (im_else m) (S (length pfx)) = Some (S L + nb)).
        { rewrite Hel, Ht0. apply FlowSim.nth_error_mid1. }
        assert (St : fstep1 P (L, (w, if_push entry fb, g))
                     = Some (S L + nb, (w1, if_push (mkIC (S L + nb) false (S (length pfx)) m) fb, g))).
        { eapply fstep1_goto; [exact Hn0|]. rewrite Hstep.
          unfold step_elseif. rewrite Hpop. cbn [entry ic_passed ic_meta ic_idx]. rewrite Ec, Hlt, Ex1.
          rewrite FlowSim.set_ifstk_push. reflexivity. }
        eapply post_runs; [apply fruns_step; exact St|].
        replace (S (length pfx)) with (length (pfx ++ [L])) by (rewrite app_length; cbn; lia).
        apply (Hch cx infn r w1 (S L + nb) e m x (pfx ++ [L]) fb g Hr0 Hwr Hnr He Hpr Hx Hk Hm).
        -- rewrite Hel, <- app_assoc. reflexivity.
        -- fold nr. lia.
        -- apply (ready_sub cx infn _ _ _ (calls_e r) (for_bodies_e r) (sites_e r (S L + nb)) L (S (im_end m))
                            (S L + nb) (S (im_end m)) fb fb g Hr);
             [lia|lia|apply incl_appr; apply incl_refl|apply incl_appr; apply incl_refl
             |apply incl_appr; apply incl_refl|exact HG|reflexivity].
        -- exact HE.
  - (* else *)
    destruct Hwe as (Hsp & Hwb). cbn [nfr_e] in Hnfr.
    cbn [ge app] in Hp.
    pose proof (fplaced_nth _ _ _ _ Hp) as Hn0.
    pose proof (fplaced_tail _ _ _ _ Hp) as Hp1.
    pose proof (fplaced_app_l _ _ _ _ Hp1) as Hpb.
    pose proof (fplaced_app_r _ _ _ _ Hp1) as Hpend.
    cbn [ge length] in Hend. cbn [calls_e for_bodies_e sites_e] in Hr.
    set (nb := length (gb b)) in *.
    assert (HEq : im_end m = S L + nb) by lia.
    rewrite he_else.
    assert (St : fstep1 P (L, (w, if_push entry fb, g)) = Some (S L, (w, fb, g))).
    { eapply fstep1_continue; [exact Hn0|]. rewrite (fstep_kw pr TW) by kwn.
      rewrite (disp_else (map down P) TW) by exact Hsp.
      unfold step_else. cbn [if_push f_ifstk set_ifstk if_pop entry ic_current]. rewrite Nat.eqb_refl.
      cbn [ic_passed]. fold (if_push entry fb). rewrite FlowSim.set_ifstk_push. reflexivity. }
    assert (Hready2 : ready cx infn (calls_b b) (for_bodies_b b) (sites_b b (S L)) (S L) (S L + nb) fb g).
    { apply (ready_sub cx infn _ _ _ (calls_b b) (for_bodies_b b) (sites_b b (S L)) L (S (im_end m))
                       (S L) (S L + nb) fb fb g Hr);
        [lia|lia|apply incl_refl|apply incl_refl|apply incl_refl|exact HG|reflexivity]. }
    pose proof (Hb cx infn b w (S L) fb g Hwb Hnfr Hpb Hready2) as IH. fold nb in IH.
    apply (post_then (L, (w, if_push entry fb, g)) (S L, (w, fb, g)) (S L + nb) (S (im_end m)) fb fb g);
      [apply fruns_step; exact St|apply hframe_refl|exact IH|].
    intros w' f3 G3 F3 F3'. exists f3. split; [|split; [exact G3|exact F3']].
    apply fruns_step. replace (S L + nb) with (im_end m) by lia.
    eapply fstep1_continue; [apply fplaced_nth in Hpend; rewrite HEq; exact Hpend|].
    apply (fclose_if pr TW); [exact He|].
    rewrite Hmend. replace gen_endif_name with (site_end_name x) by (unfold site_end_name; rewrite Hk; reflexivity).
    apply (end_name_at f3 x); [apply G3|exact Hx|].
    rewrite <- Hmend. apply (hf_end _ _ F3'). exact HE.
Qed.

(* ---- while ---------------------------------------------------------------------------------------------- *)
Lemma gwhile_case n : stmt_ok n -> block_ok n -> forall cx infn sp c b e w p f g,
  pgs callable infn (GWhile sp c b e) -> nfr_s (GWhile sp c b e) = true ->
  fplaced P p (gs (GWhile sp c b e)) ->
  ready cx infn (calls_s (GWhile sp c b e)) (for_bodies_s (GWhile sp c b e)) (sites_s (GWhile sp c b e) p)
        p (p + length (gs (GWhile sp c b e))) f g ->
  post (p, (w, f, g)) (p + length (gs (GWhile sp c b e))) f g (hs ds (S n) (GWhile sp c b e) w).
Proof.
  intros Hs Hb cx infn sp c b e w p f g Hw Hn Hp Hr.
  pose proof (gwhile_meta_placed P TW callable infn p sp c b e Hp Hw) as Hm. fold P0 in Hm.
  pose proof (Hs cx infn (GWhile sp c b e)) as Hself.
  pose proof Hw as (Hsp & He & Hwb). pose proof Hn as Hnb. cbn [nfr_s] in Hnb.
  pose proof (gs_length_while sp c b e) as Hq.
  rewrite Hq in Hr |- *. cbn [calls_s for_bodies_s sites_s] in Hr.
  set (nb := length (gb b)) in *. set (E := S p + nb) in *. set (m := mkLM p E) in *.
  set (x := mkSite (Some CkWhile) p E []) in *.
  replace (p + S (S nb)) with (S E) in * by (unfold E; lia).
  pose proof Hr as (HG & HF & Hact & Hsites & Hv & Hrng & HFP).
  assert (Hx : In x Sites) by (apply Hsites; now left).
  pose proof Hp as Hp0. cbn [gs] in Hp.
  pose proof (fplaced_nth _ _ _ _ Hp) as Hn0.
  pose proof (fplaced_tail _ _ _ _ Hp) as Hp1.
  pose proof (fplaced_app_l _ _ _ _ Hp1) as Hpb.
  pose proof (fplaced_app_r _ _ _ _ Hp1) as Hpend. fold nb in Hpend.
  pose proof (fplaced_nth _ _ _ _ Hpend) as HnE. fold E in HnE.
  destruct (while_meta_info_ok P0 f p m (proj1 HG) Hm) as (f1 & Hmi & I1 & SS1 & E1).
  pose proof SS1 as (S1a & S1b & S1c).
  destruct (Good_meta f f1 x HG Hx I1 SS1 E1) as (G1 & Fr1).
  assert (HE1 : aget Nat.eqb E (f_end f1) <> None).
  { rewrite E1. cbn [m lm_end]. rewrite aget_aset_same. discriminate. }
  assert (Hwok : wh_ok m) by (exists x; auto).
  assert (Hstep : fstep P p (bkw sp (ACond c)) (w, f, g) = lift g (step_while P0 p c (w, f))).
  { rewrite (fstep_kw pr TW) by kwn. rewrite (disp_while (map down P) TW) by exact Hsp. reflexivity. }
  rewrite hs_while. destruct (eval_cond c w) as [v w1] eqn:Ec.
  destruct v.
  - set (f2 := wh_push m f1).
    assert (St : fstep1 P (p, (w, f, g)) = Some (S p, (w1, f2, g))).
    { eapply fstep1_continue; [exact Hn0|]. rewrite Hstep. unfold step_while. rewrite Hmi, Ec. reflexivity. }
    assert (G2 : Good f2).
    { destruct G1 as (A & B & C & D & E0). split; [exact A|]. split; [exact B|]. split; [cbn; constructor; auto|].
      split; [exact D|exact E0]. }
    assert (Fr2 : hframe f f2).
    { eapply hframe_trans; [exact Fr1|]. constructor.
      - exists []. split; [reflexivity|constructor].
      - exists [m]. reflexivity.
      - reflexivity.
      - auto. }
    assert (Hready2 : ready cx infn (calls_b b) (for_bodies_b b) (sites_b b (S p)) (S p) (S p + nb) f2 g).
    { apply (ready_sub cx infn _ _ _ (calls_b b) (for_bodies_b b) (sites_b b (S p)) p (S E) (S p) (S p + nb) f f2 g Hr);
        [lia|unfold E; lia|apply incl_refl|apply incl_refl|apply incl_tl; apply incl_refl|exact G2|cbn; exact S1c]. }
    pose proof (Hb cx infn b w1 (S p) f2 g Hwb Hnb Hpb Hready2) as IH. fold nb in IH. fold E in IH.
    apply (post_bind_in (p, (w, f, g)) (S p, (w1, f2, g)) E (S E) f f2 g
                        (hb ds n b w1) (fun w2 => hs ds n (GWhile sp c b e) w2));
      [apply fruns_step; exact St|exact Fr2|exact IH|].
    intros w2 f3 G3 F3 F3'.
    destruct (hf_wh _ _ F3) as (Jw & Ew). cbn [f2 wh_push f_whstk set_whstk] in Ew.
    pose proof G3 as (I3 & O3 & W3 & D3 & S3).
    assert (WJ : Forall wh_ok Jw) by (rewrite Ew in W3; apply Forall_app in W3; apply W3).
    destruct (wh_pop_sites E Jw m (f_whstk f1) WJ eq_refl Hwok) as (J' & Hpop & WJ').
    rewrite <- Ew in Hpop.
    set (f4 := wh_push m (set_whstk (J' ++ f_whstk f1) f3)).
    assert (St2 : fstep1 P (E, (w2, f3, g)) = Some (p, (w2, f4, g))).
    { eapply fstep1_goto; [exact HnE|]. rewrite (fclose_while pr TW); [|exact He|].
      - unfold step_endwhile. rewrite Hpop. reflexivity.
      - apply (end_name_at f3 x); [exact D3|exact Hx|]. apply (hf_end _ _ F3). exact HE1. }
    assert (G4 : Good f4).
    { split; [eapply Inv_same; [| | |exact I3]; reflexivity|]. split; [exact O3|]. split.
      - cbn. constructor; [exact Hwok|]. apply Forall_app. split; [exact WJ'|]. rewrite S1b. apply HG.
      - split; [exact D3|exact S3]. }
    assert (Fr4 : hframe f f4).
    { constructor.
      - exact (hf_if _ _ F3').
      - exists (m :: J'). cbn. now rewrite S1b.
      - cbn. exact (hf_for _ _ F3').
      - exact (hf_end _ _ F3'). }
    eapply post_pre; [apply fruns_step; exact St2|exact Fr4|].
    pose proof (Hself w2 p f4 g Hw Hn Hp0) as IH2. rewrite Hq in IH2.
    replace (p + S (S nb)) with (S E) in IH2 by (unfold E; lia). apply IH2.
    cbn [calls_s for_bodies_s sites_s].
    apply (ready_sub cx infn _ _ _ (calls_b b) (for_bodies_b b) (x :: sites_b b (S p)) p (S E) p (S E) f f4 g Hr);
      [lia|lia|apply incl_refl|apply incl_refl|apply incl_refl|exact G4|exact (hf_for _ _ Fr4)].
  - exists f1. split; [|split; [exact G1|exact Fr1]].
    apply fruns_step. eapply fstep1_goto; [exact Hn0|]. rewrite Hstep.
    unfold step_while. rewrite Hmi, Ec. reflexivity.
Qed.

(* ---- for-in ----------------------------------------------------------------------------------------------- *)
Definition loop_ok (n : nat) : Prop := forall cx infn sp x hv b e i w p fb f g,
  pgs callable infn (GFor sp x hv b e) -> nfr_s (GFor sp x hv b e) = true ->
  fplaced P p (gs (GFor sp x hv b e)) ->
  ready cx infn (calls_s (GFor sp x hv b e)) (for_bodies_s (GFor sp x hv b e)) (sites_s (GFor sp x hv b e) p)
        p (S (S p + length (gb b))) fb g ->
  ((i = 0 /\ f = fb) \/
   (i > 0 /\ f = for_push (mkFC i (mkLM p (S p + length (gb b)))) fb /\
    aget Nat.eqb (S p + length (gb b)) (f_end fb) <> None)) ->
  post (p, (w, f, g)) (S (S p + length (gb b))) fb g (hfor ds n x hv b i w).

Lemma gloop_case n : block_ok n -> loop_ok n -> loop_ok (S n).
Proof.
  intros Hb Hl cx infn sp x hv b e i w p fb f g Hw Hn Hp Hr Hentry.
  pose proof (gfor_meta_placed P TW callable infn p sp x hv b e Hp Hw) as Hm. fold P0 in Hm.
  pose proof Hw as (Hsp & He & Hwb).
  pose proof Hn as Hn2. cbn [nfr_s] in Hn2. apply andb_prop in Hn2. destruct Hn2 as (Hnoret & Hnb).
  apply negb_true_iff in Hnoret.
  pose proof Hr as Hr0. cbn [calls_s for_bodies_s sites_s] in Hr.
  set (nb := length (gb b)) in *. set (E := S p + nb) in *. set (m := mkLM p E) in *.
  set (xs := mkSite (Some CkFor) p E []) in *.
  pose proof Hr as (HG & HF & Hact & Hsites & Hv & Hrng & HFP).
  assert (Hx : In xs Sites) by (apply Hsites; now left).
  pose proof Hp as Hp0. cbn [gs] in Hp.
  pose proof (fplaced_nth _ _ _ _ Hp) as Hn0.
  pose proof (fplaced_tail _ _ _ _ Hp) as Hp1.
  pose proof (fplaced_app_l _ _ _ _ Hp1) as Hpb.
  pose proof (fplaced_app_r _ _ _ _ Hp1) as Hpend. fold nb in Hpend.
  pose proof (fplaced_nth _ _ _ _ Hpend) as HnE. fold E in HnE.
  assert (Hci : exists f1,
    for_call_info P0 p f = (Some (mkFC i m), f1) /\ Good f1 /\ hframe fb f1 /\
    f_ifstk f1 = f_ifstk fb /\ f_whstk f1 = f_whstk fb /\
    aget Nat.eqb E (f_end f1) <> None).
  { unfold for_call_info. destruct Hentry as [(Hi & ->)|(Hi & -> & HEb)].
    - subst i. rewrite (for_top_nomatch cx p (S E) _ _ fb p HFP Hv) by (try apply Hrng; lia).
      rewrite set_forstk_id. cbv zeta.
      destruct (for_meta_info_ok P0 fb p m (proj1 HG) Hm) as (f1 & Hmi & I1 & SS1 & E1).
      destruct (Good_meta fb f1 xs HG Hx I1 SS1 E1) as (G1 & Fr1).
      rewrite Hmi. exists f1. split; [reflexivity|]. split; [exact G1|]. split; [exact Fr1|].
      destruct SS1 as (A & B & C). split; [exact A|]. split; [exact B|].
      rewrite E1. cbn [m lm_end]. rewrite aget_aset_same. discriminate.
    - exists fb. cbn [for_push f_forstk set_forstk for_pop_top].
      assert (Hfm : for_match p (mkFC i m) = true)
        by (unfold for_match; cbn; rewrite Nat.eqb_refl; reflexivity).
      rewrite Hfm. cbv beta iota zeta. fold (for_push (mkFC i m) fb). rewrite set_forstk_push.
      split; [reflexivity|]. split; [exact HG|]. split; [apply hframe_refl|]. auto. }
  destruct Hci as (f1 & Hci & G1 & Fr1 & S1a & S1b & HE1).
  assert (Hstep : fstep P p (bkw sp (AFor x hv)) (w, f, g) = lift g (step_for P0 p x hv (w, f))).
  { rewrite (fstep_kw pr TW) by kwn. rewrite (disp_for (map down P) TW) by exact Hsp. reflexivity. }
  rewrite hfor_step.
  destruct (get_next_iteration i (vval hv w) w) as [v|] eqn:Eg.
  - set (ent := mkFC (S i) m).
    set (f2 := for_push ent f1).
    assert (St : fstep1 P (p, (w, f, g)) = Some (S p, (vset x v w, f2, g))).
    { eapply fstep1_continue; [exact Hn0|]. rewrite Hstep.
      unfold step_for. rewrite Hci. cbn [fc_iter fc_meta]. rewrite Eg. reflexivity. }
    assert (G2 : Good f2).
    { eapply Good_same; [| | | | | |exact G1]; reflexivity. }
    assert (Hready2 : ready cx infn (calls_b b) (for_bodies_b b) (sites_b b (S p)) (S p) (S p + nb) f2 g).
    { split; [exact G2|]. split; [exact HF|]. split; [apply (act_ok_sub pr infn p (S E) (S p) (S p + nb) g Hact); lia|].
      split; [intros y Hy; apply Hsites; now right|]. split; [exact Hv|]. split.
      - intros l Hl0. apply Hrng. lia.
      - destruct HFP as (Cur & Outer & Efor & HC & HO & Hcs & Hbs & Hcin).
        exists (ent :: Cur), Outer. split.
        + cbn [f2 for_push f_forstk set_forstk]. rewrite (hf_for _ _ Fr1), Efor. reflexivity.
        + split.
          * constructor.
            -- split; [unfold outside; cbn; lia|]. split; cbn; apply Hrng; lia.
            -- eapply Forall_impl; [|exact HC]. unfold outside. intros a [[A B] C]. split; [split; lia|exact C].
          * split; [exact HO|]. split.
            -- intros _ f' Hf'. apply (proj2 (Hbs b (or_introl eq_refl))). exact Hf'.
            -- split; [intros B HB; apply Hbs; now right|].
               destruct cx; [exact I|]. intros f' Hf'. apply Hcin. exact Hf'. }
    pose proof (Hb cx infn b (vset x v w) (S p) f2 g Hwb Hnb Hpb Hready2) as IH. fold nb in IH. fold E in IH.
    destruct (hb ds n b (vset x v w)) as [w2|rv rw| |] eqn:Eb; [| |exact I|exact I].
    2:{ exfalso. eapply (proj1 (proj2 (no_return ds n))); [exact Hnoret|exact Eb]. }
    destruct IH as (f3 & R3 & G3 & F3).
    pose proof (hf_for _ _ F3) as Ef. cbn [f2 for_push f_forstk set_forstk] in Ef.
    set (fb' := set_forstk (f_forstk fb) f3).
    assert (St2 : fstep1 P (E, (w2, f3, g)) = Some (p, (w2, for_push ent fb', g))).
    { eapply fstep1_goto; [exact HnE|]. rewrite (fclose_for pr TW); [|exact He|].
      - unfold step_endfor. rewrite Ef. cbn [for_pop].
        assert (Hfm : for_match E ent = true)
          by (unfold for_match; cbn; rewrite Nat.eqb_refl; apply orb_true_r).
        rewrite Hfm. rewrite (hf_for _ _ Fr1). reflexivity.
      - apply (end_name_at f3 xs); [apply G3|exact Hx|]. apply (hf_end _ _ F3). exact HE1. }
    assert (Gb' : Good fb').
    { eapply Good_same; [| | | | | |exact G3]; reflexivity. }
    assert (Frb : hframe fb fb').
    { destruct (hf_if _ _ F3) as (Jb & Ei & Fi). destruct (hf_wh _ _ F3) as (Jw & Ew).
      cbn [f2 for_push f_ifstk f_whstk set_forstk] in Ei, Ew.
      constructor.
      - exists Jb. split; [cbn; rewrite Ei, S1a; reflexivity|exact Fi].
      - exists Jw. cbn. rewrite Ew, S1b. reflexivity.
      - reflexivity.
      - intros l Hl0. cbn. apply (hf_end _ _ F3). cbn. apply (hf_end _ _ Fr1). exact Hl0. }
    assert (Hrb' : ready cx infn (calls_s (GFor sp x hv b e)) (for_bodies_s (GFor sp x hv b e))
                         (sites_s (GFor sp x hv b e) p) p (S E) fb' g).
    { apply (ready_sub cx infn _ _ _ _ _ _ p (S E) p (S E) fb fb' g Hr0);
        [lia|lia|apply incl_refl|apply incl_refl|apply incl_refl|exact Gb'|reflexivity]. }
    eapply post_pre; [eapply fruns_step_then; [exact St|]; eapply fruns_trans; [exact R3|apply fruns_step; exact St2]
                     |exact Frb|].
    apply (Hl cx infn sp x hv b e (S i) w2 p fb' (for_push ent fb') g Hw Hn Hp0 Hrb').
    right. split; [lia|]. split; [reflexivity|].
    cbn. apply (hf_end _ _ F3). exact HE1.
  - exists f1. split; [|split; [exact G1|exact Fr1]].
    apply fruns_step. eapply fstep1_goto; [exact Hn0|]. rewrite Hstep.
    unfold step_for. rewrite Hci. cbn [fc_iter fc_meta]. rewrite Eg. reflexivity.
Qed.

Lemma gfor_case n : loop_ok n -> forall cx infn sp x hv b e w p f g,
  pgs callable infn (GFor sp x hv b e) -> nfr_s (GFor sp x hv b e) = true ->
  fplaced P p (gs (GFor sp x hv b e)) ->
  ready cx infn (calls_s (GFor sp x hv b e)) (for_bodies_s (GFor sp x hv b e)) (sites_s (GFor sp x hv b e) p)
        p (p + length (gs (GFor sp x hv b e))) f g ->
  post (p, (w, f, g)) (p + length (gs (GFor sp x hv b e))) f g (hs ds (S n) (GFor sp x hv b e) w).
Proof.
  intros Hl cx infn sp x hv b e w p f g Hw Hn Hp Hr.
  rewrite gs_length_for in *. replace (p + S (S (length (gb b)))) with (S (S p + length (gb b))) in * by lia.
  rewrite hs_for.
  apply (Hl cx infn sp x hv b e 0 w p f f g Hw Hn Hp Hr). left. auto.
Qed.

(* ---- all together ------------------------------------------------------------------------------------------ *)
Lemma rsim_all n : stmt_ok n /\ block_ok n /\ chain_ok n /\ loop_ok n.
Proof.
  induction n as [|n (Hs & Hb & Hc & Hl)].
  - repeat split; red; intros; exact I.
  - assert (Hb' : block_ok (S n)) by (apply block_case; assumption).
    split; [|split; [exact Hb'|split; [apply gchain_case; assumption|apply gloop_case; assumption]]].
    intros cx infn s w p f g Hw Hn Hp Hr.
    destruct s as [p0|sp c b els e|sp c b e|sp x hv b e|out fn args|sp a].
    + exact (cmd_case n cx infn _ _ _ p0 w p f g Hp Hr).
    + exact (gif_case n Hb Hc cx infn sp c b els e w p f g Hw Hn Hp Hr).
    + exact (gwhile_case n Hs Hb cx infn sp c b e w p f g Hw Hn Hp Hr).
    + exact (gfor_case n Hl cx infn sp x hv b e w p f g Hw Hn Hp Hr).
    + exact (call_case n Hb cx infn out fn args w p f g Hw Hp Hr).
    + destruct Hw as (Hi & Hsp). subst infn. exact (return_case n cx _ _ _ sp a w p f g Hsp Hp Hr).
Qed.
End Rec.
