(* CollectionsTables.v — the model's own table of the C12 commands (directory name in the SDK
   source, aliases (each must still be declared by the source; further aliases are tolerated), minimal argument count, wanted kind) and the test that the table regenerated
   from the source (coq/generated/GenCollections.v, lib/gen/c12_gen.py) says the same.
   DEFINITIONS ONLY; the proof by computation is CollectionsProof.gen_table_ok. *)
From stdpp Require Import gmap list.
From Coq Require Import NArith ZArith String Ascii.
Require Import DS.Collections DS.CollectionsSpec.
Require DSG.GenCollections.

Definition t (x : string) : str := (fun a => N.of_nat (nat_of_ascii a)) <$> list_ascii_of_string x.

Definition all_cmds : list cmd :=
  [CArray; CRange; CArrayPush; CArrayPop; CArrayGet; CArraySet; CArrayRemove; CArrayClear;
   CArrayLength; CMap; CMapPut; CMapGet; CMapRemove; CMapSize; CMapKeys; CMapClear;
   CSetNew; CSetPut; CSetRemove; CSetContains; CSetSize; CSetClear; CSetToArray;
   CIsArray; CIsMap; CIsSet; CRelease;
   CArrayIsEmpty; CArrayContains; CArrayConcat; CArrayJoin; CMapContainsKey;
   CMapContainsValue; CMapIsEmpty; CSetFromArray; CSetIsEmpty].

Local Open Scope string_scope.
Definition cmd_dir (c : cmd) : str :=
  match c with
  | CArray => t "array" | CRange => t "range" | CArrayPush => t "array_push"
  | CArrayPop => t "array_pop" | CArrayGet => t "array_get" | CArraySet => t "array_set"
  | CArrayRemove => t "array_remove" | CArrayClear => t "array_clear"
  | CArrayLength => t "array_length" | CMap => t "map" | CMapPut => t "map_put"
  | CMapGet => t "map_get" | CMapRemove => t "map_remove" | CMapSize => t "map_size"
  | CMapKeys => t "map_keys" | CMapClear => t "map_clear" | CSetNew => t "set"
  | CSetPut => t "set_put" | CSetRemove => t "set_remove" | CSetContains => t "set_contains"
  | CSetSize => t "set_size" | CSetClear => t "set_clear" | CSetToArray => t "set_to_array"
  | CIsArray => t "is_array" | CIsMap => t "is_map" | CIsSet => t "is_set"
  | CRelease => t "release" | CRaw => t "raw"
  | CArrayIsEmpty => t "array_is_empty" | CArrayContains => t "array_contains"
  | CArrayConcat => t "array_concat" | CArrayJoin => t "array_join"
  | CMapContainsKey => t "map_contains_key" | CMapContainsValue => t "map_contains_value"
  | CMapIsEmpty => t "map_is_empty" | CSetFromArray => t "set_from_array"
  | CSetIsEmpty => t "set_is_empty"
  end.
Definition cmd_aliases (c : cmd) : list str :=
  match c with
  | CArrayPush => [t "array_push"; t "array_add"; t "array_put"]
  | CArrayLength => [t "array_length"; t "arrlen"; t "array_size"]
  | CMapPut => [t "map_put"; t "map_add"]
  | CSetNew => [t "set_new"]
  | CSetPut => [t "set_put"; t "set_add"]
  | _ => [cmd_dir c]
  end.
Local Close Scope string_scope.

(* fewer arguments than this: "... not provided." (release: the answer "false") *)
Definition cmd_min_args (c : cmd) : nat :=
  match c with
  | CArray | CMap | CSetNew | CArrayConcat | CRaw => 0
  | CRange | CArrayGet | CArrayRemove | CMapGet | CMapRemove | CSetRemove | CSetContains
  | CArrayContains | CArrayJoin | CMapContainsKey | CMapContainsValue => 2
  | CArraySet | CMapPut => 3
  | _ => 1
  end.
Definition kind_code (k : option kind) : N :=
  match k with Some KList => 1 | Some KMap => 2 | Some KSet => 3 | _ => 0 end%N.

Definition ord_id (_ : nat) (l : list str) : list str := l.
Definition is_short (c : cmd) (r : sres) : bool :=
  match c, r with
  | CRelease, SKeep (Cont (Some v)) => bool_decide (v = s_false)
  | CRelease, _ => false
  | _, SKeep (Error EArgs) => true
  | _, _ => false
  end.
Definition args_check (c : cmd) : bool :=
  forallb (fun k => is_short c (spec ord_id c (replicate k [120%N]) init)) (seq 0 (cmd_min_args c))
  && negb (match spec ord_id c (replicate (cmd_min_args c) [120%N]) init with
           | SKeep (Error EArgs) => true | _ => false end).

Definition row_ok (c : cmd) (row : str * list str * bool * N * N) : bool :=
  let '(d, al, sc, mn, kd) := row in
  bool_decide (d = cmd_dir c) && forallb (fun a => bool_decide (a ∈ al)) (cmd_aliases c) && Bool.eqb sc (negb (native c))
  (* 99 / 9 = "the extractor could not read this fact from the source" (e.g. after a rewrite with slice patterns or
     get_mut): the row then only ties directory, aliases and native/script; argument counts and wanted kinds of such
     a command are tied by the correspondence run alone *)
  && ((N.to_nat mn =? cmd_min_args c)%nat || (mn =? 99)%N)
  && (if native c then (kd =? kind_code (wants c))%N || (kd =? 9)%N else true)
  && args_check c.
Fixpoint all2 {A B} (f : A -> B -> bool) (l : list A) (m : list B) : bool :=
  match l, m with
  | [], [] => true
  | a :: l', b :: m' => f a b && all2 f l' m'
  | _, _ => false
  end.
Definition gen_table_check : bool :=
  DSG.GenCollections.gen_c12_understood && all2 row_ok all_cmds DSG.GenCollections.gen_c12_cmds.

(* name or alias -> command (used by the driver of the correspondence run) *)
Definition cmd_of_alias (n : str) : option cmd :=
  find (fun c => bool_decide (n ∈ cmd_aliases c)) (all_cmds ++ [CRaw]).
