(* CliProof.v — proofs about Cli.v (C20). *)
Require Import DS.Base DS.Parser DS.Cli.

(* ------------------------------------------------------------------------------------------ *)
(* lower-case names *)

Lemma lower_ascii_fix c : lower_ascii c = c <-> ~ ascii_upper c.
Proof.
  unfold lower_ascii, ascii_upper.
  destruct (N.leb_spec 65 c) as [H1|H1], (N.leb_spec c 90) as [H2|H2]; cbn [andb]; split; intros H; try lia; reflexivity.
Qed.

Lemma lower_str_fix t : str_eqb (lower_str t) t = true <-> Forall (fun c => ~ ascii_upper c) t.
Proof.
  rewrite str_eqb_eq. unfold lower_str. induction t as [|c t IH]; cbn [map].
  - split; [constructor|reflexivity].
  - split.
    + intros [= Hc Ht]. constructor; [now apply lower_ascii_fix|now apply IH].
    + intros H. inversion H; subst. f_equal; [now apply lower_ascii_fix|now apply IH].
Qed.

Lemma is_lower_case_spec v : is_lower_case v = true <-> lower_name v.
Proof. destruct v as [t|]; cbn; [apply lower_str_fix|tauto]. Qed.

Lemma is_lower_case_false v : is_lower_case v = false <-> ~ lower_name v.
Proof.
  rewrite <- is_lower_case_spec. destruct (is_lower_case v); split; intros; congruence.
Qed.

Lemma lower_dec v :
  (is_lower_case v = true /\ lower_name v) \/ (is_lower_case v = false /\ ~ lower_name v).
Proof.
  destruct (is_lower_case v) eqn:E; [left|right]; split; try reflexivity.
  - now apply is_lower_case_spec.
  - now apply is_lower_case_false.
Qed.

Lemma lint_instruction_none l o c :
  lint_instruction l o c = None <-> lower_name l /\ lower_name c /\ lower_name o.
Proof.
  unfold lint_instruction.
  destruct (lower_dec l) as [[-> Hl]|[-> Hl]], (lower_dec c) as [[-> Hc]|[-> Hc]],
    (lower_dec o) as [[-> Ho]|[-> Ho]]; cbn; split; intros H; try discriminate; try reflexivity; tauto.
Qed.

(* which field is blamed: the first of label, command, output that is not lower-case *)
Lemma lint_instruction_some l o c k :
  lint_instruction l o c = Some k <->
  match k with
  | LLabel => ~ lower_name l
  | LCommand => lower_name l /\ ~ lower_name c
  | LOutput => lower_name l /\ lower_name c /\ ~ lower_name o
  end.
Proof.
  unfold lint_instruction.
  destruct (lower_dec l) as [[-> Hl]|[-> Hl]], (lower_dec c) as [[-> Hc]|[-> Hc]],
    (lower_dec o) as [[-> Ho]|[-> Ho]], k; cbn; split; intros H; try discriminate; try reflexivity; tauto.
Qed.

Definition instr_lint (i : instr) : option lint_kind :=
  match i_type i with IScript l o c _ => lint_instruction l o c | _ => None end.

Lemma instr_lint_none i : instr_lint i = None <-> lower_instr i.
Proof.
  unfold instr_lint, lower_instr. destruct (i_type i); try tauto. apply lint_instruction_none.
Qed.

Lemma lint_instructions_ok is : lint_instructions is = ROk <-> Forall lower_instr is.
Proof.
  induction is as [|i r IH]; cbn [lint_instructions].
  - split; [constructor|reflexivity].
  - fold (instr_lint i). destruct (instr_lint i) as [k|] eqn:E.
    + split; [discriminate|]. intros H. inversion H; subst.
      apply instr_lint_none in H2. congruence.
    + rewrite IH. split.
      * intros H. constructor; [now apply instr_lint_none|assumption].
      * intros H. now inversion H.
Qed.

Lemma lint_parsed_ok r : lint_parsed r = ROk <-> exists is, r = TOk is /\ Forall lower_instr is.
Proof.
  destruct r as [is|e l s]; cbn [lint_parsed].
  - rewrite lint_instructions_ok. split; [intros H; now exists is|intros (is' & [= <-] & H); exact H].
  - split; [discriminate|intros (is & H & _); discriminate].
Qed.

(* a rejected file: the first instruction that is not lower-case is reported, with its position *)
Lemma lint_instructions_err is e :
  lint_instructions is = RErr e ->
  exists pre i post k,
    is = pre ++ i :: post /\ Forall lower_instr pre /\ instr_lint i = Some k /\
    e = CLint k (i_line i) (i_source i).
Proof.
  induction is as [|i r IH]; cbn [lint_instructions]; [discriminate|].
  fold (instr_lint i). destruct (instr_lint i) as [k|] eqn:E.
  - intros [= <-]. exists [], i, r, k. repeat split; try assumption; constructor.
  - intros H. destruct (IH H) as (pre & j & post & k & -> & Hp & Hj & He).
    exists (i :: pre), j, post, k. repeat split; try assumption.
    constructor; [now apply instr_lint_none|assumption].
Qed.

Lemma lint_parsed_err r e :
  lint_parsed r = RErr e ->
  (exists pe l s, r = TErr pe l s /\ e = CParse pe l s) \/
  (exists is pre i post k, r = TOk is /\ is = pre ++ i :: post /\ Forall lower_instr pre /\
     instr_lint i = Some k /\ e = CLint k (i_line i) (i_source i)).
Proof.
  destruct r as [is|pe l s]; cbn [lint_parsed].
  - intros H. right. destruct (lint_instructions_err _ _ H) as (pre & i & post & k & H1 & H2 & H3 & H4).
    exists is, pre, i, post, k. auto.
  - intros [= <-]. left. now exists pe, l, s.
Qed.

(* ------------------------------------------------------------------------------------------ *)
(* the dispatch table *)

Definition is_flag (a : str) (l : list str) : Prop := In a l.

Lemma dispatch_repl : dispatch [] = ARepl.
Proof. reflexivity. Qed.

Lemma dispatch_version r : dispatch (s_version :: r) = AVersion.
Proof. reflexivity. Qed.

Lemma dispatch_help a r : In a [s_help; s_h] -> dispatch (a :: r) = AHelp.
Proof. intros [<-|[<-|[]]]; reflexivity. Qed.

Lemma not_in_eqb a l : ~ In a l -> forallb (fun x => negb (str_eqb a x)) l = true.
Proof.
  induction l as [|x l IH]; intros H; cbn; [reflexivity|].
  destruct (str_eqb_spec a x) as [->|]; [exfalso; apply H; now left|]. cbn. apply IH.
  intros Hin. apply H. now right.
Qed.

Lemma dispatch_single a : ~ In a [s_version; s_help; s_h] -> dispatch [a] = ARunFile a.
Proof.
  intros H. apply not_in_eqb in H. cbn in H. unfold dispatch.
  destruct (str_eqb a s_version), (str_eqb a s_help), (str_eqb a s_h); cbn in *; try discriminate; reflexivity.
Qed.

Lemma dispatch_eval a t r : In a [s_e; s_eval] -> dispatch (a :: t :: r) = ARunText t.
Proof. intros [<-|[<-|[]]]; reflexivity. Qed.

Lemma dispatch_lint a f r : In a [s_l; s_lint] -> dispatch (a :: f :: r) = ALint f.
Proof. intros [<-|[<-|[]]]; reflexivity. Qed.

Lemma dispatch_file a b r :
  ~ In a [s_version; s_help; s_h; s_e; s_eval; s_l; s_lint] -> dispatch (a :: b :: r) = ARunFile a.
Proof.
  intros H. apply not_in_eqb in H. cbn in H. unfold dispatch.
  destruct (str_eqb a s_version), (str_eqb a s_help), (str_eqb a s_h), (str_eqb a s_e),
    (str_eqb a s_eval), (str_eqb a s_l), (str_eqb a s_lint); cbn in *; try discriminate; reflexivity.
Qed.

(* the table is complete: every argument vector falls in exactly one row *)
Lemma dispatch_cases args :
  args = [] \/
  (exists a r, args = a :: r /\ In a [s_version; s_help; s_h]) \/
  (exists a, args = [a] /\ ~ In a [s_version; s_help; s_h]) \/
  (exists a t r, args = a :: t :: r /\ In a [s_e; s_eval; s_l; s_lint]) \/
  (exists a b r, args = a :: b :: r /\ ~ In a [s_version; s_help; s_h; s_e; s_eval; s_l; s_lint]).
Proof.
  destruct args as [|a r]; [now left|right].
  assert (D : forall (x : str) (l : list str), In x l \/ ~ In x l).
  { intros x l. destruct (str_in x l) eqn:E; [left; now apply str_in_spec|right].
    intros H. apply str_in_spec in H. congruence. }
  destruct (D a [s_version; s_help; s_h]) as [H|H]; [left; now exists a, r|right].
  destruct r as [|b r]; [left; now exists a|right].
  destruct (D a [s_e; s_eval; s_l; s_lint]) as [H2|H2]; [left; now exists a, b, r|right].
  exists a, b, r. split; [reflexivity|]. cbn in *. tauto.
Qed.

(* ------------------------------------------------------------------------------------------ *)
(* exit status *)

Lemma prints_error_spec r : prints_error r = true <-> r <> ROk.
Proof. destruct r; cbn; split; intros; try discriminate; try congruence; reflexivity. Qed.

Section Cli.
Variable run_file run_text : str -> bool.
Variable repl : bool.
Variable parse_file : str -> tres.
Variable err_status : N.
Hypothesis err_status_nz : err_status <> 0.
Local Notation run_cli := (run_cli run_file run_text repl parse_file).
Local Notation exit_code := (exit_code err_status).
Local Notation exit_status := (exit_status run_file run_text repl parse_file err_status).

Lemma exit_code_zero r : exit_code r = 0 <-> r = ROk.
Proof. destruct r; cbn; split; intros; try reflexivity; try discriminate; congruence. Qed.

Lemma prints_error_iff r : prints_error r = true <-> exit_code r <> 0.
Proof. rewrite prints_error_spec, exit_code_zero. tauto. Qed.

Lemma exit_status_zero args : exit_status args = 0 <-> run_cli args = ROk.
Proof. apply exit_code_zero. Qed.

Lemma of_bool_ok b : of_bool b = ROk <-> b = true.
Proof. destruct b; cbn; split; intros; try reflexivity; discriminate. Qed.

(* the status in terms of what the library decided, per row *)
Lemma exit_status_spec args :
  exit_status args = 0 <->
  match dispatch args with
  | ARepl => repl = true
  | AVersion | AHelp => True
  | ARunFile f => run_file f = true
  | ARunText t => run_text t = true
  | ALint f => exists is, parse_file f = TOk is /\ Forall lower_instr is
  end.
Proof.
  rewrite exit_status_zero. unfold Cli.run_cli.
  destruct (dispatch args); try apply of_bool_ok; try tauto. apply lint_parsed_ok.
Qed.
End Cli.

(* lint never runs anything: its verdict is a function of the parse alone *)
Lemma lint_only_parses rf rt rp rf' rt' rp' pf args f :
  dispatch args = ALint f ->
  run_cli rf rt rp pf args = lint_parsed (pf f) /\
  run_cli rf rt rp pf args = run_cli rf' rt' rp' pf args.
Proof. intros H. unfold run_cli. now rewrite H. Qed.
