(* FlowforLib.v — support for the translation tie "flowfor" (lib/gen/flowfor_gen.py -> DSG.GenFlowforFn):
   duckscript_sdk/src/sdk/std/flowcontrol/forin/mod.rs.  Definitions only (proofs: FlowforEmbed.v, FlowforGenTie.v).

   1. the result / loop types of the translated functions: every translated function returns [gres (value * gstate)]
      ([GPanic] = the Rust code unwinds: `arguments[i]` / `list[i]` out of range; [GFuel] = the `loop { }` of
      pop_call_info_for_line ran out of the fuel the configuration gives it — both shown unreachable by the tie theorems);
   2. [gstate]: the parts of `state: &mut HashMap<String, StateValue>` forin/mod.rs reads or writes, with the TYPED
      records the hand model Flow.v keeps instead of the string-keyed sub-state maps — and with the one component of the
      Rust CallInfo the hand model omits, [gc_lcn] = line_context_name, plus the current line context name [gs_lcn];
   3. the "g-model": one hand-written function per Rust function over [gstate], faithful to the Rust including the
      line_context_name comparison.  FlowforGenTie.v proves translation = g-model for ALL inputs; FlowforEmbed.v proves
      (independently of any generated file) that on the states the hand model Flow.v describes — every call-info entry
      carries the current line context name, Flow.v's stated assumption — the g-model IS Flow.v's
      for_meta_info / for_pop_top / for_pop / for_push / get_next_iteration / step_for / step_endfor. *)
Require Import DS.Base DS.Cond DS.FlowTables DS.FlowScan DS.Flow.
Require Import DSG.GenFlowNames.
Local Open Scope nat_scope.
Local Open Scope bool_scope.

(* ---- outcomes ----------------------------------------------------------------------------------------------------- *)
Inductive gres (A : Type) : Type := GVal (a : A) | GPanic | GFuel.
Arguments GVal {A} a.
Arguments GPanic {A}.
Arguments GFuel {A}.
Definition gbind {A B : Type} (r : gres A) (k : A -> gres B) : gres B :=
  match r with GVal a => k a | GPanic => GPanic | GFuel => GFuel end.

(* `loop { body }`: the body either goes round again or returns from the function *)
Inductive lctl (R : Type) : Type := LNext | LRet (r : R).
Arguments LNext {R}.
Arguments LRet {R} r.
Fixpoint gloop {S R : Type} (fuel : nat) (body : S -> gres (lctl R * S)) (s : S) : gres (R * S) :=
  match fuel with
  | O => GFuel
  | Datatypes.S fuel' =>
    match body s with
    | GVal (LRet r, s') => GVal (r, s')
    | GVal (LNext, s') => gloop fuel' body s'
    | GPanic => GPanic
    | GFuel => GFuel
    end
  end.

(* ---- state ---------------------------------------------------------------------------------------------------------- *)
(* forin::CallInfo { iteration, meta_info, line_context_name } *)
Record gcall := mkGC { gc_iter : nat; gc_meta : lmeta; gc_lcn : str }.
Record gstate := mkGS {
  gs_meta : list (nat * lmeta);      (* command sub-state "forin" / "meta_info", one ForInMetaInfo per line key *)
  gs_stk : list gcall;               (* command sub-state "forin" / "call_stack", head = top of the Vec *)
  gs_end : list (nat * str);         (* command sub-state "end" (end::set_command) *)
  gs_arrs : list (str * list str);   (* handles sub-state, arrays of strings (Flow.w_arrs) *)
  gs_lcn : str }.                    (* runtime sub-state "line_context_name" / "name" (types/scope.rs) *)

Definition g_set_meta v (gs : gstate) := mkGS v (gs_stk gs) (gs_end gs) (gs_arrs gs) (gs_lcn gs).
Definition g_set_stk v (gs : gstate) := mkGS (gs_meta gs) v (gs_end gs) (gs_arrs gs) (gs_lcn gs).
Definition g_set_end v (gs : gstate) := mkGS (gs_meta gs) (gs_stk gs) v (gs_arrs gs) (gs_lcn gs).

(* HashMap::insert on the meta-info cache, as Flow.v spells it (lookups are by [aget]: first binding wins) *)
Definition meta_put (line : nat) (m : lmeta) (l : list (nat * lmeta)) : list (nat * lmeta) := (line, m) :: l.
(* end::set_command = Flow.end_set on the [f_end] component *)
Definition end_put (line : nat) (name : str) (l : list (nat * str)) : list (nat * str) := aset Nat.eqb line name l.

Definition s_in : str := [105%N; 110%N].     (* "in" *)

(* ---- the g-model: forin/mod.rs over gstate --------------------------------------------------------------------------- *)
(* get_or_create_forin_meta_info_for_line *)
Definition g_meta_info (P : list instr) (line : nat) (gs : gstate) : option lmeta * gstate :=
  match aget Nat.eqb line (gs_meta gs) with
  | Some m => (Some m, g_set_end (end_put (lm_end m) gen_endfor_name (gs_end gs)) gs)
  | None =>
    match create_loop_meta gen_for_tables P line with
    | Some m => (Some m, g_set_end (end_put (lm_end m) gen_endfor_name (gs_end gs))
                           (g_set_meta (meta_put line m (gs_meta gs)) gs))
    | None => (None, gs)
    end
  end.

(* the test of pop_call_info_for_line *)
Definition g_match (line : nat) (c : str) (e : gcall) : bool :=
  (Nat.eqb (lm_start (gc_meta e)) line || Nat.eqb (lm_end (gc_meta e)) line) && str_eqb (gc_lcn e) c.
Definition g_pop_top (line : nat) (c : str) (stk : list gcall) : option gcall * list gcall :=
  match stk with
  | [] => (None, [])
  | e :: r => if g_match line c e then (Some e, r) else (None, e :: r)
  end.
Fixpoint g_pop_rec (line : nat) (c : str) (stk : list gcall) : option gcall * list gcall :=
  match stk with
  | [] => (None, [])
  | e :: r => if g_match line c e then (Some e, r) else g_pop_rec line c r
  end.
(* store_call_info *)
Definition g_store (ci : gcall) (gs : gstate) : gstate := g_set_stk (ci :: gs_stk gs) gs.
(* one round of the `loop` of pop_call_info_for_line *)
Definition g_pop_body (line : nat) (recursive : bool) (c : str) (gs : gstate) : lctl (option gcall) * gstate :=
  match gs_stk gs with
  | [] => (LRet None, gs)
  | e :: r =>
    if g_match line c e then (LRet (Some e), g_set_stk r gs)
    else if negb recursive then (LRet None, g_store e (g_set_stk r gs))
    else (LNext, g_set_stk r gs)
  end.
(* pop_call_info_for_line *)
Definition g_pop (line : nat) (recursive : bool) (gs : gstate) : option gcall * gstate :=
  let (o, stk) := (if recursive then g_pop_rec else g_pop_top) line (gs_lcn gs) (gs_stk gs) in
  (o, g_set_stk stk gs).
(* get_next_iteration *)
Definition g_next (iteration : nat) (handle : str) (gs : gstate) : option str :=
  match aget str_eqb handle (gs_arrs gs) with
  | Some l => nth_error l iteration
  | None => None
  end.

(* ForInCommand::run (context.arguments, context.variables, context.state) *)
Definition g_step_for (P : list instr) (line : nat) (args : list str) (vars : list (str * str)) (gs : gstate)
  : cres * list (str * str) * gstate :=
  match args with
  | [x; kw; handle] =>
    if str_eqb kw s_in then
      let (found, gs0) := g_pop line false gs in
      let (oci, gs1) :=
        match found with
        | Some ci => (Some ci, gs0)
        | None => let (om, gs1) := g_meta_info P line gs0 in
                  (match om with Some m => Some (mkGC 0 m (gs_lcn gs1)) | None => None end, gs1)
        end in
      match oci with
      | None => (RCrash 1, vars, gs1)
      | Some ci =>
        match g_next (gc_iter ci) handle gs1 with
        | Some v => (RContinue, aset str_eqb x v vars,
                     g_store (mkGC (S (gc_iter ci)) (gc_meta ci) (gs_lcn gs1)) gs1)
        | None => (RGoto (S (lm_end (gc_meta ci))), vars, gs1)
        end
      end
    else (RError 10, vars, gs)
  | _ => (RError 10, vars, gs)
  end.

(* EndForInCommand::run *)
Definition g_step_endfor (line : nat) (vars : list (str * str)) (gs : gstate) : cres * list (str * str) * gstate :=
  let (found, gs0) := g_pop line true gs in
  match found with
  | Some ci => (RGoto (lm_start (gc_meta ci)), vars, g_store ci gs0)
  | None => (RError 5, vars, gs0)
  end.

(* ---- Flow.v's states inside gstate ------------------------------------------------------------------------------------- *)
(* the hand model omits line_context_name: it describes the states in which every entry carries the current one *)
Definition addl (c : str) (e : forcall) : gcall := mkGC (fc_iter e) (fc_meta e) c.
Definition embed (c : str) (s : state) : gstate :=
  mkGS (f_formeta (snd s)) (map (addl c) (f_forstk (snd s))) (f_end (snd s)) (w_arrs (fst s)) c.
