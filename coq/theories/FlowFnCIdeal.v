(* FlowFnCIdeal.v — the structured semantics of FlowFnCTree.v WITHOUT the mode flag [em]: every
   call with an output variable removes that variable at call time, also when it is made under a
   condition-position call (what the main runner does everywhere).  [xs] of FlowFnCTree.v differs
   from it in exactly one line ([w3] in [xcall]).  Definitions only; used to state where the flag
   matters (FlowFnCIdealThms.v). *)
Require Import DS.Base DS.Cond DS.FlowTables DS.Flow DS.FlowFn DS.FlowFnTree DS.FlowFnC DS.FlowFnCTree.

Section Interp.
Variable ds : list cndef.
Fixpoint ys (n : nat) (s : cstmt) (w : world) {struct n} : fres :=
  match n with
  | O => FFuel
  | S n' =>
    match s with
    | QCmd p => match exec_prim p w with Some w' => FOk w' | None => FErr end
    | QIf _ c b els _ =>
        match yc n' c w with
        | Some (v, w1) => if v then yb n' b w1 else ye n' els w1
        | None => FErr
        end
    | QWhile _ c b _ =>
        match yc n' c w with
        | Some (v, w1) =>
          if v then match yb n' b w1 with FOk w2 => ys n' s w2 | r => r end
          else FOk w1
        | None => FErr
        end
    | QFor _ x hv b _ => yfor n' x hv b 0 w
    | QReturn _ a => FRet (option_map (fun x => arg_val x w) a) w
    | QCall out f args =>
        match ycall n' out f args w with
        | Some (_, w') => FOk w'
        | None => FErr
        end
    end
  end
with yb (n : nat) (b : cblock) (w : world) {struct n} : fres :=
  match n with
  | O => FFuel
  | S n' =>
    match b with
    | QNil => FOk w
    | QCons s b' => match ys n' s w with FOk w1 => yb n' b' w1 | r => r end
    end
  end
with ye (n : nat) (els : celses) (w : world) {struct n} : fres :=
  match n with
  | O => FFuel
  | S n' =>
    match els with
    | ZNil => FOk w
    | ZElseIf _ c b r =>
        match yc n' c w with
        | Some (v, w1) => if v then yb n' b w1 else ye n' r w1
        | None => FErr
        end
    | ZElse _ b => yb n' b w
    end
  end
with yfor (n : nat) (x hv : str) (b : cblock) (i : nat) (w : world) {struct n} : fres :=
  match n with
  | O => FFuel
  | S n' =>
    match get_next_iteration i (vval hv w) w with
    | None => FOk w
    | Some v => match yb n' b (vset x v w) with
                | FOk w2 => yfor n' x hv b (S i) w2
                | r => r
                end
    end
  end
with ycall (n : nat) (out : option str) (f : str) (args : list carg) (w : world) {struct n}
  : option (option str * world) :=
  match n with
  | O => None
  | S n' =>
    match find_cdef f ds with
    | None => None
    | Some d =>
      let vals := map (fun a => arg_val a w) args in
      let saved := w_vars w in
      let w1 := if cd_scoped d then set_vars [] w else w in
      let w3 := clear_out out (bind_args 1 vals w1) in
      match yb n' (cd_body d) w3 with
      | FOk w4 => Some (None, if cd_scoped d then set_vars saved w4 else w4)
      | FRet v w4 =>
          let w5 := match out with
                    | Some o => match v with Some x => vset o x w4 | None => vunset o w4 end
                    | None => w4
                    end in
          Some (v, if cd_scoped d then set_vars (overlay saved out w5) w5 else w5)
      | _ => None
      end
    end
  end
with yc (n : nat) (c : fcond) (w : world) {struct n} : option (bool * world) :=
  match n with
  | O => None
  | S n' =>
    match c with
    | FCBase c' => Some (eval_cond c' w)
    | FCNot c' => match yc n' c' w with Some (b, w') => Some (negb b, w') | None => None end
    | FCCall f args =>
        match ycall n' None f args w with
        | Some (v, w') => Some (is_true v, w')
        | None => None
        end
    end
  end.
End Interp.
Definition iprog_run (n : nat) (p : cprog) (w : world) : fres := yb (cp_defs p) n (cp_main p) w.

(* no function that can run under a condition-position call contains a call with an output variable *)
Definition all_conds (p : cprog) : list fcond :=
  flat_map (fun d => all_conds_b (cd_body d)) (cp_defs p) ++ all_conds_b (cp_main p).
Definition no_out_under (p : cprog) : bool :=
  let ds := cp_defs p in
  let under := creach (length ds) ds (flat_map cond_calls (all_conds p)) in
  forallb (fun f => match find_cdef f ds with
                    | Some d => match out_calls_b (cd_body d) with [] => true | _ => false end
                    | None => true
                    end) under.
