(* EvalSerIxProof.v — eval.rs::parse and its callers over the index-faithful parser / binder:
   no panic for any non-empty argument vector (the only one the callers pass on), agreement with
   the suffix-style model DS.EvalSer on every input, and the one reachable-only-by-a-new-caller
   panic of the private fn (`instructions[0]` on an empty vector).  (C09_ix_total, C09_ix_refines) *)
Require Import DS.Base DS.Parser DS.ParserFacts DS.ParserIx DS.ParserIxProof DS.Expansion DS.ExpansionIx
  DS.ExpansionIxProof DS.EvalSer DS.EvalSerFacts DS.EvalSerIx.

Theorem eval_parse_ix_refines : forall arguments, eval_parse_ix arguments = eval_parse arguments.
Proof.
  intros a. unfold eval_parse_ix, eval_parse. rewrite parse_text_refine.
  destruct (Parser.parse_text (serialise a)) as [[|i is]|e l s]; reflexivity.
Qed.

(* a text without LF that is not empty is one line, and one line gives at least one instruction *)
Lemma parse_one_line_nonempty inc src ln s : Parser.parse_lines_from inc src ln [s] <> TOk [].
Proof.
  cbn [Parser.parse_lines_from]. destruct (Parser.parse_line s) as [t|e]; [|discriminate].
  destruct (preprocess inc src ln t); discriminate.
Qed.

Theorem eval_parse_ix_total : forall arguments, arguments <> [] -> eval_parse_ix arguments <> ParsePanic.
Proof.
  intros [|a l] Hne; [congruence|]. rewrite eval_parse_ix_refines. unfold eval_parse, Parser.parse_text, parse_text_src.
  rewrite lines_single by (apply serialise_no_lf || apply serialise_nonempty).
  pose proof (parse_one_line_nonempty no_include None 1 (serialise (a :: l))) as H.
  destruct (Parser.parse_lines_from no_include None 1 [serialise (a :: l)]) as [[|i is]|e ln s]; try discriminate.
  congruence.
Qed.

(* the private fn does index an empty vector when handed no arguments; both callers guard it *)
Theorem eval_parse_ix_nil : eval_parse_ix [] = ParsePanic.
Proof. reflexivity. Qed.

Theorem eval_call_ix_refines : forall variables arguments,
  eval_call_ix variables arguments = eval_call variables arguments.
Proof.
  intros e [|a l]; [reflexivity|]. unfold eval_call_ix, eval_call. rewrite eval_parse_ix_refines.
  destruct (eval_parse (a :: l)) as [[|c args|label output [command|] args]|err|]; try reflexivity.
  now rewrite bind_ix_refines.
Qed.

Theorem eval_call_ix_total : forall variables arguments, eval_call_ix variables arguments <> CallPanic.
Proof.
  intros e [|a l]; [discriminate|]. unfold eval_call_ix.
  pose proof (eval_parse_ix_total (a :: l) ltac:(discriminate)) as H.
  destruct (eval_parse_ix (a :: l)) as [[|c args|label output [command|] args]|err|]; try discriminate; try congruence.
  pose proof (bind_ix_total e args) as B.
  destruct (bind_command_arguments_ix e args); [discriminate|congruence].
Qed.

(* hence the suffix-style model of C09 never reports its Panic outcome either *)
Corollary eval_call_total : forall variables arguments, eval_call variables arguments <> CallPanic.
Proof. intros e a. rewrite <- eval_call_ix_refines. apply eval_call_ix_total. Qed.

Lemma eval_parse_ix_unguarded : exists arguments, eval_parse_ix arguments = ParsePanic.
Proof. exists []. exact eval_parse_ix_nil. Qed.
