(* AliasGenTie.v — the hand-written model of the wrapper around script-implemented commands (AliasCmd.v:
   alias_run, keep — the model the C19 wrapper theorems are about) and C11's model of the clear_scope command
   (Scope.v: m_cmd (CClearScope n)) are EQUAL, for every argument, to the mechanical translation of the CURRENT
   Rust source (coq/generated/GenAliasFn.v, rewritten on every run by lib/rs2v.py through lib/gen/alias_gen.py):

     gen_scope_clear  = AliasCmd.keep                       duckscript_sdk/src/types/scope.rs      clear
     gen_scope_clear  = the filter of Scope.m_cmd (CClearScope n)
     gen_alias_run    = AliasCmd.alias_run                  duckscript_sdk/src/types/command.rs    AliasCommand::run

   Each theorem is stated under its flag [gen_<fn>_understood = true] (gen_alias_run calls gen_scope_clear, so its
   theorem needs both): when the translator does not understand the source any more the generated file carries
   [false] and a stub, and the theorem holds vacuously.

   The proofs do not mention generated variable or loop-body names: the body of the argument loop is taken from the
   goal ([for_each_ret ?b ..]) and characterised by induction over the argument list, generalised over the running
   index, the array built so far and the variable map:
       for_each_ret b l (i, arr, m) = LCont (i + |l|, arr ++ l, insert_args P (i + 1) l m).
   Keys are compared after re-association of [++] ([str_norm]), the rest is case analysis on the booleans / options
   that occur, so rewrites that keep the meaning (a flipped test with swapped arms, [>] for [<], the key built in two
   pushes, `if let` for `match`, remove_handle for the explicit removal) leave them provable.  After the first sentence
   of a proof (which closes the goal when the generated file is the stub) every sentence is prefixed with [all:]. *)
Require Import DS.Base DS.ScriptConf DS.AliasCmd DS.AliasCmdProof.
From stdpp Require Import gmap.
Require Import DS.Rs2vMapLib DS.AliasGenLib.
Require Import DSG.GenAliasFn.
Require DS.Scope.
Require Import Lia.

Ltac head_of t := match t with ?f _ => head_of f | _ => t end.
Ltac unfold_head t := let h := head_of t in try unfold h.

(* keys: unfold the model's key builders, re-associate, let literal prefixes compute *)
Ltac str_norm :=
  unfold arg_key, args_key, pfx, s_sep, s_argument, s_arguments, hset_add, hset_remove in *;
  unfold str, char in *; rewrite <- ?app_assoc; cbn [app].

Ltac tree_case :=
  match goal with
  | |- context [negb ?b] => lazymatch b with true => fail | false => fail | _ => destruct b eqn:? end
  | |- context [if ?b then _ else _] => destruct b eqn:?
  | |- context [match ?x with Some _ => _ | None => _ end] => destruct x eqn:?
  end; cbn [negb].

(* ---- scope::clear -------------------------------------------------------------------------------- *)
Theorem gen_scope_clear_eq : gen_scope_clear_understood = true ->
  forall P v, gen_scope_clear P v = keep P v.
Proof.
  unfold gen_scope_clear_understood; intros U; try discriminate U.
  all: clear U.
  all: intros P v; unfold gen_scope_clear, keep.
  all: apply map_retain_filter; intros k x; cbn [fst snd]; unfold hasp; str_norm.
  all: first [ exact (negb_true_iff _)
             | match goal with |- context [starts_with ?a ?b] => destruct (starts_with a b) end;
               cbn; split; intros E; try reflexivity; discriminate E ].
Qed.

(* Scope.v has its own copy of str::starts_with *)
Lemma scope_starts_with p s : Scope.starts_with p s = starts_with p s.
Proof.
  revert s; induction p as [|a p IH]; intros [|b s]; cbn; rewrite ?IH; reflexivity.
Qed.

(* C11: the clear_scope command (Scope.m_cmd, CClearScope) leaves exactly what the translated `clear` leaves *)
Theorem gen_scope_clear_c11 : gen_scope_clear_understood = true ->
  forall n s, Scope.m_cmd s (Scope.CClearScope n) =
              (Scope.ONone, Scope.MS (gen_scope_clear n (Scope.vars s)) (Scope.stack s)).
Proof.
  intros U n s. rewrite (gen_scope_clear_eq U). cbn [Scope.m_cmd]. unfold keep, hasp, pfx, s_sep, Scope.colons.
  reflexivity.
Qed.

(* ---- AliasCommand::run --------------------------------------------------------------------------- *)
Theorem gen_alias_run_eq : gen_scope_clear_understood = true -> gen_alias_run_understood = true ->
  forall fresh body P min_args args v h,
    gen_alias_run fresh body P min_args args v h = alias_run fresh body P min_args args v h.
Proof.
  intros UC. pose proof (gen_scope_clear_eq UC) as CL. clear UC.
  unfold gen_alias_run_understood; intros U; try discriminate U.
  all: clear U.
  all: intros fresh body P min_args args v h; unfold gen_alias_run, alias_run.
  (* the argument loop: index, array and variables after any number of arguments *)
  all: match goal with |- context [for_each_ret ?b _ _] =>
    assert (L : forall l i arr m, for_each_ret b l (i, arr, m) =
              LCont ((i + N.of_nat (length l))%N, arr ++ l, insert_args P (i + 1)%N l m))
      by (induction l as [|a l IH]; intros i arr m; cbn [for_each_ret length insert_args];
          [rewrite N.add_0_r, app_nil_r; reflexivity|];
          unfold_head b; cbn beta iota zeta; rewrite IH; str_norm;
          rewrite Nat2N.inj_succ;
          repeat match goal with |- LCont _ = LCont _ => f_equal | |- (_, _) = (_, _) => f_equal end;
          try reflexivity; lia)
  end.
  all: destruct args as [|a0 args0]; cbn [vec_is_empty negb]; rewrite ?L; cbn beta iota zeta; str_norm.
  all: rewrite ?N.add_0_l, ?Nat.leb_antisym.
  all: repeat tree_case; try reflexivity.
  all: destruct (body _ _) as [[[fr fo] v2] h2]; rewrite ?CL, ?Nat.leb_antisym.
  all: repeat tree_case; reflexivity.
Qed.

(* ---- the C19 wrapper theorems, restated about the TRANSLATION of the current source ------------------------------ *)
Lemma gen_run_no_working_variable : gen_scope_clear_understood = true -> gen_alias_run_understood = true ->
  forall fresh body P min_args args v h r v' h' k,
  gen_alias_run fresh body P min_args args v h = (r, v', h') -> (min_args <= length args)%nat ->
  hasp P k = true -> v' !! k = None.
Proof. intros UC UR *. rewrite (gen_alias_run_eq UC UR). apply no_working_variable_left. Qed.

Lemma gen_run_argument_array_released : gen_scope_clear_understood = true -> gen_alias_run_understood = true ->
  forall fresh body P min_args a0 args0 v h r v' h',
  gen_alias_run fresh body P min_args (a0 :: args0) v h = (r, v', h') ->
  (min_args <= length (a0 :: args0))%nat -> fresh h ∉ h'.
Proof. intros UC UR *. rewrite (gen_alias_run_eq UC UR). apply argument_array_released. Qed.

Lemma gen_run_caller_variables : gen_scope_clear_understood = true -> gen_alias_run_understood = true ->
  forall fresh body P min_args D args v h r v' h',
  confined_mod body P D -> gen_alias_run fresh body P min_args args v h = (r, v', h') ->
  forall k, hasp P k = false -> v' !! k = v !! k \/ (D k = true /\ v' !! k = None).
Proof. intros UC UR *. rewrite (gen_alias_run_eq UC UR). apply caller_variables_preserved. Qed.

Lemma gen_run_leak_check_never_fires : gen_scope_clear_understood = true -> gen_alias_run_understood = true ->
  forall fresh body P min_args D args v h,
  confined_mod body P D -> (min_args <= length args)%nat ->
  exists fr fo v2 h2 v1 h1, body v1 h1 = (fr, fo, v2, h2) /\
    (gen_alias_run fresh body P min_args args v h).1.1 = match fr with Some r => r | None => WContinue fo end.
Proof. intros UC UR *. rewrite (gen_alias_run_eq UC UR). apply leak_check_never_fires. Qed.
