(* ScopeSpec.v — S: a plain map and a stack of saved maps, as the property states it.
   push saves everything and keeps only the copied names that are defined; pop restores the saved
   map and overlays the copied names that are defined; popping an empty stack is an error that
   changes nothing.  For a name that is undefined when copied on pop the property constrains only
   the absence of a failure and the rest of the map: [pol] chooses between the two natural
   behaviours (true: the restored value stays — what the code does; false: the name is removed). *)
From stdpp Require Import gmap list sorting.
From Coq Require Import NArith.
Require Import DS.Registry DS.Scope.

Definition s_push (s : mstate) (copy : list name) : mstate :=
  MS (filter (fun kv => kv.1 ∈ copy) (vars s)) (vars s :: stack s).

Definition s_pop (pol : bool) (s : mstate) (copy : list name) : outcome * mstate :=
  match stack s with
  | [] => (OErr, s)
  | old :: rest =>
      let kept := filter (fun kv : name * value => kv.1 ∈ copy) (vars s) in
      let base := if pol then old
                  else filter (fun kv : name * value => kv.1 ∉ copy \/ is_Some (vars s !! kv.1)) old in
      (OVal lit_true, MS (kept ∪ base) rest)
  end.

Definition s_unset (vs : vmap) (ns : list name) : vmap := foldr delete vs ns.

Definition s_cmd (pol : bool) (s : mstate) (c : cmd) : outcome * mstate :=
  match c with
  | CSet v => (OVal v, s)
  | CUnset ns _ => (ONone, MS (s_unset (vars s) ns) (stack s))
  | CSetByName n (Some v) => (OVal v, MS (<[n := v]> (vars s)) (stack s))
  | CSetByName n None => (ONone, MS (delete n (vars s)) (stack s))
  | CGetByName n => (match vars s !! n with Some v => OVal v | None => ONone end, s)
  | CIsDefined n => (OVal (if bool_decide (is_Some (vars s !! n)) then lit_true else lit_false), s)
  | CUnsetAllVars None => (ONone, MS ∅ (stack s))
  | CUnsetAllVars (Some p) =>
      (ONone, MS (filter (fun kv => starts_with p kv.1 = false) (vars s)) (stack s))
  | CClearScope n =>
      (ONone, MS (filter (fun kv => starts_with (n ++ colons) kv.1 = false) (vars s)) (stack s))
  | CPush c => (OVal lit_true, s_push s (copy_list c))
  | CPop c => s_pop pol s (copy_list c)
  end.

Definition s_step (pol : bool) (s : mstate) (o : op) : outcome * mstate :=
  match o with
  | Op out c => let '(r, s') := s_cmd pol s c in (r, MS (update_output out r (vars s')) (stack s'))
  | OpNames => (ONames (var_names (vars s)), s)
  end.

Fixpoint s_run (pol : bool) (s : mstate) (ops : list op) : list (outcome * vmap) * mstate :=
  match ops with
  | [] => ([], s)
  | o :: ops' =>
      let '(r, s1) := s_step pol s o in
      let '(obs, s2) := s_run pol s1 ops' in ((r, vars s1) :: obs, s2)
  end.

(* the domain: names that a script can define do not live in the private scope of the `unset`
   command ("scope::unset::"), which its wrapper clears *)
Definition safe_name (n : name) : Prop := starts_with unset_prefix n = false.
Definition cmd_safe (c : cmd) : Prop :=
  match c with
  | CSetByName n _ => safe_name n
  | CUnset ns _ => Forall safe_name ns
  | _ => True
  end.
Definition op_safe (o : op) : Prop :=
  match o with
  | Op out c => match out with Some x => safe_name x | None => True end /\ cmd_safe c
  | OpNames => True
  end.

(* nesting: [balanced k ops = Some k'] when, starting k frames above some base, no pop reaches the
   base and k' frames are left above it at the end *)
Fixpoint balanced (k : nat) (ops : list op) : option nat :=
  match ops with
  | [] => Some k
  | Op _ (CPush _) :: r => balanced (S k) r
  | Op _ (CPop _) :: r => match k with O => None | S k' => balanced k' r end
  | _ :: r => balanced k r
  end.
