(* FlowFnScan.v — scanner lemmas for the C05 syntax: the if / while / for scanners walk over calls
   and returns like over any inert command, and the function scanner (allow_recursive = false)
   finds the end of a function whose body contains no function definition. *)
Require Import DS.Base DS.FlowTables DS.FlowTablesWf DS.FlowScan DS.Flow DS.FlowTree DS.FlowScanProof
  DS.FlowLemmas DS.FlowFn DS.FlowFnTree DS.FlowFnDom.
Require Import DSG.GenFlowNames DSG.GenFnNames.
Open Scope nat_scope.

Lemma fn_tables_wf : fn_tables_ok = true.
Proof. vm_compute; reflexivity. Qed.

(* ---- scan_nr ------------------------------------------------------------------------------------ *)
Section ScanNr.
Variable T : tables.
Definition walks_nr (body : list (option str)) : Prop :=
  forall rest pos d m, scan_nr T (body ++ rest) pos d m = scan_nr T rest (pos + length body) d m.

Lemma walks_nr_nil : walks_nr [].
Proof. intros rest pos d m. cbn. now rewrite Nat.add_0_r. Qed.
Lemma walks_nr_app a b : walks_nr a -> walks_nr b -> walks_nr (a ++ b).
Proof.
  intros Ha Hb rest pos d m. rewrite <- app_assoc, Ha, Hb, app_length. f_equal. lia.
Qed.
Lemma walks_nr_none : walks_nr [None].
Proof. intros rest pos d m. cbn. f_equal. lia. Qed.
Lemma walks_nr_inert c : inert T c = true -> walks_nr [Some c].
Proof.
  unfold inert. intros H. repeat (apply andb_prop in H; destruct H as [H ?]).
  repeat match goal with X : negb _ = true |- _ => apply negb_true_iff in X end.
  intros rest pos d m. cbn [app scan_nr].
  repeat match goal with X : str_in c _ = false |- _ => rewrite X end. cbn [andb].
  f_equal. cbn. lia.
Qed.
Lemma walks_nr_other o c body :
  other_open T o = true -> other_close T c = true -> walks_nr body ->
  walks_nr (Some o :: body ++ [Some c]).
Proof.
  intros Ho Hc Hb rest pos d m. unfold other_open in Ho. unfold other_close in Hc.
  repeat (apply andb_prop in Hc; destruct Hc as [Hc ?]).
  repeat match goal with X : negb _ = true |- _ => apply negb_true_iff in X end.
  cbn [app scan_nr]. rewrite Ho. rewrite <- app_assoc, Hb. cbn [app scan_nr].
  repeat match goal with X : str_in c _ = _ |- _ => rewrite X end.
  change (0 <? S d) with true. cbn [andb]. replace (S d - 1) with d by lia.
  f_equal. cbn [length]. rewrite app_length. cbn [length]. lia.
Qed.
Lemma nr_end c body rest pos :
  fn_close_ok T c = true -> walks_nr body ->
  scan_nr T (body ++ Some c :: rest) pos 0 [] = SOk [] (pos + length body).
Proof.
  unfold fn_close_ok. intros Hc Hb. repeat (apply andb_prop in Hc; destruct Hc as [Hc ?]).
  repeat match goal with X : negb _ = true |- _ => apply negb_true_iff in X end.
  rewrite Hb. cbn [scan_nr].
  repeat match goal with X : str_in c _ = _ |- _ => rewrite X end.
  cbn [Nat.ltb Nat.leb]. rewrite andb_false_r. reflexivity.
Qed.
End ScanNr.

(* ---- the C05 syntax ------------------------------------------------------------------------------ *)
Lemma fcmds_app a b : fcmds (a ++ b) = fcmds a ++ fcmds b.
Proof. apply map_app. Qed.
Lemma fcmds_length a : length (fcmds a) = length a.
Proof. apply map_length. Qed.
Lemma cmds_down P : cmds (map down P) = fcmds P.
Proof. unfold cmds, fcmds. rewrite map_map. reflexivity. Qed.

(* propositional well-formedness, relative to a predicate on callable names *)
Section Wf.
Variable callable : str -> Prop.
Fixpoint pgs (infn : bool) (s : fstmt) : Prop :=
  match s with
  | GCmd _ => True
  | GIf sp _ b els e => In sp (openers CkIf) /\ In e (closers CkIf) /\ pgb infn b /\ pge infn els
  | GWhile sp _ b e => In sp (openers CkWhile) /\ In e (closers CkWhile) /\ pgb infn b
  | GFor sp _ _ b e => In sp (openers CkFor) /\ In e (closers CkFor) /\ pgb infn b
  | GCall _ f args => callable f /\ free_name f = true /\ length args <= 9
  | GReturn sp _ => infn = true /\ In sp n_return
  end
with pgb (infn : bool) (b : fblock) : Prop :=
  match b with GNil => True | GCons s b' => pgs infn s /\ pgb infn b' end
with pge (infn : bool) (els : felses) : Prop :=
  match els with
  | HNil => True
  | HElseIf sp _ b r => In sp n_elseif /\ pgb infn b /\ pge infn r
  | HElse sp b => In sp n_else /\ pgb infn b
  end.
End Wf.

Lemma free_name_inert f T : free_name f = true ->
  In T [gen_if_tables; gen_while_tables; gen_for_tables; gen_function_tables] -> inert T f = true.
Proof.
  unfold free_name. intros H HT. apply andb_prop in H. destruct H as [H _].
  apply andb_prop in H. destruct H as [H _]. rewrite forallb_forall in H. auto.
Qed.

Fixpoint gmid_pos (els : felses) (pos : nat) : list nat :=
  match els with
  | HNil => []
  | HElseIf _ _ b r => pos :: gmid_pos r (S pos + length (gb b))
  | HElse _ _ => [pos]
  end.
Definition gmids (k : ckind) (els : felses) (pos : nat) : list nat :=
  if ckind_eqb k CkIf then gmid_pos els pos else [].

Section Syntax.
Hypothesis TW : tables_wf = true.
Variable callable : str -> Prop.
Variable k : ckind.
Let T := table_of k.
Let F := facts_of TW k.

Lemma return_inert sp : In sp n_return -> inert T sp = true.
Proof.
  intros H. pose proof fn_tables_wf as W. unfold fn_tables_ok in W.
  do 10 (apply andb_prop in W; destruct W as [W _]).
  rewrite forallb_forall in W. assert (Hk : In k all_ckinds) by (destruct k; cbn; auto).
  specialize (W k Hk). rewrite forallb_forall in W. auto.
Qed.

Lemma gscan_syntax infn :
  (forall s, pgs callable infn s -> walks T (fcmds (gs s)) (fun _ => [])) /\
  (forall b, pgb callable infn b -> walks T (fcmds (gb b)) (fun _ => [])) /\
  (forall els, pge callable infn els -> walks T (fcmds (ge els)) (gmids k els)).
Proof.
  apply fsyntax_ind.
  - intros p _. cbn [gs fcmds map fi_cmd]. destruct (prim_cmd p) as [c|] eqn:E.
    + apply walks_inert. apply (f_prim k F). eapply prim_cmd_names; eauto.
    + apply walks_none.
  - intros sp c b IHb els IHe e (Ho & Hc & Hwb & Hwe).
    cbn [gs]. unfold fcmds in *. cbn [map fi_cmd bkw]. rewrite !map_app. cbn [map fi_cmd bkw].
    rewrite app_assoc.
    eapply (construct_walks k F CkIf); eauto.
    + apply walks_app; [apply IHb; auto|apply IHe; auto].
    + intros Hne p. cbn. unfold gmids. destruct k; cbn; congruence.
  - intros sp c b IHb e (Ho & Hc & Hwb).
    cbn [gs]. unfold fcmds in *. cbn [map fi_cmd bkw]. rewrite !map_app. cbn [map fi_cmd bkw].
    eapply (construct_walks k F CkWhile); eauto.
  - intros sp x hv b IHb e (Ho & Hc & Hwb).
    cbn [gs]. unfold fcmds in *. cbn [map fi_cmd bkw]. rewrite !map_app. cbn [map fi_cmd bkw].
    eapply (construct_walks k F CkFor); eauto.
  - (* call *) intros out f args (_ & Hf & _). cbn [gs fcmds map fi_cmd fkw].
    apply walks_inert. apply free_name_inert; auto. unfold T. destruct k; cbn; auto.
  - (* return *) intros sp a (_ & Hsp). cbn [gs fcmds map fi_cmd fkw].
    apply walks_inert. now apply return_inert.
  - intros _. apply walks_nil.
  - intros s IHs b IHb (Hs & Hb). cbn [gb]. rewrite fcmds_app.
    eapply walks_ext; [|apply walks_app; [apply IHs; auto|apply IHb; auto]]. reflexivity.
  - intros _. cbn [ge]. eapply walks_ext; [|apply walks_nil].
    intros p. unfold gmids. destruct (ckind_eqb k CkIf); reflexivity.
  - intros sp c b IHb r IHr (Hm & Hwb & Hwr).
    cbn [ge]. unfold fcmds in *. cbn [map fi_cmd bkw]. rewrite !map_app.
    change (Some sp :: map fi_cmd (gb b) ++ map fi_cmd (ge r))
      with ([Some sp] ++ (map fi_cmd (gb b) ++ map fi_cmd (ge r))).
    pose proof (f_mid k F sp (in_or_app _ _ _ (or_introl Hm))) as Hmid.
    unfold gmids in *. destruct (ckind_eqb k CkIf) eqn:Ek.
    + eapply walks_ext; [|apply walks_app; [apply walks_mid; exact Hmid|
                                            apply walks_app; [apply IHb; auto|apply IHr; auto]]].
      intros p. cbn [app gmid_pos length]. rewrite map_length. do 2 f_equal. lia.
    + eapply walks_ext; [|apply walks_app; [apply walks_inert; exact Hmid|
                                            apply walks_app; [apply IHb; auto|apply IHr; auto]]].
      reflexivity.
  - intros sp b IHb (Hm & Hwb).
    cbn [ge]. unfold fcmds in *. cbn [map fi_cmd bkw].
    change (Some sp :: map fi_cmd (gb b)) with ([Some sp] ++ map fi_cmd (gb b)).
    pose proof (f_mid k F sp (in_or_app _ _ _ (or_intror Hm))) as Hmid.
    unfold gmids in *. destruct (ckind_eqb k CkIf) eqn:Ek.
    + eapply walks_ext; [|apply walks_app; [apply walks_mid; exact Hmid|apply IHb; auto]].
      intros p. reflexivity.
    + eapply walks_ext; [|apply walks_app; [apply walks_inert; exact Hmid|apply IHb; auto]].
      reflexivity.
Qed.

Theorem gfind_own_end infn pre b els c rest :
  pgb callable infn b -> pge callable infn els -> In c (closers k) ->
  find_commands T (pre ++ fcmds (gb b) ++ fcmds (ge els) ++ Some c :: rest) (length pre)
  = SOk (gmids k els (length pre + length (gb b)))
        (length pre + length (gb b) + length (ge els)).
Proof.
  intros Hb He Hc. unfold find_commands.
  pose proof (f_starts k F) as Hs. pose proof (f_ends k F) as Hen. fold T in Hs, Hen.
  destruct (starts T) as [|s0 ss]; [congruence|]. destruct (ends T) as [|e0 es]; [congruence|].
  replace (skipn (length pre) (pre ++ fcmds (gb b) ++ fcmds (ge els) ++ Some c :: rest))
    with ((fcmds (gb b) ++ fcmds (ge els)) ++ Some c :: rest).
  2:{ rewrite skipn_app, skipn_all, Nat.sub_diag. cbn [skipn app]. now rewrite <- app_assoc. }
  destruct (gscan_syntax infn) as (_ & Hwb & Hwe).
  rewrite (own_end T c _ _ rest (length pre) (f_close_own k F c Hc)
             (walks_app T _ _ _ _ (Hwb b Hb) (Hwe els He))).
  cbn [app]. rewrite app_length, !fcmds_length. f_equal. lia.
Qed.
End Syntax.

(* ---- the function scanner ------------------------------------------------------------------------ *)
Section FnScan.
Variable callable : str -> Prop.
Let Tf := gen_function_tables.

Lemma fn_parts :
  (forall k, forallb (other_open Tf) (openers k) = true /\ forallb (other_close Tf) (closers k) = true) /\
  (forall c, In c (n_elseif ++ n_else ++ prim_names ++ n_return) -> inert Tf c = true) /\
  (forall c, In c fn_closers -> fn_close_ok Tf c = true) /\
  starts Tf <> [] /\ ends Tf <> [] /\ gen_function_allow_recursive = false.
Proof.
  pose proof fn_tables_wf as W. unfold fn_tables_ok in W.
  do 4 (apply andb_prop in W; destruct W as [W _]).
  apply andb_prop in W; destruct W as [W H7]. apply andb_prop in W; destruct W as [W H6].
  apply andb_prop in W; destruct W as [W H5]. apply andb_prop in W; destruct W as [W H4].
  apply andb_prop in W; destruct W as [W H3]. apply andb_prop in W; destruct W as [_ H2].
  rewrite forallb_forall in H2, H3, H4.
  split; [|split; [|split; [|split; [|split]]]]; auto.
  - intros k. assert (Hk : In k all_ckinds) by (destruct k; cbn; auto).
    specialize (H2 k Hk). apply andb_prop in H2. exact H2.
  - fold Tf in H5. destruct (starts Tf); [discriminate|congruence].
  - fold Tf in H6. destruct (ends Tf); [discriminate|congruence].
Qed.

Lemma gscan_nr infn :
  (forall s, pgs callable infn s -> walks_nr Tf (fcmds (gs s))) /\
  (forall b, pgb callable infn b -> walks_nr Tf (fcmds (gb b))) /\
  (forall els, pge callable infn els -> walks_nr Tf (fcmds (ge els))).
Proof.
  destruct fn_parts as (Hoc & Hin & _).
  assert (Hcon : forall k o c body, In o (openers k) -> In c (closers k) -> walks_nr Tf body ->
                 walks_nr Tf (Some o :: body ++ [Some c])).
  { intros k o c body Ho Hc Hb. destruct (Hoc k) as (H1 & H2). rewrite forallb_forall in H1, H2.
    apply walks_nr_other; auto. }
  apply fsyntax_ind.
  - intros p _. cbn [gs fcmds map fi_cmd]. destruct (prim_cmd p) as [c|] eqn:E.
    + apply walks_nr_inert. apply Hin. apply in_or_app. right. apply in_or_app. right.
      apply in_or_app. left. eapply prim_cmd_names; eauto.
    + apply walks_nr_none.
  - intros sp c b IHb els IHe e (Ho & Hc & Hwb & Hwe).
    cbn [gs]. unfold fcmds in *. cbn [map fi_cmd bkw]. rewrite !map_app. cbn [map fi_cmd bkw].
    rewrite app_assoc. apply (Hcon CkIf); auto. apply walks_nr_app; auto.
  - intros sp c b IHb e (Ho & Hc & Hwb).
    cbn [gs]. unfold fcmds in *. cbn [map fi_cmd bkw]. rewrite !map_app. cbn [map fi_cmd bkw].
    apply (Hcon CkWhile); auto.
  - intros sp x hv b IHb e (Ho & Hc & Hwb).
    cbn [gs]. unfold fcmds in *. cbn [map fi_cmd bkw]. rewrite !map_app. cbn [map fi_cmd bkw].
    apply (Hcon CkFor); auto.
  - intros out f args (_ & Hf & _). cbn [gs fcmds map fi_cmd fkw].
    apply walks_nr_inert. apply free_name_inert; cbn; auto.
  - intros sp a (_ & Hsp). cbn [gs fcmds map fi_cmd fkw]. apply walks_nr_inert. apply Hin.
    apply in_or_app. right. apply in_or_app. right. apply in_or_app. right. exact Hsp.
  - intros _. apply walks_nr_nil.
  - intros s IHs b IHb (Hs & Hb). cbn [gb]. rewrite fcmds_app. apply walks_nr_app; auto.
  - intros _. apply walks_nr_nil.
  - intros sp c b IHb r IHr (Hm & Hwb & Hwr).
    cbn [ge]. unfold fcmds in *. cbn [map fi_cmd bkw]. rewrite !map_app.
    change (Some sp :: map fi_cmd (gb b) ++ map fi_cmd (ge r))
      with ([Some sp] ++ (map fi_cmd (gb b) ++ map fi_cmd (ge r))).
    apply walks_nr_app; [|apply walks_nr_app; auto].
    apply walks_nr_inert. apply Hin. apply in_or_app. left. exact Hm.
  - intros sp b IHb (Hm & Hwb).
    cbn [ge]. unfold fcmds in *. cbn [map fi_cmd bkw].
    change (Some sp :: map fi_cmd (gb b)) with ([Some sp] ++ map fi_cmd (gb b)).
    apply walks_nr_app; auto.
    apply walks_nr_inert. apply Hin. apply in_or_app. right. apply in_or_app. left. exact Hm.
Qed.

(* the scan performed by [fn name] over the function's body *)
Theorem find_fn_end pre b c rest :
  pgb callable true b -> In c fn_closers ->
  (if gen_function_allow_recursive
   then find_commands Tf (pre ++ fcmds (gb b) ++ Some c :: rest) (length pre)
   else find_commands_nr Tf (pre ++ fcmds (gb b) ++ Some c :: rest) (length pre))
  = SOk [] (length pre + length (gb b)).
Proof.
  intros Hb Hc. destruct fn_parts as (_ & _ & Hcl & Hs & He & ->).
  unfold find_commands_nr. destruct (starts Tf) as [|s0 ss]; [congruence|].
  destruct (ends Tf) as [|e0 es]; [congruence|].
  rewrite skipn_app, skipn_all, Nat.sub_diag. cbn [skipn app].
  destruct (gscan_nr true) as (_ & Hwb & _).
  rewrite (nr_end Tf c _ rest (length pre) (Hcl c Hc) (Hwb b Hb)). now rewrite fcmds_length.
Qed.
End FnScan.
