(* RegfnGenTie.v — the SFn arm of Registry.sstep (the registration a `fn` definition line performs) is EQUAL, on its
   domain, to the mechanical translation of the REGISTRY VIEW of the current FunctionCommand::run
   (duckscript_sdk/src/sdk/std/flowcontrol/function/mod.rs; coq/generated/GenRegfnFn.v, rewritten on every run by lib/rs2v.py
   through lib/gen/regfn_gen.py):

     fn_name_of ann args = Some n -> fn_step_domain meta found line s n ->
     gen_fn_register ann meta found line args s = Some (let '(s', r) := sstep s (SFn n) in (s', FRes r))

   for every annotation parser, every ghost meta table, every argument vector and every state: the name is stored in the table
   of defined functions BEFORE Commands::set is asked, a refusal returns an error and rolls nothing back, a definition line
   seen again at its own line changes nothing, and no `arguments[i]` panics (the equality says `Some`).  Off the domain (no
   argument; the name defined at another line; no end found) the translation answers FRes SErr / FCrash with the state
   unchanged (gen_fn_register_off_domain).

   Stated under [gen_fn_register_understood = true]; every sentence after the first is prefixed with [all:] so the file also
   compiles against the stub.  No generated variable is named: the argument vector is split by its length, the tests the goal
   branches on are destructed one by one. *)
From stdpp Require Import gmap list.
Require Import DS.Registry DS.RegistryGenLib DS.Rs2vMapLib DS.RegcmdsGenLib DS.RegfnGenLib.
Require Import DSG.GenRegfnFn.

Ltac rf_compute :=
  cbn [length nth_error Nat.ltb Nat.leb Nat.eqb negb andb orb vec_is_empty vec_slice_from drop sstep set_outcome fn_name_of
       sr_reg sr_alias sr_fn cmds als fst snd] in *; cbn beta iota zeta in *.

Ltac rf_case :=
  match goal with
  | H : Some _ = Some _ |- _ => injection H as H; subst
  | H : None = Some _ |- _ => discriminate H
  | H : context [match ?a ?x with Some _ => _ | None => _ end] |- _ => destruct (a x) eqn:?
  | |- context [reg_set ?r ?n ?d] => destruct (reg_set r n d) eqn:?
  | |- context [bool_decide ?P] => destruct (bool_decide_reflect P)
  | |- context [match ?a ?x with Some _ => _ | None => _ end] => destruct (a x) eqn:?
  | |- context [if ?b then _ else _] => destruct b eqn:?
  end.

Theorem gen_fn_register_eq : gen_fn_register_understood = true ->
  forall ann meta found line args s n,
    fn_name_of ann args = Some n -> fn_step_domain meta found line s n ->
    gen_fn_register ann meta found line args s = Some (let '(s', r) := sstep s (SFn n) in (s', FRes r)).
Proof.
  unfold gen_fn_register_understood; intros U; try discriminate U.
  all: clear U.
  all: intros ann meta found line args [r A F] n Hn [Hin Hout]; unfold gen_fn_register.
  all: destruct args as [|? [|? [|? ?]]]; rf_compute; try discriminate Hn.
  all: repeat (rf_case; rf_compute; try discriminate).
  all: try match goal with H : ?n ∈ ?F |- _ => pose proof (Hin H) as Hl; cbn [fst] in Hl; subst end.
  all: rewrite ?Nat.eqb_refl in *; try discriminate; try reflexivity; try contradiction.
  all: try match goal with H : ?n ∉ ?F |- _ => destruct (Hout H) as [e ->] end.
  all: repeat (rf_case; rf_compute; try discriminate); try reflexivity; try contradiction.
Qed.

(* off the domain of SFn nothing is registered and nothing is stored *)
Theorem gen_fn_register_off_domain : gen_fn_register_understood = true ->
  forall ann meta found line args s,
    match fn_name_of ann args with
    | None => gen_fn_register ann meta found line args s = Some (s, FRes SErr)
    | Some n =>
        (n ∈ sr_fn s -> fst (meta n) <> line -> gen_fn_register ann meta found line args s = Some (s, FRes SErr)) /\
        (n ∉ sr_fn s -> (forall e, found <> FFound e) ->
         gen_fn_register ann meta found line args s = Some (s, FCrash))
    end.
Proof.
  unfold gen_fn_register_understood; intros U; try discriminate U.
  all: clear U.
  all: intros ann meta found line args [r A F]; unfold gen_fn_register.
  all: destruct args as [|? [|? [|? ?]]]; rf_compute; try reflexivity.
  all: repeat match goal with |- context [match ?a ?x with Some _ => _ | None => _ end] => destruct (a x) eqn:? end.
  all: split; intros H1 H2.
  all: match goal with |- context [bool_decide ?P] => destruct (bool_decide_reflect P) end; try contradiction; rf_compute.
  all: try (destruct found; [exfalso; eapply H2; reflexivity | reflexivity | reflexivity]).
  all: match goal with |- context [Nat.eqb ?a ?b] => destruct (Nat.eqb_spec a b) end; try contradiction; reflexivity.
Qed.
