(* RegistryGenTie.v — the hand-written model of `impl Commands` (duckscript/src/types/command.rs) in
   Registry.v is EQUAL, for every registry state and every argument, to the mechanical translation of the
   CURRENT Rust source (coq/generated/GenRegistryFn.v, rewritten on every run by lib/rs2v.py through
   lib/gen/registry_gen.py):

     gen_set = set_outcome . reg_set     gen_get = reg_get     gen_exists = reg_exists     gen_get_for_use = reg_get_for_use
     gen_names = reg_names (get_all_command_names)                           gen_remove = reg_remove

   Everything is stated under [gen_registry_understood = true]: when the translator does not understand the
   source any more the generated file carries [false] and stubs, and these theorems hold vacuously.

   The proofs do not mention the generated loop-body definitions by name (nor their parameter lists): the
   body of a loop is taken from the goal ([for_each_ret ?b ..]) and characterised by induction over the list
   the Rust loop walks (the hand model uses specialised folds: first_alias_conflict, foldl).  After the first
   sentence of a proof (which closes the goal when the generated file is the stub) every sentence is prefixed
   with [all:], so that the file also compiles against the stub (no goal left = nothing to do).  The steps are
   by case analysis on the map lookups / [bool_decide]s that occur, so source rewrites that keep the meaning
   (`if !c {..} else {return ..}`, a hoisted `let`, two independent statements swapped) leave them provable. *)
From stdpp Require Import gmap list sorting.
Require Import DS.Registry DS.RegistryGenLib DS.Rs2vMapLib.
Require Import DSG.GenRegistryFn.

Lemma reg_eta r : Reg (cmds r) (als r) = r.
Proof. destruct r; reflexivity. Qed.

Ltac head_of t := match t with ?f _ => head_of f | _ => t end.
Ltac unfold_head t := let h := head_of t in try unfold h.

(* one step of case analysis on what a translated map function can branch on *)
Ltac map_case :=
  match goal with
  | |- context [bool_decide ?P] => destruct (bool_decide_reflect P)
  | |- context [negb ?b] => destruct b eqn:?
  | |- context [match ?m !! ?k with Some _ => _ | None => _ end] => destruct (m !! k) eqn:?
  | |- context [if ?b then _ else _] => destruct b eqn:?
  end.
Ltac map_tree :=
  unfold map_has, opt_is_some in *; cbn beta iota zeta;
  repeat (map_case; cbn [negb cmds als fst snd] in *; try discriminate; try congruence);
  rewrite ?reg_eta; try reflexivity; try congruence.

(* ---- Commands::set ------------------------------------------------------------------------------ *)
(* the translation returns the registry as `set` leaves it together with the result; [set_outcome] reads the
   same pair off the hand model (a refused registration leaves the registry as it was) *)
Theorem gen_set_eq : gen_registry_understood = true ->
  forall r n decl, gen_set r n decl = set_outcome r (reg_set r n decl).
Proof.
  unfold gen_registry_understood; intros U; try discriminate U; clear U.
  all: intros r n decl; unfold gen_set, reg_set, map_has; cbn beta iota zeta.
  all: destruct (cmds r !! n) eqn:En; cbn [negb set_outcome]; [reflexivity|].
  (* the alias-conflict loop: a search that leaves the state alone *)
  all: match goal with |- context [for_each_ret ?b _ _] =>
    assert (L1 : forall l st, for_each_ret b l st =
              match first_alias_conflict (als st) l with
              | Some a => LRet (st, Some (ESetAlias a)) | None => LCont st end)
      by (induction l as [|a l IH]; intros st; cbn [for_each_ret first_alias_conflict]; [reflexivity|];
          unfold_head b; unfold map_has; cbn beta iota zeta;
          destruct (als st !! a) eqn:Ea; cbn [negb]; rewrite ?IH, ?reg_eta; reflexivity)
  end.
  all: rewrite L1; clear L1.
  all: destruct (first_alias_conflict (als r) decl) as [a|]; cbn [set_outcome]; [reflexivity|].
  all: cbn beta iota.
  (* the alias-insertion loop: a fold *)
  all: match goal with |- context [for_each_ret ?b _ _] =>
    assert (L2 : forall l st, for_each_ret b l st =
              LCont (Reg (cmds st) (foldl (fun m a => <[a := n]> m) (als st) l)))
      by (induction l as [|a l IH]; intros st; cbn [for_each_ret foldl]; [now rewrite reg_eta|];
          unfold_head b; cbn beta iota zeta; rewrite ?IH; cbn [cmds als]; reflexivity)
  end.
  all: rewrite L2; clear L2; cbn [cmds als]; reflexivity.
Qed.

(* in the hand model's own result type *)
Corollary gen_set_res_eq : gen_registry_understood = true ->
  forall r n decl, set_res_of (gen_set r n decl) = reg_set r n decl.
Proof.
  intros U r n decl. rewrite (gen_set_eq U). destruct (reg_set r n decl); reflexivity.
Qed.

(* ---- Commands::get / exists / get_for_use ------------------------------------------------------- *)
Theorem gen_get_eq : gen_registry_understood = true ->
  forall r x, gen_get r x = reg_get r x.
Proof.
  unfold gen_registry_understood; intros U; try discriminate U; clear U.
  all: intros r x; unfold gen_get, reg_get, resolve; map_tree.
Qed.

Theorem gen_exists_eq : gen_registry_understood = true ->
  forall r x, gen_exists r x = reg_exists r x.
Proof.
  intros U r x. pose proof (gen_get_eq U r x) as G. revert U.
  unfold gen_registry_understood; intros U; try discriminate U; clear U.
  all: unfold gen_exists, reg_exists, opt_is_some; cbn beta iota zeta; rewrite ?G.
  all: destruct (reg_get r x); reflexivity.
Qed.

Theorem gen_get_for_use_eq : gen_registry_understood = true ->
  forall r x, gen_get_for_use r x = reg_get_for_use r x.
Proof.
  unfold gen_registry_understood; intros U; try discriminate U; clear U.
  all: intros r x; unfold gen_get_for_use, reg_get_for_use, resolve; map_tree.
Qed.

(* ---- Commands::get_all_command_names ------------------------------------------------------------ *)
Theorem gen_names_eq : gen_registry_understood = true ->
  forall r, gen_names r = reg_names r.
Proof.
  unfold gen_registry_understood; intros U; try discriminate U; clear U.
  all: intros r; unfold gen_names, reg_names, map_keys; cbn beta iota zeta.
  all: erewrite (for_each_ret_fold _ (fun s a => s ++ [a])) by (intros; reflexivity).
  all: rewrite foldl_snoc_id; reflexivity.
Qed.

(* ---- Commands::remove --------------------------------------------------------------------------- *)
Theorem gen_remove_eq : gen_registry_understood = true ->
  forall r x, gen_remove r x = reg_remove r x.
Proof.
  unfold gen_registry_understood; intros U; try discriminate U; clear U.
  all: intros r x; unfold gen_remove, reg_remove, resolve; cbn beta iota zeta.
  all: set (cn := match als r !! x with Some v => v | None => x end).
  all: destruct (cmds r !! cn) as [decl|] eqn:E;
         [|rewrite ?(delete_notin _ _ E), ?reg_eta; reflexivity].
  all: match goal with |- context [for_each_ret ?b _ _] =>
      assert (L : forall l st, for_each_ret b l st =
                LCont (Reg (cmds st)
                           (foldl (fun m a => if bool_decide (m !! a = Some cn) then delete a m else m) (als st) l)))
        by (induction l as [|a l IH]; intros st; cbn [for_each_ret foldl]; [now rewrite reg_eta|];
            unfold_head b; cbn beta iota zeta;
            destruct (bool_decide_reflect (als st !! a = Some cn)) as [Hd|Hd]; cbn [negb];
            rewrite ?IH, ?reg_eta; cbn [cmds als]; reflexivity)
    end.
  all: rewrite L; clear L; cbn [cmds als]; reflexivity.
Qed.
