(* FlowScanIx.v — index-faithful model of duckscript_sdk/src/utils/instruction_query.rs
   (get_start, get_end, find_commands), written exactly as the Rust is written.  Definitions only;
   proofs are in FlowScanIxProof.v.

   Where DS.FlowScan walks the SUFFIX of the list of command names that starts at the current line
   (structural recursion, the nested call included, no index, no way to fail), this model keeps
   what the Rust code keeps:
     * the WHOLE instruction vector ([list Parser.instr], the type the parser produces), read with
       `instructions[line]` = [nth_error] — [XPanic] when the index is out of range;
     * `instruction.instruction_type` matched against `InstructionType::Script(..)`, then
       `script_instruction.command` against `Some(command)`;
     * `start : Option<usize>`, `end : Option<usize>`, `start_index = get_start(start)`,
       `end_index = get_end(end, instructions) = min(len, end)`;
     * the loop `for line in start_index..end_index` ([for_range]: the number of iterations is
       fixed at loop entry, `line` counts up) with the loop state `positions` (middle, end),
       `skip_to` (usize) and `block_delta`;
     * `block_delta` is an i32: `let mut block_delta = 0;` is only ever used in `block_delta + 1`,
       `block_delta - 1` and `block_delta > 0`, so nothing constrains the literal's type and Rust
       defaults it to i32.  `+ 1` / `- 1` go through [CondIx.i32_result] under the profile flag
       [checked] (true: overflow checks on, the operation panics outside the i32 range — the dev
       profile and the verification harness; false: cargo's default release profile, it wraps);
     * `line + 1`, `sub_positions.end + 1` are usize additions of values below the vector length
       (<= isize::MAX / size_of::<Instruction>()): they cannot overflow and are modelled on [nat];
     * the five `contains` tests in the source's `else if` order;
     * the RECURSIVE call `find_commands(instructions, .., Some(line + 1), Some(end_index), ..)`
       on an opener of the scanner's own kind: open recursion ([rec]) closed by explicit fuel
       ([XFuel] when it runs out; FlowScanIxProof: it never does with fuel = S (length));
     * the result `Result<Option<Positions>, String>`: [XOk (Some positions)], [XOk None] (the
       function never returns it, but the `None =>` arm after the nested call exists and is
       modelled), [XErr kind] with one kind per error TEXT of the source. *)
Require Import DS.Base DS.Parser DS.FlowTables DS.CondIx.

(* struct Positions { middle: Vec<usize>, end: usize } *)
Record positions := mkPos { p_middle : list nat; p_end : nat }.

Inductive xerr :=
| XENoNames        (* "No command names/aliases provided for search." *)
| XEMissing        (* "Missing end of structure for start names: {:?} start: {} end: {}" *)
| XENestedNoEnd    (* "Unsupported nested structure: {} found but end of structure not found." *)
| XENested.        (* "Unsupported nested structure: {} found." *)

Inductive xres := XOk (p : option positions) | XErr (e : xerr) | XPanic | XFuel.

(* the command name find_commands reads off an instruction (None: empty line, pre-processor line,
   script line without a command) *)
Definition cmd_of (i : instr) : option str :=
  match i_type i with
  | IScript _ _ command _ => command
  | _ => None
  end.

Definition get_start_ix (start : option nat) : nat :=
  match start with
  | Some value => value
  | None => 0
  end.

Definition get_end_ix (end_ : option nat) (instructions : list instr) : nat :=
  match end_ with
  | Some value => Nat.min (length instructions) value
  | None => length instructions
  end.

(* the mutable locals of the loop: positions, skip_to, block_delta *)
Record xst := mkX { x_pos : positions; x_skip : nat; x_delta : Z }.
Inductive xstep := XNext (s : xst) | XRet (r : xres).

(* `for line in a..b { body }`: n = b - a iterations, line = a, a+1, ..; the body may `return` *)
Fixpoint for_range (body : xst -> nat -> xstep) (n line : nat) (s : xst) {struct n} : xstep :=
  match n with
  | O => XNext s
  | S n' =>
    match body s line with
    | XNext s' => for_range body n' (S line) s'
    | XRet r => XRet r
    end
  end.

Section Ix.
Variable checked : bool.
(* start_names, middle_names, end_names, start_blocks, end_blocks *)
Variable T : tables.

(* one iteration of the loop; [rec start end] is the recursive call (same vector, same name lists,
   same allow_recursive) *)
Definition body_ix (rec : option nat -> option nat -> xres) (instructions : list instr)
    (allow_recursive : bool) (end_index : nat) (s : xst) (line : nat) : xstep :=
  if (x_skip s <=? line)%nat then
    match nth_error instructions line with
    | None => XRet XPanic
    | Some instruction =>
      match i_type instruction with
      | IScript _ _ (Some command) _ =>
        if str_in command (sblocks T) then
          match i32_result checked (x_delta s + 1) with
          | None => XRet XPanic
          | Some d => XNext (mkX (x_pos s) (x_skip s) d)
          end
        else if str_in command (middles T) then
          XNext (mkX (mkPos (p_middle (x_pos s) ++ [line]) (p_end (x_pos s))) (x_skip s) (x_delta s))
        else if str_in command (eblocks T) && (0 <? x_delta s)%Z then
          match i32_result checked (x_delta s - 1) with
          | None => XRet XPanic
          | Some d => XNext (mkX (x_pos s) (x_skip s) d)
          end
        else if str_in command (ends T) then
          XRet (XOk (Some (mkPos (p_middle (x_pos s)) line)))
        else if str_in command (starts T) then
          if allow_recursive then
            match rec (Some (line + 1)%nat) (Some end_index) with
            | XOk (Some sub_positions) => XNext (mkX (x_pos s) (p_end sub_positions + 1)%nat (x_delta s))
            | XOk None => XRet (XErr XENestedNoEnd)
            | XErr error => XRet (XErr error)
            | XPanic => XRet XPanic
            | XFuel => XRet XFuel
            end
          else XRet (XErr XENested)
        else XNext s
      | _ => XNext s
      end
    end
  else XNext s.

Definition xinit (start_index : nat) : xst := mkX (mkPos [] 0) start_index 0.

(* the function body with the recursive call open *)
Definition go_ix (rec : option nat -> option nat -> xres) (instructions : list instr)
    (allow_recursive : bool) (start end_ : option nat) : xres :=
  if (match starts T with [] => true | _ => false end) || (match ends T with [] => true | _ => false end)
  then XErr XENoNames
  else
    let start_index := get_start_ix start in
    let end_index := get_end_ix end_ instructions in
    match for_range (body_ix rec instructions allow_recursive end_index)
                    (end_index - start_index) start_index (xinit start_index) with
    | XNext _ => XErr XEMissing
    | XRet r => r
    end.

Fixpoint find_commands_fuel (fuel : nat) (instructions : list instr) (allow_recursive : bool)
    (start end_ : option nat) {struct fuel} : xres :=
  match fuel with
  | O => XFuel
  | S fuel' => go_ix (find_commands_fuel fuel' instructions allow_recursive) instructions allow_recursive start end_
  end.

(* find_commands(instructions, start_names, middle_names, end_names, start, end, allow_recursive,
   start_blocks, end_blocks) *)
Definition find_commands_ix (instructions : list instr) (allow_recursive : bool) (start end_ : option nat) : xres :=
  find_commands_fuel (S (length instructions)) instructions allow_recursive start end_.
End Ix.
