(* ScriptBody.v — C19: the body of a script-implemented command as the SDK really runs it
   (definitions only; proofs are in ScriptBodyProof.v).

   [ev] = duckscript_sdk/src/utils/eval.rs::eval_instructions (SdkErr.eval_instructions, reused as
   it is) over duckscript/src/runner.rs::run_instruction (Runner.run_instruction, reused as it is)
   where the command table is
     * [dispatch]: a name of the script table  -> [alias_w]  = types/command.rs AliasCommand::run of
                                                  THAT script (its own scope prefix, its own body,
                                                  run by [ev] again: scripts calling scripts);
                   if / elif / elseif / while / not -> [cond_run] = native bookkeeping before and after
                                                  utils/condition.rs::eval_condition, which is
                                                  concrete: when the first RECEIVED argument names a
                                                  registered command the received arguments are turned
                                                  into text and parsed again (utils/eval.rs::parse =
                                                  EvalSer.eval_parse), the instruction is appended
                                                  behind the body and run by [ev] from there
                                                  (eval_with_instructions);
                   every other name           -> the native command (Section variable [ncmd]) which
                                                  gets the variable map, the handle keys and the
                                                  rest of the state and may change all of them;
     * [bound]: runner.rs::bind_command_arguments (Expansion.bind_args, concrete) in front of it:
       commands receive the EXPANDED arguments; output variable names are taken literally from the
       instruction (run_instruction / eval_instructions), the for-in variable name is the first
       RECEIVED argument (forin/mod.rs).
   Recursion (script -> script -> ..., condition -> command -> ...) is by nesting depth [n];
   every loop has loop fuel.  Running out of either, and the Rust panic `instructions[0]` on an
   empty parse, are sticky ghost flags of the state ([g_oof], [g_panic]) so that the reused
   eval_instructions needs no change; [script_body] turns them into distinct outcomes.

   Third ghost flag [g_odd]: raised when eval_condition is about to run a re-parsed instruction
   that does not pass the confinement check [iok] for the running script (an output variable
   outside the prefix, a command outside the tables).  That happens
     (a) for received arguments outside C09's safe classes — e.g. a value "=" makes the command
         word an OUTPUT VARIABLE (C09 finding F7-E; ScriptBodyProof.unflagged_refuted shows it
         deleting a caller variable through array_concat's own text), and
     (b) when a tested VALUE is itself the name of a registered command outside the tables.
   The soundness theorem is about runs that end with the flag down. *)
From stdpp Require Import gmap.
Require Import DS.Base DS.Parser DS.Expansion DS.ExpansionSpec DS.EvalSer DS.Cond DS.ScriptConf DS.AliasCmd.
Require Import DS.Runner DS.SdkErr.
Local Open Scope nat_scope.
#[local] Arguments eo_result {cstate}. #[local] Arguments eo_output {cstate}.
#[local] Arguments eo_w {cstate}. #[local] Arguments eo_calls {cstate}. #[local] Arguments EO {cstate}.

(* ---- instructions: parser output -> what the runner runs ---------------------------------- *)
Definition conv_type (t : Parser.itype) : Runner.itype :=
  match t with
  | Parser.IEmpty => Runner.IEmpty
  | Parser.IPre _ _ => Runner.IPre
  | Parser.IScript l o c a => Runner.IScript (SI l o c (match a with Some x => x | None => [] end))
  end.
Definition conv_instr (i : Parser.instr) : Runner.instr :=
  Instr (Meta (Some (N.to_nat (Parser.i_line i))) (Parser.i_source i)) (conv_type (Parser.i_type i)).
(* the instruction eval.rs::parse hands to eval_with_instructions *)
Definition cond_instr (t : Parser.itype) : Runner.instr := Instr (Meta None None) (conv_type t).

(* ---- the script table ------------------------------------------------------------------------ *)
Record sentry := SE { se_aliases : list str; se_scope : str; se_min : nat; se_body : list Runner.instr }.
Definition se_P (s : sentry) : str := s_scope ++ se_scope s.          (* "scope::<scope name>" *)
Fixpoint find_script (t : list sentry) (c : str) : option sentry :=
  match t with
  | [] => None
  | s :: r => if str_in c (se_aliases s) then Some s else find_script r c
  end.
(* keys under the prefix of some script command: every wrapper clears its own *)
Definition reserved (t : list sentry) (k : str) : bool := existsb (fun s => hasp (se_P s) k) t.
Definition is_unset (scope : str) : bool := str_eqb scope s_unset_scope.

Definition entry_of (s : DSG.GenScripts.script_cmd) : sentry :=
  SE (DSG.GenScripts.sc_aliases s) (DSG.GenScripts.sc_scope s) (N.to_nat (DSG.GenScripts.sc_min_args s))
     (match parse_text (DSG.GenScripts.sc_text s) with TOk is => map conv_instr is | TErr _ _ _ => [] end).
Definition gen_table : list sentry := map entry_of DSG.GenScripts.gen_scripts.

(* ---- the confinement check on the instructions the runner sees ----------------------------- *)
(* "${K}" with a well-formed name: binds to exactly one received argument, the value of K *)
Definition var_ref_name (a : str) : option str :=
  match a with
  | x :: y :: r =>
    if ((x =? c_dollar) && (y =? c_lbrace))%N then
      match rev r with
      | z :: rk => if (z =? c_rbrace)%N && name_ok (rev rk) then Some (rev rk) else None
      | [] => None
      end
    else None
  | _ => None
  end.
Definition out_ok (scope : str) (o : option str) : bool :=
  match o with Some x => ScriptConf.starts_with (scope_prefix scope) x | None => true end.
(* a literal name under the prefix: free of $ % backslash, so that binding leaves it alone *)
Definition lit_name (scope : str) (x : str) : bool :=
  ScriptConf.starts_with (scope_prefix scope) x && lit_ok x.
Definition cmd_iok (t : list sentry) (scope : str) (c : str) (args : list str) : bool :=
  match find_script t c with
  | Some s => negb (is_unset (se_scope s))          (* another script command; `unset` is never called from a script *)
  | None =>
    if str_eqb c s_for then match args with x :: _ => lit_name scope x | [] => false end
    else if str_eqb c s_set_by_name then
      is_unset scope && match args with [a] => match var_ref_name a with Some _ => true | None => false end | _ => false end
    else str_in c pure_cmds || str_in c flow_cmds
  end.
Definition iok (t : list sentry) (scope : str) (i : Runner.instr) : bool :=
  match Runner.i_type i with
  | Runner.IScript s => out_ok scope (s_out s) && match s_cmd s with Some c => cmd_iok t scope c (s_args s) | None => true end
  | _ => true
  end.
Definition table_ok (t : list sentry) : bool := forallb (fun s => forallb (iok t (se_scope s)) (se_body s)) t.

(* conditions as written (if / elif / elseif / while / not): leading `not`s, then either a value
   reference (the token starts with $: what is run, if anything, depends on the value) or a literal
   command word — free of $ % backslash so that it is received as written, shaped like a command
   word (EvalSer.is_cmd) and permitted by the check.  `for` and set_by_name are never permitted
   here ([cmd_iok] with no argument rejects them). *)
Fixpoint cond_ok_s (t : list sentry) (scope : str) (args : list str) : bool :=
  match args with
  | [] => true
  | a :: r =>
    match a with
    | x :: _ =>
      if (x =? c_dollar)%N then true
      else lit_ok a && is_cmd a && cmd_iok t scope a [] && (if str_eqb a s_not then cond_ok_s t scope r else true)
    | [] => false
    end
  end.
Definition instr_ok_s (t : list sentry) (scope : str) (i : Runner.instr) : bool :=
  iok t scope i &&
  match Runner.i_type i with
  | Runner.IScript s =>
    match s_cmd s with
    | Some c => if str_in c cond_cmds then cond_ok_s t scope (s_args s) else true
    | None => true
    end
  | _ => true
  end.
Definition table_ok_s (t : list sentry) : bool := forallb (fun s => forallb (instr_ok_s t (se_scope s)) (se_body s)) t.
(* the strengthened syntactic check on one regenerated script: the old one and the new one *)
Definition script_confined_s (s : DSG.GenScripts.script_cmd) : bool :=
  script_confined s && forallb (instr_ok_s gen_table (DSG.GenScripts.sc_scope s)) (se_body (entry_of s)).
Definition all_scripts_confined_s : bool := forallb script_confined_s DSG.GenScripts.gen_scripts.

(* ---- ghost flags + handle keys + everything else ------------------------------------------- *)
Section Body.
Variable ustate : Type.                          (* Context.state (handle contents, flow stacks, ...), commands, env *)
Record gst := G { g_oof : bool; g_panic : bool; g_odd : bool; g_h : handles; g_u : ustate }.
Notation W := (world gst).

Variable table : list sentry.
Variable fresh : handles -> str.                                   (* put_handle's random key *)
Variable store_args : str -> list str -> ustate -> ustate.         (* put_handle: the array behind the key *)
Variable drop_handle : str -> ustate -> ustate.                    (* handle_state.remove *)
Variable set_ctx : str -> ustate -> str * ustate.                  (* scope.rs set_line_context_name: previous name *)
Variable nexists : ustate -> str -> bool.                          (* Commands::exists / get_for_use *)
(* native commands: name, the instruction list they are given, invocation, variables, handle keys, state *)
Definition nat_t := vmap -> handles -> ustate -> result * vmap * handles * ustate.
Variable ncmd : str -> list Runner.instr -> inv -> nat_t.
(* if / elif / elseif / while / not: what the native code does before eval_condition (Some r: it
   answers r without evaluating) and after it (given Ok(passed) = Some passed / Err = None) *)
Variable cond_pre : str -> list Runner.instr -> inv -> vmap -> handles -> ustate -> option result * vmap * handles * ustate.
Variable cond_post : str -> list Runner.instr -> inv -> option bool -> nat_t.

Definition set_g (w : W) (v : vmap) (h : handles) (u : ustate) : W :=
  World v (G (g_oof (cst w)) (g_panic (cst w)) (g_odd (cst w)) h u) (halt w).
Definition mark_oof (w : W) : W := World (vars w) (G true (g_panic (cst w)) (g_odd (cst w)) (g_h (cst w)) (g_u (cst w))) (halt w).
Definition mark_panic (w : W) : W := World (vars w) (G (g_oof (cst w)) true (g_odd (cst w)) (g_h (cst w)) (g_u (cst w))) (halt w).
Definition mark_odd (w : W) : W := World (vars w) (G (g_oof (cst w)) (g_panic (cst w)) true (g_h (cst w)) (g_u (cst w))) (halt w).
Definition lift (f : nat_t) (w : W) : result * W :=
  let '(r, v, h, u) := f (vars w) (g_h (cst w)) (g_u (cst w)) in (r, set_g w v h u).

Definition msg_fuel : str := [102;117;101;108]%N.
Definition env_of (v : vmap) : env := fun k => v !! k.
Definition gexists (st : gst) (c : str) : bool := nexists (g_u st) c.

Definition ev_t := str -> list Runner.instr -> nat -> W -> option (eval_out gst).

Definition flow_answer (o : eval_out gst) : result :=
  match eo_result o with Some r => r | None => Continue (eo_output o) end.

(* types/command.rs AliasCommand::run for table entry s *)
Definition alias_w (ev : ev_t) (s : sentry) (a : inv) (w : W) : result * W :=
  let P := se_P s in
  let args := a_args a in
  if length args <? se_min s then (Error msg_invalid_args, w)
  else
    let start_count := size (vars w) in
    let '(prev, u0) := set_ctx P (g_u (cst w)) in
    let h := g_h (cst w) in
    let '(v1, h1, u1, ho) :=
      match args with
      | [] => (vars w, h, u0, None)
      | _ => let k := fresh h in
             (<[args_key P := k]> (insert_args P 1 args (vars w)), {[k]} ∪ h, store_args k args u0, Some k)
      end in
    match ev (se_scope s) (se_body s) 0 (set_g w v1 h1 u1) with
    | None => (Crash (Msg msg_fuel), mark_oof w)
    | Some o =>
      let w2 := eo_w o in
      let '(h3, u3) := match ho with
                       | Some k => (g_h (cst w2) ∖ {[k]}, drop_handle k (g_u (cst w2)))
                       | None => (g_h (cst w2), g_u (cst w2))
                       end in
      let v3 := keep P (vars w2) in
      let w3 := set_g w2 v3 h3 (snd (set_ctx prev u3)) in
      if start_count <? size v3 then (Crash (Msg msg_leak), w3)
      else (flow_answer o, w3)
    end.

(* utils/condition.rs eval_condition (+ utils/eval.rs eval_with_instructions) *)
Definition eval_condition (ev : ev_t) (scope : str) (body : list Runner.instr) (args : list str) (w : W)
  : option bool * W :=
  match args with
  | [] => (Some false, w)                                      (* Ok(is_true(None)) *)
  | first :: _ =>
    if gexists (cst w) first then
      match eval_parse args with
      | ParsedOk t =>
        let i := cond_instr t in
        let w1 := if iok table scope i then w else mark_odd w in
        let all := body ++ [i] in
        match ev scope all (length all - 1) w1 with
        | None => (None, mark_oof w1)
        | Some o =>
          match flow_answer o with
          | Continue value => (Some (is_true value), eo_w o)
          | _ => (None, eo_w o)                                (* Crash -> Error -> Err; Exit / GoTo -> Err *)
          end
        end
      | ParseErr _ => (None, w)
      | ParsePanic => (None, mark_panic w)
      end
    else (match eval_slice args with Cond.Ok b => Some b | _ => None end, w)
  end.

Definition cond_run (ev : ev_t) (scope : str) (body : list Runner.instr) (c : str) (a : inv) (w : W) : result * W :=
  let '(pr, v, h, u) := cond_pre c body a (vars w) (g_h (cst w)) (g_u (cst w)) in
  let w1 := set_g w v h u in
  match pr with
  | Some r => (r, w1)
  | None => let '(cr, w2) := eval_condition ev scope body (a_args a) w1 in lift (cond_post c body a cr) w2
  end.

Definition dispatch (ev : ev_t) (scope : str) (body : list Runner.instr) (c : str) (a : inv) (w : W) : result * W :=
  match find_script table c with
  | Some s => alias_w ev s a w
  | None => if str_in c cond_cmds then cond_run ev scope body c a w else lift (ncmd c body a) w
  end.

(* runner.rs bind_command_arguments in front of the command *)
Definition bound (d : str -> inv -> W -> result * W) (c : str) (a : inv) (w : W) : result * W :=
  d c (Inv (bind_args (env_of (vars w)) (a_args a)) (a_out a) (a_line a)) w.

Fixpoint ev (fuel n : nat) : ev_t :=
  match n with
  | O => fun _ _ _ _ => None
  | S n' => fun scope body line w =>
      eval_instructions gst gexists (bound (dispatch (ev fuel n') scope body)) fuel body line w None []
  end.

Inductive sb_out :=
| SBDone (r : option result) (out : option str) (v : vmap) (h : handles) (u : ustate) (odd : bool)
| SBOutOfFuel
| SBPanic.
Definition start (v : vmap) (h : handles) (u : ustate) : W := World v (G false false false h u) false.
Definition script_body (fuel n : nat) (scope : str) (body : list Runner.instr) (v : vmap) (h : handles) (u : ustate) : sb_out :=
  match ev fuel n scope body 0 (start v h u) with
  | None => SBOutOfFuel
  | Some o =>
    let st := cst (eo_w o) in
    if g_oof st then SBOutOfFuel else if g_panic st then SBPanic
    else SBDone (eo_result o) (eo_output o) (vars (eo_w o)) (g_h st) (g_u st) (g_odd st)
  end.

(* the whole command: the wrapper around the body, on a clean ghost state *)
Inductive sc_out :=
| SCDone (r : result) (v : vmap) (h : handles) (u : ustate) (odd : bool)
| SCOutOfFuel
| SCPanic.
Definition script_command (fuel n : nat) (s : sentry) (args : list str) (v : vmap) (h : handles) (u : ustate) : sc_out :=
  let '(r, w) := alias_w (ev fuel n) s (Inv args None 0) (start v h u) in
  let st := cst w in
  if g_oof st then SCOutOfFuel else if g_panic st then SCPanic
  else SCDone r (vars w) (g_h st) (g_u st) (g_odd st).
End Body.

Arguments G {ustate}. Arguments g_oof {ustate}. Arguments g_panic {ustate}. Arguments g_odd {ustate}.
Arguments g_h {ustate}. Arguments g_u {ustate}.
Arguments SBDone {ustate}. Arguments SBOutOfFuel {ustate}. Arguments SBPanic {ustate}.
Arguments SCDone {ustate}. Arguments SCOutOfFuel {ustate}. Arguments SCPanic {ustate}.
