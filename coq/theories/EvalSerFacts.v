(* EvalSerFacts.v — proofs about EvalSer.v (C09): the text rebuilt by eval::parse from [safe]
   argument values parses and re-binds to the same values, for every variable environment. *)
Require Import DS.Base DS.Parser DS.Expansion DS.ExpansionSpec DS.ExpansionFacts DS.EvalSer.

(* ------------------------------------------------------------------------------------------- *)
(* small text facts *)

Lemma has_chr_app c a b : has_chr c (a ++ b) = has_chr c a || has_chr c b.
Proof. unfold has_chr. apply existsb_app. Qed.
Lemma has_chr_cons c x s : has_chr c (x :: s) = (c =? x) || has_chr c s.
Proof. reflexivity. Qed.

Lemma remove_char_id c s : has_chr c s = false -> remove_char c s = s.
Proof.
  induction s as [|x s IH]; [reflexivity|]. rewrite has_chr_cons. intros H.
  apply orb_false_iff in H. destruct H as [H1 H2]. cbn [remove_char filter].
  rewrite N.eqb_sym, H1. cbn [negb]. f_equal. now apply IH.
Qed.
Lemma remove_char_app c a b : remove_char c (a ++ b) = remove_char c a ++ remove_char c b.
Proof. unfold remove_char. apply filter_app. Qed.
Lemma has_chr_remove c s : has_chr c (remove_char c s) = false.
Proof.
  induction s as [|x s IH]; [reflexivity|]. cbn [remove_char filter].
  destruct (x =? c) eqn:E; cbn [negb]; [exact IH|].
  rewrite has_chr_cons, N.eqb_sym, E. exact IH.
Qed.

Lemma double_bs_app a b : double_bs (a ++ b) = double_bs a ++ double_bs b.
Proof. unfold double_bs. induction a as [|x a IH]; [reflexivity|]. cbn [flat_map app]. now rewrite IH, app_assoc. Qed.
Lemma double_bs_cons_bs s : double_bs (c_bs :: s) = c_bs :: c_bs :: double_bs s.
Proof. reflexivity. Qed.
Lemma double_bs_cons c s : (c =? c_bs) = false -> double_bs (c :: s) = c :: double_bs s.
Proof. intros H. unfold double_bs. cbn [flat_map]. now rewrite H. Qed.
Lemma double_bs_id s : has_chr c_bs s = false -> double_bs s = s.
Proof.
  induction s as [|x s IH]; [reflexivity|]. rewrite has_chr_cons. intros H.
  apply orb_false_iff in H. destruct H as [H1 H2]. rewrite N.eqb_sym in H1.
  rewrite double_bs_cons by assumption. f_equal. now apply IH.
Qed.
Lemma has_chr_double_bs c s : (c =? c_bs) = false -> has_chr c (double_bs s) = has_chr c s.
Proof.
  intros Hc. induction s as [|x s IH]; [reflexivity|].
  destruct (x =? c_bs) eqn:E.
  - apply N.eqb_eq in E. subst x. rewrite double_bs_cons_bs, !has_chr_cons, Hc, IH. reflexivity.
  - rewrite double_bs_cons by assumption. now rewrite !has_chr_cons, IH.
Qed.

Lemma ends_with_ws_cons x r : r <> [] -> ends_with_ws (x :: r) = ends_with_ws r.
Proof. destruct r; [congruence | reflexivity]. Qed.
Lemma ends_with_ws_snoc l x : ends_with_ws (l ++ [x]) = is_ws x.
Proof.
  induction l as [|a l IH]; [reflexivity|]. cbn [app]. rewrite ends_with_ws_cons; [exact IH|].
  destruct l; discriminate.
Qed.
Lemma ends_with_ws_app a b : b <> [] -> ends_with_ws (a ++ b) = ends_with_ws b.
Proof.
  intros Hb. induction a as [|x a IH]; [reflexivity|]. cbn [app].
  rewrite ends_with_ws_cons; [exact IH|]. destruct a, b; try discriminate; congruence.
Qed.
Lemma ends_with_ws_double_bs s : ends_with_ws (double_bs s) = ends_with_ws s.
Proof.
  induction s as [|x s IH]; [reflexivity|].
  destruct s as [|y s].
  - destruct (x =? c_bs) eqn:E.
    + apply N.eqb_eq in E. subst x. reflexivity.
    + rewrite double_bs_cons by assumption. reflexivity.
  - rewrite ends_with_ws_cons by discriminate. rewrite <- IH.
    change (x :: y :: s) with ([x] ++ (y :: s)). rewrite double_bs_app.
    apply ends_with_ws_app.
    destruct (y =? c_bs) eqn:E.
    + apply N.eqb_eq in E. subst y. rewrite double_bs_cons_bs. discriminate.
    + rewrite double_bs_cons by assumption. discriminate.
Qed.
Lemma drop_ws_rev_id t : ends_with_ws t = false -> drop_ws (rev t) = rev t.
Proof.
  destruct t as [|a t] using rev_ind; [reflexivity|]. rewrite ends_with_ws_snoc. intros H.
  rewrite rev_app_distr. cbn [rev app drop_ws]. now rewrite H.
Qed.

Lemma trim_line c t : is_ws c = false -> ends_with_ws (c :: t) = false ->
  trim ((c :: t) ++ [c_sp]) = c :: t.
Proof.
  intros Hc He. unfold trim, trim_start, trim_end.
  cbn [app drop_ws]. rewrite Hc.
  change (c :: t ++ [c_sp]) with ((c :: t) ++ [c_sp]). rewrite rev_app_distr.
  cbn [rev app drop_ws]. replace (is_ws c_sp) with true by reflexivity.
  change (rev t ++ [c]) with (rev (c :: t)).
  rewrite drop_ws_rev_id by assumption. apply rev_involutive.
Qed.

(* str::lines on a text without LF *)
Lemma lines_aux_single s : forall cur, has_chr c_lf s = false -> (cur <> [] \/ s <> []) ->
  lines_aux s cur = [rev cur ++ s].
Proof.
  induction s as [|c s IH]; intros cur H Hne.
  - cbn. destruct cur; [destruct Hne; congruence|]. now rewrite app_nil_r.
  - rewrite has_chr_cons in H. apply orb_false_iff in H. destruct H as [H1 H2].
    rewrite N.eqb_sym in H1. cbn [lines_aux]. rewrite H1.
    rewrite IH; [|assumption|left; discriminate].
    cbn [rev]. now rewrite <- app_assoc.
Qed.
Lemma lines_single s : has_chr c_lf s = false -> s <> [] -> lines s = [s].
Proof. intros H Hne. unfold lines. rewrite lines_aux_single; auto. Qed.

(* ------------------------------------------------------------------------------------------- *)
(* the rebuilt line *)

Lemma serialise_cons a l :
  serialise (a :: l)
  = double_bs (remove_char c_lf (remove_char c_cr (serialise_arg a))) ++ [c_sp] ++ serialise l.
Proof.
  unfold serialise, line_buffer. cbn [flat_map].
  rewrite !remove_char_app, !double_bs_app. rewrite <- app_assoc. reflexivity.
Qed.

Lemma serialise_nonempty a l : serialise (a :: l) <> [].
Proof.
  rewrite serialise_cons.
  destruct (double_bs (remove_char c_lf (remove_char c_cr (serialise_arg a)))); discriminate.
Qed.

Lemma serialise_no_lf l : has_chr c_lf (serialise l) = false.
Proof. unfold serialise. rewrite has_chr_double_bs by reflexivity. apply has_chr_remove. Qed.

Definition ser1 (a : str) : str := double_bs (serialise_arg a).

Lemma has_chr_serialise_arg c a : (c =? c_quote) = false -> (c =? c_bs) = false ->
  has_chr c (serialise_arg a) = has_chr c a.
Proof.
  intros Hq Hb. unfold serialise_arg.
  destruct (is_nil a) eqn:En.
  - destruct a; [|discriminate]. cbn. now rewrite Hq.
  - destruct (starts_with c_quote a && ends_with c_quote a).
    + rewrite !has_chr_app. cbn. rewrite Hb. now rewrite !orb_false_r.
    + destruct (has_chr c_sp a); [|reflexivity].
      rewrite !has_chr_app. cbn. rewrite Hq. now rewrite !orb_false_r.
Qed.

Lemma ser_clean a : cls_NL a = false ->
  double_bs (remove_char c_lf (remove_char c_cr (serialise_arg a))) = ser1 a.
Proof.
  unfold cls_NL. intros H. apply orb_false_iff in H. destruct H as [Hcr Hlf].
  rewrite (remove_char_id c_cr), (remove_char_id c_lf); try reflexivity;
    rewrite has_chr_serialise_arg; auto.
Qed.

Definition tailtxt (args : list str) : str := flat_map (fun a => c_sp :: ser1 a) args.

Lemma reshape (f : str -> str) l : forall x,
  x ++ [c_sp] ++ flat_map (fun a => f a ++ [c_sp]) l
  = (x ++ flat_map (fun a => c_sp :: f a) l) ++ [c_sp].
Proof.
  induction l as [|a l IH]; intros x.
  - cbn. now rewrite app_nil_r.
  - cbn [flat_map].
    replace (x ++ [c_sp] ++ (f a ++ [c_sp]) ++ flat_map (fun a0 => f a0 ++ [c_sp]) l)
      with ((x ++ c_sp :: f a) ++ [c_sp] ++ flat_map (fun a0 => f a0 ++ [c_sp]) l)
      by (rewrite <- !app_assoc; reflexivity).
    rewrite IH. rewrite <- !app_assoc. reflexivity.
Qed.

Lemma serialise_args l : forallb (fun a => negb (cls_NL a)) l = true ->
  serialise l = flat_map (fun a => ser1 a ++ [c_sp]) l.
Proof.
  induction l as [|a l IH]; intros H; [reflexivity|].
  cbn [forallb] in H. apply andb_prop in H. destruct H as [Ha Hl]. apply negb_true_iff in Ha.
  rewrite serialise_cons, ser_clean, IH by assumption. cbn [flat_map]. now rewrite <- app_assoc.
Qed.

(* ------------------------------------------------------------------------------------------- *)
(* facts extracted from [safe] and [is_cmd] *)

Lemma safe_inv a : safe a = true ->
  cls_NL a = false /\ cls_Q a = false /\ cls_H a = false /\ cls_D a = false /\ cls_B a = false /\ cls_P a = false.
Proof.
  unfold safe. intros H. repeat (apply andb_prop in H; destruct H as [H ?]).
  repeat match goal with X : negb _ = true |- _ => apply negb_true_iff in X end. auto 10.
Qed.

Lemma cmd_char_ok_inv c : cmd_char_ok c = true ->
  is_ws c = false /\ (c =? c_hash) = false /\ (c =? c_eq) = false /\ (c =? c_bs) = false /\ (c =? c_quote) = false.
Proof.
  unfold cmd_char_ok. intros H. repeat (apply andb_prop in H; destruct H as [H ?]).
  repeat match goal with X : negb _ = true |- _ => apply negb_true_iff in X end. auto 10.
Qed.
Lemma not_ws_not_sp c : is_ws c = false -> (c =? c_sp) = false.
Proof. intros H. destruct (c =? c_sp) eqn:E; [|reflexivity]. apply N.eqb_eq in E. subst c. discriminate. Qed.

Lemma cmd_no_chr cmd c : forallb cmd_char_ok cmd = true -> cmd_char_ok c = false -> has_chr c cmd = false.
Proof.
  intros H Hc. induction cmd as [|x cmd IH]; [reflexivity|].
  cbn [forallb] in H. apply andb_prop in H. destruct H as [Hx Hr].
  rewrite has_chr_cons, IH by assumption. destruct (c =? x) eqn:E; [|reflexivity].
  apply N.eqb_eq in E. subst x. congruence.
Qed.
Lemma cmd_ends cmd : forallb cmd_char_ok cmd = true -> ends_with_ws cmd = false.
Proof.
  induction cmd as [|x cmd IH]; [reflexivity|]. intros H.
  cbn [forallb] in H. apply andb_prop in H. destruct H as [Hx Hr].
  destruct cmd as [|y cmd].
  - cbn. now apply cmd_char_ok_inv in Hx.
  - rewrite ends_with_ws_cons by discriminate. now apply IH.
Qed.
Lemma ser_cmd cmd : forallb cmd_char_ok cmd = true -> cmd <> [] ->
  double_bs (remove_char c_lf (remove_char c_cr (serialise_arg cmd))) = cmd.
Proof.
  intros H Hne.
  assert (Hsa : serialise_arg cmd = cmd).
  { unfold serialise_arg. destruct cmd as [|c cmd]; [congruence|]. cbn [is_nil].
    assert (Hq : starts_with c_quote (c :: cmd) = false).
    { cbn. cbn [forallb] in H. apply andb_prop in H. destruct H as [Hc _].
      now apply cmd_char_ok_inv in Hc. }
    rewrite Hq. cbn [andb]. now rewrite (cmd_no_chr _ c_sp H). }
  rewrite Hsa.
  rewrite (remove_char_id c_cr) by now apply cmd_no_chr.
  rewrite (remove_char_id c_lf) by now apply cmd_no_chr.
  apply double_bs_id. now apply cmd_no_chr.
Qed.

(* ------------------------------------------------------------------------------------------- *)
(* parser steps *)

Lemma in_arg_arg_push c l acc : (c =? c_bs) = false -> (c =? c_sp) = false -> (c =? c_hash) = false ->
  in_arg fl_arg (c :: l) acc false false false = in_arg fl_arg l (c :: acc) false false false.
Proof.
  intros H1 H2 H3. cbn [in_arg fl_arg stop_on_equals control_as_char andb negb]. now rewrite H1, H2, H3.
Qed.
Lemma in_arg_arg_push_q c l acc : (c =? c_bs) = false -> (c =? c_quote) = false ->
  in_arg fl_arg (c :: l) acc true false false = in_arg fl_arg l (c :: acc) true false false.
Proof.
  intros H1 H2. cbn [in_arg fl_arg stop_on_equals andb negb]. now rewrite H1, H2.
Qed.
Lemma in_arg_arg_bsbs l acc uq :
  in_arg fl_arg (c_bs :: c_bs :: l) acc uq false false = in_arg fl_arg l (c_bs :: acc) uq false false.
Proof. reflexivity. Qed.
Lemma in_arg_out_push c l acc : cmd_char_ok c = true ->
  in_arg fl_out (c :: l) acc false false false = in_arg fl_out l (c :: acc) false false false.
Proof.
  intros H. apply cmd_char_ok_inv in H. destruct H as (Hw & Hh & He & Hb & Hq).
  apply not_ws_not_sp in Hw.
  cbn [in_arg fl_out stop_on_equals control_as_char andb negb]. now rewrite Hb, Hw, Hh, He.
Qed.

Definition sep_or_end (t : str) : Prop := t = [] \/ exists t', t = c_sp :: t'.

Lemma in_arg_end fl acc t : sep_or_end t ->
  in_arg fl t acc false false false = POk (t, finish acc false).
Proof. intros [->|[t' ->]]; reflexivity. Qed.

Lemma in_arg_out_word w : forall acc t, forallb cmd_char_ok w = true -> sep_or_end t ->
  in_arg fl_out (w ++ t) acc false false false = POk (t, finish (rev w ++ acc) false).
Proof.
  induction w as [|c w IH]; intros acc t H Ht.
  - now apply in_arg_end.
  - cbn [forallb] in H. apply andb_prop in H. destruct H as [Hc Hw].
    cbn [app]. rewrite in_arg_out_push by assumption. rewrite IH by assumption.
    cbn [rev]. now rewrite <- app_assoc.
Qed.

Lemma in_arg_unquoted a : forall acc t, has_chr c_sp a = false -> has_chr c_hash a = false -> sep_or_end t ->
  in_arg fl_arg (double_bs a ++ t) acc false false false = POk (t, finish (rev a ++ acc) false).
Proof.
  induction a as [|c a IH]; intros acc t Hs Hh Ht.
  - now apply in_arg_end.
  - rewrite has_chr_cons in Hs, Hh. apply orb_false_iff in Hs, Hh.
    destruct Hs as [Hs1 Hs], Hh as [Hh1 Hh]. rewrite N.eqb_sym in Hs1, Hh1.
    cbn [rev]. rewrite <- app_assoc. cbn [app].
    destruct (c =? c_bs) eqn:E.
    + apply N.eqb_eq in E. subst c. rewrite double_bs_cons_bs. cbn [app].
      rewrite in_arg_arg_bsbs. now apply IH.
    + rewrite double_bs_cons by assumption. cbn [app].
      rewrite in_arg_arg_push by assumption. now apply IH.
Qed.

Lemma in_arg_quoted a : forall acc t, has_chr c_quote a = false ->
  in_arg fl_arg (double_bs a ++ c_quote :: t) acc true false false = POk (t, finish (rev a ++ acc) true).
Proof.
  induction a as [|c a IH]; intros acc t Hq.
  - reflexivity.
  - rewrite has_chr_cons in Hq. apply orb_false_iff in Hq. destruct Hq as [Hq1 Hq].
    rewrite N.eqb_sym in Hq1. cbn [rev]. rewrite <- app_assoc. cbn [app].
    destruct (c =? c_bs) eqn:E.
    + apply N.eqb_eq in E. subst c. rewrite double_bs_cons_bs. cbn [app].
      rewrite in_arg_arg_bsbs. now apply IH.
    + rewrite double_bs_cons by assumption. cbn [app].
      rewrite in_arg_arg_push_q by assumption. now apply IH.
Qed.

Lemma finish_rev a uq : a <> [] -> finish (rev a ++ []) uq = Some a.
Proof.
  intros H. rewrite app_nil_r. unfold finish. destruct (rev a) eqn:E.
  - apply (f_equal (@rev char)) in E. rewrite rev_involutive in E. cbn in E. congruence.
  - rewrite <- E. now rewrite rev_involutive.
Qed.

Lemma has_chr_false_head c x s : has_chr c (x :: s) = false -> (x =? c) = false.
Proof. rewrite has_chr_cons. intros H. apply orb_false_iff in H. rewrite N.eqb_sym. tauto. Qed.

Lemma skip_quote l : skip fl_arg (c_quote :: l) = in_arg fl_arg l [] true false false.
Proof. reflexivity. Qed.

(* one serialised safe argument is read back as that argument *)
Lemma skip_ser1 a t : safe a = true -> sep_or_end t ->
  skip fl_arg (ser1 a ++ t) = POk (t, Some a).
Proof.
  intros Hs Ht. apply safe_inv in Hs. destruct Hs as (Hnl & Hq & Hh & _).
  unfold cls_Q in Hq. apply orb_false_iff in Hq. destruct Hq as [Hq1 Hq2].
  unfold ser1, serialise_arg.
  destruct a as [|c a]; [reflexivity|]. cbn [is_nil].
  rewrite Hq1. cbn [andb].
  destruct (has_chr c_sp (c :: a)) eqn:Esp.
  - (* written in quotes *)
    rewrite andb_true_r in Hq2.
    change ([c_quote] ++ (c :: a) ++ [c_quote]) with ([c_quote] ++ ((c :: a) ++ [c_quote])).
    rewrite !double_bs_app. change (double_bs [c_quote]) with [c_quote]. rewrite <- !app_assoc.
    cbn [app]. rewrite skip_quote.
    rewrite in_arg_quoted by assumption. now rewrite finish_rev by discriminate.
  - (* written bare *)
    unfold cls_H in Hh. rewrite Esp in Hh. cbn [negb] in Hh. rewrite andb_true_r in Hh.
    pose proof (has_chr_false_head _ _ _ Esp) as Hc_sp.
    pose proof (has_chr_false_head _ _ _ Hh) as Hc_h.
    cbn [starts_with] in Hq1.
    assert (Ha_sp : has_chr c_sp a = false).
    { rewrite has_chr_cons in Esp. apply orb_false_iff in Esp. tauto. }
    assert (Ha_h : has_chr c_hash a = false).
    { rewrite has_chr_cons in Hh. apply orb_false_iff in Hh. tauto. }
    destruct (c =? c_bs) eqn:E.
    + apply N.eqb_eq in E. subst c. rewrite double_bs_cons_bs. cbn [app].
      change (skip fl_arg (c_bs :: c_bs :: double_bs a ++ t))
        with (in_arg fl_arg (double_bs a ++ t) [c_bs] false false false).
      rewrite in_arg_unquoted by assumption.
      change (rev a ++ [c_bs]) with (rev a ++ [c_bs] ++ []). rewrite app_assoc.
      change (rev a ++ [c_bs]) with (rev (c_bs :: a)). now rewrite finish_rev by discriminate.
    + rewrite double_bs_cons by assumption. cbn [app skip fl_arg control_as_char allow_control negb].
      rewrite Hc_h, Hc_sp, Hq1, E. cbn [andb].
      rewrite in_arg_unquoted by assumption.
      change (rev a ++ [c]) with (rev a ++ [c] ++ []). rewrite app_assoc.
      change (rev a ++ [c]) with (rev (c :: a)). now rewrite finish_rev by discriminate.
Qed.

Lemma tailtxt_sep args : sep_or_end (tailtxt args).
Proof. destruct args; [left; reflexivity | right; eexists; reflexivity]. Qed.

Lemma length_tailtxt args : (length args <= length (tailtxt args))%nat.
Proof.
  induction args as [|a args IH]; [apply le_n|]. unfold tailtxt in *. cbn [flat_map length app].
  rewrite app_length. lia.
Qed.

Lemma parse_tail args : forall f, forallb safe args = true -> (length args <= f)%nat ->
  parse_args_fuel (S f) fl_arg (tailtxt args) = POk args.
Proof.
  induction args as [|a args IH]; intros f H Hf; [reflexivity|].
  cbn [forallb] in H. apply andb_prop in H. destruct H as [Ha Hr].
  rewrite parse_args_fuel_S. unfold tailtxt. cbn [flat_map app]. rewrite skip_sp.
  fold (tailtxt args). rewrite skip_ser1; [|assumption|apply tailtxt_sep].
  cbn [cont]. cbn [length] in Hf. destruct f as [|f]; [lia|].
  rewrite IH by (try assumption; lia). reflexivity.
Qed.

(* the first character of a serialised argument *)
Lemma ser1_head a : safe a = true -> cls_E a = false ->
  exists c s, ser1 a = c :: s /\ (c =? c_sp) = false /\ (c =? c_eq) = false.
Proof.
  intros Hs He. apply safe_inv in Hs. destruct Hs as (_ & Hq & _).
  unfold cls_Q in Hq. apply orb_false_iff in Hq. destruct Hq as [Hq1 _].
  unfold ser1, serialise_arg. destruct a as [|c a].
  - exists c_quote, [c_quote]. auto.
  - cbn [is_nil]. rewrite Hq1. cbn [andb].
    destruct (has_chr c_sp (c :: a)) eqn:Esp.
    + eexists c_quote, _. split; [reflexivity | auto].
    + unfold cls_E in He. rewrite Esp in He. cbn [negb] in He. rewrite andb_true_r in He.
      cbn [starts_with] in He. pose proof (has_chr_false_head _ _ _ Esp) as Hc.
      destruct (c =? c_bs) eqn:E.
      * apply N.eqb_eq in E. subst c. rewrite double_bs_cons_bs. eexists _, _. split; [reflexivity|auto].
      * rewrite double_bs_cons by assumption. eexists _, _. split; [reflexivity|auto].
Qed.

Lemma after_equals_tail args : forallb safe args = true -> head_ok args = true ->
  after_equals (tailtxt args) = None.
Proof.
  destruct args as [|a args]; [reflexivity|]. intros H He.
  cbn [forallb] in H. apply andb_prop in H. destruct H as [Ha _].
  cbn [head_ok] in He. apply negb_true_iff in He.
  destruct (ser1_head a Ha He) as (c & s & E & Hsp & Heq).
  unfold tailtxt. cbn [flat_map app]. rewrite E. cbn [app after_equals].
  replace (c_sp =? c_sp) with true by reflexivity. now rewrite Hsp, Heq.
Qed.

(* the last character of the line body *)
Lemma ser1_nonempty a : ser1 a <> [].
Proof.
  unfold ser1, serialise_arg. destruct a as [|c a]; [discriminate|]. cbn [is_nil].
  destruct (starts_with c_quote (c :: a) && ends_with c_quote (c :: a)); [discriminate|].
  destruct (has_chr c_sp (c :: a)); [discriminate|].
  destruct (c =? c_bs) eqn:E.
  - apply N.eqb_eq in E. subst c. discriminate.
  - rewrite double_bs_cons by assumption. discriminate.
Qed.
Lemma ser1_ends a : safe a = true -> cls_W a = false -> ends_with_ws (ser1 a) = false.
Proof.
  intros Hs Hw. apply safe_inv in Hs. destruct Hs as (_ & Hq & _).
  unfold cls_Q in Hq. apply orb_false_iff in Hq. destruct Hq as [Hq1 _].
  unfold ser1, serialise_arg. destruct a as [|c a]; [reflexivity|]. cbn [is_nil].
  rewrite Hq1. cbn [andb].
  destruct (has_chr c_sp (c :: a)) eqn:Esp.
  - rewrite app_assoc, double_bs_app. change (double_bs [c_quote]) with [c_quote].
    now rewrite ends_with_ws_snoc.
  - unfold cls_W in Hw. rewrite Esp in Hw. cbn [negb] in Hw. rewrite andb_true_r in Hw.
    now rewrite ends_with_ws_double_bs.
Qed.
Lemma tailtxt_ends args : forallb safe args = true -> last_ok args = true -> args <> [] ->
  ends_with_ws (tailtxt args) = false.
Proof.
  induction args as [|a args IH]; [congruence|]. intros H Hl _.
  cbn [forallb] in H. apply andb_prop in H. destruct H as [Ha Hr].
  unfold tailtxt. cbn [flat_map]. fold (tailtxt args).
  destruct args as [|b args].
  - cbn [tailtxt flat_map]. rewrite app_nil_r.
    rewrite ends_with_ws_cons by apply ser1_nonempty.
    cbn [last_ok] in Hl. apply negb_true_iff in Hl. now apply ser1_ends.
  - rewrite ends_with_ws_app; [apply IH; try assumption; discriminate|].
    unfold tailtxt. cbn [flat_map app]. discriminate.
Qed.

(* ------------------------------------------------------------------------------------------- *)
(* the second binding copies a value unchanged when [rescan] is clean *)

Definition pfx (single : bool) : char := if single then c_dollar else c_pct.
Definition state_of (s : rstate) (acc key : str) (single : bool) : xst :=
  match s with
  | RN => mk_xst acc 0 false [] false single
  | RF => mk_xst acc 0 false [] true single
  | RP => mk_xst acc 1 false [] false single
  | RK _ => mk_xst acc 0 true key false single
  end.
Definition pending (s : rstate) (key : str) (single : bool) : str :=
  match s with
  | RN => []
  | RF => [c_bs]
  | RP => [pfx single]
  | RK _ => pfx single :: c_lbrace :: key
  end.
Definition key_ok (s : rstate) (key : str) : Prop :=
  match s with RK b => b = negb (is_nil key) | _ => True end.

Lemma pfx_of c : (c =? c_dollar) || (c =? c_pct) = true -> pfx (c =? c_dollar) = c.
Proof.
  intros H. destruct (c =? c_dollar) eqn:E.
  - apply N.eqb_eq in E. now subst.
  - cbn in H. apply N.eqb_eq in H. now subst.
Qed.

Lemma xstep_RN_bs e acc st : xstep e (state_of RN acc [] st) c_bs = state_of RF acc [] st.
Proof. reflexivity. Qed.
Lemma xstep_RN_prefix e acc st c : (c =? c_dollar) || (c =? c_pct) = true ->
  xstep e (state_of RN acc [] st) c = state_of RP acc [] (c =? c_dollar).
Proof.
  intros H. destruct (c =? c_dollar) eqn:E.
  - apply N.eqb_eq in E. subst c. reflexivity.
  - cbn in H. apply N.eqb_eq in H. subst c. reflexivity.
Qed.
Lemma xstep_RN_other e acc st c : (c =? c_bs) = false -> (c =? c_dollar) || (c =? c_pct) = false ->
  xstep e (state_of RN acc [] st) c = state_of RN (acc ++ [c]) [] st.
Proof.
  intros Hb H. apply orb_false_iff in H. destruct H as [H1 H2].
  unfold state_of. apply xstep_lit. unfold lit_char_ok. now rewrite H1, H2, Hb.
Qed.
Lemma xstep_RF e acc st c : (c =? c_dollar) || (c =? c_pct) = false ->
  xstep e (state_of RF acc [] st) c = state_of RN ((acc ++ [c_bs]) ++ [c]) [] st.
Proof.
  intros H. apply orb_false_iff in H. destruct H as [H1 H2].
  unfold xstep, state_of. cbn [x_found x_force x_pidx x_value x_key x_single negb].
  now rewrite H1, H2.
Qed.
Lemma xstep_RP_open e acc st : xstep e (state_of RP acc [] st) c_lbrace = state_of (RK false) acc [] st.
Proof. reflexivity. Qed.
Lemma xstep_RP_other e acc st c : (c =? c_lbrace) = false ->
  xstep e (state_of RP acc [] st) c = state_of RN ((acc ++ [pfx st]) ++ [c]) [] st.
Proof.
  intros H. unfold xstep, state_of, flush_prefix, push_prefix, pfx.
  cbn [x_found x_force x_pidx x_value x_key x_single negb].
  replace (1 =? 0) with false by reflexivity. replace (1 =? 1) with true by reflexivity.
  rewrite andb_false_r, H. cbn [andb orb]. reflexivity.
Qed.
Lemma xstep_RK_break e acc key st b c : (c =? c_rbrace) = false -> should_break_key c = true ->
  xstep e (state_of (RK b) acc key st) c = state_of RN ((acc ++ [pfx st; c_lbrace]) ++ key ++ [c]) [] st.
Proof.
  intros H1 H2. unfold xstep, state_of, flush_prefix, push_prefix, pfx.
  cbn [x_found x_force x_pidx x_value x_key x_single negb]. rewrite H1, H2.
  change ((0 <? 0) || true) with true. cbv beta iota zeta. rewrite <- !app_assoc. reflexivity.
Qed.
Lemma xstep_RK_key e acc key st b c : (c =? c_rbrace) = false -> should_break_key c = false ->
  xstep e (state_of (RK b) acc key st) c = state_of (RK true) acc (key ++ [c]) st.
Proof.
  intros H1 H2. unfold xstep, state_of.
  cbn [x_found x_force x_pidx x_value x_key x_single negb]. now rewrite H1, H2.
Qed.

Lemma rescan_sound e a : forall s st acc key st',
  key_ok s key -> (match s with RK _ => True | _ => key = [] end) ->
  rescan_from s st a = RClean st' ->
  xfinish (fold_left (xstep e) a (state_of s acc key st)) = (acc ++ pending s key st ++ a, st').
Proof.
  induction a as [|c a IH]; intros s st acc key st' Hk Hkey H.
  - cbn [fold_left]. destruct s as [| | |b]; cbn [rescan_from] in H.
    + inversion H. subst. cbn. now rewrite app_nil_r.
    + inversion H. subst. reflexivity.
    + inversion H. subst. reflexivity.
    + destruct b; [|discriminate]. inversion H. subst. cbn [key_ok] in Hk.
      destruct key as [|k key]; [discriminate|].
      unfold xfinish, state_of, pending, push_prefix, pfx.
      cbn [x_found x_force x_pidx x_value x_key x_single negb is_nil].
      change ((0 <? 0) || true) with true. cbv beta iota.
      rewrite app_nil_r. rewrite <- !app_assoc. reflexivity.
  - cbn [fold_left]. destruct s as [| | |b]; cbn [rescan_from] in H.
    + subst key. destruct (c =? c_bs) eqn:Ebs.
      * apply N.eqb_eq in Ebs. subst c. rewrite xstep_RN_bs.
        rewrite (IH RF st acc [] st' I eq_refl H). reflexivity.
      * destruct ((c =? c_dollar) || (c =? c_pct)) eqn:Epre.
        -- rewrite xstep_RN_prefix by assumption.
           rewrite (IH RP (c =? c_dollar) acc [] st' I eq_refl H).
           cbn [pending]. now rewrite pfx_of.
        -- rewrite xstep_RN_other by assumption.
           rewrite (IH RN st _ [] st' I eq_refl H).
           cbn [pending app]. now rewrite <- app_assoc.
    + subst key. destruct ((c =? c_dollar) || (c =? c_pct)) eqn:Epre; [discriminate|].
      rewrite xstep_RF by assumption.
      rewrite (IH RN st _ [] st' I eq_refl H).
      cbn [pending app]. now rewrite <- !app_assoc.
    + subst key. destruct (c =? c_lbrace) eqn:Elb.
      * apply N.eqb_eq in Elb. subst c. rewrite xstep_RP_open.
        rewrite (IH (RK false) st acc [] st' eq_refl I H). reflexivity.
      * rewrite xstep_RP_other by assumption.
        rewrite (IH RN st _ [] st' I eq_refl H).
        cbn [pending app]. now rewrite <- !app_assoc.
    + destruct (c =? c_rbrace) eqn:Erb; [discriminate|].
      destruct (should_break_key c) eqn:Ebr.
      * rewrite xstep_RK_break by assumption.
        rewrite (IH RN st _ [] st' I eq_refl H).
        cbn [pending app]. rewrite <- !app_assoc. reflexivity.
      * rewrite xstep_RK_key by assumption.
        erewrite (IH (RK true) st acc _ st' _ I H).
        cbn [pending app]. rewrite <- !app_assoc. reflexivity.
        Unshelve. cbn [key_ok]. destruct key; reflexivity.
Qed.

Lemma words_single a : a <> [] -> has_chr c_sp a = false -> words a = [a].
Proof.
  intros Hne Hs. unfold words.
  assert (G : forall l cur, has_chr c_sp l = false -> (cur <> [] \/ l <> []) -> words_aux l cur = [rev cur ++ l]).
  { induction l as [|c l IH]; intros cur H Hn.
    - cbn. destruct cur; [destruct Hn; congruence|]. now rewrite app_nil_r.
    - rewrite has_chr_cons in H. apply orb_false_iff in H. destruct H as [H1 H2].
      rewrite N.eqb_sym in H1. cbn [words_aux]. rewrite H1.
      rewrite IH; [|assumption|left; discriminate]. cbn [rev]. now rewrite <- app_assoc. }
  rewrite G; auto.
Qed.

Lemma wiq_no_space a : forall b, has_chr c_sp a = false ->
  word_initial_quote_from b a = b && starts_with c_quote a.
Proof.
  induction a as [|c a IH]; intros b H.
  - cbn. now rewrite andb_false_r.
  - rewrite has_chr_cons in H. apply orb_false_iff in H. destruct H as [H1 H2].
    rewrite N.eqb_sym in H1. cbn [word_initial_quote_from starts_with].
    rewrite H1, IH by assumption. cbn [andb]. now rewrite orb_false_r.
Qed.

(* re-binding a safe value gives exactly that value, whatever the variables are *)
Theorem rebind_safe : forall a e, safe a = true -> bound_of (expand_by_wrapper a e) = [a].
Proof.
  intros a e Hs. apply safe_inv in Hs. destruct Hs as (Hnl & Hq & Hh & Hd & Hb & Hp).
  unfold cls_D in Hd. unfold cls_B in Hb. unfold cls_P in Hp.
  destruct (rescan a) as [single| |] eqn:R; try discriminate.
  unfold expand_by_wrapper, xscan, xinit.
  pose proof (rescan_sound e a RN true [] [] single I eq_refl R) as F.
  cbn [state_of pending app] in F. rewrite F.
  destruct single.
  - destruct a; reflexivity.
  - cbn [negb andb] in Hp.
    assert (Hne : a <> []) by (intros ->; discriminate).
    unfold cls_Q in Hq. apply orb_false_iff in Hq. destruct Hq as [Hq1 _].
    assert (K : known_spread_value a = false).
    { unfold known_spread_value, known_spread_quote.
      rewrite wiq_no_space by assumption. rewrite Hq1. reflexivity. }
    rewrite spread_of_words by assumption. rewrite words_single by assumption. reflexivity.
Qed.

Lemma bind_args_safe args e : forallb safe args = true -> bind_args e args = args.
Proof.
  induction args as [|a args IH]; intros H; [reflexivity|].
  cbn [forallb] in H. apply andb_prop in H. destruct H as [Ha Hr].
  cbn [bind_args]. rewrite rebind_safe, IH by assumption. reflexivity.
Qed.

(* ------------------------------------------------------------------------------------------- *)
(* the round trip *)

Theorem roundtrip : forall cmd args e,
  is_cmd cmd = true -> forallb safe args = true -> head_ok args = true -> last_ok args = true ->
  eval_call e (cmd :: args) = Call None None cmd args.
Proof.
  intros cmd args e Hcmd Hs He Hl.
  destruct cmd as [|c0 cmd']; [discriminate|]. cbn [is_cmd] in Hcmd.
  apply andb_prop in Hcmd. destruct Hcmd as [Hcmd Hok]. apply andb_prop in Hcmd.
  destruct Hcmd as [Hcolon Hbang]. apply negb_true_iff in Hcolon, Hbang.
  pose proof Hok as Hok0. cbn [forallb] in Hok0. apply andb_prop in Hok0. destruct Hok0 as [Hc0 Hcmd'].
  pose proof (cmd_char_ok_inv _ Hc0) as (Hws & Hh & Heq & Hbs & Hq).
  pose proof (not_ws_not_sp _ Hws) as Hsp.
  set (cmd := c0 :: cmd') in *.
  (* the text *)
  assert (Hnl : forallb (fun a => negb (cls_NL a)) args = true).
  { apply forallb_forall. intros a Ha. rewrite forallb_forall in Hs. apply Hs in Ha.
    apply safe_inv in Ha. destruct Ha as [-> _]. reflexivity. }
  assert (Htext : serialise (@cons str cmd args) = (cmd ++ tailtxt args) ++ [c_sp]).
  { rewrite serialise_cons, ser_cmd by (try assumption; discriminate).
    rewrite serialise_args by assumption. apply reshape. }
  assert (Hends : ends_with_ws (cmd ++ tailtxt args) = false).
  { destruct args as [|a args].
    - cbn [tailtxt flat_map]. rewrite app_nil_r. now apply cmd_ends.
    - rewrite ends_with_ws_app; [apply tailtxt_ends; try assumption; discriminate|].
      unfold tailtxt. cbn [flat_map app]. discriminate. }
  assert (Hparse : parse_line (serialise (@cons str cmd args)) = POk (IScript None None (Some cmd) (opt_list args))).
  { rewrite Htext. unfold parse_line. subst cmd. cbn [app].
    change (c0 :: (cmd' ++ tailtxt args) ++ [c_sp]) with ((c0 :: cmd' ++ tailtxt args) ++ [c_sp]).
    rewrite trim_line by assumption.
    rewrite Hh, Hbang.
    unfold parse_command_line.
    cbn [find_label]. rewrite Hcolon, Hsp.
    unfold find_output_and_command, parse_next_value.
    cbn [skip fl_out allow_quotes control_as_char allow_control negb].
    rewrite Hh, Hsp, Hq, Hbs. cbn [andb].
    rewrite in_arg_out_word; [|assumption|apply tailtxt_sep].
    change (rev cmd' ++ [c0]) with (rev cmd' ++ [c0] ++ []). rewrite app_assoc.
    change (rev cmd' ++ [c0]) with (rev (c0 :: cmd')). rewrite finish_rev by discriminate.
    rewrite after_equals_tail by assumption.
    unfold parse_arguments, parse_arguments_with.
    rewrite parse_tail; [reflexivity|assumption|apply length_tailtxt]. }
  unfold eval_call, eval_parse, parse_text, parse_text_src.
  rewrite lines_single; [|apply serialise_no_lf|apply serialise_nonempty].
  cbn [parse_lines_from]. rewrite Hparse. cbn [preprocess app i_type].
  f_equal. destruct args as [|a args]; [reflexivity|].
  cbn [opt_list bind_command_arguments]. now apply bind_args_safe.
Qed.

(* ------------------------------------------------------------------------------------------- *)
(* the scanner-defined classes D, B, P are inside the simple syntactic ones *)

Lemma has_pair_cons p x r :
  has_pair p (x :: r) = (match r with y :: _ => p x y | [] => false end) || has_pair p r.
Proof. destruct r; reflexivity. Qed.
Lemma has_pair_tail p x r : has_pair p r = true -> has_pair p (x :: r) = true.
Proof. intros H. rewrite has_pair_cons, H. apply orb_true_r. Qed.

Lemma lossD_contains a : forall s st, rescan_from s st a = RLossD ->
  match s with
  | RK _ => True
  | RP => starts_with c_lbrace a = true \/ has_pair pair_D a = true
  | _ => has_pair pair_D a = true
  end.
Proof.
  induction a as [|c a IH]; intros s st H.
  - destruct s as [| | |[|]]; cbn in H; try discriminate; exact I.
  - destruct s as [| | |b]; cbn [rescan_from] in H.
    + destruct (c =? c_bs) eqn:Ebs.
      * apply has_pair_tail. exact (IH RF st H).
      * destruct ((c =? c_dollar) || (c =? c_pct)) eqn:Epre.
        -- destruct (IH RP _ H) as [Hs|Hp]; [|now apply has_pair_tail].
           rewrite has_pair_cons. destruct a as [|y a]; [discriminate|]. cbn [starts_with] in Hs.
           unfold pair_D. now rewrite Epre, Hs.
        -- apply has_pair_tail. exact (IH RN st H).
    + destruct ((c =? c_dollar) || (c =? c_pct)); [discriminate|].
      apply has_pair_tail. exact (IH RN st H).
    + destruct (c =? c_lbrace) eqn:Elb.
      * left. exact Elb.
      * right. apply has_pair_tail. exact (IH RN st H).
    + exact I.
Qed.

Lemma lossB_contains a : forall s st, rescan_from s st a = RLossB ->
  match s with
  | RF => (match a with y :: _ => (y =? c_dollar) || (y =? c_pct) | [] => false end) = true \/ has_pair pair_B a = true
  | _ => has_pair pair_B a = true
  end.
Proof.
  induction a as [|c a IH]; intros s st H.
  - destruct s as [| | |[|]]; cbn in H; discriminate.
  - destruct s as [| | |b]; cbn [rescan_from] in H.
    + destruct (c =? c_bs) eqn:Ebs.
      * destruct (IH RF st H) as [Hs|Hp]; [|now apply has_pair_tail].
        rewrite has_pair_cons. destruct a as [|y a]; [discriminate|].
        unfold pair_B. now rewrite Ebs, Hs.
      * destruct ((c =? c_dollar) || (c =? c_pct)).
        -- apply has_pair_tail. exact (IH RP _ H).
        -- apply has_pair_tail. exact (IH RN st H).
    + destruct ((c =? c_dollar) || (c =? c_pct)) eqn:Epre.
      * left. reflexivity.
      * right. apply has_pair_tail. exact (IH RN st H).
    + destruct (c =? c_lbrace).
      * apply has_pair_tail. exact (IH (RK false) st H).
      * apply has_pair_tail. exact (IH RN st H).
    + destruct (c =? c_rbrace); [discriminate|].
      destruct (should_break_key c).
      * apply has_pair_tail. exact (IH RN st H).
      * apply has_pair_tail. exact (IH (RK true) st H).
Qed.

Lemma spread_contains a : forall s st, rescan_from s st a = RClean false ->
  st = false \/ has_chr c_pct a = true.
Proof.
  induction a as [|c a IH]; intros s st H.
  - destruct s as [| | |[|]]; cbn in H; try discriminate; inversion H; auto.
  - assert (T : forall s' st', rescan_from s' st' a = RClean false -> st' = st -> st = false \/ has_chr c_pct (c :: a) = true).
    { intros s' st' H' ->. destruct (IH s' st H') as [|Hp]; [auto|]. right. rewrite has_chr_cons, Hp. apply orb_true_r. }
    destruct s as [| | |b]; cbn [rescan_from] in H.
    + destruct (c =? c_bs); [now apply (T RF st)|].
      destruct ((c =? c_dollar) || (c =? c_pct)) eqn:Epre; [|now apply (T RN st)].
      destruct (IH RP _ H) as [Hd|Hp].
      * right. rewrite Hd in Epre. cbn in Epre. rewrite has_chr_cons, N.eqb_sym, Epre. reflexivity.
      * right. rewrite has_chr_cons, Hp. apply orb_true_r.
    + destruct ((c =? c_dollar) || (c =? c_pct)); [discriminate|]. now apply (T RN st).
    + destruct (c =? c_lbrace); [now apply (T (RK false) st) | now apply (T RN st)].
    + destruct (c =? c_rbrace); [discriminate|].
      destruct (should_break_key c); [now apply (T RN st) | now apply (T (RK true) st)].
Qed.

Theorem safe_simple_safe a : safe_simple a = true -> safe a = true.
Proof.
  unfold safe_simple, safe. intros H. repeat (apply andb_prop in H; destruct H as [H ?]).
  repeat match goal with X : negb _ = true |- _ => apply negb_true_iff in X end.
  repeat match goal with X : _ = false |- _ => rewrite X end. cbn [negb andb].
  unfold cls_D, cls_B, cls_P, rescan.
  destruct (rescan_from RN true a) as [single| |] eqn:R.
  - destruct single; [reflexivity|]. cbn [negb andb].
    destruct (spread_contains a RN true R) as [|Hp]; [discriminate|].
    match goal with X : has_chr c_pct a && has_chr c_sp a = false |- _ => rewrite Hp in X; cbn [andb] in X; rewrite X end.
    reflexivity.
  - pose proof (lossB_contains a RN true R) as Hb. cbn in Hb. congruence.
  - pose proof (lossD_contains a RN true R) as Hd. cbn in Hd. congruence.
Qed.

Theorem roundtrip_simple : forall cmd args e,
  is_cmd cmd = true -> forallb safe_simple args = true -> head_ok args = true -> last_ok args = true ->
  eval_call e (cmd :: args) = Call None None cmd args.
Proof.
  intros cmd args e Hc Hs. apply roundtrip; [assumption|].
  apply forallb_forall. intros a Ha. rewrite forallb_forall in Hs. apply safe_simple_safe. now apply Hs.
Qed.

(* ------------------------------------------------------------------------------------------- *)
(* the unsafe classes are real: one witness each (the command word is "c") *)

Definition w_cmd : str := [99].
Definition refutes (args : list str) : Prop :=
  is_cmd w_cmd = true /\ eval_call env_empty (w_cmd :: args) <> Call None None w_cmd args.

(* Q: "a" (with its quotes) comes back wrapped in back-slashes *)
Lemma Q_refuted : cls_Q [34; 97; 34] = true /\ refutes [[34; 97; 34]].
Proof. vm_compute. repeat split; discriminate. Qed.
(* Q: a quote together with a space ends the quoting early *)
Lemma Q2_refuted : cls_Q [97; 34; 32; 98] = true /\ refutes [[97; 34; 32; 98]].
Proof. vm_compute. repeat split; discriminate. Qed.
(* H: a#b is cut at # *)
Lemma H_refuted : cls_H [97; 35; 98] = true /\ refutes [[97; 35; 98]].
Proof. vm_compute. repeat split; discriminate. Qed.
(* NL: a LF b loses its line break *)
Lemma NL_refuted : cls_NL [97; 10; 98] = true /\ refutes [[97; 10; 98]].
Proof. vm_compute. repeat split; discriminate. Qed.
(* D: ${x} is expanded by the second binding *)
Lemma D_refuted : cls_D [36; 123; 120; 125] = true /\ refutes [[36; 123; 120; 125]].
Proof. vm_compute. repeat split; discriminate. Qed.
(* P: "a %b c" is re-split into three arguments *)
Lemma P_refuted : cls_P [97; 32; 37; 98; 32; 99] = true /\ refutes [[97; 32; 37; 98; 32; 99]].
Proof. vm_compute. repeat split; discriminate. Qed.
(* B: \$ loses its back-slash *)
Lemma B_refuted : cls_B [92; 36] = true /\ refutes [[92; 36]].
Proof. vm_compute. repeat split; discriminate. Qed.
(* E: a first argument =x turns the command word into an output variable *)
Lemma E_refuted : cls_E [61; 120] = true /\ safe [61; 120] = true /\ refutes [[61; 120]].
Proof. vm_compute. repeat split; discriminate. Qed.
(* W: a trailing TAB of the last argument is trimmed *)
Lemma W_refuted : cls_W [97; 9] = true /\ safe [97; 9] = true /\ refutes [[97; 9]].
Proof. vm_compute. repeat split; discriminate. Qed.

(* non-vacuity: hostile but safe values survive *)
Definition w_safe_args : list str :=
  [[]; [97; 32; 35; 32; 92; 32; 98]; [36; 120; 37]; [36; 36; 123; 120; 125]; [92; 92; 36]; [61; 34; 9; 97]].
Lemma roundtrip_example :
  forallb safe w_safe_args = true /\ head_ok w_safe_args = true /\ last_ok w_safe_args = true /\
  eval_call (env_of_list [([120], [122])]) (w_cmd :: w_safe_args) = Call None None w_cmd w_safe_args.
Proof. vm_compute. auto. Qed.
