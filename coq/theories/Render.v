(* Render.v — the documented concrete syntax of one script line as a function of the instruction
   and of the free choices the syntax leaves (definitions only; extracted for the C01 check).

     [lead] [:label] [output =] [command [arguments]] [# comment] [trail]

   choices: leading / trailing white space, number of spaces between tokens, spaces around '=',
   per argument quoted or not and per character escaped or raw, optional comment. *)
Require Import DS.Base DS.Parser.

Record sinstr := { s_label : option str;      (* without the ':' prefix *)
                   s_output : option str; s_command : option str; s_args : list str }.

(* what the parser is expected to return for it *)
Definition norm (i : sinstr) : itype :=
  match s_label i, s_output i, s_command i with
  | None, None, None => IEmpty
  | l, o, c => IScript (option_map (cons c_colon) l) o c (opt_list (s_args i))
  end.

(* ---- characters ------------------------------------------------------------------------------ *)
(* the documented escapes: backslash followed by backslash, double quote, n, r or t
   (backslash-dollar is never produced) *)
Definition esc_of (c : char) : option char :=
  if c =? c_bs then Some c_bs else if c =? c_quote then Some c_quote
  else if c =? c_lf then Some c_n else if c =? c_cr then Some c_r
  else if c =? c_tab then Some c_t else None.

(* one character, written as an escape when asked to and when it has one *)
Definition emit1 (c : char) (e : bool) : str :=
  if e then match esc_of c with Some x => [c_bs; x] | None => [c] end else [c].

Fixpoint emit_str (s : str) (es : list bool) : str :=
  match s with
  | [] => []
  | c :: s' => emit1 c (hd false es) ++ emit_str s' (tl es)
  end.

Definition escaped (c : char) (e : bool) : bool :=
  e && match esc_of c with Some _ => true | None => false end.

(* characters that cannot stand for themselves anywhere *)
Definition special (c : char) : bool := (c =? c_bs) || (c =? c_quote) || (c =? c_lf) || (c =? c_cr).
(* inside quotes: backslash, double quote, LF and CR must be escaped *)
Fixpoint valid_q (s : str) (es : list bool) : bool :=
  match s with
  | [] => true
  | c :: s' => (escaped c (hd false es) || negb (special c)) && valid_q s' (tl es)
  end.
(* outside quotes: backslash, LF and CR must be escaped, space and hash cannot be written at all *)
Definition raw_ok_u (c : char) : bool :=
  negb ((c =? c_bs) || (c =? c_lf) || (c =? c_cr) || (c =? c_sp) || (c =? c_hash)).
Fixpoint valid_u (s : str) (es : list bool) : bool :=
  match s with
  | [] => true
  | c :: s' => (escaped c (hd false es) || raw_ok_u c) && valid_u s' (tl es)
  end.

Definition ends_ws (l : str) : bool := match rev l with c :: _ => is_ws c | [] => false end.

(* ---- arguments -------------------------------------------------------------------------------- *)
Record argch := { a_gap : nat;          (* S a_gap spaces before the argument *)
                  a_quoted : bool; a_esc : list bool }.

Definition spaces (n : nat) : str := repeat c_sp n.

Definition render_arg (a : str) (ch : argch) : str :=
  if a_quoted ch then c_quote :: emit_str a (a_esc ch) ++ [c_quote] else emit_str a (a_esc ch).

Fixpoint render_args (args : list str) (chs : list argch) : str :=
  match args, chs with
  | a :: args', ch :: chs' => spaces (S (a_gap ch)) ++ render_arg a ch ++ render_args args' chs'
  | _, _ => []
  end.

(* an unquoted argument: non-empty, every character writable, the written text neither begins with
   a double quote or the plain space (any other blank at the start of the token is data: only the plain
   space separates tokens) nor ends with white space (the line is trimmed), and, when it is the first argument of a line
   without output variable, does not begin with '=' *)
Definition valid_arg (first_noout : bool) (a : str) (ch : argch) : bool :=
  if a_quoted ch then valid_q a (a_esc ch)
  else valid_u a (a_esc ch) &&
       match emit_str a (a_esc ch) with
       | [] => false
       | c :: _ => negb (c =? c_quote) && negb (c =? c_sp) && negb (first_noout && (c =? c_eq))
       end &&
       negb (ends_ws (emit_str a (a_esc ch))).

Fixpoint valid_args (first_noout : bool) (args : list str) (chs : list argch) : bool :=
  match args, chs with
  | [], [] => true
  | a :: args', ch :: chs' => valid_arg first_noout a ch && valid_args false args' chs'
  | _, _ => false
  end.

(* ---- lines -------------------------------------------------------------------------------------- *)
Record choices := { ch_lead : str; ch_trail : str;
                    ch_label_gap : nat;                 (* S n spaces after the label *)
                    ch_eq_left : nat; ch_eq_right : nat; (* spaces on each side of '=' *)
                    ch_args : list argch;
                    ch_comment : option (nat * str) }.  (* spaces before '#', comment text *)

Definition render_label (i : sinstr) (ch : choices) : str :=
  match s_label i with
  | Some n => c_colon :: n ++ match s_output i, s_command i with
                              | None, None => []
                              | _, _ => spaces (S (ch_label_gap ch))
                              end
  | None => []
  end.

Definition render_oc (i : sinstr) (ch : choices) : str :=
  match s_output i, s_command i with
  | Some o, Some c => o ++ spaces (ch_eq_left ch) ++ c_eq :: spaces (ch_eq_right ch) ++ c
  | Some o, None => o ++ spaces (ch_eq_left ch) ++ [c_eq]
  | None, Some c => c
  | None, None => []
  end.

Definition render_comment (ch : choices) : str :=
  match ch_comment ch with Some (k, txt) => spaces k ++ c_hash :: txt | None => [] end.

Definition render_head (i : sinstr) (ch : choices) : str := render_label i ch ++ render_oc i ch.

Definition render_body (i : sinstr) (ch : choices) : str :=
  render_head i ch ++ render_args (s_args i) (ch_args ch) ++ render_comment ch.

Definition render_line (i : sinstr) (ch : choices) : str :=
  ch_lead ch ++ render_body i ch ++ ch_trail ch.

(* ---- side conditions of the syntax ------------------------------------------------------------ *)
Definition name_char (c : char) : bool := negb (is_ws c || (c =? c_hash) || (c =? c_bs)).
(* names: non-empty, no white space, hash or backslash, not beginning with a double quote *)
Definition name_ok (s : str) : bool :=
  match s with [] => false | c :: _ => negb (c =? c_quote) && forallb name_char s end.
Definition no_eq (s : str) : bool := forallb (fun c => negb (c =? c_eq)) s.
Definition first_ok (s : str) : bool :=
  match s with c :: _ => negb ((c =? c_colon) || (c =? c_bang)) | [] => true end.

Definition wf (i : sinstr) : bool :=
  match s_label i with Some n => name_ok n | None => true end &&
  match s_output i with Some o => name_ok o && no_eq o | None => true end &&
  match s_command i with
  | Some c => name_ok c && match s_output i with None => no_eq c | Some _ => true end
  | None => true
  end &&
  (* the first token of a line begins with ':' or '!' only when it is the label *)
  match s_label i, s_output i, s_command i with
  | None, Some o, _ => first_ok o
  | None, None, Some c => first_ok c
  | _, _, _ => true
  end &&
  (* arguments only with a command *)
  match s_command i, s_args i with None, _ :: _ => false | _, _ => true end.

(* white space that does not end the line *)
Definition ws_line (s : str) : bool := forallb (fun c => is_ws c && negb (c =? c_lf)) s.
Definition no_lf (s : str) : bool := forallb (fun c => negb (c =? c_lf)) s.

Definition valid (i : sinstr) (ch : choices) : bool :=
  ws_line (ch_lead ch) && ws_line (ch_trail ch) &&
  valid_args (match s_output i with None => true | Some _ => false end) (s_args i) (ch_args ch) &&
  match ch_comment ch with Some (_, txt) => no_lf txt | None => true end.

(* ---- scripts -------------------------------------------------------------------------------------- *)
Inductive eol := EolLF | EolCRLF.
Definition eol_str (e : eol) : str := match e with EolLF => [c_lf] | EolCRLF => [c_cr; c_lf] end.

Definition item := (sinstr * choices * eol)%type.
Definition item_ok (x : item) : bool := let '(i, ch, _) := x in wf i && valid i ch.
Definition render_item (x : item) : str := let '(i, ch, e) := x in render_line i ch ++ eol_str e.

(* n terminated lines, optionally followed by a last line without terminator (which must then be
   non-empty, otherwise it is not a line at all) *)
Definition render_script (items : list item) (last : option (sinstr * choices)) : str :=
  concat (map render_item items) ++
  match last with Some (i, ch) => render_line i ch | None => [] end.

Definition last_ok (last : option (sinstr * choices)) : bool :=
  match last with
  | Some (i, ch) => wf i && valid i ch && match render_line i ch with [] => false | _ => true end
  | None => true
  end.

Fixpoint expect_from (ln : N) (is : list sinstr) : list instr :=
  match is with
  | [] => []
  | i :: r => {| i_line := ln; i_source := None; i_type := norm i |} :: expect_from (ln + 1) r
  end.

Definition script_instrs (items : list item) (last : option (sinstr * choices)) : list sinstr :=
  map (fun x : item => fst (fst x)) items ++ match last with Some (i, _) => [i] | None => [] end.
