(* Registry.v — model of duckscript/src/types/command.rs `Commands` (std++ gmap style) and of the
   script-level commands that act on it.  DEFINITIONS ONLY (specs: RegistrySpec.v, proofs:
   RegistryProof.v) so that extraction survives a broken proof.

   Rust                                             model
   ------------------------------------------------ ------------------------------------------
   Commands { commands: HashMap<String,CommandBox>, reg { cmds : gmap name (list name);
              aliases:  HashMap<String,String> }          als  : gmap name name }
   A stored command is identified by what the registry can observe of it: its `name()` (always
   equal to the key it is stored under, because `set` inserts it under `command.name()`) and the
   list returned by `aliases()` (asked again by `remove`).  Names are code-point lists.
   Commands::new / set / get / exists / get_for_use / get_all_command_names / remove
                                                    reg_new / reg_set / reg_get / reg_exists /
                                                    reg_get_for_use / reg_names / reg_remove
   One Coq function per Rust function, same order of tests and mutations. *)
From stdpp Require Import gmap list sorting.
From Coq Require Import NArith.

Definition name := list N.

(* Rust's `String: Ord` is byte-wise lexicographic on UTF-8, which coincides with lexicographic
   order on the scalar values. *)
Fixpoint name_leb (a b : name) : bool :=
  match a, b with
  | [], _ => true
  | _ :: _, [] => false
  | x :: a', y :: b' => if (x <? y)%N then true else if (x =? y)%N then name_leb a' b' else false
  end.
Definition name_le (a b : name) : Prop := name_leb a b = true.
Global Instance name_le_dec a b : Decision (name_le a b).
Proof. unfold name_le. apply _. Defined.

Record reg := Reg { cmds : gmap name (list name); als : gmap name name }.

(* Commands::new *)
Definition reg_new : reg := Reg ∅ ∅.

(* the `for alias in &aliases { if self.aliases.contains_key(alias) { return Err } }` loop *)
Fixpoint first_alias_conflict (m : gmap name name) (decl : list name) : option name :=
  match decl with
  | [] => None
  | a :: d => match m !! a with Some _ => Some a | None => first_alias_conflict m d end
  end.

Inductive set_res := SetOk (r : reg) | SetErrName | SetErrAlias (a : name).

(* Commands::set *)
Definition reg_set (r : reg) (n : name) (decl : list name) : set_res :=
  match cmds r !! n with
  | Some _ => SetErrName                                       (* "Command: {} already defined." *)
  | None =>
    match first_alias_conflict (als r) decl with
    | Some a => SetErrAlias a                                  (* "Alias: {} for command: {} already defined." *)
    | None =>
      SetOk (Reg (<[n := decl]> (cmds r))                      (* self.commands.insert(name, command) *)
                 (foldl (fun m a => <[a := n]> m)              (* for alias in &aliases { insert(alias, name) } *)
                        (delete n (als r)) decl))              (* self.aliases.remove(&name) *)
    end
  end.

(* `match self.aliases.get(name) { Some(v) => v, None => name }` *)
Definition resolve (r : reg) (x : name) : name :=
  match als r !! x with Some v => v | None => x end.

(* Commands::get — the command found, identified by (name, declared aliases) *)
Definition reg_get (r : reg) (x : name) : option (name * list name) :=
  let n := resolve r x in
  match cmds r !! n with Some d => Some (n, d) | None => None end.

(* Commands::exists *)
Definition reg_exists (r : reg) (x : name) : bool :=
  match reg_get r x with Some _ => true | None => false end.

(* Commands::get_for_use — `&mut self` but only reads; returns a clone *)
Definition reg_get_for_use (r : reg) (x : name) : reg * option (name * list name) :=
  let n := resolve r x in
  (r, match cmds r !! n with Some d => Some (n, d) | None => None end).

(* Commands::get_all_command_names: keys in hash order, then `names.sort()` *)
Definition reg_names (r : reg) : list name :=
  merge_sort name_le ((map_to_list (cmds r)).*1).

(* Commands::remove (current tree: an alias is dropped only if it still points to the command) *)
Definition reg_remove (r : reg) (x : name) : reg * bool :=
  let n := resolve r x in
  match cmds r !! n with
  | Some decl =>
      (Reg (delete n (cmds r))
           (foldl (fun m a => if bool_decide (m !! a = Some n) then delete a m else m) (als r) decl),
       true)
  | None => (r, false)
  end.

(* ---------------------------------------------------------------------------------------------
   histories through the public API *)
Inductive op :=
| OSet (n : name) (decl : list name)
| OGet (x : name) | OExists (x : name) | OGetForUse (x : name)
| ONames
| ORemove (x : name).

Inductive res :=
| RSet (ok : bool)
| RGet (c : option (name * list name))
| RBool (b : bool)
| RNames (l : list name).

Definition step (r : reg) (o : op) : reg * res :=
  match o with
  | OSet n decl => match reg_set r n decl with SetOk r' => (r', RSet true) | _ => (r, RSet false) end
  | OGet x => (r, RGet (reg_get r x))
  | OExists x => (r, RBool (reg_exists r x))
  | OGetForUse x => let '(r', c) := reg_get_for_use r x in (r', RGet c)
  | ONames => (r, RNames (reg_names r))
  | ORemove x => let '(r', b) := reg_remove r x in (r', RBool b)
  end.

Fixpoint run (r : reg) (ops : list op) : reg * list res :=
  match ops with
  | [] => (r, [])
  | o :: ops' => let '(r1, x) := step r o in let '(r2, xs) := run r1 ops' in (r2, x :: xs)
  end.

(* canonical dump of the two pub fields, sorted by key *)
Definition key_le {A} (p q : name * A) : Prop := name_le p.1 q.1.
Global Instance key_le_dec {A} (p q : name * A) : Decision (key_le p q).
Proof. unfold key_le. apply _. Defined.
Definition reg_dump (r : reg) : list (name * list name) * list (name * name) :=
  (merge_sort key_le (map_to_list (cmds r)), merge_sort key_le (map_to_list (als r))).

Definition reg_of_lists (cs : list (name * list name)) (al : list (name * name)) : reg :=
  Reg (list_to_map cs) (list_to_map al).

(* ---------------------------------------------------------------------------------------------
   the script-level commands (duckscript_sdk/src/sdk/std/lib/alias/{set,unset}, lib/command/remove,
   is_command_defined, flowcontrol/function).  Besides the registry they keep
     sr_alias : the names recorded in the "alias" sub-state by `alias`
     sr_fn    : the function names recorded in the function meta-info sub-state by `fn`
   Each operation is one command call; arguments are the bound argument list. *)
Record sreg := SReg { sr_reg : reg; sr_alias : gset name; sr_fn : gset name }.

Inductive sop :=
| SAlias (args : list name)           (* alias <name> <command> [args...] *)
| SUnalias (args : list name)         (* unalias <name> *)
| SRemoveCommand (args : list name)   (* remove_command <name> *)
| SIsDefined (args : list name)       (* is_command_defined <name> *)
| SFn (n : name).                     (* fn <name> / end, the definition line seen for the first
                                         time or again at the same line *)

Inductive sres := SOut (b : bool) | SErr | SNone.

Definition sstep (s : sreg) (o : sop) : sreg * sres :=
  let r := sr_reg s in
  match o with
  | SAlias (n :: _ :: _) =>
      (* create_alias_command: AliasCommand has no aliases of its own *)
      match reg_set r n [] with
      | SetOk r' => (SReg r' ({[ n ]} ∪ sr_alias s) (sr_fn s), SOut true)
      | _ => (s, SErr)
      end
  | SAlias _ => (s, SErr)                                   (* "Invalid alias provided." *)
  | SUnalias [k] =>
      if bool_decide (k ∈ sr_alias s) then
        let '(r', b) := reg_remove r k in
        if b then (SReg r' (sr_alias s ∖ {[ k ]}) (sr_fn s), SOut true) else (s, SOut false)
      else
        match als r !! k with
        | Some _ => (SReg (Reg (cmds r) (delete k (als r))) (sr_alias s) (sr_fn s), SOut true)
        | None => (s, SOut false)
        end
  | SUnalias _ => (s, SErr)                                 (* "Invalid alias name provided." *)
  | SRemoveCommand [k] =>
      let '(r', b) := reg_remove r k in (SReg r' (sr_alias s) (sr_fn s), SOut b)
  | SRemoveCommand _ => (s, SErr)                           (* "Invalid command name provided." *)
  | SIsDefined (k :: _) => (s, SOut (reg_exists r k))
  | SIsDefined [] => (s, SErr)                              (* "Command name not provided." *)
  | SFn n =>
      if bool_decide (n ∈ sr_fn s) then (s, SNone)          (* known at this line: skip the body *)
      else
        (* store_fn_info_in_state happens before commands.set *)
        match reg_set r n [] with
        | SetOk r' => (SReg r' (sr_alias s) ({[ n ]} ∪ sr_fn s), SNone)
        | _ => (SReg r (sr_alias s) ({[ n ]} ∪ sr_fn s), SErr)
        end
  end.

Fixpoint srun (s : sreg) (ops : list sop) : sreg * list sres :=
  match ops with
  | [] => (s, [])
  | o :: ops' => let '(s1, x) := sstep s o in let '(s2, xs) := srun s1 ops' in (s2, x :: xs)
  end.

Definition sreg_init (r : reg) : sreg := SReg r ∅ ∅.
