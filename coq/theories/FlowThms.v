(* FlowThms.v — the theorems of C04 in their final form. *)
Require Import DS.Base DS.FlowTables DS.FlowTablesWf DS.FlowScan DS.Flow DS.FlowTree DS.FlowScanProof
  DS.FlowLemmas DS.FlowFrame DS.FlowSim.
Require Import DSG.GenFlowNames.
Open Scope nat_scope.

(* the scanner lemma, for the three regenerated tables *)
Theorem find_own_end_gen : tables_wf = true ->
  forall k pre b els c rest, wfb b -> wfe els -> In c (closers k) ->
  find_commands (table_of k) (pre ++ cmds (cb b) ++ cmds (ce els) ++ Some c :: rest) (length pre)
  = SOk (mids k els (length pre + length (cb b))) (length pre + length (cb b) + length (ce els)).
Proof. intros TW k. apply find_own_end. now apply facts_of. Qed.

(* the simulation (DESIGN §7 C04 / Appendix B), for code placed anywhere in a program *)
Theorem flow_sim : tables_wf = true ->
  forall b w w' n pre post, wfb b -> tree_run n b w = TOk w' ->
  let P := pre ++ compile b ++ post in
  let p := length pre in let q := length pre + length (compile b) in
  forall f, Inv P f -> for_out p q f ->
  exists m f', steps m P (p, (w, f)) = Some (q, (w', f')) /\ Inv P f' /\ frame p q f f'.
Proof.
  intros TW b w w' n pre post Hw Ht P p q f HI Hf.
  destruct (sim_all P TW n) as (_ & Hb & _ & _).
  assert (Hp : placed P p (cb b)) by (exists pre, post; split; reflexivity).
  destruct (Hb b w w' p Hw Hp Ht f HI Hf) as (f' & (m & R) & I' & F').
  exists m, f'. auto.
Qed.

(* runs of the fuelled runner *)
Lemma run_steps P : forall m c l' s', steps m P c = Some (l', s') -> nth_error P l' = None ->
  run (S m) P (fst c) (snd c) = Done s'.
Proof.
  induction m as [|m IH]; intros [l s] l' s' H Hn.
  - cbn in H. inversion H; subst. cbn [run fst snd]. unfold run_body. now rewrite Hn.
  - cbn [steps] in H. destruct (step1 P (l, s)) as [[l1 s1]|] eqn:E1; [|discriminate].
    specialize (IH (l1, s1) l' s' H Hn). cbn [fst snd] in *.
    unfold step1 in E1. change (run (S (S m)) P l s) with (run_body (run (S m) P) P l s).
    unfold run_body. destruct (nth_error P l) as [i|]; [|discriminate].
    destruct (step P l i s) as [[] s2]; inversion E1; subst; exact IH.
Qed.

Lemma run_mono P : forall fuel l s s', run fuel P l s = Done s' ->
  forall k, fuel <= k -> run k P l s = Done s'.
Proof.
  induction fuel as [|fuel IH]; intros l s s' H k Hk; [discriminate|].
  destruct k as [|k]; [lia|].
  change (run_body (run fuel P) P l s = Done s') in H.
  change (run_body (run k P) P l s = Done s').
  unfold run_body in *. destruct (nth_error P l) as [i|]; [|exact H].
  destruct (step P l i s) as [[] s2]; try discriminate; apply IH; auto; lia.
Qed.

(* whole programs: the flat machine, started on the compiled program with empty flow state, runs
   past the last instruction (it is never stuck, never reports an error, never indexes out of
   range) in exactly the world the tree-walking interpreter computes — same emit trace, same
   variables, same arrays — every cached block table equals what the scanner computes, and no
   for-in entry is left. *)
Theorem flow_program : tables_wf = true ->
  forall b w w' n, wfb b -> tree_run n b w = TOk w' ->
  exists fuel f', (forall k, fuel <= k -> run_program k (compile b) w = Done (w', f')) /\
                  Inv (compile b) f' /\ f_forstk f' = [].
Proof.
  intros TW b w w' n Hw Ht.
  destruct (flow_sim TW b w w' n [] [] Hw Ht flow0) as (m & f' & R & I' & F').
  - rewrite app_nil_r. apply Inv_flow0.
  - constructor.
  - cbn [app length] in *. rewrite app_nil_r in *. cbn [Nat.add] in *.
    exists (S m), f'. split; [|split; [exact I'|exact (fr_for _ _ _ _ F')]].
    intros k Hk. unfold run_program. eapply run_mono; [|exact Hk].
    apply (run_steps (compile b) m (0, (w, flow0)) (length (compile b)) (w', f') R).
    apply nth_error_None. lia.
Qed.

(* the outcome of the flat machine is unique: whatever fuel makes it finish, the result is the
   tree interpreter's world *)
Corollary flow_program_unique : tables_wf = true ->
  forall b w w' n, wfb b -> tree_run n b w = TOk w' ->
  forall k s, run_program k (compile b) w = Done s -> fst s = w'.
Proof.
  intros TW b w w' n Hw Ht k s Hk.
  destruct (flow_program TW b w w' n Hw Ht) as (fuel & f' & Hrun & _).
  pose proof (Hrun (Nat.max fuel k) (Nat.le_max_l _ _)) as H1.
  pose proof (run_mono _ _ _ _ _ Hk (Nat.max fuel k) (Nat.le_max_r _ _)) as H2.
  unfold run_program in *. rewrite H1 in H2. inversion H2; subst. reflexivity.
Qed.

(* reading of the specification's for-in: when the body leaves the array and the handle variable
   alone, [tfor] runs the body exactly once per element, in order, with the loop variable bound
   to the element *)
Definition arr_is (hv : str) (l : list str) (w : world) : Prop :=
  aget str_eqb (vval hv w) (w_arrs w) = Some l.
Inductive iterates (x : str) (b : block) : list str -> world -> world -> Prop :=
| it_nil w : iterates x b [] w w
| it_cons v r w k w2 w' : tb k b (vset x v w) = TOk w2 -> iterates x b r w2 w' ->
                          iterates x b (v :: r) w w'.

Lemma skipn_nth {A} (l : list A) : forall i v, nth_error l i = Some v -> skipn i l = v :: skipn (S i) l.
Proof.
  induction l as [|a l IH]; intros [|i] v H; cbn in *; try discriminate.
  - now inversion H.
  - now apply IH.
Qed.

Theorem tfor_elements x hv b l :
  (forall k v w1 w2, arr_is hv l w1 -> tb k b (vset x v w1) = TOk w2 -> arr_is hv l w2) ->
  forall n i w w', arr_is hv l w -> tfor n x hv b i w = TOk w' -> iterates x b (skipn i l) w w'.
Proof.
  intros Hbody. induction n as [|n IH]; intros i w w' Hw Ht; [discriminate|].
  rewrite tfor_step in Ht. unfold get_next_iteration in Ht. unfold arr_is in Hw. rewrite Hw in Ht.
  destruct (nth_error l i) as [v|] eqn:En.
  - destruct (tb n b (vset x v w)) as [w2| |] eqn:Eb; try discriminate.
    rewrite (skipn_nth l i v En). eapply it_cons; [exact Eb|].
    apply IH; [|exact Ht]. eapply Hbody; [exact Hw|exact Eb].
  - inversion Ht; subst. apply nth_error_None in En. rewrite skipn_all2 by exact En. constructor.
Qed.

Corollary tfor_elements0 : forall x hv b l,
  (forall k v w1 w2, arr_is hv l w1 -> tb k b (vset x v w1) = TOk w2 -> arr_is hv l w2) ->
  forall n w w', arr_is hv l w -> tfor n x hv b 0 w = TOk w' -> iterates x b l w w'.
Proof. intros x hv b l H n w w'. exact (tfor_elements x hv b l H n 0 w w'). Qed.

(* non-vacuity: a program with every construct, spelled with aliases and full names *)
Open Scope N_scope.
Definition s_c : str := [99].
Definition ex_block : block :=
  BCons (SCmd (PArr [104] [[112]; [113]]))
  (BCons (SIf gen_if_name (CNext s_c) (BCons (SCmd (PEmit [97] [])) BNil)
              (EElseIf gen_elseif_name (CNext s_c)
                 (BCons (SWhile gen_while_name (CNext s_c) (BCons (SCmd (PEmit [119] [s_c])) BNil) gen_end_name) BNil)
                 (EElse gen_else_name (BCons (SCmd (PEmit [100] [])) BNil)))
              gen_endif_name)
  (BCons (SFor gen_for_name [118] [104] (BCons (SCmd (PEmit [102] [[118]])) BNil) gen_end_name) BNil)).
Definition ex_world : world := mkW [(s_c, [70; 84; 84; 84; 70])] [] [] 0.
Lemma ex_nonvacuous :
  wfb_b ex_block = true /\
  exists w', tree_run 50%nat ex_block ex_world = TOk w' /\
             length (w_trace w') = 4%nat /\
             exists f', run_program 100%nat (compile ex_block) ex_world = Done (w', f').
Proof. split; [vm_compute; reflexivity|]. eexists. split; [vm_compute; reflexivity|]. split; [reflexivity|]. eexists. vm_compute. reflexivity. Qed.
