(* CollectionsJoin.v — hand translation of collections/array_join/script.ds (DEFINITIONS ONLY):

     if not is_array ${scope::array_join::argument::1}
         trigger_error "Invalid input, non array handle or array not found."
     end
     if not array_is_empty ${scope::array_join::argument::1}
         for scope::array_join::item in ${scope::array_join::argument::1}
             scope::array_join::string = set "${scope::array_join::string}${scope::array_join::item}${scope::array_join::argument::2}"
         end
         if not is_empty ${scope::array_join::argument::2}
             scope::array_join::separatorlen = strlen ${scope::array_join::argument::2}
             scope::array_join::stringlen = strlen ${scope::array_join::string}
             scope::array_join::offset = calc ${scope::array_join::stringlen} - ${scope::array_join::separatorlen}
             scope::array_join::string = substring ${scope::array_join::string} 0 ${scope::array_join::offset}
         end
     end
     set ${scope::array_join::string}

   It reuses the models of other properties, unchanged:
     C09  EvalSer.eval_call      what `if` and `not` do with already-bound arguments: eval::parse
                                 re-serialises them to a line, the line is parsed again and bound
                                 again.  `if not <cmd> <arg>` does this twice (once in `if`, once
                                 in `not`): [rebound].  Everything that is not a clean re-binding to
                                 the expected command is OUTSIDE this translation ([None]).
     C16  Strings.cmd_length     strlen: the UTF-8 byte length, printed in decimal
          Strings.cmd_calc_expr  calc on an integer expression (checked i64, exact up to 2^53);
                                 assumed: evalexpr reads a run of decimal digits as that integer
                                 literal and `a - b` as a subtraction ([calc_sub])
          Strings.cmd_substring  substring <text> <start> <end> in byte offsets; the three-argument
                                 form rejects end > len - 1 and offsets inside a character
   A quoted argument made of expansions only ("${a}${b}${c}") is bound in one pass to the
   concatenation of the values (C02); `set x` returns x, also when x is empty; an undefined
   variable expands to the empty string.  The loop body does not touch the handle table, so the
   for-in loop re-reads the same list at every test ([aj_loop], as in CollectionsScripts.v). *)
From stdpp Require Import gmap list.
From Coq Require Import NArith ZArith.
Require Import DS.Collections DS.CollectionsScripts.
Require DS.Base DS.Utf8 DS.Strings DS.Expansion DS.EvalSer.

Definition t_not : str := [110; 111; 116]%N.
Definition t_is_array : str := [105; 115; 95; 97; 114; 114; 97; 121]%N.
Definition t_array_is_empty : str :=
  [97; 114; 114; 97; 121; 95; 105; 115; 95; 101; 109; 112; 116; 121]%N.
Definition t_is_empty : str := [105; 115; 95; 101; 109; 112; 116; 121]%N.

(* `if not <cmd> <arg>`: the arguments <cmd> receives after the two re-serialisations, when both
   re-bind cleanly (no label, no output variable, the expected command word) *)
Definition rebound (e : DS.Expansion.env) (cmd arg : str) : option (list str) :=
  match DS.EvalSer.eval_call e [t_not; cmd; arg] with
  | DS.EvalSer.Call None None c1 args1 =>
    if str_eqb c1 t_not then
      match DS.EvalSer.eval_call e args1 with
      | DS.EvalSer.Call None None c2 args2 => if str_eqb c2 cmd then Some args2 else None
      | _ => None
      end
    else None
  | _ => None
  end.

(* std/string/is_empty/mod.rs *)
Definition cmd_is_empty (args : list str) : bool :=
  match args with [] => true | x :: _ => bool_decide (x = []) end.

(* calc <a> - <b> for two digit strings *)
Definition calc_sub (a b : str) : DS.Strings.result :=
  match DS.Strings.digits_val a, DS.Strings.digits_val b with
  | Some x, Some y =>
    DS.Strings.cmd_calc_expr (DS.Strings.EBin 1%N (DS.Strings.ELit x) (DS.Strings.ELit y))
  | _, _ => DS.Strings.ROod
  end.

(* the for-in loop: string = set "${string}${item}${separator}" *)
Fixpoint aj_loop (fuel : nat) (a1 sep : str) (it : nat) (string : str) (s : mstate) : outcome str :=
  match fuel with
  | O => Fuel
  | S f =>
    match next_iteration it a1 (hs s) with
    | None => Done string
    | Some item => aj_loop f a1 sep (S it) (string ++ item ++ sep) s
    end
  end.
Definition aj_fuel (s : mstate) (h : str) : nat :=
  match hs s !! h with Some (HList l) => S (length l) | _ => 1 end.

(* the trimming block; [None]: a command of the block reports an error, panics, or is outside the
   domain of its model (theorem: not so when the loop ran at least once and the text is < 2^53 bytes) *)
Definition aj_trim (string sep : str) : option str :=
  match DS.Strings.cmd_length [sep], DS.Strings.cmd_length [string] with
  | DS.Strings.RVal separatorlen, DS.Strings.RVal stringlen =>
    match calc_sub stringlen separatorlen with
    | DS.Strings.RVal offset =>
      match DS.Strings.cmd_substring [string; [48%N]; offset] with
      | DS.Strings.RVal r => Some r
      | _ => None
      end
    | _ => None
    end
  | _, _ => None
  end.

(* [None]: outside the translation (an argument that does not survive re-serialisation in a way
   the translation follows, or a failing command in the trimming block) *)
Definition script_array_join (e : DS.Expansion.env) (args : list str) (s : mstate)
    : option (outcome (cres * mstate)) :=
  match args with
  | a1 :: a2 :: _ =>
    match rebound e t_is_array a1 with
    | None => None
    | Some r1 =>
      match cmd_is_array r1 s with
      | Done (Cont (Some t), _) =>
        if str_eqb t s_true then
          match rebound e t_array_is_empty a1 with
          | None => None
          | Some r2 =>
            match script_array_is_empty r2 s with
            | Done (Cont (Some t2), _) =>
              if str_eqb t2 s_true then Some (Done (Cont (Some []), s))    (* `set ${string}`, undefined *)
              else
                match aj_loop (aj_fuel s a1) a1 a2 0 [] s with
                | Done string =>
                  match rebound e t_is_empty a2 with
                  | None => None
                  | Some r3 =>
                    if cmd_is_empty r3 then Some (Done (Cont (Some string), s))
                    else match aj_trim string a2 with
                         | Some r => Some (Done (Cont (Some r), s))
                         | None => None
                         end
                  end
                | Panic => Some Panic
                | Fuel => Some Fuel
                end
            | Done (Cont None, _) => None
            | Done (Error k, _) => Some (Done (Error k, s))
            | Panic => Some Panic
            | Fuel => Some Fuel
            end
          end
        else Some (Done (Error ETrigger, s))
      | Done (Cont None, _) => None
      | Done (Error k, _) => Some (Done (Error k, s))
      | Panic => Some Panic
      | Fuel => Some Fuel
      end
    end
  | _ => Some (Done (Error EArgs, s))
  end.

(* the arguments on which the translation is claimed: none of the classes of C09's finding F7 *)
Definition ok_arg (a : str) : bool :=
  DS.EvalSer.safe a && negb (DS.EvalSer.cls_E a) && negb (DS.EvalSer.cls_W a).
(* the text the loop builds: every item followed by the separator *)
Definition with_trailing (sep : str) (items : list str) : str :=
  concat ((fun x => x ++ sep) <$> items).
