(* ExpansionIx.v — index-faithful model of duckscript/src/expansion.rs::expand_by_wrapper and of
   runner.rs::bind_command_arguments, with an explicit Panic outcome.  Definitions only; proofs
   are in ExpansionIxProof.v.

   What can unwind in the Rust code.  expand_by_wrapper itself has NO partial operation: the loop
   is `for next_char in value.chars()` (an iterator, no byte or char indexing, no `value[a..b]`
   slice), the buffers are only pushed to / cleared / tested for emptiness, `variables.get` is a
   total lookup, and `prefix_index` is only ever assigned 0 or 1 and compared with 0 and 1 (no
   arithmetic).  So the scan is the same fold as in DS.Expansion ([xscan], [xfinish]).  The index
   arithmetic sits in the call
       parser::reparse_arguments(meta_info, &chars, 0)
   made for a spread value: `line_text[index]`, `index -= 1`, `for _i in index..end_index`.  Here
   that call is the index-faithful DS.ParserIx.parse_arguments_with (vector + usize indices,
   [IPanic] on an out-of-bounds index or a usize underflow) with the re-parse flags, start index 0. *)
Require Import DS.Base DS.Parser DS.ParserIx DS.Expansion.

Inductive xres := XOk (e : expanded) | XPanic.
Inductive bres := BOk (l : list str) | BPanic.

Definition reparse_arguments_ix (line_text : str) (start_index : nat) : ires (option (list str)) :=
  ParserIx.parse_arguments_with fl_rearg line_text start_index.

Definition spread_of_ix (value_string : str) : xres :=
  match value_string with
  | [] => XOk (Multi [])
  | _ => match reparse_arguments_ix value_string 0 with
         | IOk (Some values) => XOk (Multi values)
         | IOk None => XOk (Multi [])
         | IErr _ => XOk ENone
         | IPanic => XPanic
         end
  end.

Definition expand_by_wrapper_ix (value : str) (variables : env) : xres :=
  let '(value_string, single_type) := xfinish (xscan variables value) in
  if single_type then
    match value_string with [] => XOk ENone | _ => XOk (Single value_string) end
  else spread_of_ix value_string.

Fixpoint bind_args_ix (variables : env) (arguments : list str) : bres :=
  match arguments with
  | [] => BOk []
  | argument :: rest =>
    match expand_by_wrapper_ix argument variables with
    | XPanic => BPanic
    | XOk e =>
      match bind_args_ix variables rest with
      | BPanic => BPanic
      | BOk l => BOk (bound_of e ++ l)
      end
    end
  end.

Definition bind_command_arguments_ix (variables : env) (arguments : option (list str)) : bres :=
  match arguments with
  | Some l => bind_args_ix variables l
  | None => BOk []
  end.
