(* CollectionsScripts.v — hand translation of the four LOOP-FREE script-implemented collection
   commands into compositions of the native command models (Collections.v), as the alias-command
   wrapper (duckscript_sdk/src/types/command.rs AliasCommand::run) runs their script.ds:

     wrapper            fewer than `arguments_amount` arguments: Error "Invalid arguments provided."
                        scope::<name>::argument::<i> holds the i-th argument (verbatim)
                        an Error result of a command inside the script ends the script with it
     array_is_empty     scope::..::length = array_length ${scope::..::argument::1}
                        equals 0 ${scope::..::length}
     map_is_empty       ... map_size ...          set_is_empty   ... set_size ...
     map_contains_key   scope::..::value = map_get ${..argument::1} ${..argument::2}
                        is_defined scope::..::value
   An output variable assigned `None` is removed, so `${var}` then expands to the empty string and
   `is_defined var` is false.  `equals a b` is string equality (std/string/equals/mod.rs).
   DEFINITIONS ONLY.  The five scripts with for-in loops (array_contains, array_concat, array_join,
   set_from_array, map_contains_value) are not translated: correspondence run only. *)
From stdpp Require Import gmap list.
From Coq Require Import NArith ZArith.
Require Import DS.Collections.

Definition s_zero : str := [48%N].

(* `v = <command>` followed by `equals 0 ${v}` *)
Definition then_equals_zero (o : outcome (cres * mstate)) : outcome (cres * mstate) :=
  match o with
  | Done (Cont v, s') => Done (Cont (Some (bool_str (str_eqb s_zero (default [] v)))), s')
  | other => other
  end.
(* `v = <command>` followed by `is_defined v` *)
Definition then_is_defined (o : outcome (cres * mstate)) : outcome (cres * mstate) :=
  match o with
  | Done (Cont v, s') => Done (Cont (Some (bool_str (bool_decide (is_Some v)))), s')
  | other => other
  end.

Definition script_array_is_empty (args : list str) (s : mstate) : outcome (cres * mstate) :=
  match args with
  | [] => Done (Error EArgs, s)
  | a1 :: _ => then_equals_zero (cmd_array_length [a1] s)
  end.
Definition script_map_is_empty (args : list str) (s : mstate) : outcome (cres * mstate) :=
  match args with
  | [] => Done (Error EArgs, s)
  | a1 :: _ => then_equals_zero (cmd_map_size [a1] s)
  end.
Definition script_set_is_empty (args : list str) (s : mstate) : outcome (cres * mstate) :=
  match args with
  | [] => Done (Error EArgs, s)
  | a1 :: _ => then_equals_zero (cmd_set_size [a1] s)
  end.
Definition script_map_contains_key (args : list str) (s : mstate) : outcome (cres * mstate) :=
  match args with
  | a1 :: a2 :: _ => then_is_defined (cmd_map_get [a1; a2] s)
  | _ => Done (Error EArgs, s)
  end.

Definition step_script (c : cmd) (args : list str) (s : mstate) : option (outcome (cres * mstate)) :=
  match c with
  | CArrayIsEmpty => Some (script_array_is_empty args s)
  | CMapIsEmpty => Some (script_map_is_empty args s)
  | CSetIsEmpty => Some (script_set_is_empty args s)
  | CMapContainsKey => Some (script_map_contains_key args s)
  | _ => None
  end.
Definition loop_free_script (c : cmd) : bool :=
  match c with CArrayIsEmpty | CMapIsEmpty | CSetIsEmpty | CMapContainsKey => true | _ => false end.
