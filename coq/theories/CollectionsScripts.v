(* CollectionsScripts.v — hand translation of the four LOOP-FREE script-implemented collection
   commands, and of array_contains, set_from_array, array_concat and map_contains_value (for-in
   loops), into compositions of the native command models (Collections.v), as the alias-command
   wrapper (duckscript_sdk/src/types/command.rs AliasCommand::run) runs their script.ds:

     wrapper            fewer than `arguments_amount` arguments: Error "Invalid arguments provided."
                        scope::<name>::argument::<i> holds the i-th argument (verbatim)
                        an Error result of a command inside the script ends the script with it
     array_is_empty     scope::..::length = array_length ${scope::..::argument::1}
                        equals 0 ${scope::..::length}
     map_is_empty       ... map_size ...          set_is_empty   ... set_size ...
     map_contains_key   scope::..::value = map_get ${..argument::1} ${..argument::2}
                        is_defined scope::..::value
   An output variable assigned `None` is removed, so `${var}` then expands to the empty string and
   `is_defined var` is false.  `equals a b` is string equality (std/string/equals/mod.rs).
   DEFINITIONS ONLY.  array_join (string building, strlen / calc / substring) is not
   translated: correspondence run only. *)
From stdpp Require Import gmap list.
From Coq Require Import NArith ZArith.
Require Import DS.Collections.

Definition s_zero : str := [48%N].

(* `v = <command>` followed by `equals 0 ${v}` *)
Definition then_equals_zero (o : outcome (cres * mstate)) : outcome (cres * mstate) :=
  match o with
  | Done (Cont v, s') => Done (Cont (Some (bool_str (str_eqb s_zero (default [] v)))), s')
  | other => other
  end.
(* `v = <command>` followed by `is_defined v` *)
Definition then_is_defined (o : outcome (cres * mstate)) : outcome (cres * mstate) :=
  match o with
  | Done (Cont v, s') => Done (Cont (Some (bool_str (bool_decide (is_Some v)))), s')
  | other => other
  end.

Definition script_array_is_empty (args : list str) (s : mstate) : outcome (cres * mstate) :=
  match args with
  | [] => Done (Error EArgs, s)
  | a1 :: _ => then_equals_zero (cmd_array_length [a1] s)
  end.
Definition script_map_is_empty (args : list str) (s : mstate) : outcome (cres * mstate) :=
  match args with
  | [] => Done (Error EArgs, s)
  | a1 :: _ => then_equals_zero (cmd_map_size [a1] s)
  end.
Definition script_set_is_empty (args : list str) (s : mstate) : outcome (cres * mstate) :=
  match args with
  | [] => Done (Error EArgs, s)
  | a1 :: _ => then_equals_zero (cmd_set_size [a1] s)
  end.
Definition script_map_contains_key (args : list str) (s : mstate) : outcome (cres * mstate) :=
  match args with
  | a1 :: a2 :: _ => then_is_defined (cmd_map_get [a1; a2] s)
  | _ => Done (Error EArgs, s)
  end.

(* ---- a script with a for-in loop: array_contains ------------------------------------------------
     scope::..::index = set false
     scope::..::value = set ${scope::..::argument::2}
     scope::..::counter = set 0
     for scope::..::next_value in ${scope::..::argument::1}
         scope::..::found = equals ${scope::..::next_value} ${scope::..::value}
         if ${scope::..::found}
             scope::..::index = set ${scope::..::counter}
             scope::..::argument::1 = set            # unset: the next `for` test sees the handle ""
         end
         scope::..::counter = calc ${scope::..::counter} + 1
     end
     set ${scope::..::index}
   for-in (flowcontrol/forin/mod.rs): every test expands the handle variable again and asks
   get_next_iteration(iteration, handle, state) = the iteration-th item of the live list as text. *)
Definition next_iteration (it : nat) (h : str) (st : store) : option str :=
  match st !! h with
  | Some (HList l) => elem_str <$> l !! it
  | _ => None
  end.
Record ac_vars := AC { ac_index : str; ac_arg1 : str; ac_counter : nat }.
Fixpoint ac_loop (fuel : nat) (value : str) (it : nat) (v : ac_vars) (s : mstate) : outcome ac_vars :=
  match fuel with
  | O => Fuel
  | S f =>
    match next_iteration it (ac_arg1 v) (hs s) with
    | None => Done v
    | Some next_value =>
      let found := str_eqb next_value value in
      let v1 := if found then AC (dec_nat (ac_counter v)) [] (ac_counter v) else v in
      ac_loop f value (S it) (AC (ac_index v1) (ac_arg1 v1) (S (ac_counter v1))) s
    end
  end.
(* enough fuel unless the empty string names a live list (excluded in the theorem) *)
Definition ac_fuel (s : mstate) (h : str) : nat :=
  match hs s !! h with Some (HList l) => S (S (length l)) | _ => 1 end.
Definition script_array_contains (args : list str) (s : mstate) : outcome (cres * mstate) :=
  match args with
  | a1 :: a2 :: _ =>
    match ac_loop (ac_fuel s a1) a2 0 (AC s_false a1 0) s with
    | Done v => Done (Cont (Some (ac_index v)), s)
    | Panic => Panic
    | Fuel => Fuel
    end
  | _ => Done (Error EArgs, s)
  end.

(* ---- set_from_array -------------------------------------------------------------------------------
     if not is_array ${scope::..::argument::1}
         trigger_error "Invalid input, non array handle or array not found."
     end
     scope::..::set = set_new
     for scope::..::next_value in ${scope::..::argument::1}
         set_put ${scope::..::set} ${scope::..::next_value}
     end
     set ${scope::..::set}
   (the argument is assumed to reach is_array verbatim: not so for the F7 classes, see C09) *)
Section SetFromArray.
Variable rnd : nat -> handle.
Fixpoint sfa_loop (fuel : nat) (a1 key : str) (it : nat) (s : mstate) : outcome (option ekind * mstate) :=
  match fuel with
  | O => Fuel
  | S f =>
    match next_iteration it a1 (hs s) with
    | None => Done (None, s)
    | Some next_value =>
      match cmd_set_put [key; next_value] s with
      | Done (Cont _, s') => sfa_loop f a1 key (S it) s'
      | Done (Error e, s') => Done (Some e, s')
      | Panic => Panic
      | Fuel => Fuel
      end
    end
  end.
Definition script_set_from_array (args : list str) (s : mstate) : outcome (cres * mstate) :=
  match args with
  | [] => Done (Error EArgs, s)
  | a1 :: _ =>
    match cmd_is_array [a1] s with
    | Done (Cont (Some t), _) =>
      if str_eqb t s_true then
        match cmd_set_new rnd [] s with
        | Done (Cont (Some key), s1) =>
          match sfa_loop (S (S (match hs s !! a1 with Some (HList l) => length l | _ => 0 end)))
                         a1 key 0 s1 with
          | Done (None, s2) => Done (Cont (Some key), s2)
          | Done (Some e, s2) => Done (Error e, s2)
          | Panic => Panic
          | Fuel => Fuel
          end
        | other => other
        end
      else Done (Error ETrigger, s)
    | Done (_, _) => Done (Error ETrigger, s)
    | Panic => Panic
    | Fuel => Fuel
    end
  end.
End SetFromArray.

(* ---- array_concat (as the code behaves: the validation loop starts at the index a failed earlier
        call left behind, see CollectionsSpec.concat_asis / finding F6) ----------------------------
     for scope::..::arg in ${scope::..::arguments}
         if not is_array ${scope::..::arg}
             trigger_error "Invalid input, non array handle or array not found."
         end
     end
     scope::..::array = array
     for scope::..::arg in ${scope::..::arguments}
         for scope::..::item in ${scope::..::arg}
             array_push ${scope::..::array} ${scope::..::item}
         end
     end
     set ${scope::..::array}
   The loop over the argument array (a temporary list the wrapper builds) is a recursion over the
   argument list. *)
Section ArrayConcat.
Variable rnd : nat -> handle.
(* first loop: `if not is_array ${arg}` / trigger_error, resumed at [i] (see concat_asis) *)
Fixpoint cc_validate (args : list str) (i : nat) (s : mstate) : option nat :=
  match args with
  | [] => None
  | a :: r =>
    match cmd_is_array [a] s with
    | Done (Cont (Some t), _) => if str_eqb t s_true then cc_validate r (S i) s else Some i
    | _ => Some i
    end
  end.
(* `for item in ${arg}` / `array_push ${array} ${item}` *)
Fixpoint cc_items (fuel : nat) (arg key : str) (it : nat) (s : mstate) : outcome (option ekind * mstate) :=
  match fuel with
  | O => Fuel
  | S f =>
    match next_iteration it arg (hs s) with
    | None => Done (None, s)
    | Some item =>
      match cmd_array_push [key; item] s with
      | Done (Cont _, s') => cc_items f arg key (S it) s'
      | Done (Error e, s') => Done (Some e, s')
      | Panic => Panic
      | Fuel => Fuel
      end
    end
  end.
Definition cc_fuel (s : mstate) (a : str) : nat :=
  match hs s !! a with Some (HList l) => S (S (length l)) | _ => 1 end.
(* `for arg in ${arguments}` *)
Fixpoint cc_args (args : list str) (key : str) (s : mstate) : outcome (option ekind * mstate) :=
  match args with
  | [] => Done (None, s)
  | a :: r =>
    match cc_items (cc_fuel s a) a key 0 s with
    | Done (None, s') => cc_args r key s'
    | other => other
    end
  end.
Definition script_array_concat (args : list str) (s : mstate) : outcome (cres * mstate) :=
  let start := default 0%nat (stale s) in
  match cc_validate (drop start args) start s with
  | Some j => Done (Error ETrigger, MS (hs s) (draws s) (Some (S j)))
  | None =>
    match cmd_array rnd [] (MS (hs s) (draws s) None) with
    | Done (Cont (Some key), s1) =>
      match cc_args args key s1 with
      | Done (None, s2) => Done (Cont (Some key), s2)
      | Done (Some e, s2) => Done (Error e, s2)
      | Panic => Panic
      | Fuel => Fuel
      end
    | other => other
    end
  end.
End ArrayConcat.


(* ---- map_contains_value ---------------------------------------------------------------------------
     scope::..::found = set false
     scope::..::not_empty = not map_is_empty ${scope::..::argument::1}
     if ${scope::..::not_empty}
         scope::..::value = set ${scope::..::argument::2}
         scope::..::key_array_handle = map_keys ${scope::..::argument::1}
         for scope::..::item in ${scope::..::key_array_handle}
             scope::..::next_value = map_get ${scope::..::argument::1} ${scope::..::item}
             scope::..::found = equals ${scope::..::next_value} ${scope::..::value}
             if ${scope::..::found}
                 release ${scope::..::key_array_handle}
             end
         end
     end
     release ${scope::..::key_array_handle}
     set ${scope::..::found}
   The key array is a temporary collection: it takes one draw of the key oracle and is released
   before the command returns. *)
Section MapContainsValue.
Variable rnd : nat -> handle.
Variable ord : nat -> list str -> list str.
Fixpoint mcv_loop (fuel : nat) (a1 karr value : str) (it : nat) (found : bool) (s : mstate)
    : outcome (option ekind * bool * mstate) :=
  match fuel with
  | O => Fuel
  | S f =>
    match next_iteration it karr (hs s) with
    | None => Done (None, found, s)
    | Some item =>
      match cmd_map_get [a1; item] s with                       (* next_value = map_get ${map} ${item} *)
      | Done (Cont nv, s1) =>
        let found' := str_eqb (default [] nv) value in            (* found = equals ${next_value} ${value} *)
        if found' then
          match cmd_release [karr] s1 with                         (* if ${found} / release ${key_array_handle} *)
          | Done (_, s2) => mcv_loop f a1 karr value (S it) found' s2
          | Panic => Panic
          | Fuel => Fuel
          end
        else mcv_loop f a1 karr value (S it) found' s1
      | Done (Error e, s1) => Done (Some e, found, s1)
      | Panic => Panic
      | Fuel => Fuel
      end
    end
  end.
Definition script_map_contains_value (args : list str) (s : mstate) : outcome (cres * mstate) :=
  match args with
  | a1 :: a2 :: _ =>
    match script_map_is_empty [a1] s with                        (* not_empty = not map_is_empty ${map} *)
    | Done (Cont (Some t), s0) =>
      if str_eqb t s_true then
        (* the key array variable is undefined: `release ${key_array_handle}` is `release ""` *)
        match cmd_release [[]] s0 with
        | Done (_, s1) => Done (Cont (Some s_false), s1)
        | Panic => Panic
        | Fuel => Fuel
        end
      else
        match cmd_map_keys rnd ord [a1] s0 with
        | Done (Cont (Some karr), s1) =>
          let n := match hs s1 !! karr with Some (HList l) => length l | _ => 0%nat end in
          match mcv_loop (S (S n)) a1 karr a2 0 false s1 with
          | Done (None, found, s2) =>
            match cmd_release [karr] s2 with
            | Done (_, s3) => Done (Cont (Some (bool_str found)), s3)
            | Panic => Panic
            | Fuel => Fuel
            end
          | Done (Some e, _, s2) => Done (Error e, s2)
          | Panic => Panic
          | Fuel => Fuel
          end
        | Done (Cont None, s1) => Done (Error EArgs, s1)          (* cannot happen *)
        | Done (Error e, s1) => Done (Error e, s1)
        | Panic => Panic
        | Fuel => Fuel
        end
    | Done (Cont None, s0) => Done (Error EArgs, s0)              (* cannot happen *)
    | Done (Error e, s0) => Done (Error e, s0)
    | Panic => Panic
    | Fuel => Fuel
    end
  | _ => Done (Error EArgs, s)
  end.
End MapContainsValue.


Definition step_script (rnd : nat -> handle) (ord : nat -> list str -> list str) (c : cmd)
    (args : list str) (s : mstate) : option (outcome (cres * mstate)) :=
  match c with
  | CSetFromArray => Some (script_set_from_array rnd args s)
  | CArrayConcat => Some (script_array_concat rnd args s)
  | CMapContainsValue => Some (script_map_contains_value rnd ord args s)
  | CArrayIsEmpty => Some (script_array_is_empty args s)
  | CMapIsEmpty => Some (script_map_is_empty args s)
  | CSetIsEmpty => Some (script_set_is_empty args s)
  | CMapContainsKey => Some (script_map_contains_key args s)
  | CArrayContains => Some (script_array_contains args s)
  | _ => None
  end.
Definition loop_free_script (c : cmd) : bool :=
  match c with CArrayIsEmpty | CMapIsEmpty | CSetIsEmpty | CMapContainsKey => true | _ => false end.
Definition translated_script (c : cmd) : bool :=
  match c with
  | CArrayContains | CSetFromArray | CArrayConcat | CMapContainsValue => true
  | _ => loop_free_script c
  end.
