(* CollectionsScripts.v — hand translation of the four LOOP-FREE script-implemented collection
   commands, and of array_contains and set_from_array (one for-in loop each), into compositions of the native command models (Collections.v), as the alias-command
   wrapper (duckscript_sdk/src/types/command.rs AliasCommand::run) runs their script.ds:

     wrapper            fewer than `arguments_amount` arguments: Error "Invalid arguments provided."
                        scope::<name>::argument::<i> holds the i-th argument (verbatim)
                        an Error result of a command inside the script ends the script with it
     array_is_empty     scope::..::length = array_length ${scope::..::argument::1}
                        equals 0 ${scope::..::length}
     map_is_empty       ... map_size ...          set_is_empty   ... set_size ...
     map_contains_key   scope::..::value = map_get ${..argument::1} ${..argument::2}
                        is_defined scope::..::value
   An output variable assigned `None` is removed, so `${var}` then expands to the empty string and
   `is_defined var` is false.  `equals a b` is string equality (std/string/equals/mod.rs).
   DEFINITIONS ONLY.  The three other scripts with for-in loops (array_concat, array_join,
   map_contains_value) are not translated: correspondence run only. *)
From stdpp Require Import gmap list.
From Coq Require Import NArith ZArith.
Require Import DS.Collections.

Definition s_zero : str := [48%N].

(* `v = <command>` followed by `equals 0 ${v}` *)
Definition then_equals_zero (o : outcome (cres * mstate)) : outcome (cres * mstate) :=
  match o with
  | Done (Cont v, s') => Done (Cont (Some (bool_str (str_eqb s_zero (default [] v)))), s')
  | other => other
  end.
(* `v = <command>` followed by `is_defined v` *)
Definition then_is_defined (o : outcome (cres * mstate)) : outcome (cres * mstate) :=
  match o with
  | Done (Cont v, s') => Done (Cont (Some (bool_str (bool_decide (is_Some v)))), s')
  | other => other
  end.

Definition script_array_is_empty (args : list str) (s : mstate) : outcome (cres * mstate) :=
  match args with
  | [] => Done (Error EArgs, s)
  | a1 :: _ => then_equals_zero (cmd_array_length [a1] s)
  end.
Definition script_map_is_empty (args : list str) (s : mstate) : outcome (cres * mstate) :=
  match args with
  | [] => Done (Error EArgs, s)
  | a1 :: _ => then_equals_zero (cmd_map_size [a1] s)
  end.
Definition script_set_is_empty (args : list str) (s : mstate) : outcome (cres * mstate) :=
  match args with
  | [] => Done (Error EArgs, s)
  | a1 :: _ => then_equals_zero (cmd_set_size [a1] s)
  end.
Definition script_map_contains_key (args : list str) (s : mstate) : outcome (cres * mstate) :=
  match args with
  | a1 :: a2 :: _ => then_is_defined (cmd_map_get [a1; a2] s)
  | _ => Done (Error EArgs, s)
  end.

(* ---- a script with a for-in loop: array_contains ------------------------------------------------
     scope::..::index = set false
     scope::..::value = set ${scope::..::argument::2}
     scope::..::counter = set 0
     for scope::..::next_value in ${scope::..::argument::1}
         scope::..::found = equals ${scope::..::next_value} ${scope::..::value}
         if ${scope::..::found}
             scope::..::index = set ${scope::..::counter}
             scope::..::argument::1 = set            # unset: the next `for` test sees the handle ""
         end
         scope::..::counter = calc ${scope::..::counter} + 1
     end
     set ${scope::..::index}
   for-in (flowcontrol/forin/mod.rs): every test expands the handle variable again and asks
   get_next_iteration(iteration, handle, state) = the iteration-th item of the live list as text. *)
Definition next_iteration (it : nat) (h : str) (st : store) : option str :=
  match st !! h with
  | Some (HList l) => elem_str <$> l !! it
  | _ => None
  end.
Record ac_vars := AC { ac_index : str; ac_arg1 : str; ac_counter : nat }.
Fixpoint ac_loop (fuel : nat) (value : str) (it : nat) (v : ac_vars) (s : mstate) : outcome ac_vars :=
  match fuel with
  | O => Fuel
  | S f =>
    match next_iteration it (ac_arg1 v) (hs s) with
    | None => Done v
    | Some next_value =>
      let found := str_eqb next_value value in
      let v1 := if found then AC (dec_nat (ac_counter v)) [] (ac_counter v) else v in
      ac_loop f value (S it) (AC (ac_index v1) (ac_arg1 v1) (S (ac_counter v1))) s
    end
  end.
(* enough fuel unless the empty string names a live list (excluded in the theorem) *)
Definition ac_fuel (s : mstate) (h : str) : nat :=
  match hs s !! h with Some (HList l) => S (S (length l)) | _ => 1 end.
Definition script_array_contains (args : list str) (s : mstate) : outcome (cres * mstate) :=
  match args with
  | a1 :: a2 :: _ =>
    match ac_loop (ac_fuel s a1) a2 0 (AC s_false a1 0) s with
    | Done v => Done (Cont (Some (ac_index v)), s)
    | Panic => Panic
    | Fuel => Fuel
    end
  | _ => Done (Error EArgs, s)
  end.

(* ---- set_from_array -------------------------------------------------------------------------------
     if not is_array ${scope::..::argument::1}
         trigger_error "Invalid input, non array handle or array not found."
     end
     scope::..::set = set_new
     for scope::..::next_value in ${scope::..::argument::1}
         set_put ${scope::..::set} ${scope::..::next_value}
     end
     set ${scope::..::set}
   (the argument is assumed to reach is_array verbatim: not so for the F7 classes, see C09) *)
Section SetFromArray.
Variable rnd : nat -> handle.
Fixpoint sfa_loop (fuel : nat) (a1 key : str) (it : nat) (s : mstate) : outcome (option ekind * mstate) :=
  match fuel with
  | O => Fuel
  | S f =>
    match next_iteration it a1 (hs s) with
    | None => Done (None, s)
    | Some next_value =>
      match cmd_set_put [key; next_value] s with
      | Done (Cont _, s') => sfa_loop f a1 key (S it) s'
      | Done (Error e, s') => Done (Some e, s')
      | Panic => Panic
      | Fuel => Fuel
      end
    end
  end.
Definition script_set_from_array (args : list str) (s : mstate) : outcome (cres * mstate) :=
  match args with
  | [] => Done (Error EArgs, s)
  | a1 :: _ =>
    match cmd_is_array [a1] s with
    | Done (Cont (Some t), _) =>
      if str_eqb t s_true then
        match cmd_set_new rnd [] s with
        | Done (Cont (Some key), s1) =>
          match sfa_loop (S (S (match hs s !! a1 with Some (HList l) => length l | _ => 0 end)))
                         a1 key 0 s1 with
          | Done (None, s2) => Done (Cont (Some key), s2)
          | Done (Some e, s2) => Done (Error e, s2)
          | Panic => Panic
          | Fuel => Fuel
          end
        | other => other
        end
      else Done (Error ETrigger, s)
    | Done (_, _) => Done (Error ETrigger, s)
    | Panic => Panic
    | Fuel => Fuel
    end
  end.
End SetFromArray.

Definition step_script (rnd : nat -> handle) (c : cmd) (args : list str) (s : mstate)
    : option (outcome (cres * mstate)) :=
  match c with
  | CSetFromArray => Some (script_set_from_array rnd args s)
  | CArrayIsEmpty => Some (script_array_is_empty args s)
  | CMapIsEmpty => Some (script_map_is_empty args s)
  | CSetIsEmpty => Some (script_set_is_empty args s)
  | CMapContainsKey => Some (script_map_contains_key args s)
  | CArrayContains => Some (script_array_contains args s)
  | _ => None
  end.
Definition loop_free_script (c : cmd) : bool :=
  match c with CArrayIsEmpty | CMapIsEmpty | CSetIsEmpty | CMapContainsKey => true | _ => false end.
Definition translated_script (c : cmd) : bool :=
  match c with CArrayContains | CSetFromArray => true | _ => loop_free_script c end.
