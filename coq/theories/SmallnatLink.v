(* SmallnatLink.v — where the command-level functions of SmallnatGenTie.v (goto_cmd, noop_cmd, eval_cmd: defined there because
   the models take commands as a parameter / fold them into another layer) meet the models the property theorems are about:

     Runner.v (C03): in a command table in which `name` IS goto (its result is goto_cmd of the arguments it receives, the world
       is untouched), the loop body of run_instructions at an instruction `name :l` jumps to the line the label table has
       for l — the table C03_labels is about — with the output variable cleared, and stops with the "label not found" error
       otherwise (goto_exec); the label lookup is the runner's.  noop continues with the output variable cleared (noop_exec).
     EvalSer.v (C09): with utils::eval::parse instantiated by the model EvalSerIx.eval_parse_ix (tie "eval":
       Src_eval_parse_ix), the instruction eval_cmd hands to run_instruction — at line 0 — is the one EvalSer.eval_parse
       gives, i.e. the one whose command word and (re-bound) arguments EvalSer.eval_call describes (C09_roundtrip). *)
From stdpp Require Import gmap.
Require Import DS.Base DS.Runner DS.Parser DS.Expansion DS.EvalSer DS.EvalSerIx DS.EvalSerIxProof.
Require Import DS.SmallnatGenLib DS.SmallnatGenTie.
Local Open Scope nat_scope.

Section RunnerLink.
Variable cstate : Type.
Variable exists_cmd : cstate -> str -> bool.
Variable cmd : str -> Runner.inv -> Runner.world cstate -> Runner.result * Runner.world cstate.
Variable msg : N -> str.       (* the message texts behind the error codes: any *)

Definition to_goto (g : sgoto) : Runner.goto := match g with SLabel l => Runner.GLabel l | SLine n => Runner.GLine n end.
Definition to_result (r : sres) : option Runner.result :=
  match r with
  | SContinue o => Some (Runner.Continue o)
  | SGoto o g => Some (Runner.GoTo o (to_goto g))
  | SError c => Some (Runner.Error (msg c))
  | SCrash c => Some (Runner.Crash (Runner.Msg (msg c)))
  | SExit o => Some (Runner.Exit o)
  | SPanic => None
  end.

(* a command table in which [name] is a state-less command computing [f] from its arguments *)
Definition is_pure_cmd (name : str) (f : list str -> sres) : Prop :=
  forall a w, Some (fst (cmd name a w)) = to_result (f (Runner.a_args a)) /\ snd (cmd name a w) = w.

Lemma goto_exec prog lt c i s name l :
  is_pure_cmd name goto_cmd ->
  prog !! pc c = Some i -> Runner.i_type i = Runner.IScript s -> Runner.s_cmd s = Some name -> exists_cmd (cst (wd c)) name = true ->
  Runner.s_args s = [l] -> sn_starts_with s_colon l = true ->
  Runner.exec cstate exists_cmd cmd prog lt c
  = match lt !! l with
    | Some n => inl (Runner.Config n (Runner.update_output (wd c) (Runner.s_out s) None) (S (polls c))
                            (trace c ++ [Runner.Event (pc c) [Runner.Call name (Runner.Inv [l] (Runner.s_out s) (pc c))]]))
    | None => inr (Runner.FErr (Runner.RLabel l) (Runner.i_meta i), trace c ++ [Runner.Event (pc c) [Runner.Call name (Runner.Inv [l] (Runner.s_out s) (pc c))]])
    end.
Proof.
  intros Hg Hi Ht Hc He Ha Hl.
  unfold Runner.exec. rewrite Hi. unfold run_instruction. rewrite Ht, Hc, He, Ha.
  destruct (Hg (Runner.Inv [l] (Runner.s_out s) (pc c)) (wd c)) as [H1 H2].
  cbn [Runner.a_args goto_cmd] in H1. rewrite Hl in H1. cbn [to_result to_goto] in H1. injection H1 as H1.
  cbn [ri_res ri_ov ri_w ri_calls]. rewrite H1, H2. reflexivity.
Qed.

(* an argument that does not begin with ':' (or no / several arguments): goto is an Runner.Error, never a jump *)
Lemma goto_error_exec a w name :
  is_pure_cmd name goto_cmd -> (forall l, Runner.a_args a = [l] -> sn_starts_with s_colon l = false) ->
  exists code, fst (cmd name a w) = Runner.Error (msg code) /\ snd (cmd name a w) = w.
Proof.
  intros Hg Hn. destruct (Hg a w) as [H1 H2].
  destruct (Runner.a_args a) as [|l [|b r]] eqn:E; cbn [goto_cmd] in H1.
  - injection H1 as H1. eauto.
  - rewrite (Hn l eq_refl) in H1. injection H1 as H1. eauto.
  - injection H1 as H1. eauto.
Qed.

Lemma noop_exec prog lt c i s name :
  is_pure_cmd name (fun _ => noop_cmd) ->
  prog !! pc c = Some i -> Runner.i_type i = Runner.IScript s -> Runner.s_cmd s = Some name -> exists_cmd (cst (wd c)) name = true ->
  Runner.exec cstate exists_cmd cmd prog lt c
  = inl (Runner.Config (S (pc c)) (Runner.update_output (wd c) (Runner.s_out s) None) (S (polls c))
                (trace c ++ [Runner.Event (pc c) [Runner.Call name (Runner.Inv (Runner.s_args s) (Runner.s_out s) (pc c))]])).
Proof.
  intros Hg Hi Ht Hc He.
  unfold Runner.exec. rewrite Hi. unfold run_instruction. rewrite Ht, Hc, He.
  destruct (Hg (Runner.Inv (Runner.s_args s) (Runner.s_out s) (pc c)) (wd c)) as [H1 H2].
  cbn [noop_cmd to_result] in H1. injection H1 as H1.
  cbn [ri_res ri_ov ri_w ri_calls]. rewrite H1, H2. reflexivity.
Qed.
End RunnerLink.

(* ---- eval ------------------------------------------------------------------------------------------------------------- *)
(* utils::eval::parse as the model has it (Err -> None) *)
Definition parse_of (arguments : list str) : option Parser.itype :=
  match eval_parse_ix arguments with ParsedOk i => Some i | _ => None end.

Lemma eval_cmd_nil {S : Type} ri (st : S) : eval_cmd parse_of ri [] st = (SContinue None, st).
Proof. reflexivity. Qed.

Lemma eval_cmd_parsed {S : Type} ri a args i (st : S) : eval_parse (a :: args) = ParsedOk i ->
  eval_cmd parse_of ri (a :: args) st = (crash_to_error (fst (ri i 0 st)), snd (ri i 0 st)).
Proof. intros H. unfold eval_cmd, parse_of. rewrite eval_parse_ix_refines, H. reflexivity. Qed.

Lemma eval_cmd_parse_err {S : Type} ri a args e (st : S) : eval_parse (a :: args) = ParseErr e ->
  eval_cmd parse_of ri (a :: args) st = (SError 40, st).
Proof. intros H. unfold eval_cmd, parse_of. rewrite eval_parse_ix_refines, H. reflexivity. Qed.

(* the invocation EvalSer.eval_call describes (C09_roundtrip) is made from the instruction eval_cmd runs *)
Lemma eval_cmd_call variables args label output command bound :
  eval_call variables args = EvalSer.Call label output command bound ->
  exists raw, parse_of args = Some (Parser.IScript label output (Some command) raw)
              /\ bound = bind_command_arguments variables raw.
Proof.
  unfold eval_call, parse_of. destruct args as [|a args]; [discriminate|].
  rewrite eval_parse_ix_refines.
  destruct (eval_parse (a :: args)) as [[| |lb out [cm|] raw]| |]; try discriminate.
  intros H; injection H as <- <- <- <-. eauto.
Qed.
