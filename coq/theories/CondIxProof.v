(* CondIxProof.v — the index-faithful model of eval_condition_for_slice (CondIx: whole slice,
   start_block / index / i32 counter, `&arguments[start_block..index]`, explicit Panic)
     * never panics and never runs out of fuel in the release profile, for EVERY token list
       (no bound on the length: wrapping i32 arithmetic included);
     * equals the suffix model DS.Cond (which collects the tokens of a group) in both profiles on
       every token list shorter than 2^31 — the range in which the i32 counter cannot overflow —
       hence never panics in the debug profile there either;
     * outside that range the two models do differ ([refines_bound_needed]): the bound is exact. *)
Require Import DS.Base DS.Cond DS.CondThms DS.CondIx.

(* ---- list segments ---------------------------------------------------------------------------- *)
Definition seg {A} (v : list A) (a b : nat) : list A := firstn (b - a) (skipn a v).

Lemma skipn_cons_nth {A} (l : list A) : forall i c r,
  skipn i l = c :: r -> nth_error l i = Some c /\ skipn (S i) l = r.
Proof.
  induction l as [|x l IH]; intros i c r H; destruct i; cbn in *; try discriminate.
  - inversion H; auto.
  - apply IH in H. exact H.
Qed.

Lemma nth_error_skipn' {A} (v : list A) : forall a k, nth_error (skipn a v) k = nth_error v (a + k).
Proof.
  induction v as [|x v IH]; intros [|a] k; cbn; try reflexivity.
  - now destruct k.
  - apply IH.
Qed.

Lemma firstn_S_nth {A} (l : list A) : forall n x, nth_error l n = Some x -> firstn (S n) l = firstn n l ++ [x].
Proof.
  induction l as [|y l IH]; intros [|n] x H; cbn in *; try discriminate.
  - now inversion H.
  - f_equal. now apply IH.
Qed.

Lemma seg_nil {A} (v : list A) a : seg v a a = [].
Proof. unfold seg. now rewrite Nat.sub_diag. Qed.

Lemma seg_snoc {A} (v : list A) a b x : (a <= b)%nat -> nth_error v b = Some x -> seg v a (S b) = seg v a b ++ [x].
Proof.
  intros Hle Hn. unfold seg. replace (S b - a)%nat with (S (b - a)) by lia.
  apply firstn_S_nth. rewrite nth_error_skipn'. now replace (a + (b - a))%nat with b by lia.
Qed.

Lemma seg_length {A} (v : list A) a b : (b <= length v)%nat -> length (seg v a b) = (b - a)%nat.
Proof. intros H. unfold seg. rewrite firstn_length, skipn_length. lia. Qed.

Lemma slice_ok {A} (v : list A) a b : (a <= b)%nat -> (b <= length v)%nat -> slice v a b = Some (seg v a b).
Proof.
  intros H1 H2. unfold slice.
  destruct (Nat.leb_spec a b); [|lia]. destruct (Nat.leb_spec b (length v)); [|lia]. reflexivity.
Qed.

Lemma slice_full {A} (v : list A) : slice v 0 (length v) = Some v.
Proof.
  rewrite slice_ok by lia. unfold seg. rewrite Nat.sub_0_r. cbn [skipn]. now rewrite firstn_all.
Qed.

Lemma store_put c g t p f e :
  match store f p e with
  | Some (p', f') => put_value (mk c g t p f) e = Some (mk c g t p' f')
  | None => put_value (mk c g t p f) e = None
  end.
Proof. destruct f; reflexivity. Qed.

(* ---- release profile: no panic, no out-of-fuel, any token list ------------------------------------ *)
Definition good (r : ires) : Prop := r <> IPanic /\ r <> IFuel.

Section Total.
Variable truth : str -> bool.

Lemma i32_release z : exists c, i32_result false z = Some c.
Proof. unfold i32_result. destruct (in_i32 z); eauto. Qed.

Lemma good_ok b : good (IOk b). Proof. split; discriminate. Qed.
Lemma good_err c : good (IErr c). Proof. split; discriminate. Qed.

Lemma loop_good ev arguments :
  (forall g, (length g < length arguments)%nat -> good (ev g)) ->
  forall rest sr sb c i t p f,
    (i + length rest = length arguments)%nat -> (sb <= i)%nat ->
    good (loop truth false ev arguments rest (mki sr sb c i t p f)).
Proof.
  intros Hev. induction rest as [|a rest IH]; intros sr sb c i t p f Hl Hsb.
  - cbn [loop searching]. destruct sr; [apply good_err|apply good_ok].
  - cbn [length] in Hl. cbn [loop]. unfold body.
    cbn [counter index start_block searching itotal ipartial ifound].
    destruct (str_eqb a s_open).
    { destruct (i32_release (c + 1)) as (c' & ->). unfold bump.
      cbn [counter index start_block searching itotal ipartial ifound].
      apply IH; [lia|]. destruct (c =? 0)%Z; lia. }
    destruct (str_eqb a s_close).
    { destruct (i32_release (c - 1)) as (c' & ->).
      destruct (c' =? 0)%Z.
      - rewrite slice_ok by lia.
        assert (Hg : good (ev (seg arguments sb i))).
        { apply Hev. rewrite seg_length by lia. lia. }
        destruct (ev (seg arguments sb i)) as [e|code| |] eqn:E; try exact Hg.
        destruct (store f p e) as [[p' f']|]; [|apply good_err].
        unfold bump. cbn [counter index start_block searching itotal ipartial ifound].
        apply IH; lia.
      - destruct (c' <? 0)%Z; [apply good_err|].
        unfold bump. cbn [counter index start_block searching itotal ipartial ifound].
        apply IH; lia. }
    destruct sr; cbn [negb].
    { unfold bump. cbn [counter index start_block searching itotal ipartial ifound]. apply IH; lia. }
    destruct (str_eqb a s_and).
    { destruct f; try apply good_err.
      destruct (unwrap_or t true && unwrap_or p true); cbn [negb]; [|apply good_ok].
      unfold bump. cbn [counter index start_block searching itotal ipartial ifound]. apply IH; lia. }
    destruct (str_eqb a s_or).
    { destruct f; try apply good_err.
      unfold bump. cbn [counter index start_block searching itotal ipartial ifound]. apply IH; lia. }
    destruct (store f p (truth a)) as [[p' f']|]; [|apply good_err].
    unfold bump. cbn [counter index start_block searching itotal ipartial ifound]. apply IH; lia.
Qed.

Lemma eval_good : forall k args, (length args <= k)%nat -> good (eval_ix truth false (S k) args).
Proof.
  induction k as [|k IH]; intros args Hl; cbn [eval_ix].
  - destruct args; [apply good_ok|cbn in Hl; lia].
  - destruct args as [|a args]; [apply good_ok|].
    apply loop_good; [|cbn; lia|lia].
    intros g Hg. apply IH. cbn [length] in *. lia.
Qed.
End Total.

(* ---- both profiles: agreement with the suffix model below 2^31 tokens ---------------------------- *)
Section Refine.
Variable truth : str -> bool.
Variable checked : bool.

Lemma i32_small z : (-1 <= z < 2147483648)%Z -> i32_result checked z = Some z.
Proof.
  intros H. unfold i32_result, in_i32, i32_min, i32_max.
  destruct (Z.leb_spec (-2147483648) z); [|lia]. destruct (Z.leb_spec z 2147483647); [|lia]. reflexivity.
Qed.

Lemma ltb_pos c : (0 < c)%Z -> true = (0 <? c)%Z.
Proof. intros H. symmetry. now apply Z.ltb_lt. Qed.
Lemma ltb_zero : false = (0 <? 0)%Z.
Proof. reflexivity. Qed.

Lemma loop_refines ev evi arguments :
  (Z.of_nat (length arguments) < 2147483648)%Z ->
  (forall g, (length g <= length arguments)%nat -> evi g = inj (ev g)) ->
  forall rest sr sb i c t p f g,
    skipn i arguments = rest -> (i + length rest = length arguments)%nat ->
    sr = (0 <? c)%Z -> (0 <= c <= Z.of_nat i)%Z -> (sb <= i)%nat ->
    ((0 < c)%Z -> g = rev (seg arguments sb i)) ->
    loop truth checked evi arguments rest (mki sr sb c i t p f) = inj (go truth ev rest (mk c g t p f)).
Proof.
  intros HB Hev. induction rest as [|a rest IH]; intros sr sb i c t p f g Hs Hl Hsr Hc Hsb Hg.
  - cbn [loop go searching cnt]. rewrite Hsr. destruct (0 <? c)%Z; reflexivity.
  - destruct (skipn_cons_nth _ _ _ _ Hs) as [Hn Hs']. cbn [length] in Hl.
    cbn [loop go]. unfold body.
    cbn [counter index start_block searching itotal ipartial ifound cnt grp total partial found].
    destruct (str_eqb a s_open) eqn:Eo.
    { apply str_eqb_eq in Eo. rewrite i32_small by lia. unfold bump.
      cbn [counter index start_block searching itotal ipartial ifound].
      apply IH; [exact Hs'|lia|apply ltb_pos; lia|lia|destruct (c =? 0)%Z; lia|].
      intros _. destruct (Z.eqb_spec c 0) as [E0|E0].
      + now rewrite seg_nil.
      + rewrite (seg_snoc _ _ _ _ Hsb Hn), rev_app_distr. cbn [rev app]. f_equal. apply Hg. lia. }
    destruct (str_eqb a s_close) eqn:Ec.
    { rewrite i32_small by lia. destruct (Z.eqb_spec (c - 1) 0) as [E0|E0].
      - assert (c = 1%Z) by lia. subst c.
        rewrite slice_ok by lia. rewrite Hg by lia. rewrite rev_involutive.
        rewrite Hev by (rewrite seg_length by lia; lia).
        destruct (ev (seg arguments sb i)) as [e|code|]; cbn [inj]; try reflexivity.
        pose proof (store_put 0 [] t p f e) as SP.
        destruct (store f p e) as [[p' f']|]; rewrite SP; [|reflexivity].
        unfold bump. cbn [counter index start_block searching itotal ipartial ifound Z.sub Z.add Z.opp Z.pos_sub].
        apply IH; [exact Hs'|lia|reflexivity|lia|lia|intros H0; lia].
      - destruct (Z.ltb_spec (c - 1) 0) as [Hneg|Hnn]; [reflexivity|].
        unfold bump. cbn [counter index start_block searching itotal ipartial ifound].
        apply IH; [exact Hs'|lia|rewrite Hsr; rewrite <- (ltb_pos c) by lia; apply ltb_pos; lia|lia|lia|].
        intros _. rewrite (seg_snoc _ _ _ _ Hsb Hn), rev_app_distr. cbn [rev app]. f_equal. apply Hg. lia. }
    rewrite Hsr. destruct (Z.ltb_spec 0 c) as [Hpos|Hnp]; cbn [negb].
    { unfold bump. cbn [counter index start_block searching itotal ipartial ifound].
      apply IH; [exact Hs'|lia|now apply ltb_pos|lia|lia|].
      intros _. rewrite (seg_snoc _ _ _ _ Hsb Hn), rev_app_distr. cbn [rev app]. f_equal. apply Hg. lia. }
    assert (c = 0%Z) by lia. subst c.
    destruct (str_eqb a s_and).
    { destruct f; try reflexivity.
      destruct (unwrap_or t true && unwrap_or p true); cbn [negb]; [|reflexivity].
      unfold bump. cbn [counter index start_block searching itotal ipartial ifound].
      apply IH; [exact Hs'|lia|reflexivity|lia|lia|intros; lia]. }
    destruct (str_eqb a s_or).
    { destruct f; try reflexivity.
      unfold bump. cbn [counter index start_block searching itotal ipartial ifound].
      apply IH; [exact Hs'|lia|reflexivity|lia|lia|intros; lia]. }
    pose proof (store_put 0 g t p f (truth a)) as SP.
    destruct (store f p (truth a)) as [[p' f']|]; rewrite SP; [|reflexivity].
    unfold bump. cbn [counter index start_block searching itotal ipartial ifound].
    apply IH; [exact Hs'|lia|reflexivity|lia|lia|intros; lia].
Qed.

Theorem eval_refines : forall fuel args, (Z.of_nat (length args) < 2147483648)%Z ->
  eval_ix truth checked fuel args = inj (eval truth fuel args).
Proof.
  induction fuel as [|fuel IH]; intros args HB; [reflexivity|].
  cbn [eval_ix eval]. destruct args as [|a args]; [reflexivity|].
  apply loop_refines; try reflexivity; try lia; try exact HB.
  intros g Hg. apply IH. lia.
Qed.
End Refine.

(* ---- the statements about the evaluator as the SDK runs it ---------------------------------------- *)
Theorem eval_slice_ix_total : forall ts, eval_slice_ix ts <> IPanic.
Proof. intros ts. unfold eval_slice_ix. apply eval_good. lia. Qed.

Theorem eval_slice_ix_terminates : forall ts, eval_slice_ix ts <> IFuel.
Proof. intros ts. unfold eval_slice_ix. apply eval_good. lia. Qed.

Theorem eval_slice_ix_refines : forall ts, (Z.of_nat (length ts) < 2147483648)%Z ->
  eval_slice_ix ts = inj (eval_slice ts).
Proof. intros ts H. unfold eval_slice_ix, eval_slice. now apply eval_refines. Qed.

Theorem eval_slice_ix_checked_refines : forall ts, (Z.of_nat (length ts) < 2147483648)%Z ->
  eval_slice_ix_checked ts = inj (eval_slice ts).
Proof. intros ts H. unfold eval_slice_ix_checked, eval_slice. now apply eval_refines. Qed.

Theorem eval_slice_ix_checked_total : forall ts, (Z.of_nat (length ts) < 2147483648)%Z ->
  eval_slice_ix_checked ts <> IPanic.
Proof. intros ts H. rewrite eval_slice_ix_checked_refines by assumption. destruct (eval_slice ts); discriminate. Qed.

(* eval_condition: `arguments[0]` is guarded by `is_empty`, `&arguments[..]` is the whole vector *)
Theorem eval_condition_ix_total : forall exists_cmd run_stmt args,
  (forall a, run_stmt a <> SPanic) -> eval_condition_ix exists_cmd run_stmt args <> IPanic.
Proof.
  intros ex run args Hrun. unfold eval_condition_ix, eval_condition_with.
  destruct args as [|a0 args]; [discriminate|]. cbn [nth_error].
  destruct (ex a0).
  - specialize (Hrun (a0 :: args)). destruct (run (a0 :: args)) as [[v|]| | |]; try discriminate. congruence.
  - rewrite slice_full. apply eval_good. lia.
Qed.

Theorem eval_condition_ix_slice : forall exists_cmd run_stmt a0 args,
  exists_cmd a0 = false -> eval_condition_ix exists_cmd run_stmt (a0 :: args) = eval_slice_ix (a0 :: args).
Proof.
  intros ex run a0 args H. unfold eval_condition_ix, eval_condition_with. cbn [nth_error]. rewrite H.
  now rewrite slice_full.
Qed.

(* ---- the bound of [eval_slice_ix_refines] is exact --------------------------------------------------
   2^32 opening parentheses bring the wrapping i32 counter back to 0, so a following ")" is reported
   as "Unexpected ')'" (3) by the release build, where the unbounded counter of DS.Cond answers
   "Missing ')'" (1).  (Such an argument vector needs >= 96 GiB for the String headers alone; in
   the debug profile the same input panics at the 2^31-th "(": `attempt to add with overflow`.) *)
Section Bound.
Import DS.CondProof.

Lemma wrap_id z : in_i32 z = true -> wrap_i32 z = z.
Proof.
  unfold in_i32, i32_min, i32_max, wrap_i32. intros H. apply andb_prop in H as [H1 H2].
  apply Z.leb_le in H1. apply Z.leb_le in H2. rewrite Z.mod_small by lia. lia.
Qed.

Lemma wrap_wrap_add z k : wrap_i32 (wrap_i32 z + k) = wrap_i32 (z + k).
Proof.
  unfold wrap_i32.
  replace ((z + 2147483648) mod 4294967296 - 2147483648 + k + 2147483648)%Z
    with ((z + 2147483648) mod 4294967296 + k)%Z by ring.
  rewrite Zplus_mod_idemp_l. do 2 f_equal. ring.
Qed.

Lemma i32_release_add z k : i32_result false (wrap_i32 z + k) = Some (wrap_i32 (z + k)).
Proof.
  unfold i32_result. destruct (in_i32 (wrap_i32 z + k)) eqn:E.
  - rewrite <- (wrap_id _ E) at 1. now rewrite wrap_wrap_add.
  - now rewrite wrap_wrap_add.
Qed.

Lemma wrap_nonzero z : (1 <= z < 4294967296)%Z -> wrap_i32 z <> 0%Z.
Proof.
  intros H. unfold wrap_i32.
  destruct (Z_lt_le_dec z 2147483648) as [Hlt|Hge].
  - rewrite Z.mod_small by lia. lia.
  - assert (E : ((z + 2147483648) mod 4294967296 = z - 2147483648)%Z).
    { symmetry. apply (Z.mod_unique _ _ 1); lia. }
    rewrite E. lia.
Qed.

Lemma loop_opens truth ev arguments rest : forall n sb i z t p f,
  (1 <= z)%Z -> (z + Z.of_nat n <= 4294967296)%Z ->
  loop truth false ev arguments (repeat s_open n ++ rest) (mki true sb (wrap_i32 z) i t p f)
  = loop truth false ev arguments rest (mki true sb (wrap_i32 (z + Z.of_nat n)) (i + n) t p f).
Proof.
  induction n as [|n IH]; intros sb i z t p f Hz Hn.
  - cbn [repeat app Z.of_nat]. now rewrite Z.add_0_r, Nat.add_0_r.
  - rewrite Nat2Z.inj_succ in *. cbn [repeat app loop]. unfold body.
    change (str_eqb s_open s_open) with true. cbv iota.
    cbn [counter index start_block searching itotal ipartial ifound].
    rewrite i32_release_add.
    destruct (Z.eqb_spec (wrap_i32 z) 0) as [E|_]; [exfalso; revert E; apply wrap_nonzero; lia|].
    unfold bump. cbn [counter index start_block searching itotal ipartial ifound].
    rewrite IH by lia.
    replace (z + 1 + Z.of_nat n)%Z with (z + Z.succ (Z.of_nat n))%Z by lia.
    now replace (S i + n)%nat with (i + S n)%nat by lia.
Qed.

Lemma loop_witness truth ev arguments N : Z.of_nat N = 4294967296%Z ->
  loop truth false ev arguments (repeat s_open N ++ [s_close]) iinit = IErr 3.
Proof.
  intros HN. destruct N as [|N']; [discriminate|]. rewrite Nat2Z.inj_succ in HN.
  cbn [repeat app loop]. unfold body at 1.
  change (str_eqb s_open s_open) with true. cbv iota.
  unfold iinit. cbn [counter index start_block searching itotal ipartial ifound].
  change (i32_result false (0 + 1)) with (Some 1%Z). change (0 =? 0)%Z with true. cbv iota.
  unfold bump. cbn [counter index start_block searching itotal ipartial ifound].
  change 1%Z with (wrap_i32 1) at 1.
  rewrite loop_opens by lia.
  replace (1 + Z.of_nat N')%Z with 4294967296%Z by lia.
  change (wrap_i32 4294967296) with 0%Z.
  cbn [loop]. unfold body.
  change (str_eqb s_close s_open) with false. change (str_eqb s_close s_close) with true. cbv iota.
  cbn [counter index start_block searching itotal ipartial ifound].
  reflexivity.
Qed.

Lemma go_opens truth ev rest : forall n c g t p f, (1 <= c)%Z ->
  exists g', go truth ev (repeat s_open n ++ rest) (mk c g t p f)
             = go truth ev rest (mk (c + Z.of_nat n) g' t p f).
Proof.
  induction n as [|n IH]; intros c g t p f Hc.
  - exists g. cbn [repeat app Z.of_nat]. now rewrite Z.add_0_r.
  - cbn [repeat app]. rewrite go_open_in by (cbn [cnt]; lia). cbn [cnt grp total partial found].
    destruct (IH (c + 1)%Z (s_open :: g) t p f ltac:(lia)) as (g' & ->). exists g'.
    rewrite Nat2Z.inj_succ. now replace (c + 1 + Z.of_nat n)%Z with (c + Z.succ (Z.of_nat n))%Z by lia.
Qed.

Lemma go_witness truth ev N : Z.of_nat N = 4294967296%Z ->
  go truth ev (repeat s_open N ++ [s_close]) init = Err 1.
Proof.
  intros HN. destruct N as [|N']; [discriminate|]. rewrite Nat2Z.inj_succ in HN.
  cbn [repeat app].
  assert (E0 : forall l, go truth ev (s_open :: l) init = go truth ev l (mk 1 [] None None FNone)) by reflexivity.
  rewrite E0. destruct (go_opens truth ev [s_close] N' 1%Z [] None None FNone ltac:(lia)) as (g' & ->).
  replace (1 + Z.of_nat N')%Z with 4294967296%Z by lia.
  rewrite go_close_in by (cbn [cnt]; lia). reflexivity.
Qed.

Lemma bound_witness N : Z.of_nat N = 4294967296%Z ->
  eval_slice_ix (repeat s_open N ++ [s_close]) = IErr 3 /\
  eval_slice (repeat s_open N ++ [s_close]) = Err 1.
Proof.
  intros HN. unfold eval_slice_ix, eval_slice. cbn [eval_ix eval].
  destruct (repeat s_open N ++ [s_close]) as [|a w] eqn:E.
  { exfalso. destruct N; [discriminate HN|discriminate E]. }
  rewrite <- E. split; [now apply loop_witness|now apply go_witness].
Qed.
End Bound.

Theorem refines_bound_needed : exists ts, eval_slice_ix ts <> inj (eval_slice ts).
Proof.
  exists (repeat s_open (Z.to_nat 4294967296) ++ [s_close]).
  destruct (bound_witness (Z.to_nat 4294967296)) as [A B]; [apply Z2Nat.id; lia|].
  rewrite A, B. discriminate.
Qed.

(* ---- transfer: the C06 evaluation theorem holds of the index-faithful model ------------------------- *)
Require DS.CondSpec.
Theorem eval_slice_ix_sem : forall c, DS.CondSpec.wf c ->
  (Z.of_nat (length (DS.CondSpec.toks c)) < 2147483648)%Z ->
  eval_slice_ix (DS.CondSpec.toks c) = IOk (DS.CondSpec.sem is_true_some c).
Proof. intros c Hw Hb. rewrite eval_slice_ix_refines by assumption. now rewrite eval_slice_sem. Qed.

(* ---- the bound of [eval_slice_ix_checked_total] is exact as well: with overflow checks on, the
   2^31-th consecutive "(" panics (`attempt to add with overflow`) ------------------------------------- *)
Lemma loop_opens_checked truth ev arguments rest : forall n sb i z t p f,
  (1 <= z)%Z -> (z + Z.of_nat n <= 2147483647)%Z ->
  loop truth true ev arguments (repeat s_open n ++ rest) (mki true sb z i t p f)
  = loop truth true ev arguments rest (mki true sb (z + Z.of_nat n) (i + n) t p f).
Proof.
  induction n as [|n IH]; intros sb i z t p f Hz Hn.
  - cbn [repeat app Z.of_nat]. now rewrite Z.add_0_r, Nat.add_0_r.
  - rewrite Nat2Z.inj_succ in *. cbn [repeat app loop]. unfold body.
    change (str_eqb s_open s_open) with true. cbv iota.
    cbn [counter index start_block searching itotal ipartial ifound].
    rewrite i32_small by lia.
    destruct (Z.eqb_spec z 0) as [E|_]; [lia|].
    unfold bump. cbn [counter index start_block searching itotal ipartial ifound].
    rewrite IH by lia.
    replace (z + 1 + Z.of_nat n)%Z with (z + Z.succ (Z.of_nat n))%Z by lia.
    now replace (S i + n)%nat with (i + S n)%nat by lia.
Qed.

Lemma checked_witness n : Z.of_nat n = 2147483646%Z ->
  eval_slice_ix_checked (s_open :: repeat s_open n ++ [s_open]) = IPanic.
Proof.
  intros Hn. unfold eval_slice_ix_checked. cbn [eval_ix loop]. unfold body at 1.
  change (str_eqb s_open s_open) with true. cbv iota.
  unfold iinit. cbn [counter index start_block searching itotal ipartial ifound].
  change (i32_result true (0 + 1)) with (Some 1%Z). change (0 =? 0)%Z with true. cbv iota.
  unfold bump. cbn [counter index start_block searching itotal ipartial ifound].
  rewrite loop_opens_checked by lia.
  replace (1 + Z.of_nat n)%Z with 2147483647%Z by lia.
  cbn [loop]. unfold body.
  change (str_eqb s_open s_open) with true. cbv iota.
  cbn [counter index start_block searching itotal ipartial ifound].
  reflexivity.
Qed.

Theorem checked_bound_needed : exists ts, eval_slice_ix_checked ts = IPanic.
Proof.
  exists (s_open :: repeat s_open (Z.to_nat 2147483646) ++ [s_open]).
  apply checked_witness. apply Z2Nat.id. lia.
Qed.

(* ---- grouped statements (one `Print Assumptions` each in the checks) --------------------------------- *)
Theorem eval_slice_ix_checked_spec : forall ts, (Z.of_nat (length ts) < 2147483648)%Z ->
  eval_slice_ix_checked ts = inj (eval_slice ts) /\ eval_slice_ix_checked ts <> IPanic.
Proof. intros ts H. split; [now apply eval_slice_ix_checked_refines|now apply eval_slice_ix_checked_total]. Qed.

Theorem bounds_exact :
  (exists ts, eval_slice_ix ts <> inj (eval_slice ts)) /\ (exists ts, eval_slice_ix_checked ts = IPanic).
Proof. exact (conj refines_bound_needed checked_bound_needed). Qed.

Theorem eval_condition_ix_spec : forall exists_cmd run_stmt,
  (forall args, (forall a, run_stmt a <> SPanic) -> eval_condition_ix exists_cmd run_stmt args <> IPanic) /\
  (forall a0 args, exists_cmd a0 = false ->
     eval_condition_ix exists_cmd run_stmt (a0 :: args) = eval_slice_ix (a0 :: args)).
Proof.
  intros ex run. split.
  - intros args H. now apply eval_condition_ix_total.
  - intros a0 args H. now apply eval_condition_ix_slice.
Qed.
