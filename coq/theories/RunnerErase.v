(* RunnerErase.v — a run depends on the instruction list only through its erasure (PreProcess
   instructions read as Empty, meta-information dropped), except for reported positions.

   Two programs with the same erasure are run from related worlds.  Positions (the line / source
   of an instruction's meta) reach the outside in exactly two ways: as the 2nd and 3rd argument of
   the on_error invocation that reports an error, and as the meta of a failed run.  The theorem
   says that everything else is the same, provided the commands themselves do not look at the
   reported position: [Rc] relates the command states of the two runs (take [eq], or "equal up to
   the stored last-error line/source"), every command maps related worlds to related worlds with
   the same result, and so does on_error when only the reported line / source differ.
   (A command that *reads* the stored position, like get_last_error_line with the SDK's on_error,
   does not satisfy that hypothesis with the stored position hidden in [Rc] — rightly: then the
   run does depend on positions.) *)
From stdpp Require Import gmap.
Require Import DS.Base DS.Runner.
Local Open Scope nat_scope.

Definition erase_type (t : itype) : itype := match t with IPre => IEmpty | _ => t end.
Definition erase (p : program) : list itype := map (fun i => erase_type (i_type i)) p.

(* same invocation, except that a report (message, line, source) to on_error may carry another
   line / source *)
Definition report_like (k1 k2 : call) : Prop :=
  k1 = k2 \/
  exists m l1 s1 l2 s2, k1 = Call on_error_name (Inv [m; l1; s1] None 0) /\
                        k2 = Call on_error_name (Inv [m; l2; s2] None 0).
Definition event_sim (e1 e2 : event) : Prop :=
  e_pc e1 = e_pc e2 /\ Forall2 report_like (e_calls e1) (e_calls e2).

Section Erase.
Variable cstate : Type.
Variable exists_cmd : cstate -> str -> bool.
Variable cmd : str -> inv -> world cstate -> result * world cstate.
Variable ext : nat -> bool.
Variable Rc : cstate -> cstate -> Prop.

Notation world := (world cstate).
Notation config := (config cstate).

Definition world_sim (w1 w2 : world) : Prop :=
  vars w1 = vars w2 /\ halt w1 = halt w2 /\ Rc (cst w1) (cst w2).

Hypothesis H_exists : forall s1 s2 n, Rc s1 s2 -> exists_cmd s1 n = exists_cmd s2 n.
Hypothesis H_cmd : forall name a w1 w2, world_sim w1 w2 ->
  fst (cmd name a w1) = fst (cmd name a w2) /\ world_sim (snd (cmd name a w1)) (snd (cmd name a w2)).
Hypothesis H_report : forall m l1 s1 l2 s2 w1 w2, world_sim w1 w2 ->
  fst (cmd on_error_name (Inv [m; l1; s1] None 0) w1) = fst (cmd on_error_name (Inv [m; l2; s2] None 0) w2) /\
  world_sim (snd (cmd on_error_name (Inv [m; l1; s1] None 0) w1)) (snd (cmd on_error_name (Inv [m; l2; s2] None 0) w2)).

Variables p1 p2 : program.
Hypothesis Hp : erase p1 = erase p2.

Definition config_sim (c1 c2 : config) : Prop :=
  pc c1 = pc c2 /\ polls c1 = polls c2 /\ world_sim (wd c1) (wd c2) /\ Forall2 event_sim (trace c1) (trace c2).

(* success: same reason, related contexts; failure: same error, each side carrying the meta of its
   own instruction at the same index, which is the last trace entry *)
Definition final_sim (f1 : final cstate) (t1 : list event) (f2 : final cstate) (t2 : list event) : Prop :=
  Forall2 event_sim t1 t2 /\
  match f1, f2 with
  | FOk r1 w1, FOk r2 w2 => r1 = r2 /\ world_sim w1 w2
  | FErr e1 m1, FErr e2 m2 =>
      e1 = e2 /\ exists k i1 i2 t0 ks, p1 !! k = Some i1 /\ p2 !! k = Some i2 /\
                                       m1 = i_meta i1 /\ m2 = i_meta i2 /\ t1 = t0 ++ [Event k ks]
  | _, _ => False
  end.
Definition outcome_sim (o1 o2 : outcome cstate) : Prop :=
  match o1, o2 with
  | OutOfFuel, OutOfFuel => True
  | Done f1 t1, Done f2 t2 => final_sim f1 t1 f2 t2
  | _, _ => False
  end.

(* ---- the two programs agree index by index --------------------------------------------- *)
Lemma erase_lookup k :
  match p1 !! k, p2 !! k with
  | Some i1, Some i2 => erase_type (i_type i1) = erase_type (i_type i2)
  | None, None => True
  | _, _ => False
  end.
Proof.
  pose proof (f_equal (fun l => l !! k) Hp) as H. cbn in H. unfold erase in H.
  rewrite !list_lookup_fmap in H.
  destruct (p1 !! k), (p2 !! k); cbn in H; try discriminate; auto. injection H. auto.
Qed.

Lemma label_of_erase i1 i2 : erase_type (i_type i1) = erase_type (i_type i2) -> label_of i1 = label_of i2.
Proof. unfold label_of. destruct (i_type i1), (i_type i2); cbn; congruence. Qed.

Lemma labels_from_erase : forall (q1 q2 : program) line t,
  erase q1 = erase q2 -> labels_from q1 line t = labels_from q2 line t.
Proof.
  induction q1 as [|i1 q1 IH]; intros [|i2 q2] line t H; try discriminate; [reflexivity|].
  cbn in H. injection H as Hi Hq. cbn [labels_from]. rewrite (label_of_erase _ _ Hi). apply IH. exact Hq.
Qed.

Lemma label_table_erase : label_table p1 = label_table p2.
Proof. apply labels_from_erase. exact Hp. Qed.

(* ---- one instruction -------------------------------------------------------------------- *)
Lemma update_output_sim w1 w2 ov o :
  world_sim w1 w2 -> world_sim (update_output w1 ov o) (update_output w2 ov o).
Proof.
  intros (Hv & Hh & Hc). destruct ov as [v|]; [|repeat split; auto].
  destruct o; cbn; repeat split; auto; cbn; rewrite Hv; reflexivity.
Qed.

Lemma calls_refl l : Forall2 report_like l l.
Proof. induction l; constructor; auto. left. reflexivity. Qed.

Lemma run_instruction_sim w1 w2 i1 i2 line :
  world_sim w1 w2 -> erase_type (i_type i1) = erase_type (i_type i2) ->
  let o1 := run_instruction cstate exists_cmd cmd w1 i1 line in
  let o2 := run_instruction cstate exists_cmd cmd w2 i2 line in
  ri_res o1 = ri_res o2 /\ ri_ov o1 = ri_ov o2 /\ world_sim (ri_w o1) (ri_w o2) /\ ri_calls o1 = ri_calls o2.
Proof.
  intros Hw Ht. unfold run_instruction.
  destruct (i_type i1) as [| |s1], (i_type i2) as [| |s2]; cbn in Ht; try discriminate; cbn; auto.
  injection Ht as <-. destruct (s_cmd s1) as [c|]; cbn; auto.
  destruct Hw as (Hv & Hh & Hc). rewrite (H_exists _ _ c Hc).
  destruct (exists_cmd (cst w2) c); cbn; [|repeat split; auto].
  destruct (H_cmd c (Inv (s_args s1) (s_out s1) line) w1 w2) as (Hr & Hw'); [repeat split; auto|]. auto.
Qed.

Lemma run_on_error_sim w1 w2 msg m1 m2 :
  world_sim w1 w2 ->
  let h1 := run_on_error cstate exists_cmd cmd w1 msg m1 in
  let h2 := run_on_error cstate exists_cmd cmd w2 msg m2 in
  oe_err h1 = oe_err h2 /\ world_sim (oe_w h1) (oe_w h2) /\ Forall2 report_like (oe_calls h1) (oe_calls h2).
Proof.
  intros Hw. unfold run_on_error. pose proof Hw as (Hv & Hh & Hc). rewrite (H_exists _ _ on_error_name Hc).
  destruct (exists_cmd (cst w2) on_error_name) eqn:Ex; [|cbn; repeat split; auto].
  unfold run_instruction, on_error_instr. cbn [i_type s_cmd s_args s_out]. rewrite (H_exists _ _ on_error_name Hc), Ex.
  cbv zeta. cbn [ri_res ri_w ri_ov ri_calls].
  match goal with |- context [cmd on_error_name ?a1 w1] => set (k1 := cmd on_error_name a1 w1) in * end.
  match goal with |- context [cmd on_error_name ?a2 w2] => set (k2 := cmd on_error_name a2 w2) in * end.
  assert (Hk : fst k1 = fst k2 /\ world_sim (snd k1) (snd k2)) by (subst k1 k2; apply H_report; exact Hw).
  destruct Hk as (Hr & Hw'). rewrite Hr.
  assert (Hcalls : forall (m : str) l1 s1 l2 s2, Forall2 report_like
            [Call on_error_name (Inv [m; l1; s1] None 0)] [Call on_error_name (Inv [m; l2; s2] None 0)]).
  { intros. constructor; [|constructor]. right. eauto 10. }
  destruct (fst k2); cbn; (split; [reflexivity|split; [|apply Hcalls]]); auto using update_output_sim.
Qed.

Lemma trace_snoc_sim t1 t2 k ks1 ks2 :
  Forall2 event_sim t1 t2 -> Forall2 report_like ks1 ks2 ->
  Forall2 event_sim (t1 ++ [Event k ks1]) (t2 ++ [Event k ks2]).
Proof. intros Ht Hk. apply Forall2_app; [exact Ht|]. constructor; [split; auto|constructor]. Qed.

Definition step_sim (x1 x2 : config + final cstate * list event) : Prop :=
  match x1, x2 with
  | inl c1, inl c2 => config_sim c1 c2
  | inr (f1, t1), inr (f2, t2) => final_sim f1 t1 f2 t2
  | _, _ => False
  end.

Lemma step_erase c1 c2 : config_sim c1 c2 ->
  step_sim (step cstate exists_cmd cmd ext p1 (label_table p1) c1)
           (step cstate exists_cmd cmd ext p2 (label_table p2) c2).
Proof.
  intros (Hpc & Hpo & Hw & Ht). rewrite <- label_table_erase. unfold step, flag_seen.
  pose proof Hw as (Hv & Hh & Hc). rewrite Hh, Hpo.
  destruct (halt (wd c2) || ext (polls c2)); [cbn; repeat split; auto|].
  unfold exec. pose proof (erase_lookup (pc c1)) as Hl. rewrite <- Hpc.
  destruct (p1 !! pc c1) as [i1|] eqn:E1, (p2 !! pc c1) as [i2|] eqn:E2; try contradiction;
    [|cbn; repeat split; auto].
  destruct (run_instruction_sim (wd c1) (wd c2) i1 i2 (pc c1) Hw Hl) as (Hr & Hov & Hw' & Hcalls).
  rewrite <- Hr, <- Hov, <- Hcalls. rewrite <- Hpo.
  set (o1 := run_instruction cstate exists_cmd cmd (wd c1) i1 (pc c1)) in *.
  set (o2 := run_instruction cstate exists_cmd cmd (wd c2) i2 (pc c1)) in *.
  assert (Hpos : forall ks, exists k j1 j2 t0 ks', p1 !! k = Some j1 /\ p2 !! k = Some j2 /\
            i_meta i1 = i_meta j1 /\ i_meta i2 = i_meta j2 /\ trace c1 ++ [Event (pc c1) ks] = t0 ++ [Event k ks']).
  { intros ks. exists (pc c1), i1, i2, (trace c1), ks. auto. }
  assert (Htr : forall ks, Forall2 event_sim (trace c1 ++ [Event (pc c1) ks]) (trace c2 ++ [Event (pc c1) ks])).
  { intros ks. apply trace_snoc_sim; [exact Ht|apply calls_refl]. }
  assert (Hup : forall o, world_sim (update_output (ri_w o1) (ri_ov o1) o) (update_output (ri_w o2) (ri_ov o1) o)).
  { intros o. apply update_output_sim. exact Hw'. }
  destruct (ri_res o1) as [o|o [l|n]|e|e|o].
  - cbn. split; [reflexivity|]. split; [reflexivity|]. split; [apply Hup|apply Htr].
  - destruct (label_table p1 !! l).
    + cbn. split; [reflexivity|]. split; [reflexivity|]. split; [apply Hup|apply Htr].
    + cbn. split; [apply Htr|]. split; [reflexivity|apply Hpos].
  - cbn. split; [reflexivity|]. split; [reflexivity|]. split; [apply Hup|apply Htr].
  - destruct (run_on_error_sim (update_output (ri_w o1) (ri_ov o1) (Some false_str))
                               (update_output (ri_w o2) (ri_ov o1) (Some false_str)) e (i_meta i1) (i_meta i2))
      as (He & Hw'' & Hk); [apply Hup|].
    rewrite <- He.
    assert (Hks : Forall2 event_sim
              (trace c1 ++ [Event (pc c1) (ri_calls o1 ++ oe_calls (run_on_error cstate exists_cmd cmd (update_output (ri_w o1) (ri_ov o1) (Some false_str)) e (i_meta i1)))])
              (trace c2 ++ [Event (pc c1) (ri_calls o1 ++ oe_calls (run_on_error cstate exists_cmd cmd (update_output (ri_w o2) (ri_ov o1) (Some false_str)) e (i_meta i2)))])).
    { apply trace_snoc_sim; [exact Ht|]. apply Forall2_app; [apply calls_refl|exact Hk]. }
    destruct (oe_err _).
    + cbn. split; [exact Hks|]. split; [reflexivity|apply Hpos].
    + cbn. split; [reflexivity|]. split; [reflexivity|]. split; [exact Hw''|exact Hks].
  - cbn. split; [apply Htr|]. split; [reflexivity|apply Hpos].
  - destruct (exit_code o).
    + cbn. split; [apply Htr|]. split; [reflexivity|apply Hpos].
    + cbn. split; [apply Htr|]. split; [reflexivity|apply Hup].
Qed.

Lemma loop_erase fuel : forall c1 c2, config_sim c1 c2 ->
  outcome_sim (loop cstate exists_cmd cmd ext p1 (label_table p1) fuel c1)
              (loop cstate exists_cmd cmd ext p2 (label_table p2) fuel c2).
Proof.
  induction fuel as [|fuel IH]; intros c1 c2 Hc; [exact I|]. cbn [loop].
  pose proof (step_erase c1 c2 Hc) as Hs.
  destruct (step _ _ _ _ p1 _ c1) as [c1'|[f1 t1]], (step _ _ _ _ p2 _ c2) as [c2'|[f2 t2]]; cbn in Hs; try contradiction.
  - apply IH. exact Hs.
  - exact Hs.
Qed.

Theorem run_erase fuel w1 w2 : world_sim w1 w2 ->
  outcome_sim (run cstate exists_cmd cmd ext fuel p1 w1) (run cstate exists_cmd cmd ext fuel p2 w2).
Proof. intros Hw. apply loop_erase. repeat split; try apply Hw. constructor. Qed.

End Erase.

(* ---- the special case with equal meta-information: PreProcess read as Empty changes nothing at all *)
Section ErasePre.
Variable cstate : Type.
Variable exists_cmd : cstate -> str -> bool.
Variable cmd : str -> inv -> world cstate -> result * world cstate.
Variable ext : nat -> bool.

Definition pre_to_empty (p : program) : program := map (fun i => Instr (i_meta i) (erase_type (i_type i))) p.

Lemma run_instruction_pre w i line :
  run_instruction cstate exists_cmd cmd w (Instr (i_meta i) (erase_type (i_type i))) line =
  run_instruction cstate exists_cmd cmd w i line.
Proof. unfold run_instruction. destruct (i_type i); reflexivity. Qed.

Lemma labels_from_pre : forall p line t, labels_from (pre_to_empty p) line t = labels_from p line t.
Proof.
  induction p as [|i p IH]; intros line t; [reflexivity|]. cbn [pre_to_empty map labels_from].
  fold (pre_to_empty p). rewrite IH. unfold label_of. cbn. destruct (i_type i); reflexivity.
Qed.

Lemma step_pre p lt c :
  step cstate exists_cmd cmd ext (pre_to_empty p) lt c = step cstate exists_cmd cmd ext p lt c.
Proof.
  unfold step, exec, pre_to_empty. rewrite list_lookup_fmap.
  destruct (p !! pc c) as [i|]; cbn [fmap option_fmap option_map]; [|reflexivity].
  rewrite run_instruction_pre. reflexivity.
Qed.

Theorem run_pre_to_empty fuel p w :
  run cstate exists_cmd cmd ext fuel (pre_to_empty p) w = run cstate exists_cmd cmd ext fuel p w.
Proof.
  unfold run, label_table. rewrite labels_from_pre. generalize (init w).
  induction fuel as [|fuel IH]; intros c; [reflexivity|]. cbn [loop]. rewrite step_pre.
  destruct (step _ _ _ _ p _ c) as [c'|[f t]]; auto.
Qed.
End ErasePre.
