(* CliFns.v — companions of Cli.v: the Rust functions of duckscript_cli/src/main.rs and linter.rs that Cli.v folds
   into [run_cli] / [exit_status], written out one Coq function per Rust function, and the view of [dispatch] /
   [run_cli] on the FULL argument vector (program name first) that the source works on.  Definitions only, each a
   one-line composition of the Cli.v definitions (the equations in CliGenTie.v are by [reflexivity]); the
   translation of the current source (coq/generated/GenCliFn.v) is proved equal to these in CliGenTie.v. *)
Require Import DS.Base DS.Parser DS.Cli.

(* fn run_script(value, is_file): create_context()?; run_script_file / run_script (..)?; Ok(()) *)
Definition run_script (run_file run_text : str -> bool) (value : str) (is_file : bool) : result :=
  if is_file then of_bool (run_file value) else of_bool (run_text value).

(* fn run_repl(): create_context()?; runner::repl(context)?; Ok(()) *)
Definition run_repl (repl : bool) : result := of_bool repl.

(* fn lint_file(file): (is the "File: .. parsed correctly." line printed?, the verdict) *)
Definition lint_file (parse_file : str -> tres) (file : str) : bool * result :=
  (lint_says_parsed (parse_file file), lint_parsed (parse_file file)).

(* fn main(): (the exit status, is the "Error: .." line printed?) for the verdict of run_cli *)
Definition main_outcome (err_status : N) (r : result) : N * bool := (exit_code err_status r, prints_error r).

(* the model functions take argv WITHOUT the program name *)
Definition dispatch_argv (argv : list str) : action := dispatch (tl argv).
Definition run_cli_argv (run_file run_text : str -> bool) (repl : bool) (parse_file : str -> tres) (argv : list str) : result :=
  run_cli run_file run_text repl parse_file (tl argv).
