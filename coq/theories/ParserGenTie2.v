(* ParserGenTie2.v — every function of duckscript/src/parser.rs below parse_text is tied to the CURRENT Rust source
   by proof: the hand-written index-faithful model (ParserIx.v, proved equal to the suffix model DS.Parser that
   C01 / C08 / C09 / C14 reason about; ParserIxFns.v for the functions ParserIx folds into their callers) is EQUAL,
   for all inputs, to the mechanical translation of the source (coq/generated/GenParserRest.v, rewritten on every
   run by lib/rs2v.py through lib/gen/parser_gen.py):

     gen_parse_next_argument, gen_parse_arguments_with_options, gen_parse_arguments, gen_reparse_arguments,
     gen_find_label, gen_find_output_and_command, gen_parse_pre_process_line, gen_parse_command_line,
     gen_parse_line, gen_parse_lines.

   (parse_next_value: ParserGenTie.v.)  The generated functions call the HAND versions of the other functions, so
   the ties are independent of each other.  Every theorem is stated under its own flag [gen_<fn>_understood = true]:
   when the translator does not understand a function any more the generated file holds [false] and a stub for it
   and the theorem holds vacuously (the check reports that tie as inactive).

   Loops: the Rust loops are translated to a step function driven by [for_n] / [loop_fuel] / [for_each_x]; the
   hand model has one specialised fixpoint per loop.  Each loop lemma is an induction over the driver, the step
   by case analysis on whatever the two decision trees branch on ([tie_tree]); no proof mentions a generated
   variable name or the position of a test in the tree.

   Every proof must also compile when its function is a STUB ([gen_<fn>_understood := false]): the first sentence
   then closes the goal by [discriminate], so every later sentence is prefixed with [all:] (a no-op without
   goals) and no bullets / braces are used. *)
Require Import DS.Base DS.Parser DS.ParserIx DS.Rs2vLib DS.Rs2vLib2 DS.ParserIxFns.
Require Import DSG.GenParserRest.
Require Import Lia.

Definition ires_map {A B : Type} (f : A -> B) (r : ires A) : ires B :=
  match r with IOk a => IOk (f a) | IErr e => IErr e | IPanic => IPanic end.

Local Arguments ParserIx.parse_next_value : simpl never.
Local Arguments ParserIx.parse_arguments_with : simpl never.
Local Arguments ParserIx.parse_arguments : simpl never.
Local Arguments ParserIx.find_label : simpl never.
Local Arguments ParserIx.find_output_and_command : simpl never.
Local Arguments ParserIx.parse_pre_process_line : simpl never.
Local Arguments ParserIx.parse_command_line : simpl never.
Local Arguments ParserIx.parse_line : simpl never.
Local Arguments ParserIxFns.find_output_and_command_ins : simpl never.
Local Arguments trim : simpl never.
Local Arguments lines : simpl never.
Local Arguments Nat.leb : simpl never.
Local Arguments Nat.sub : simpl never.

Ltac unfold_gen_lib :=
  unfold list_is_empty, opt_is_none, opt_is_some, fl_cac, fl_arg, fl_rearg, fl_name, fl_out, parse_next_argument,
         ParserIxFns.parse_arguments_with_options, ParserIxFns.reparse_arguments, set_output, set_command in *.

(* case analysis on the atoms of both decision trees, innermost scrutinee first (so that what is destructed is
   an atom: a variable, a character test, a call of an opaque model function — never a whole sub-tree); [IH] (a
   loop lemma or an induction hypothesis) is used wherever it applies before its left-hand side is taken apart *)
Ltac inner_scrut x :=
  lazymatch x with
  | context [match ?y with _ => _ end] => inner_scrut y
  | negb ?y => inner_scrut y
  | andb ?y _ => inner_scrut y
  | orb ?y _ => inner_scrut y
  | _ => x
  end.
Ltac destruct_atom y :=
  lazymatch y with
  | N.eqb ?c ?k => destruct (N.eqb_spec c k); [try subst c|]
  | Nat.eqb ?c ?k => destruct (Nat.eqb_spec c k); [try subst c|]
  | _ => destruct y eqn:?
  end.
Ltac tie_step :=
  match goal with
  | |- context [match ?x with _ => _ end] => let y := inner_scrut x in destruct_atom y
  | |- context [negb ?x] => let y := inner_scrut x in destruct_atom y
  | |- context [andb ?x _] => let y := inner_scrut x in destruct_atom y
  | |- context [orb ?x _] => let y := inner_scrut x in destruct_atom y
  end.
Ltac tie_leaf :=
  cbn; try reflexivity; try congruence;
  try (rewrite <- ?app_assoc; cbn [app]; reflexivity).
Ltac tie_tree IH :=
  unfold_gen_lib; unfold_chars; cbn;
  repeat (first [ rewrite IH | tie_step ]; cbn; try discriminate; try congruence);
  tie_leaf.
Ltac tie_tree0 :=
  unfold_gen_lib; unfold_chars; cbn;
  repeat (tie_step; cbn; try discriminate; try congruence);
  tie_leaf.

(* ---- parse_next_argument --------------------------------------------------------------------------------- *)
Theorem gen_parse_next_argument_eq : gen_parse_next_argument_understood = true ->
  forall cac line start_index,
    gen_parse_next_argument cac line start_index
    = ParserIx.parse_next_value (if cac then fl_rearg else fl_arg) line start_index.
Proof.
  unfold gen_parse_next_argument_understood; intros U; try discriminate U; clear U.
  all: intros cac line start_index; unfold gen_parse_next_argument.
  all: destruct cac; tie_tree0.
Qed.

(* ---- parse_arguments_with_options ------------------------------------------------------------------------- *)
Lemma gen_pawo_loop : gen_parse_arguments_with_options_understood = true ->
  forall cac line fuel acc index,
    ires_map fst (loop_fuel (gen_pawo_body cac line) fuel (acc, index))
    = ires_map (app acc) (parse_args_fuel fuel (if cac then fl_rearg else fl_arg) line index).
Proof.
  unfold gen_parse_arguments_with_options_understood; intros U; try discriminate U; clear U.
  all: intros cac line fuel; induction fuel as [|fuel IH]; intros acc index; [reflexivity|].
  all: cbn [loop_fuel parse_args_fuel]; unfold gen_pawo_body; unfold_gen_lib.
  all: destruct cac;
    (destruct (ParserIx.parse_next_value _ line index) as [[ni [a|]]| |]; cbn;
     [ rewrite IH; destruct (parse_args_fuel fuel _ line ni); cbn; rewrite <- ?app_assoc; reflexivity
     | rewrite ?app_nil_r; reflexivity | reflexivity | reflexivity ]).
Qed.

Theorem gen_parse_arguments_with_options_eq : gen_parse_arguments_with_options_understood = true ->
  forall cac line start_index,
    gen_parse_arguments_with_options cac line start_index
    = ParserIx.parse_arguments_with (if cac then fl_rearg else fl_arg) line start_index.
Proof.
  intros U cac line start_index.
  pose proof (gen_pawo_loop U cac line (S (length line - start_index)) [] start_index) as L. revert U L.
  unfold gen_parse_arguments_with_options_understood; intros U; try discriminate U; clear U.
  all: intros L; unfold gen_parse_arguments_with_options, ParserIx.parse_arguments_with.
  all: destruct (loop_fuel _ _ _) as [[a i]| |];
    destruct (parse_args_fuel _ _ line start_index) as [args| |]; cbn in L; try discriminate L; try reflexivity;
    injection L as ->; [destruct args|]; reflexivity.
Qed.

Theorem gen_parse_arguments_eq : gen_parse_arguments_understood = true ->
  forall line start_index, gen_parse_arguments line start_index = ParserIx.parse_arguments line start_index.
Proof.
  unfold gen_parse_arguments_understood; intros U; try discriminate U; clear U.
  all: intros line start_index; unfold gen_parse_arguments, ParserIx.parse_arguments; tie_tree0.
Qed.

Theorem gen_reparse_arguments_eq : gen_reparse_arguments_understood = true ->
  forall line start_index,
    gen_reparse_arguments line start_index = ParserIx.parse_arguments_with fl_rearg line start_index.
Proof.
  unfold gen_reparse_arguments_understood; intros U; try discriminate U; clear U.
  all: intros line start_index; unfold gen_reparse_arguments; tie_tree0.
Qed.

(* ---- find_label ------------------------------------------------------------------------------------------ *)
Lemma gen_find_label_loop : gen_find_label_understood = true ->
  forall line n index,
    for_n (gen_find_label_body line) n (None, index)
    = ires_map (fun p => (snd p, fst p)) (find_label_loop line n index).
Proof.
  unfold gen_find_label_understood; intros U; try discriminate U; clear U.
  all: intros line n; induction n as [|n IH]; intros index; [reflexivity|].
  all: cbn [for_n find_label_loop]; unfold gen_find_label_body.
  all: destruct (nth_error line index) as [c|]; [|reflexivity].
  all: tie_tree IH.
Qed.

Theorem gen_find_label_eq : gen_find_label_understood = true ->
  forall line start_index, gen_find_label line start_index = ParserIx.find_label line start_index.
Proof.
  intros U line start_index. pose proof (gen_find_label_loop U line) as L. revert U L.
  unfold gen_find_label_understood; intros U; try discriminate U; clear U.
  all: intros L; unfold gen_find_label, ParserIx.find_label.
  all: destruct (Nat.leb (length line) start_index); [reflexivity|].
  all: rewrite L; destruct (find_label_loop line _ start_index) as [[i l]| |]; reflexivity.
Qed.

(* ---- find_output_and_command ------------------------------------------------------------------------------ *)
Lemma gen_foc_loop : gen_find_output_and_command_understood = true ->
  forall line value n index out,
    for_n (gen_foc_body line value) n (index, out)
    = ires_map (fun p : nat * bool => (fst p, if snd p then value else out)) (equals_loop line n index).
Proof.
  unfold gen_find_output_and_command_understood; intros U; try discriminate U; clear U.
  all: intros line value n; induction n as [|n IH]; intros index out; [reflexivity|].
  all: cbn [for_n equals_loop]; unfold gen_foc_body.
  all: destruct (nth_error line index) as [c|]; [|reflexivity].
  all: tie_tree IH.
Qed.

Theorem gen_find_output_and_command_ins_eq : gen_find_output_and_command_understood = true ->
  forall line start_index ins,
    gen_find_output_and_command line start_index ins = find_output_and_command_ins line start_index ins.
Proof.
  intros U line start_index ins. pose proof (gen_foc_loop U line) as L. revert U L.
  unfold gen_find_output_and_command_understood; intros U; try discriminate U; clear U.
  all: intros L; unfold gen_find_output_and_command, find_output_and_command_ins.
  all: destruct ins as [il io ic ia]; unfold_gen_lib; cbn.
  all: destruct (ParserIx.parse_next_value _ line start_index) as [[ni [v|]]| |]; cbn; try reflexivity.
  all: rewrite ?L; destruct (equals_loop line _ ni) as [[i b]| |]; cbn; try reflexivity.
  all: destruct b, io; cbn; try reflexivity;
    destruct (ParserIx.parse_next_value _ line i) as [[n2 [cmd|]]| |]; reflexivity.
Qed.

(* the Rust function with its &mut parameter against ParserIx's (index, output, command) — hand model against
   hand model, independent of the generated code: the caller's instruction must not have an output yet *)
Lemma foc_ins_spec line start_index ins : si_output ins = None ->
  find_output_and_command_ins line start_index ins =
  match ParserIx.find_output_and_command line start_index with
  | IOk (i, o, c) =>
      IOk (i, {| si_label := si_label ins; si_output := o;
                 si_command := match c with Some _ => c | None => si_command ins end;
                 si_arguments := si_arguments ins |})
  | IErr e => IErr e
  | IPanic => IPanic
  end.
Proof.
  destruct ins as [il io ic ia]; cbn; intros ->.
  unfold find_output_and_command_ins, ParserIx.find_output_and_command. unfold_gen_lib. cbn.
  destruct (ParserIx.parse_next_value _ line start_index) as [[ni [v|]]| |]; cbn; try reflexivity.
  destruct (equals_loop line _ ni) as [[i b]| |]; cbn; try reflexivity.
  destruct b; cbn; [|reflexivity].
  destruct (ParserIx.parse_next_value _ line i) as [[n2 [cmd|]]| |]; reflexivity.
Qed.

Theorem gen_find_output_and_command_eq : gen_find_output_and_command_understood = true ->
  forall line start_index ins, si_output ins = None ->
    gen_find_output_and_command line start_index ins =
    match ParserIx.find_output_and_command line start_index with
    | IOk (i, o, c) =>
        IOk (i, {| si_label := si_label ins; si_output := o;
                   si_command := match c with Some _ => c | None => si_command ins end;
                   si_arguments := si_arguments ins |})
    | IErr e => IErr e
    | IPanic => IPanic
    end.
Proof.
  intros U line start_index ins H. rewrite (gen_find_output_and_command_ins_eq U). apply foc_ins_spec, H.
Qed.

(* ---- parse_pre_process_line ------------------------------------------------------------------------------- *)
Lemma gen_ppl_loop : gen_parse_pre_process_line_understood = true ->
  forall line n index command,
    ires_map (fun st => (snd st, rev (fst st))) (for_n (gen_ppl_body line) n (command, index))
    = pp_loop line n index command.
Proof.
  unfold gen_parse_pre_process_line_understood; intros U; try discriminate U; clear U.
  all: intros line n; induction n as [|n IH]; intros index command; [reflexivity|].
  all: cbn [for_n pp_loop]; unfold gen_ppl_body.
  all: destruct (nth_error line index) as [c|]; [|reflexivity].
  all: unfold_gen_lib; unfold_chars.
  all: destruct (N.eqb_spec c 32) as [->|Hc]; cbn; [destruct command; cbn; [apply IH|reflexivity] | apply IH].
Qed.

Lemma rev_cons_not_nil {A} (a : A) l : rev (a :: l) <> [].
Proof. intros E. apply (f_equal (@length A)) in E. rewrite rev_length in E. discriminate E. Qed.

Theorem gen_parse_pre_process_line_eq : gen_parse_pre_process_line_understood = true ->
  forall line start_index,
    gen_parse_pre_process_line line start_index = ParserIx.parse_pre_process_line line start_index.
Proof.
  intros U line start_index. pose proof (gen_ppl_loop U line) as L. revert U L.
  unfold gen_parse_pre_process_line_understood; intros U; try discriminate U; clear U.
  all: intros L; unfold gen_parse_pre_process_line, ParserIx.parse_pre_process_line; unfold_gen_lib.
  all: destruct line as [|c0 line']; [reflexivity|]; cbn [length].
  all: rewrite <- L; destruct (for_n _ _ _) as [[cmd i]| |]; cbn; try reflexivity.
  all: destruct cmd as [|a cmd]; [reflexivity|].
  all: destruct (rev (a :: cmd)) eqn:E; [exfalso; exact (rev_cons_not_nil _ _ E)|].
  all: destruct (ParserIx.parse_arguments _ i); reflexivity.
Qed.

(* ---- parse_command_line ----------------------------------------------------------------------------------- *)
Theorem gen_parse_command_line_eq : gen_parse_command_line_understood = true ->
  forall line start_index,
    gen_parse_command_line line start_index = ParserIx.parse_command_line line start_index.
Proof.
  unfold gen_parse_command_line_understood; intros U; try discriminate U; clear U.
  all: intros line start_index.
  all: unfold gen_parse_command_line, ParserIx.parse_command_line; unfold_gen_lib.
  all: destruct line as [|c0 line']; [reflexivity|]; cbn [orb].
  all: destruct (Nat.leb _ start_index); [reflexivity|].
  all: destruct (ParserIx.find_label _ start_index) as [[i l]| |]; try reflexivity.
  all: destruct l as [l|];
    (rewrite ?foc_ins_spec by reflexivity; cbn;
     destruct (ParserIx.find_output_and_command _ i) as [[[i2 o] c]| |]; cbn; try reflexivity;
     destruct (ParserIx.parse_arguments _ i2); cbn; try reflexivity;
     destruct o, c; reflexivity).
Qed.

(* ---- parse_line ------------------------------------------------------------------------------------------- *)
Theorem gen_parse_line_eq : gen_parse_line_understood = true ->
  forall s, gen_parse_line s = ParserIx.parse_line s.
Proof.
  unfold gen_parse_line_understood; intros U; try discriminate U; clear U.
  all: intros s; unfold gen_parse_line, ParserIx.parse_line.
  all: generalize (trim s); intros [|c t]; [reflexivity|].
  all: unfold_gen_lib; unfold_chars; cbn.
  all: destruct (N.eqb_spec c 35) as [->|H35]; cbn; [reflexivity|].
  all: destruct (N.eqb_spec c 33) as [->|H33]; reflexivity.
Qed.

(* ---- parse_lines ------------------------------------------------------------------------------------------ *)
Definition xres_fst {E A B : Type} (r : xres E (A * B)) : xres E A :=
  match r with XOk p => XOk (fst p) | XErr e => XErr e | XPanic => XPanic end.

Lemma gen_parse_lines_loop : gen_parse_lines_understood = true ->
  forall inc src ls acc ln,
    xres_fst (for_each_x (gen_parse_lines_body inc src) ls (acc, ln))
    = match parse_lines_from inc src ln ls with
      | ITOk r => XOk (acc ++ r)
      | ITErr e l s => XErr (e, l, s)
      | ITPanic => XPanic
      end.
Proof.
  unfold gen_parse_lines_understood; intros U; try discriminate U; clear U.
  all: intros inc src ls; induction ls as [|s ls IH]; intros acc ln; cbn [for_each_x parse_lines_from];
    [cbn; now rewrite app_nil_r|].
  all: unfold gen_parse_lines_body.
  all: destruct (ParserIx.parse_line s) as [t| |]; try reflexivity.
  all: destruct t as [|cmd args|l o c args];
    [ change (preprocess inc src ln IEmpty) with (TOk [])
    | destruct (preprocess inc src ln (IPre cmd args)) as [added|e l s']; [|reflexivity]
    | change (preprocess inc src ln (IScript l o c args)) with (TOk []) ];
    cbn iota beta;
    rewrite IH; destruct (parse_lines_from inc src _ ls); cbn; rewrite <- ?app_assoc; reflexivity.
Qed.

Theorem gen_parse_lines_eq : gen_parse_lines_understood = true ->
  forall inc src text,
    gen_parse_lines inc src text = parse_lines_from inc src 1 (lines text).
Proof.
  intros U inc src text. pose proof (gen_parse_lines_loop U inc src (lines text) [] 1%N) as L. revert U L.
  unfold gen_parse_lines_understood; intros U; try discriminate U; clear U.
  all: intros L; unfold gen_parse_lines.
  all: destruct (for_each_x _ _ _) as [[is ln]|[[e l] s]|];
    destruct (parse_lines_from inc src 1 (lines text)); cbn in L; try discriminate L;
    [ injection L as -> | injection L as -> -> -> | ]; reflexivity.
Qed.
