(* CondGenTie.v — `is_true` of duckscript_sdk/src/utils/condition.rs: the hand model Cond.is_true and the
   property's truthiness rule (CondSpec.falsy) are EQUAL, for every optional value, to the mechanical
   translation of the CURRENT Rust source (coq/generated/GenCondFn.v, rewritten on every run by lib/rs2v.py
   through lib/gen/cond_gen.py).  Stated under [gen_cond_understood = true] (stub otherwise).

   gen_is_true_eq    translation = hand model.  The hand model is written over the regenerated TABLE
                     GenTruth.v (regular-expression extractor); this theorem says the table reading and the
                     translation of the function body agree — it survives a change of the literals.
   gen_is_true_spec  translation = the property's rule: absent -> false, present -> not (empty | "0" | "false"
                     | "no" after lower-casing).  This one fails as soon as the source computes anything else.

   Both proofs abstract every string comparison that occurs to a boolean atom and decide the remaining
   propositional identity by cases, so the order / association of the `||` chain does not matter.
   After the first sentence of a proof (which closes the goal when the generated file is the stub) every
   sentence is prefixed with [all:] so that the file also compiles against the stub.
   Modelling assumption: `to_lowercase` is Base.lower_str (see Base.v). *)
Require Import DS.Base DS.Cond DS.CondSpec.
Require DSG.GenTruth.
Require Import DSG.GenCondFn.

Lemma is_nil_eqb (x : list N) : (match x with [] => true | _ :: _ => false end) = str_eqb x [].
Proof. destruct x; reflexivity. Qed.

Ltac str_atoms :=
  (* `s.is_empty()` is translated to a match: the same test as `s == ""` *)
  repeat match goal with
         | |- context [match ?x with [] => true | _ :: _ => false end] => rewrite (is_nil_eqb x)
         end;
  (* decide every string comparison that occurs by its specification: a positive answer substitutes the compared text, so
     every other comparison computes; negative answers are kept as hypotheses (semantic, not syntactic, agreement) *)
  repeat match goal with
         | |- context [str_eqb ?a ?b] =>
           let E := fresh "E" in
           destruct (str_eqb_spec a b) as [E|E]; [try (rewrite E in *; clear E)|]; cbn in *
         end;
  try reflexivity; try congruence; try contradiction.

Theorem gen_is_true_eq : gen_cond_understood = true ->
  forall v, gen_is_true v = is_true v.
Proof.
  unfold gen_cond_understood; intros U; try discriminate U; clear U.
  all: intros [s|]; unfold gen_is_true, is_true, is_true_some, str_in;
    cbv beta iota zeta delta [DSG.GenTruth.gen_falsy DSG.GenTruth.gen_lowercased existsb str char];
    [str_atoms|reflexivity].
Qed.

Theorem gen_is_true_spec : gen_cond_understood = true ->
  forall v, gen_is_true v = match v with Some s => negb (falsy s) | None => false end.
Proof.
  unfold gen_cond_understood; intros U; try discriminate U; clear U.
  all: intros [s|]; unfold gen_is_true, falsy, lit_0, lit_false, lit_no; cbv beta iota zeta delta [str char];
    [str_atoms|reflexivity].
Qed.
