(* ScopeTables.v — the script text of the script-implemented `unset` command, regenerated from
   /repo on every run (generated/GenUnset.v), is the one the model m_unset (Scope.v) was written
   for: a for-in over the argument array binding the loop variable, one set_by_name per element.
   The variable names in the script are the model's keys, the scope name is the model's scope. *)
Require Import DS.Base DSG.GenUnset.
Require DS.Scope.

Definition expected_unset_script : list str :=
  [ [102;111;114;32] ++ DS.Scope.loop_key ++ [32;105;110;32;36;123] ++ DS.Scope.args_key ++ [125];
    [115;101;116;95;98;121;95;110;97;109;101;32;36;123] ++ DS.Scope.loop_key ++ [125];
    [101;110;100] ].

Lemma unset_tables_wf :
  gen_unset_understood = true /\
  gen_unset_script = expected_unset_script /\
  DS.Scope.unset_scope = [115;99;111;112;101;58;58] ++ gen_unset_scope /\
  gen_unset_aliases = [[117;110;115;101;116]] /\
  gen_unset_min_args = 0.
Proof. vm_compute. repeat split; reflexivity. Qed.
