(* RunnerExamples.v — non-vacuity: concrete runs of the abstract machine (computed with the model,
   transported with the refinement theorem) that exercise the duplicate-label rule, an error
   reported to on_error, deletion of an output variable and a failing exit; and of the SDK error
   protocol (two errors, the latest wins; exit_on_error makes the next one fatal). *)
From stdpp Require Import gmap.
Require Import DS.Base DS.Cond DS.Runner DS.RunnerSpec DS.RunnerProof DS.RunnerScripted DS.SdkErr DS.SdkErrInst.
Local Open Scope nat_scope.

Definition s_c : str := [99]%N.  Definition s_x : str := [120]%N.  Definition s_y : str := [121]%N.
Definition s_v : str := [118]%N.  Definition s_m : str := [109]%N.  Definition s_la : str := [58;97]%N.
Definition s_3 : str := [51]%N.

(*  :a x = c
    :a y = c
    c                 c answers: continue "v"; error "m"; goto :a; continue (no value); exit "3" *)
Definition ex_prog : program :=
  [Instr (Meta (Some 1) None) (IScript (SI (Some s_la) (Some s_x) (Some s_c) []));
   Instr (Meta (Some 2) None) (IScript (SI (Some s_la) (Some s_y) (Some s_c) []));
   Instr (Meta (Some 3) None) (IScript (SI None None (Some s_c) []))].
Definition ex_cmds : list (str * (list sres * bool)) :=
  [(s_c, ([SRes (Continue (Some s_v)) false; SRes (Error s_m) false; SRes (GoTo None (GLabel s_la)) false;
           SRes (Continue None) false; SRes (Exit (Some s_3)) false], false));
   (on_error_name, ([SRes (Continue None) false], true))].
Definition ex_world : world sstate := World ∅ (mk_state ex_cmds) false.

Definition ex_pcs (t : list event) : list nat := map e_pc t.

Lemma ex_run_computed :
  exists t, run sstate s_exists s_cmd_run (fun _ => false) 20 ex_prog ex_world
            = Done (FErr (RExitCode 3) (Meta (Some 3) None)) t /\
            ex_pcs t = [0; 1; 2; 1; 2] /\
            (* the error at index 1 was reported as ("m", "2", "") *)
            (exists k, nth_error t 1 = Some (Event 1 [k; Call on_error_name (Inv [s_m; [50]%N; []] None 0)])).
Proof. eexists. split; [vm_compute; reflexivity|]. split; [reflexivity|]. eexists. reflexivity. Qed.

Lemma ex_spec_run :
  exists t, spec_program sstate s_exists s_cmd_run (fun _ => false) ex_prog ex_world
              (FErr (RExitCode 3) (Meta (Some 3) None)) t /\ ex_pcs t = [0; 1; 2; 1; 2].
Proof.
  destruct ex_run_computed as (t & Hr & Hp & _). exists t. split; [|exact Hp].
  eapply run_refines. exact Hr.
Qed.

(* ---- the SDK protocol ---- *)
Definition s_e : str := [101]%N.  Definition s_l : str := [108]%N.  Definition s_m2 : str := [109;50]%N.
Definition s_src : str := [47;115]%N.
Definition ex_sdk_prog : program :=
  [Instr (Meta (Some 4) (Some s_src)) (IScript (SI None (Some s_x) (Some n_trigger_error) [s_m]));
   Instr (Meta (Some 9) (Some s_src)) (IScript (SI None (Some s_y) (Some n_hfail) [s_m2]));
   Instr (Meta (Some 10) (Some s_src)) (IScript (SI None (Some s_e) (Some n_get_last_error) []));
   Instr (Meta (Some 11) (Some s_src)) (IScript (SI None (Some s_l) (Some n_get_last_error_line) []));
   Instr (Meta (Some 12) (Some s_src)) (IScript (SI None None (Some n_exit_on_error) [true_str]));
   Instr (Meta (Some 13) (Some s_src)) (IScript (SI None None (Some n_assert_error) []))].

Lemma ex_sdk_computed :
  exists t, e_run 20 ex_sdk_prog [] = Done (FErr (RHandlerCrash (Msg msg_assert_failed)) (Meta (Some 13) (Some s_src))) t.
Proof. eexists. vm_compute. reflexivity. Qed.

Lemma ex_sdk_latest :
  exists c, e_iter 4 ex_sdk_prog [] = Some c /\
            vars (wd c) !! s_e = Some s_m2 /\ vars (wd c) !! s_l = Some [57]%N /\
            vars (wd c) !! s_x = Some false_str /\ vars (wd c) !! s_y = Some false_str.
Proof. eexists. split; [vm_compute; reflexivity|]. repeat split. Qed.
