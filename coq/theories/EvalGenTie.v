(* EvalGenTie.v — duckscript_sdk/src/utils/eval.rs is tied to the CURRENT Rust source by proof: the hand models
   the property theorems of C09 / C10 / C19 are about are EQUAL, for all inputs, to the mechanical translation of the
   source (coq/generated/GenEvalFn.v, rewritten on every run by lib/rs2v.py class FnE through lib/gen/eval_gen.py).

     fn parse, text assembly   gen_eval_line_body / gen_eval_line    = EvalSer.serialise_arg (+ the blank) / serialise
     fn parse                  gen_eval_parse                        = EvalSerIx.eval_parse_ix = EvalSer.eval_parse
     fn eval_instructions      gen_eval_instructions_step + Rs2vLib2.loop_fuel, gen_eval_instructions
                                                                     = SdkErr.eval_instructions (fuelled fixpoint)

   Each group has its own flag [gen_eval_*_understood]; under [false] the generated file holds a stub and the
   theorems hold vacuously (the check reports that tie as inactive).

   Proof style (as in ParserGenTie2.v): the first sentence closes the goal when the generated definition is the stub,
   every later sentence is prefixed with [all:], no bullets, no generated variable names, no position of a test in
   the decision tree: the trees are compared by case analysis on the atoms both sides branch on.

   What the generated definitions take from the generator's configuration rather than from the source is listed in
   lib/gen/eval_gen.py (the world value standing for the four `&mut` parameters, Runner.run_instruction for the
   callee, the ghost call list, ParserIx.parse_text for the callee, fuel). *)
Require Import DS.Base DS.Parser DS.ParserIx DS.Rs2vLib DS.Rs2vLib2 DS.Expansion DS.EvalSer DS.EvalSerIx DS.EvalSerIxProof.
Require Import DS.Rs2vEvalStrLib DS.Rs2vEvalRunLib.
Require DS.Runner DS.SdkErr.
Require Import DSG.GenEvalFn.
Require Import Lia.

Local Arguments ParserIx.parse_text : simpl never.
Local Arguments Runner.run_instruction : simpl never.
Local Arguments Nat.ltb : simpl never.
Local Arguments Nat.leb : simpl never.

(* ---- the one-character instances of the generic string functions are the hand model's helpers --------------- *)
Lemma str_starts_with_hand (c : char) (s : str) : str_starts_with [c] s = starts_with c s.
Proof. rewrite str_starts_with_1. destruct s; reflexivity. Qed.

Lemma str_ends_with_hand (c : char) (s : str) : str_ends_with [c] s = ends_with c s.
Proof.
  induction s as [|x s IH] using rev_ind; [reflexivity|].
  rewrite str_ends_with_snoc. clear IH. induction s as [|y s IH]; [reflexivity|].
  cbn [app ends_with]. rewrite IH. destruct (s ++ [x]) eqn:E; [|reflexivity].
  apply app_eq_nil in E. destruct E as [_ E]. discriminate E.
Qed.

Lemma str_contains_hand (c : char) (s : str) : str_contains [c] s = has_chr c s.
Proof. apply str_contains_1. Qed.

Lemma str_replace_remove_hand (c : char) (s : str) : str_replace [c] [] s = remove_char c s.
Proof. apply str_replace_1_remove. Qed.

Lemma str_replace_double_hand (s : str) : str_replace [c_bs] [c_bs; c_bs] s = double_bs s.
Proof. apply str_replace_1. Qed.

(* removing CR then LF, or LF then CR: the hand model's order is the normal form *)
Lemma remove_char_comm (a b : char) (s : str) : remove_char a (remove_char b s) = remove_char b (remove_char a s).
Proof.
  unfold remove_char. induction s as [|x s IH]; [reflexivity|].
  cbn [filter]. destruct (negb (x =? b)) eqn:Eb, (negb (x =? a)) eqn:Ea; cbn [filter]; rewrite ?Ea, ?Eb, IH; reflexivity.
Qed.

Ltac to_hand_helpers :=
  unfold list_is_empty;
  change 34%N with c_quote in *; change 32%N with c_sp in *; change 92%N with c_bs in *;
  change 13%N with c_cr in *; change 10%N with c_lf in *;
  rewrite ?str_starts_with_hand, ?str_ends_with_hand, ?str_contains_hand,
          ?str_replace_remove_hand, ?str_replace_double_hand;
  rewrite ?(remove_char_comm c_cr c_lf).

(* every remaining test is an atom: decide the propositional skeleton by cases *)
Ltac bool_atoms :=
  repeat match goal with
         | |- context [starts_with ?c ?a] => let x := fresh "atom" in generalize (starts_with c a); intros x
         | |- context [ends_with ?c ?a] => let x := fresh "atom" in generalize (ends_with c a); intros x
         | |- context [has_chr ?c ?a] => let x := fresh "atom" in generalize (has_chr c a); intros x
         end;
  repeat match goal with x : bool |- _ => destruct x end.

Ltac app_norm := repeat first [ rewrite <- app_assoc | progress cbn [app] ].

(* ---- fn parse: the text assembly -------------------------------------------------------------------------- *)
Theorem gen_eval_line_body_eq : gen_eval_line_understood = true ->
  forall st argument, gen_eval_line_body st argument = st ++ (serialise_arg argument ++ [c_sp]).
Proof.
  unfold gen_eval_line_understood; intros U; try discriminate U. all: clear U.
  all: intros st argument; unfold gen_eval_line_body, serialise_arg, is_nil.
  all: to_hand_helpers.
  all: destruct argument as [|a0 argument'];
    [ cbn; app_norm; reflexivity | bool_atoms; cbn; app_norm; reflexivity ].
Qed.

Theorem gen_eval_line_eq : gen_eval_line_understood = true ->
  forall arguments, gen_eval_line arguments = serialise arguments.
Proof.
  intros U arguments.
  pose proof (fold_left_append (fun a => serialise_arg a ++ [c_sp]) gen_eval_line_body (gen_eval_line_body_eq U) arguments []) as L.
  revert U L.
  unfold gen_eval_line_understood; intros U; try discriminate U. all: clear U.
  all: intros L; unfold gen_eval_line, serialise, line_buffer.
  all: to_hand_helpers.
  all: cbn [app] in L; unfold str, char in *; rewrite ?L; reflexivity.
Qed.

(* ---- fn parse: parse_text, `instructions[0]`, the error arm ------------------------------------------------ *)
Theorem gen_eval_parse_ix_eq : gen_eval_parse_understood = true -> gen_eval_line_understood = true ->
  forall arguments, gen_eval_parse arguments = eval_parse_ix arguments.
Proof.
  intros U UL arguments. pose proof (gen_eval_line_eq UL arguments) as L. revert U L. clear UL.
  unfold gen_eval_parse_understood; intros U; try discriminate U. all: clear U.
  all: intros L; unfold gen_eval_parse, eval_parse_ix; rewrite ?L.
  all: destruct (ParserIx.parse_text (serialise arguments)) as [instructions|e l s|]; try reflexivity.
  all: destruct instructions as [|i instructions']; reflexivity.
Qed.

Theorem gen_eval_parse_eq : gen_eval_parse_understood = true -> gen_eval_line_understood = true ->
  forall arguments, gen_eval_parse arguments = eval_parse arguments.
Proof. intros U UL arguments. rewrite (gen_eval_parse_ix_eq U UL). apply eval_parse_ix_refines. Qed.

(* ---- fn eval_instructions ------------------------------------------------------------------------------- *)
Definition ei_state (cstate : Type) : Type :=
  (nat * option str * option Runner.result * Runner.world cstate * list Runner.call)%type.
(* the loop state without the line counter, as the hand model's result record *)
Definition ei_out {cstate : Type} (st : ei_state cstate) : SdkErr.eval_out cstate :=
  let '(_, flow_output, flow_result, w, calls) := st in SdkErr.EO cstate flow_result flow_output w calls.

Ltac inner_scrut x :=
  lazymatch x with
  | context [match ?y with _ => _ end] => inner_scrut y
  | negb ?y => inner_scrut y
  | andb ?y _ => inner_scrut y
  | orb ?y _ => inner_scrut y
  | _ => x
  end.
Ltac tie_step :=
  match goal with
  | |- context [match ?x with _ => _ end] => let y := inner_scrut x in destruct y eqn:?
  | |- context [negb ?x] => let y := inner_scrut x in destruct y eqn:?
  | |- context [andb ?x _] => let y := inner_scrut x in destruct y eqn:?
  | |- context [orb ?x _] => let y := inner_scrut x in destruct y eqn:?
  end.
(* a bounds test that contradicts the outcome of the index operation it guards *)
Ltac bounds_contra :=
  exfalso;
  repeat match goal with
         | H : Nat.ltb _ _ = true |- _ => apply Nat.ltb_lt in H
         | H : Nat.ltb _ _ = false |- _ => apply Nat.ltb_ge in H
         | H : Nat.leb _ _ = true |- _ => apply Nat.leb_le in H
         | H : Nat.leb _ _ = false |- _ => apply Nat.leb_gt in H
         | H : Nat.eqb _ _ = true |- _ => apply Nat.eqb_eq in H
         | H : Nat.eqb _ _ = false |- _ => apply Nat.eqb_neq in H
         | H : nth_error _ _ = None |- _ => apply nth_error_None in H
         | H : nth_error ?l ?n = Some _ |- _ =>
             assert (n < length l)%nat by (apply nth_error_Some; congruence); clear H
         end;
  lia.

Lemma gen_eval_instructions_loop : gen_eval_instructions_understood = true ->
  forall cstate exists_cmd cmd body fuel line w flow_output calls,
    ires_map ei_out (loop_fuel (gen_eval_instructions_step cstate exists_cmd cmd body) fuel (line, flow_output, None, w, calls))
    = match SdkErr.eval_instructions cstate exists_cmd cmd fuel body line w flow_output calls with
      | Some o => IOk o
      | None => IErr EFuel
      end.
Proof.
  unfold gen_eval_instructions_understood; intros U; try discriminate U. all: clear U.
  all: intros cstate exists_cmd cmd body fuel; induction fuel as [|fuel IH]; intros line w flow_output calls; [reflexivity|].
  all: cbn [loop_fuel SdkErr.eval_instructions]; unfold gen_eval_instructions_step.
  all: rewrite lookup_nth_error; unfold vars_insert, vars_remove, SdkErr.msg_goto_label.
  all: cbn beta iota zeta.
  all: repeat (first [ rewrite IH | tie_step ]; cbn beta iota zeta; cbn [ires_map ei_out Runner.update_output];
               try discriminate; try congruence; try bounds_contra).
  all: try reflexivity.
Qed.

(* the generated step never takes its panic arm: `instructions[line]` stands under `instructions.len() > line` *)
Theorem gen_eval_instructions_step_no_panic : gen_eval_instructions_understood = true ->
  forall cstate exists_cmd cmd body st,
    gen_eval_instructions_step cstate exists_cmd cmd body st <> SPanic /\
    forall e, gen_eval_instructions_step cstate exists_cmd cmd body st <> SFail e.
Proof.
  unfold gen_eval_instructions_understood; intros U; try discriminate U. all: clear U.
  all: intros cstate exists_cmd cmd body [[[[line flow_output] flow_result] w] calls]; unfold gen_eval_instructions_step.
  all: cbn beta iota zeta.
  all: split; [|intros e];
    repeat (tie_step; cbn beta iota zeta; try discriminate; try bounds_contra).
Qed.

Theorem gen_eval_instructions_eq : gen_eval_instructions_understood = true ->
  forall cstate exists_cmd cmd fuel body start_line w calls,
    gen_eval_instructions cstate exists_cmd cmd fuel body start_line w calls
    = match SdkErr.eval_instructions cstate exists_cmd cmd fuel body start_line w None calls with
      | Some o => IOk (SdkErr.eo_result cstate o, SdkErr.eo_output cstate o, SdkErr.eo_w cstate o, SdkErr.eo_calls cstate o)
      | None => IErr EFuel
      end.
Proof.
  intros U cstate exists_cmd cmd fuel body start_line w calls.
  pose proof (gen_eval_instructions_loop U cstate exists_cmd cmd body fuel start_line w None calls) as L. revert U L.
  unfold gen_eval_instructions_understood; intros U; try discriminate U. all: clear U.
  all: intros L; unfold gen_eval_instructions.
  all: destruct (loop_fuel _ _ _) as [[[[[l fo] fr] w'] c']|e|];
    destruct (SdkErr.eval_instructions cstate exists_cmd cmd fuel body start_line w None calls) as [o|];
    cbn in L; try discriminate L; try (injection L as <-); try (injection L as ->); reflexivity.
Qed.
