(* RunnerBindSpec.v — the abstract machine of C03 for the runner WITH argument binding (definitions
   only).  It is RunnerSpec.v rule by rule with ONE change: a script instruction invokes its
   command with the BOUND arguments [bnd (variables at that moment) (written arguments)]
   ([invokes_b]).  The on_error hand-over is RunnerSpec.handled unchanged: the handler receives
   (message, source line, source file) as they are.  Everything else (label table, halt poll,
   storing of results, exit codes) is shared with RunnerSpec.v by reference, not by copy.
   RunnerBindProof.spec_step_b_id shows that with the identity binder this is RunnerSpec.spec_step. *)
From stdpp Require Import gmap.
Require Import DS.Base DS.Runner DS.RunnerSpec.
Local Open Scope nat_scope.

Section SpecB.
Variable cstate : Type.
Variable exists_cmd : cstate -> str -> bool.
Variable cmd : str -> inv -> world cstate -> result * world cstate.
Variable ext : nat -> bool.
Variable bnd : vmap -> list str -> list str.
Variable prog : program.

Notation world := (world cstate).
Notation config := (config cstate).
Notation final := (final cstate).

(* the instruction at the current line names a registered command, which is invoked with the
   instruction's arguments BOUND AGAINST THE CURRENT VARIABLES, its output variable name and line
   index, and answers [r] *)
Definition invokes_b (c : config) (i : instr) (s : sinstr) (k : call) (r : result) (w' : world) : Prop :=
  at_instr cstate ext prog c i /\ i_type i = IScript s /\
  exists name, s_cmd s = Some name /\ exists_cmd (cst (wd c)) name = true /\
               k = Call name (Inv (bnd (vars (wd c)) (s_args s)) (s_out s) (pc c)) /\
               cmd name (c_inv k) (wd c) = (r, w').

Inductive spec_step_b (c : config) : config + final * list event -> Prop :=
(* the flag is looked at before anything else; a halted run succeeds with the context as it is *)
| B_halted :
    halt (wd c) = true \/ ext (polls c) = true ->
    spec_step_b c (inr (FOk Halted (wd c), trace c))
(* running past the last line (also by a jump) ends the run successfully *)
| B_end :
    halt (wd c) = false -> ext (polls c) = false -> length prog <= pc c ->
    spec_step_b c (inr (FOk ReachedEnd (wd c), trace c))
(* empty and pre-processor lines do nothing *)
| B_blank i :
    at_instr cstate ext prog c i -> i_type i = IEmpty \/ i_type i = IPre ->
    spec_step_b c (inl (moves cstate c (S (pc c)) (wd c) []))
(* a script line without a command behaves as a continue without value *)
| B_nocmd i s :
    at_instr cstate ext prog c i -> i_type i = IScript s -> s_cmd s = None ->
    spec_step_b c (inl (moves cstate c (S (pc c)) (assign cstate (wd c) (s_out s) None) []))
(* an unknown command stops the run with an error naming the instruction's source line *)
| B_unknown i s name :
    at_instr cstate ext prog c i -> i_type i = IScript s -> s_cmd s = Some name ->
    exists_cmd (cst (wd c)) name = false ->
    spec_step_b c (inr (FErr (RCrash (NotFound name)) (i_meta i), logged cstate c []))
(* continue: store or delete the output variable, next line *)
| B_continue i s k o w' :
    invokes_b c i s k (Continue o) w' ->
    spec_step_b c (inl (moves cstate c (S (pc c)) (assign cstate w' (s_out s) o) [k]))
(* goto label: the last line carrying it *)
| B_goto_label i s k o l w' n :
    invokes_b c i s k (GoTo o (GLabel l)) w' -> last_label prog l n ->
    spec_step_b c (inl (moves cstate c n (assign cstate w' (s_out s) o) [k]))
(* goto an unknown label stops the run with an error naming the instruction's source line *)
| B_goto_nolabel i s k o l w' :
    invokes_b c i s k (GoTo o (GLabel l)) w' -> no_label prog l ->
    spec_step_b c (inr (FErr (RLabel l) (i_meta i), logged cstate c [k]))
(* goto line: any line number, in range or not *)
| B_goto_line i s k o n w' :
    invokes_b c i s k (GoTo o (GLine n)) w' ->
    spec_step_b c (inl (moves cstate c n (assign cstate w' (s_out s) o) [k]))
(* exit stops the run; the value is stored *)
| B_exit i s k o w' :
    invokes_b c i s k (Exit o) w' ->
    (forall v z, o = Some v -> parse_i32 v = Some z -> z = 0%Z) ->
    spec_step_b c (inr (FOk ExitCalled (assign cstate w' (s_out s) o), logged cstate c [k]))
(* ... an integer non-zero exit value makes the run fail *)
| B_exit_code i s k v z w' :
    invokes_b c i s k (Exit (Some v)) w' -> parse_i32 v = Some z -> z <> 0%Z ->
    spec_step_b c (inr (FErr (RExitCode z) (i_meta i), logged cstate c [k]))
(* error: store "false", report (message, source line, source file) to on_error if there is one,
   continue with the next line *)
| B_error i s k e w' h w'' ks :
    invokes_b c i s k (Error e) w' ->
    handled cstate exists_cmd cmd (assign cstate w' (s_out s) (Some false_str)) e (i_meta i) h w'' ks -> survives h ->
    spec_step_b c (inl (moves cstate c (S (pc c)) w'' (k :: ks)))
(* ... unless the handler exits *)
| B_error_exit i s k e w' o w'' ks :
    invokes_b c i s k (Error e) w' ->
    handled cstate exists_cmd cmd (assign cstate w' (s_out s) (Some false_str)) e (i_meta i) (Some (Exit o)) w'' ks ->
    spec_step_b c (inr (FErr RHandlerExit (i_meta i), logged cstate c (k :: ks)))
(* ... or crashes *)
| B_error_crash i s k e w' e' w'' ks :
    invokes_b c i s k (Error e) w' ->
    handled cstate exists_cmd cmd (assign cstate w' (s_out s) (Some false_str)) e (i_meta i) (Some (Crash e')) w'' ks ->
    spec_step_b c (inr (FErr (RHandlerCrash e') (i_meta i), logged cstate c (k :: ks)))
(* crash stops the run with an error naming the instruction's source line *)
| B_crash i s k e w' :
    invokes_b c i s k (Crash e) w' ->
    spec_step_b c (inr (FErr (RCrash e) (i_meta i), logged cstate c [k])).

(* a run: steps until a final answer *)
Inductive spec_run_b (c : config) : final -> list event -> Prop :=
| BR_final f t : spec_step_b c (inr (f, t)) -> spec_run_b c f t
| BR_more c' f t : spec_step_b c (inl c') -> spec_run_b c' f t -> spec_run_b c f t.

(* running a whole program from the embedder's context *)
Definition spec_program_b (w : world) (f : final) (t : list event) : Prop := spec_run_b (init w) f t.

End SpecB.
