(* FlowFnReach.v — the bounded reachability computation of [known_f6] ([reach], fuel = number of
   definitions) is complete for the call graph: whatever is reachable through calls (the inductive
   relation [Reach] of FlowFnRec.v) is found.  Shortest call paths have no repeated caller, and
   all callers are defined functions, so their length is bounded by the number of definitions. *)
Require Import DS.Base DS.FlowTables DS.Flow DS.FlowFn DS.FlowFnTree DS.FlowFnDom DS.FlowFnScan DS.FlowFnSim
  DS.FlowFnSites DS.FlowFnRec.
From Coq Require ListDec.
Open Scope nat_scope.

Lemma find_def_In f ds : forall d, find_def f ds = Some d -> In d ds.
Proof.
  induction ds as [|d0 r IH]; intros d H; cbn in H; [discriminate|].
  destruct (str_eqb f (fd_name d0)); [inversion H; now left|right; auto].
Qed.

Lemma dup_split (l : list str) : ~ NoDup l -> exists a l1 l2 l3, l = l1 ++ a :: l2 ++ a :: l3.
Proof.
  induction l as [|a t IH]; intros H; [exfalso; apply H; constructor|].
  destruct (str_in a t) eqn:E.
  - apply str_in_spec in E. apply in_split in E. destruct E as (l2 & l3 & ->).
    exists a, [], l2, l3. reflexivity.
  - assert (Hn : ~ In a t) by (intros Hc; apply str_in_spec in Hc; congruence).
    assert (Ht : ~ NoDup t) by (intros Hc; apply H; constructor; auto).
    destruct (IH Ht) as (b & l1 & l2 & l3 & ->). exists b, (a :: l1), l2, l3. reflexivity.
Qed.

Lemma existsb_false {A} (f : A -> bool) l : existsb f l = false -> forall x, In x l -> f x = false.
Proof.
  intros H x Hx. destruct (f x) eqn:E; [|reflexivity].
  assert (existsb f l = true) by (apply existsb_exists; eauto). congruence.
Qed.

Section Paths.
Variable pr : prog.
Let ds := p_defs pr.

(* [l]: the callers along the path, in order (the first one is f) *)
Fixpoint path (f : str) (l : list str) (h : str) : Prop :=
  match l with
  | [] => f = h
  | x :: l' => x = f /\ exists f', calls_rel pr f f' /\ path f' l' h
  end.

Lemma reach_path f h : Reach pr f h -> exists l, path f l h.
Proof.
  induction 1 as [f|f f' h Hc _ (l & IH)].
  - exists []. reflexivity.
  - exists (f :: l). cbn. eauto.
Qed.

Lemma path_split l1 : forall f a l2 h, path f (l1 ++ a :: l2) h -> path f l1 a /\ path a (a :: l2) h.
Proof.
  induction l1 as [|x l1 IH]; intros f a l2 h H; cbn [app] in H.
  - destruct H as (-> & H). split; [reflexivity|]. cbn. auto.
  - destruct H as (-> & f' & Hc & H). destruct (IH _ _ _ _ H) as (H1 & H2).
    split; [|exact H2]. cbn. eauto.
Qed.
Lemma path_join l1 : forall f a l2 h, path f l1 a -> path a l2 h -> path f (l1 ++ l2) h.
Proof.
  induction l1 as [|x l1 IH]; intros f a l2 h H1 H2; cbn in H1.
  - now subst.
  - destruct H1 as (-> & f' & Hc & H1). cbn. split; [reflexivity|]. exists f'. split; [exact Hc|]. eapply IH; eauto.
Qed.
Lemma path_callers f l h : path f l h -> forall x, In x l -> In x (map fd_name ds).
Proof.
  revert f. induction l as [|y l IH]; intros f H x Hx; [contradiction|].
  destruct H as (-> & f' & (d & Hd & _) & H). destruct Hx as [<-|Hx]; [|eauto].
  rewrite <- (find_def_name _ _ _ Hd). apply in_map. eapply find_def_In; eauto.
Qed.

Lemma path_short : forall n f l h, length l <= n -> path f l h ->
  exists l', path f l' h /\ length l' <= length ds.
Proof.
  induction n as [|n IH]; intros f l h Hl H.
  - destruct l; [|cbn in Hl; lia]. exists []. split; [exact H|cbn; lia].
  - destruct (ListDec.NoDup_dec (fun a b => Bool.reflect_dec _ _ (str_eqb_spec a b)) l) as [Hnd|Hd].
    + exists l. split; [exact H|]. rewrite <- (map_length fd_name ds).
      apply NoDup_incl_length; [exact Hnd|]. intros x Hx. eapply path_callers; eauto.
    + destruct (dup_split l Hd) as (a & l1 & l2 & l3 & ->).
      destruct (path_split _ _ _ _ _ H) as (H1 & H2).
      change (a :: l2 ++ a :: l3) with ((a :: l2) ++ a :: l3) in H2.
      destruct (path_split _ _ _ _ _ H2) as (_ & H3).
      apply (IH f (l1 ++ a :: l3) h).
      * rewrite !app_length in *. cbn [length] in *. rewrite app_length in Hl. cbn [length] in Hl. lia.
      * eapply path_join; eauto.
Qed.

Lemma reach_incl : forall n fs, incl fs (reach n ds fs).
Proof.
  induction n as [|n IH]; intros fs; cbn [reach]; [apply incl_refl|].
  eapply incl_tran; [|apply IH]. apply incl_appl. apply incl_refl.
Qed.
Lemma reach_path_in : forall n fs f l h, In f fs -> path f l h -> length l <= n -> In h (reach n ds fs).
Proof.
  induction n as [|n IH]; intros fs f l h Hf H Hl.
  - destruct l; [|cbn in Hl; lia]. cbn in H. subst. exact Hf.
  - destruct l as [|x l].
    + cbn in H. subst. apply reach_incl. exact Hf.
    + destruct H as (-> & f' & (d & Hd & Hin) & H). cbn [reach].
      apply (IH _ f' l h); [|exact H|cbn in Hl; lia].
      apply in_or_app. right. apply in_flat_map. exists f. split; [exact Hf|]. fold ds in Hd. rewrite Hd. exact Hin.
Qed.

Theorem reach_complete fs f h : In f fs -> Reach pr f h -> In h (reach (length ds) ds fs).
Proof.
  intros Hf Hr. destruct (reach_path f h Hr) as (l & Hl).
  destruct (path_short (length l) f l h (le_n _) Hl) as (l' & Hl' & Hlen).
  eapply reach_path_in; eauto.
Qed.
End Paths.
