(* Parser.v — model of duckscript/src/parser.rs (definitions only; proofs live elsewhere).

   "Suffix style": every scanner takes the remaining characters and returns the remaining
   characters, where the Rust code takes and returns an index into the line.  The Rust flags of
   parse_next_value (in_argument, using_quotes, in_control, found_variable_prefix, found_end) are
   kept: [skip] is the state in_argument = false, [in_arg] the state in_argument = true with
   using_quotes / in_control / found_variable_prefix as arguments; found_end is the POk return.
   `index -= 1` on a terminating ' ' or '=' is "the returned suffix still starts with it";
   `index = end_index` on '#' is "the returned suffix is empty".  When control_as_char is set (the
   re-parse of a spread value) '#' is an ordinary character (fix of finding KF-C02-2). *)
Require Import DS.Base.

Inductive perr :=
| EControlWithoutValidValue | EInvalidControlLocation | EMissingEndQuotes | EInvalidQuotesLocation
| EEmptyLabel | EPreProcessNoCommandFound | EUnknownPreProcessorCommand
| EMissingOutputVariableName | EInvalidEqualsLocation
| EReadFile            (* ErrorReadingFile, only produced by an include handler *)
| EFuel.               (* out of fuel: never produced for fuel >= S (length line), see ParserFacts *)

Inductive pres (A : Type) := POk (a : A) | PErr (e : perr).
Arguments POk {A}. Arguments PErr {A}.

Record flags := { allow_quotes : bool; allow_control : bool; stop_on_equals : bool; control_as_char : bool }.

(* the four flag combinations the parser uses *)
Definition fl_arg   := {| allow_quotes := true;  allow_control := true;  stop_on_equals := false; control_as_char := false |}.
Definition fl_rearg := {| allow_quotes := true;  allow_control := false; stop_on_equals := false; control_as_char := true  |}.
Definition fl_name  := {| allow_quotes := false; allow_control := false; stop_on_equals := false; control_as_char := false |}.
Definition fl_out   := {| allow_quotes := false; allow_control := false; stop_on_equals := true;  control_as_char := false |}.

(* end of the scan: `argument.is_empty()` -> Some("") only when quoted *)
Definition finish (acc : str) (uq : bool) : option str :=
  match acc with [] => if uq then Some [] else None | _ => Some (rev acc) end.

(* in_argument = true.  [acc] is the argument so far, reversed. *)
Fixpoint in_arg (fl : flags) (l : str) (acc : str) (uq ic fvp : bool) {struct l} : pres (str * option str) :=
  match l with
  | [] => if ic then PErr EControlWithoutValidValue
          else if uq then PErr EMissingEndQuotes
          else POk ([], finish acc false)
  | c :: l' =>
    if ic then
      if fvp then
        if c =? c_lbrace then in_arg fl l' (c_lbrace :: c_dollar :: c_bs :: acc) uq false false
        else PErr EControlWithoutValidValue
      else if (c =? c_bs) || (c =? c_quote) then in_arg fl l' (c :: acc) uq false false
      else if c =? c_n then in_arg fl l' (c_lf :: acc) uq false false
      else if c =? c_r then in_arg fl l' (c_cr :: acc) uq false false
      else if c =? c_t then in_arg fl l' (c_tab :: acc) uq false false
      else if c =? c_dollar then in_arg fl l' acc uq true true
      else PErr EControlWithoutValidValue
    else if c =? c_bs then
      if control_as_char fl then in_arg fl l' (c :: acc) uq false false
      else if allow_control fl then in_arg fl l' acc uq true false
      else PErr EInvalidControlLocation
    else if uq && (c =? c_quote) then POk (l', finish acc true)
    else if negb uq && ((c =? c_sp) || ((c =? c_hash) && negb (control_as_char fl)) || (stop_on_equals fl && (c =? c_eq))) then
      POk ((if c =? c_hash then [] else c :: l'), finish acc false)
    else in_arg fl l' (c :: acc) uq false false
  end.

(* in_argument = false: skipping separators *)
Fixpoint skip (fl : flags) (l : str) {struct l} : pres (str * option str) :=
  match l with
  | [] => POk ([], None)
  | c :: l' =>
    if (c =? c_hash) && negb (control_as_char fl) then POk ([], None)
    else if c =? c_sp then skip fl l'
    else if c =? c_quote then
      if allow_quotes fl then in_arg fl l' [] true false false else PErr EInvalidQuotesLocation
    else if c =? c_bs then
      if control_as_char fl then in_arg fl l' [c] false false false
      else if allow_control fl then in_arg fl l' [] false true false
      else PErr EInvalidControlLocation
    else in_arg fl l' [c] false false false
  end.

Definition parse_next_value (fl : flags) (l : str) : pres (str * option str) := skip fl l.

(* parse_arguments_with_options: repeat parse_next_value until it yields None.
   Fuel: each successful value consumes at least one character (ParserFacts.pnv_shrinks). *)
Fixpoint parse_args_fuel (fuel : nat) (fl : flags) (l : str) : pres (list str) :=
  match fuel with
  | O => PErr EFuel
  | S f =>
    match parse_next_value fl l with
    | PErr e => PErr e
    | POk (_, None) => POk []
    | POk (rest, Some a) =>
      match parse_args_fuel f fl rest with
      | PErr e => PErr e
      | POk args => POk (a :: args)
      end
    end
  end.

Definition opt_list {A} (l : list A) : option (list A) := match l with [] => None | _ => Some l end.

Definition parse_arguments_with (fl : flags) (l : str) : pres (option (list str)) :=
  match parse_args_fuel (S (length l)) fl l with
  | PErr e => PErr e
  | POk args => POk (opt_list args)
  end.
Definition parse_arguments := parse_arguments_with fl_arg.
Definition reparse_arguments := parse_arguments_with fl_rearg.

(* find_label *)
Fixpoint find_label (l : str) : pres (str * option str) :=
  match l with
  | [] => POk ([], None)
  | c :: l' =>
    if c =? c_colon then
      match parse_next_value fl_name l' with
      | PErr e => PErr e
      | POk (rest, Some v) =>
        match v with [] => PErr EEmptyLabel | _ => POk (rest, Some (c_colon :: v)) end
      | POk (rest, None) => POk (rest, None)
      end
    else if c =? c_sp then find_label l'
    else POk (l, None)
  end.

(* the loop of find_output_and_command that looks at the first non-space character *)
Fixpoint after_equals (l : str) : option str :=
  match l with
  | [] => None
  | c :: l' => if c =? c_sp then after_equals l' else if c =? c_eq then Some l' else None
  end.

(* returns (rest, output, command) *)
Definition find_output_and_command (l : str) : pres (str * option str * option str) :=
  match parse_next_value fl_out l with
  | PErr e => PErr e
  | POk (rest, None) => POk (rest, None, None)
  | POk (rest, Some v) =>
    match after_equals rest with
    | Some after =>
      match parse_next_value fl_name after with
      | PErr e => PErr e
      | POk (_, None) => POk (after, Some v, None)
      | POk (rest2, Some cmd) => POk (rest2, Some v, Some cmd)
      end
    | None => POk (rest, None, Some v)
    end
  end.

Inductive itype :=
| IEmpty
| IPre (command : option str) (args : option (list str))
| IScript (label output command : option str) (args : option (list str)).

Definition parse_command_line (l : str) : pres itype :=
  match l with
  | [] => POk IEmpty
  | _ =>
    match find_label l with
    | PErr e => PErr e
    | POk (r1, label) =>
      match find_output_and_command r1 with
      | PErr e => PErr e
      | POk (r2, output, command) =>
        match parse_arguments r2 with
        | PErr e => PErr e
        | POk args =>
          match label, output, command with
          | None, None, None => POk IEmpty
          | _, _, _ => POk (IScript label output command args)
          end
        end
      end
    end
  end.

(* the command word of a pre-processor line: skip leading spaces, read up to the next space *)
Fixpoint pp_command (l : str) (acc : str) : str * str :=
  match l with
  | [] => (rev acc, [])
  | c :: l' =>
    if c =? c_sp then match acc with [] => pp_command l' acc | _ => (rev acc, l') end
    else pp_command l' (c :: acc)
  end.

(* [l] is the line after the leading '!' *)
Definition parse_pre_process_line (l : str) : pres itype :=
  let '(cmd, rest) := pp_command l [] in
  match cmd with
  | [] => PErr EPreProcessNoCommandFound
  | _ => match parse_arguments rest with
         | PErr e => PErr e
         | POk args => POk (IPre (Some cmd) args)
         end
  end.

Definition parse_line (s : str) : pres itype :=
  match trim s with
  | [] => POk IEmpty
  | c :: t' =>
    if c =? c_hash then POk IEmpty
    else if c =? c_bang then parse_pre_process_line t'
    else parse_command_line (c :: t')
  end.

(* str::lines of the installed std: split after every LF, strip that LF and then one CR; an
   unterminated last line is returned as is; nothing is produced after a final LF *)
Definition strip_cr (rl : str) : str :=   (* rl is reversed *)
  match rl with c :: r => if c =? c_cr then rev r else rev rl | [] => [] end.
Fixpoint lines_aux (s : str) (cur : str) : list str :=
  match s with
  | [] => match cur with [] => [] | _ => [rev cur] end
  | c :: s' => if c =? c_lf then strip_cr cur :: lines_aux s' [] else lines_aux s' (c :: cur)
  end.
Definition lines (s : str) : list str := lines_aux s [].

Record instr := { i_line : N; i_source : option str; i_type : itype }.

Inductive tres := TOk (is : list instr) | TErr (e : perr) (line : N) (source : option str).

Definition s_print : str := [112;114;105;110;116].
Definition s_include_files : str := [105;110;99;108;117;100;101;95;102;105;108;101;115].

Section ParseLines.
(* the include handler: given the directive's arguments and the source of the including text,
   returns the instructions of the listed files or the error raised while reading/parsing them.
   parse_text of a text without include directives never calls it. *)
Variable inc : list str -> option str -> tres.

Definition preprocess (src : option str) (ln : N) (t : itype) : tres :=
  match t with
  | IPre (Some cmd) args =>
    if str_eqb cmd s_print then TOk []
    else if str_eqb cmd s_include_files then
      match args with Some a => inc a src | None => TOk [] end
    else TErr EUnknownPreProcessorCommand ln src
  | IPre None _ => TErr EPreProcessNoCommandFound ln src
  | _ => TOk []
  end.

Fixpoint parse_lines_from (src : option str) (ln : N) (ls : list str) : tres :=
  match ls with
  | [] => TOk []
  | s :: ls' =>
    match parse_line s with
    | PErr e => TErr e ln src
    | POk t =>
      match preprocess src ln t with
      | TErr e l s' => TErr e l s'
      | TOk added =>
        match parse_lines_from src (ln + 1) ls' with
        | TErr e l s' => TErr e l s'
        | TOk rest => TOk ({| i_line := ln; i_source := src; i_type := t |} :: added ++ rest)
        end
      end
    end
  end.

Definition parse_text_src (src : option str) (text : str) : tres := parse_lines_from src 1 (lines text).
End ParseLines.

(* parse_text for texts whose include directives (if any) cannot be served: used by C01/C08,
   whose domains exclude include directives with arguments *)
Definition no_include : list str -> option str -> tres := fun _ src => TErr EReadFile 0 src.
Definition parse_text (text : str) : tres := parse_text_src no_include None text.
