(* FlowFnCTree.v — specification side for calls in condition position: the programs of
   FlowFnTree.v with conditions of type [fcond]; compilation; tree-walking interpreter.
   A condition `f a b` runs the body of f like a call without output variable and is truthy iff the
   call returns a truthy value (no value: falsy).  Definitions only.

   The property leaves one corner open: the output variable of a call made *under* a
   condition-position call to a function that ends without a value.  The interpreter carries a
   flag [em] ("under a condition-position call"); in that mode it follows the implementation (the
   output variable is not removed at call time); [corner_prog] says syntactically whether a program
   can reach the corner, and the check compares nothing on such programs. *)
Require Import DS.Base DS.Cond DS.FlowTables DS.Flow DS.FlowFn DS.FlowFnTree DS.FlowFnC.
Require Import DSG.GenFlowNames DSG.GenFnNames.

Inductive cstmt :=
| QCmd (p : prim)
| QIf (sp : str) (c : fcond) (b : cblock) (els : celses) (e : str)
| QWhile (sp : str) (c : fcond) (b : cblock) (e : str)
| QFor (sp : str) (x hv : str) (b : cblock) (e : str)
| QCall (out : option str) (f : str) (args : list carg)
| QReturn (sp : str) (a : option carg)
with cblock := QNil | QCons (s : cstmt) (b : cblock)
with celses :=
| ZNil
| ZElseIf (sp : str) (c : fcond) (b : cblock) (r : celses)
| ZElse (sp : str) (b : cblock).
Record cndef := mkCD { cd_sp : str; cd_scoped : bool; cd_name : str; cd_body : cblock; cd_end : str }.
Record cprog := mkCProg { cp_defs : list cndef; cp_main : cblock }.

(* an instruction with a condition: the C04 form when the condition is a base one *)
Definition ckw (sp : str) (c : fcond) : finstr :=
  match c with
  | FCBase c' => bkw sp (ACond c')
  | _ => fkw sp (FCondC c)
  end.
Fixpoint ks (s : cstmt) : list finstr :=
  match s with
  | QCmd p => [mkFI (prim_cmd p) (FBase (APrim p))]
  | QIf sp c b els e => ckw sp c :: kb b ++ ke els ++ [bkw e ANone]
  | QWhile sp c b e => ckw sp c :: kb b ++ [bkw e ANone]
  | QFor sp x hv b e => bkw sp (AFor x hv) :: kb b ++ [bkw e ANone]
  | QCall out f args => [fkw f (FCall out args)]
  | QReturn sp a => [fkw sp (FReturn a)]
  end
with kb (b : cblock) : list finstr :=
  match b with QNil => [] | QCons s b' => ks s ++ kb b' end
with ke (els : celses) : list finstr :=
  match els with
  | ZNil => []
  | ZElseIf sp c b r => ckw sp c :: kb b ++ ke r
  | ZElse sp b => bkw sp ANone :: kb b
  end.
Definition kdef (d : cndef) : list finstr :=
  fkw (cd_sp d) (FFn (cd_scoped d) (cd_name d)) :: kb (cd_body d) ++ [bkw (cd_end d) ANone].
Fixpoint kdefs (ds : list cndef) : list finstr :=
  match ds with [] => [] | d :: r => kdef d ++ kdefs r end.
Definition compile_cprog (p : cprog) : list finstr := kdefs (cp_defs p) ++ kb (cp_main p).

(* ---- programs without condition-position calls are programs of FlowFnTree.v ------------------ *)
Definition lower_c (c : fcond) : option cond := match c with FCBase c' => Some c' | _ => None end.
Fixpoint lower_s (s : cstmt) : option fstmt :=
  match s with
  | QCmd p => Some (GCmd p)
  | QIf sp c b els e =>
      match lower_c c, lower_b b, lower_e els with
      | Some c', Some b', Some els' => Some (GIf sp c' b' els' e) | _, _, _ => None end
  | QWhile sp c b e =>
      match lower_c c, lower_b b with Some c', Some b' => Some (GWhile sp c' b' e) | _, _ => None end
  | QFor sp x hv b e => match lower_b b with Some b' => Some (GFor sp x hv b' e) | None => None end
  | QCall out f args => Some (GCall out f args)
  | QReturn sp a => Some (GReturn sp a)
  end
with lower_b (b : cblock) : option fblock :=
  match b with
  | QNil => Some GNil
  | QCons s b' => match lower_s s, lower_b b' with Some s', Some b'' => Some (GCons s' b'') | _, _ => None end
  end
with lower_e (els : celses) : option felses :=
  match els with
  | ZNil => Some HNil
  | ZElseIf sp c b r =>
      match lower_c c, lower_b b, lower_e r with
      | Some c', Some b', Some r' => Some (HElseIf sp c' b' r') | _, _, _ => None end
  | ZElse sp b => match lower_b b with Some b' => Some (HElse sp b') | None => None end
  end.
Fixpoint lower_defs (ds : list cndef) : option (list fndef) :=
  match ds with
  | [] => Some []
  | d :: r => match lower_b (cd_body d), lower_defs r with
              | Some b, Some r' => Some (mkFD (cd_sp d) (cd_scoped d) (cd_name d) b (cd_end d) :: r')
              | _, _ => None
              end
  end.
Definition lower_prog (p : cprog) : option prog :=
  match lower_defs (cp_defs p), lower_b (cp_main p) with
  | Some ds, Some m => Some (mkProg ds m)
  | _, _ => None
  end.

(* ---- syntactic predicates ------------------------------------------------------------------------ *)
Fixpoint cond_calls (c : fcond) : list str :=
  match c with FCBase _ => [] | FCCall f _ => [f] | FCNot c' => cond_calls c' end.
Fixpoint cond_ok (names : list str) (c : fcond) : bool :=
  match c with
  | FCBase _ => true
  | FCCall f args => str_in f names && (length args <=? 9)%nat
  | FCNot c' => cond_ok names c'
  end.
Fixpoint wks (names : list str) (infn : bool) (s : cstmt) : bool :=
  match s with
  | QCmd _ => true
  | QIf sp c b els e => str_in sp (openers CkIf) && str_in e (closers CkIf) && cond_ok names c &&
                        wkb names infn b && wke names infn els
  | QWhile sp c b e => str_in sp (openers CkWhile) && str_in e (closers CkWhile) && cond_ok names c &&
                       wkb names infn b
  | QFor sp _ _ b e => str_in sp (openers CkFor) && str_in e (closers CkFor) && wkb names infn b
  | QCall _ f args => str_in f names && (length args <=? 9)%nat
  | QReturn sp _ => infn && str_in sp n_return
  end
with wkb (names : list str) (infn : bool) (b : cblock) : bool :=
  match b with QNil => true | QCons s b' => wks names infn s && wkb names infn b' end
with wke (names : list str) (infn : bool) (els : celses) : bool :=
  match els with
  | ZNil => true
  | ZElseIf sp c b r => str_in sp n_elseif && cond_ok names c && wkb names infn b && wke names infn r
  | ZElse sp b => str_in sp n_else && wkb names infn b
  end.
Definition wf_cdef (names : list str) (d : cndef) : bool :=
  str_in (cd_sp d) n_function && str_in (cd_end d) fn_closers && negb (reserved (cd_name d)) &&
  wkb names true (cd_body d).
Definition wf_cprog (p : cprog) : bool :=
  let names := map cd_name (cp_defs p) in
  distinct names && forallb (wf_cdef names) (cp_defs p) && wkb names false (cp_main p).

(* calls (statement and condition position), returns, for-in bodies: as in FlowFnTree.v *)
Fixpoint kcalls_s (s : cstmt) : list str :=
  match s with
  | QCmd _ | QReturn _ _ => []
  | QIf _ c b els _ => cond_calls c ++ kcalls_b b ++ kcalls_e els
  | QWhile _ c b _ => cond_calls c ++ kcalls_b b
  | QFor _ _ _ b _ => kcalls_b b
  | QCall _ f _ => [f]
  end
with kcalls_b (b : cblock) : list str :=
  match b with QNil => [] | QCons s b' => kcalls_s s ++ kcalls_b b' end
with kcalls_e (els : celses) : list str :=
  match els with
  | ZNil => []
  | ZElseIf _ c b r => cond_calls c ++ kcalls_b b ++ kcalls_e r
  | ZElse _ b => kcalls_b b
  end.
Fixpoint khas_return_s (s : cstmt) : bool :=
  match s with
  | QCmd _ | QCall _ _ _ => false
  | QReturn _ _ => true
  | QIf _ _ b els _ => khas_return_b b || khas_return_e els
  | QWhile _ _ b _ => khas_return_b b
  | QFor _ _ _ b _ => khas_return_b b
  end
with khas_return_b (b : cblock) : bool :=
  match b with QNil => false | QCons s b' => khas_return_s s || khas_return_b b' end
with khas_return_e (els : celses) : bool :=
  match els with
  | ZNil => false
  | ZElseIf _ _ b r => khas_return_b b || khas_return_e r
  | ZElse _ b => khas_return_b b
  end.
Fixpoint kfor_bodies_s (s : cstmt) : list cblock :=
  match s with
  | QCmd _ | QCall _ _ _ | QReturn _ _ => []
  | QIf _ _ b els _ => kfor_bodies_b b ++ kfor_bodies_e els
  | QWhile _ _ b _ => kfor_bodies_b b
  | QFor _ _ _ b _ => b :: kfor_bodies_b b
  end
with kfor_bodies_b (b : cblock) : list cblock :=
  match b with QNil => [] | QCons s b' => kfor_bodies_s s ++ kfor_bodies_b b' end
with kfor_bodies_e (els : celses) : list cblock :=
  match els with
  | ZNil => []
  | ZElseIf _ _ b r => kfor_bodies_b b ++ kfor_bodies_e r
  | ZElse _ b => kfor_bodies_b b
  end.
Fixpoint find_cdef (f : str) (ds : list cndef) : option cndef :=
  match ds with
  | [] => None
  | d :: r => if str_eqb f (cd_name d) then Some d else find_cdef f r
  end.
Fixpoint creach (fuel : nat) (ds : list cndef) (fs : list str) : list str :=
  match fuel with
  | O => fs
  | S k => creach k ds (fs ++ flat_map (fun f => match find_cdef f ds with
                                                 | Some d => kcalls_b (cd_body d)
                                                 | None => [] end) fs)
  end.
Definition cknown_f6 (p : cprog) : bool :=
  let ds := cp_defs p in
  existsb (fun d =>
    existsb khas_return_b (kfor_bodies_b (cd_body d)) ||
    existsb (fun body => str_in (cd_name d) (creach (length ds) ds (kcalls_b body)))
            (kfor_bodies_b (cd_body d))) ds.

(* the open corner: some function reachable from a condition-position call makes a call with an
   output variable to a function that may end without a value *)
Fixpoint all_conds_s (s : cstmt) : list fcond :=
  match s with
  | QIf _ c b els _ => c :: all_conds_b b ++ all_conds_e els
  | QWhile _ c b _ => c :: all_conds_b b
  | QFor _ _ _ b _ => all_conds_b b
  | _ => []
  end
with all_conds_b (b : cblock) : list fcond :=
  match b with QNil => [] | QCons s b' => all_conds_s s ++ all_conds_b b' end
with all_conds_e (els : celses) : list fcond :=
  match els with
  | ZNil => []
  | ZElseIf _ c b r => c :: all_conds_b b ++ all_conds_e r
  | ZElse _ b => all_conds_b b
  end.
Fixpoint out_calls_s (s : cstmt) : list str :=      (* callees of calls with an output variable *)
  match s with
  | QCall (Some _) f _ => [f]
  | QIf _ _ b els _ => out_calls_b b ++ out_calls_e els
  | QWhile _ _ b _ => out_calls_b b
  | QFor _ _ _ b _ => out_calls_b b
  | _ => []
  end
with out_calls_b (b : cblock) : list str :=
  match b with QNil => [] | QCons s b' => out_calls_s s ++ out_calls_b b' end
with out_calls_e (els : celses) : list str :=
  match els with
  | ZNil => []
  | ZElseIf _ _ b r => out_calls_b b ++ out_calls_e r
  | ZElse _ b => out_calls_b b
  end.
(* every path through the block ends with `return <value>` *)
Definition always_value_s (s : cstmt) : bool :=
  match s with
  | QReturn _ (Some _) => true
  | _ => false
  end.
Fixpoint bare_return_s (s : cstmt) : bool :=
  match s with
  | QReturn _ None => true
  | QIf _ _ b els _ => bare_return_b b || bare_return_e els
  | QWhile _ _ b _ => bare_return_b b
  | QFor _ _ _ b _ => bare_return_b b
  | _ => false
  end
with bare_return_b (b : cblock) : bool :=
  match b with QNil => false | QCons s b' => bare_return_s s || bare_return_b b' end
with bare_return_e (els : celses) : bool :=
  match els with
  | ZNil => false
  | ZElseIf _ _ b r => bare_return_b b || bare_return_e r
  | ZElse _ b => bare_return_b b
  end.
Fixpoint last_is_value (b : cblock) : bool :=
  match b with
  | QNil => false
  | QCons s QNil => always_value_s s
  | QCons _ b' => last_is_value b'
  end.
Definition may_end_without_value (d : cndef) : bool :=
  negb (last_is_value (cd_body d)) || bare_return_b (cd_body d).
Definition corner_prog (p : cprog) : bool :=
  let ds := cp_defs p in
  let conds := flat_map (fun d => all_conds_b (cd_body d)) ds ++ all_conds_b (cp_main p) in
  let under := creach (length ds) ds (flat_map cond_calls conds) in
  existsb (fun f => match find_cdef f ds with
                    | Some d => existsb (fun h => match find_cdef h ds with
                                                   | Some dh => may_end_without_value dh
                                                   | None => false end)
                                        (out_calls_b (cd_body d))
                    | None => false end) under.
Definition has_cond_calls (p : cprog) : bool :=
  let conds := flat_map (fun d => all_conds_b (cd_body d)) (cp_defs p) ++ all_conds_b (cp_main p) in
  existsb (fun c => match cond_calls c with [] => false | _ => true end) conds.

(* ---- the tree-walking interpreter ------------------------------------------------------------------ *)
Section Interp.
Variable ds : list cndef.

(* [em]: under a condition-position call (output variables are not removed at call time) *)
Fixpoint xs (n : nat) (em : bool) (s : cstmt) (w : world) {struct n} : fres :=
  match n with
  | O => FFuel
  | S n' =>
    match s with
    | QCmd p => match exec_prim p w with Some w' => FOk w' | None => FErr end
    | QIf _ c b els _ =>
        match xc n' c w with
        | Some (v, w1) => if v then xb n' em b w1 else xe n' em els w1
        | None => FErr
        end
    | QWhile _ c b _ =>
        match xc n' c w with
        | Some (v, w1) =>
          if v then match xb n' em b w1 with FOk w2 => xs n' em s w2 | r => r end
          else FOk w1
        | None => FErr
        end
    | QFor _ x hv b _ => xfor n' em x hv b 0 w
    | QReturn _ a => FRet (option_map (fun x => arg_val x w) a) w
    | QCall out f args =>
        match xcall n' em out f args w with
        | Some (_, w') => FOk w'
        | None => FErr
        end
    end
  end
with xb (n : nat) (em : bool) (b : cblock) (w : world) {struct n} : fres :=
  match n with
  | O => FFuel
  | S n' =>
    match b with
    | QNil => FOk w
    | QCons s b' => match xs n' em s w with FOk w1 => xb n' em b' w1 | r => r end
    end
  end
with xe (n : nat) (em : bool) (els : celses) (w : world) {struct n} : fres :=
  match n with
  | O => FFuel
  | S n' =>
    match els with
    | ZNil => FOk w
    | ZElseIf _ c b r =>
        match xc n' c w with
        | Some (v, w1) => if v then xb n' em b w1 else xe n' em r w1
        | None => FErr
        end
    | ZElse _ b => xb n' em b w
    end
  end
with xfor (n : nat) (em : bool) (x hv : str) (b : cblock) (i : nat) (w : world) {struct n} : fres :=
  match n with
  | O => FFuel
  | S n' =>
    match get_next_iteration i (vval hv w) w with
    | None => FOk w
    | Some v => match xb n' em b (vset x v w) with
                | FOk w2 => xfor n' em x hv b (S i) w2
                | r => r
                end
    end
  end
(* a call: the returned value (if any) and the world after it; None = error or out of fuel *)
with xcall (n : nat) (em : bool) (out : option str) (f : str) (args : list carg) (w : world) {struct n}
  : option (option str * world) :=
  match n with
  | O => None
  | S n' =>
    match find_cdef f ds with
    | None => None
    | Some d =>
      let vals := map (fun a => arg_val a w) args in
      let saved := w_vars w in
      let w1 := if cd_scoped d then set_vars [] w else w in
      let w2 := bind_args 1 vals w1 in
      let w3 := if em then w2 else clear_out out w2 in
      match xb n' em (cd_body d) w3 with
      | FOk w4 => Some (None, if cd_scoped d then set_vars saved w4 else w4)
      | FRet v w4 =>
          let w5 := match out with
                    | Some o => match v with Some x => vset o x w4 | None => vunset o w4 end
                    | None => w4
                    end in
          Some (v, if cd_scoped d then set_vars (overlay saved out w5) w5 else w5)
      | _ => None
      end
    end
  end
with xc (n : nat) (c : fcond) (w : world) {struct n} : option (bool * world) :=
  match n with
  | O => None
  | S n' =>
    match c with
    | FCBase c' => Some (eval_cond c' w)
    | FCNot c' => match xc n' c' w with Some (b, w') => Some (negb b, w') | None => None end
    | FCCall f args =>
        match xcall n' true None f args w with
        | Some (v, w') => Some (is_true v, w')
        | None => None
        end
    end
  end.
End Interp.
Definition cprog_run (n : nat) (p : cprog) (w : world) : fres := xb (cp_defs p) n false (cp_main p) w.
