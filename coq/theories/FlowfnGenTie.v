(* FlowfnGenTie.v — duckscript_sdk/src/sdk/std/flowcontrol/function/mod.rs: the hand model of the function commands
   (FlowFn.v, C05) is EQUAL, for all inputs, to the mechanical translation of the CURRENT Rust source
   (coq/generated/GenFlowfnFn.v, rewritten on every run by lib/rs2v.py, classes PFlowfn / FnFlowfn, through
   lib/gen/flowfn_gen.py).

       gen_push_to_call_stack c g = x_push c g            gen_pop_from_call_stack g = x_pop g
           (the string-keyed call-stack entry the serialiser writes is read back by the deserialiser as the same
            CallInfo, field by field, for every CallInfo: the typed stack of the model is justified)
       gen_run_call lcn name vals out line (w, f, xlift lcn g)   = xlift_r lcn (run_call_m name vals out line (w, f, g))
                                                                                             (at most nine arguments)
       gen_function_run ann cmds line args (w, f, xlift lcn g)   = xlift_r lcn (function_model ann cmds line args (w, f, g))
       gen_end_function_run lcn line (w, f, xlift lcn g)         = xlift_r lcn (step_endfn line (w, f, g))
       gen_return_run lcn line args (w, f, xlift lcn g)          = xlift_r lcn (step_return_v line (hd_error args) (w, f, g))

   [xlift lcn g] is the state of the translation for the model state g when every frame was pushed under the line
   context name lcn, the current one — FlowFn.v's own assumption (it omits line_context_name).  run_call_m /
   function_model / step_return_v are the Rust functions on the model state, and FlowfnGenLib.step_call_eq /
   step_function_eq / step_return_eq say how FlowFn.step_call / step_function / step_return are built from them.  The
   [RPanic] arms of the translation (`context.arguments[i]` on a vector that is too short) are dead: the right-hand sides
   never panic ([*_no_panic]).

   run_call: FlowFn.idx_name renders the argument index with ONE digit (the C05 domain has at most nine arguments);
   the translation renders `index.to_string()` in decimal (FlowfnGenLib.dec_nat): the theorem is stated for at most nine
   arguments, the model's own domain.

   Every theorem is stated under its own flag: when the translator does not understand a function any more the generated
   file holds [false] and a stub for it and the theorem holds vacuously (the check reports that tie as inactive).  Every
   proof must also compile against the stub: the first sentence then closes the goal by [discriminate], so every later
   sentence is prefixed with [all:] and no bullets / braces are used.  No proof mentions a generated variable name or the
   position of a test in a decision tree. *)
Require Import DS.Base DS.Cond DS.FlowTables DS.FlowScan DS.Flow DS.FlowFn DS.FlowFnC DS.FlowfnGenLib.
Require Import DSG.GenFlowNames DSG.GenFnNames DSG.GenFlowfnFn.
Local Open Scope nat_scope.

(* ---- tactics ---------------------------------------------------------------------------------------------------- *)
Ltac ff_simpl :=
  unfold xlift_r, xlift_s, xlift, xl, x_push, x_pop, xs_set_meta, xs_set_stk, xs_set_scopes, vset, vunset, overlay, vget, set_vars,
         fl_scope_push, fl_scope_pop, fl_overlay, fl_copy_step, vec_is_empty, fn_decode, hd_error;
  cbn [xs_meta xs_stk xs_scopes
       xc_call_line xc_start_line xc_end_line xc_line_context_name xc_output_variable xc_scoped
       fn_call fn_start fn_end fn_out fn_scoped fm_start fm_end fm_scoped fs_meta fs_stk fs_scopes
       w_vars w_trace w_arrs w_next fst snd map nth_error length fold_left Nat.eqb option_map];
  cbn beta iota zeta.

(* the name tables the translation builds from the command files are the regenerated tables of the model *)
Ltac ff_tables :=
  repeat match goal with
         | |- context [mkT ?a ?b ?c ?d ?e] => progress change (mkT a b c d e) with gen_function_tables
         end.

Ltac ff_leaf :=
  repeat rewrite Nat.add_1_r;
  first [ reflexivity
        | discriminate
        | congruence
        | rewrite str_eqb_refl in *; discriminate ].

(* split on every test of either side, innermost scrutinee first *)
Ltac ff_tree :=
  repeat (ff_simpl;
          match goal with
          | |- context [match ?x with _ => _ end] =>
              lazymatch x with
              | context [match _ with _ => _ end] => fail
              | _ => destruct x eqn:?
              end
          end);
  ff_simpl; ff_leaf.

Ltac ff_open :=
  unfold step_endfn, step_return_v, run_call_m, function_model, step_function_c;
  rewrite ?Nat.add_1_r, ?str_eqb_refl;
  cbv [andb negb gen_function_allow_recursive];
  ff_tables.

(* ---- the typed call stack: serialiser and deserialiser are mutually inverse -------------------------------------- *)
Theorem gen_push_to_call_stack_eq : gen_push_to_call_stack_understood = true ->
  forall c g, gen_push_to_call_stack c g = x_push c g.
Proof.
  unfold gen_push_to_call_stack_understood; intros U; try discriminate U; clear U.
  all: intros c g; unfold gen_push_to_call_stack; destruct c as [? ? ? ? [?|] ?]; ff_tree.
Qed.

Theorem gen_pop_from_call_stack_eq : gen_pop_from_call_stack_understood = true ->
  forall g, gen_pop_from_call_stack g = x_pop g.
Proof.
  unfold gen_pop_from_call_stack_understood; intros U; try discriminate U; clear U.
  all: intros [meta [|[? ? ? ? [?|] ?] stk] scopes]; unfold gen_pop_from_call_stack; ff_tree.
Qed.

(* what is pushed is what is popped *)
Theorem gen_pop_push : gen_push_to_call_stack_understood = true -> gen_pop_from_call_stack_understood = true ->
  forall c g, gen_pop_from_call_stack (gen_push_to_call_stack c g) = (Some c, g).
Proof.
  intros U1 U2 c g. rewrite (gen_push_to_call_stack_eq U1), (gen_pop_from_call_stack_eq U2).
  destruct g; reflexivity.
Qed.

(* ---- end_function ------------------------------------------------------------------------------------------------- *)
Theorem gen_end_function_run_eq : gen_end_function_run_understood = true ->
  forall lcn line w f g, gen_end_function_run lcn line (w, f, xlift lcn g) = xlift_r lcn (step_endfn line (w, f, g)).
Proof.
  unfold gen_end_function_run_understood; intros U; try discriminate U; clear U.
  all: intros lcn line w f [meta [|[? ? ? ? ?] stk] scopes]; unfold gen_end_function_run; ff_open; ff_tree.
Qed.

(* ---- return -------------------------------------------------------------------------------------------------------- *)
Theorem gen_return_run_eq : gen_return_run_understood = true ->
  forall lcn line args w f g,
    gen_return_run lcn line args (w, f, xlift lcn g) = xlift_r lcn (step_return_v line (hd_error args) (w, f, g)).
Proof.
  unfold gen_return_run_understood; intros U; try discriminate U; clear U.
  all: intros lcn line [|a args] w f [meta [|[? ? ? ? ?] stk] scopes]; unfold gen_return_run; ff_open; ff_tree.
Qed.

(* ---- the call command -------------------------------------------------------------------------------------------- *)
Theorem gen_run_call_eq : gen_run_call_understood = true ->
  forall lcn name vals out line w f g, length vals <= 9 ->
    gen_run_call lcn name vals out line (w, f, xlift lcn g) = xlift_r lcn (run_call_m name vals out line (w, f, g)).
Proof.
  unfold gen_run_call_understood; intros U; try discriminate U; clear U.
  all: intros lcn name vals out line w f [meta stk scopes] Hl; unfold gen_run_call; ff_open.
  all: repeat (ff_simpl;
               first [ erewrite bind_fold by first [ intros; cbn [Nat.add]; rewrite ?Nat.add_1_r; reflexivity | cbn [Nat.add]; exact Hl ]
                     | match goal with
                       | |- context [match ?x with _ => _ end] =>
                           lazymatch x with
                           | context [match _ with _ => _ end] => fail
                           | _ => destruct x eqn:?
                           end
                       end ]).
  all: rewrite ?bind_args_vars; ff_simpl; ff_leaf.
Qed.

(* ---- function ------------------------------------------------------------------------------------------------------ *)
Theorem gen_function_run_eq : gen_function_run_understood = true ->
  forall ann cmds line args lcn w f g,
    gen_function_run ann cmds line args (w, f, xlift lcn g) = xlift_r lcn (function_model ann cmds line args (w, f, g)).
Proof.
  unfold gen_function_run_understood; intros U; try discriminate U; clear U.
  all: intros ann cmds line [|a [|b rest]] lcn w f [meta stk scopes]; unfold gen_function_run; ff_open; ff_tree.
Qed.

(* ---- no panic -------------------------------------------------------------------------------------------------------- *)
Lemma step_endfn_no_panic : forall line s, fst (step_endfn line s) <> RPanic.
Proof.
  intros line [[w f] [meta [|[c1 c2 c3 c4 c5] stk] scopes]]; unfold step_endfn; cbn [fs_stk fn_end fn_scoped fs_scopes].
  - discriminate.
  - destruct (Nat.eqb c3 line); [destruct c5; [destruct scopes|]|]; discriminate.
Qed.
Lemma step_return_v_no_panic : forall line v s, fst (step_return_v line v s) <> RPanic.
Proof.
  intros line v [[w f] [meta [|[c1 c2 c3 c4 c5] stk] scopes]]; unfold step_return_v; cbn [fs_stk fn_start fn_end fn_scoped fs_scopes].
  - discriminate.
  - destruct (_ && _); [destruct c5; [destruct scopes|]|]; discriminate.
Qed.
Lemma run_call_m_no_panic : forall name vals out line s, fst (run_call_m name vals out line s) <> RPanic.
Proof.
  intros name vals out line [[w f] g]; unfold run_call_m. destruct (aget _ _ _); discriminate.
Qed.
Lemma function_model_no_panic : forall ann cmds line args s, fst (function_model ann cmds line args s) <> RPanic.
Proof.
  intros ann cmds line args [[w f] g]; unfold function_model, step_function_c.
  destruct (fn_decode ann args) as [[name scoped]|]; [|discriminate].
  destruct (aget _ _ _); [destruct (Nat.eqb _ _); discriminate|].
  destruct (if gen_function_allow_recursive then _ else _); discriminate.
Qed.

(* ---- the same, about the step functions of FlowFn.v themselves ---------------------------------------------------- *)
(* runner::update_output after the call command, on the state of the translation *)
Definition call_post_x (out : option str) (r : cres * xstate) : cres * xstate :=
  match r with
  | (RGoto l, (w, f, g)) => (RGoto l, (clear_out out w, f, g))
  | _ => r
  end.
Lemma call_post_lift : forall lcn out r, xlift_r lcn (call_post out r) = call_post_x out (xlift_r lcn r).
Proof. intros lcn out [[| l | c | c |] [[w f] g]]; reflexivity. Qed.

(* the call command `[out =] name args..` of FlowFn.v (a registered function): run_call on the expanded arguments, then
   the runner's update_output *)
Theorem gen_run_call_step : gen_run_call_understood = true ->
  forall lcn line out name args w f g, length args <= 9 -> aget str_eqb name (fs_meta g) <> None ->
    xlift_r lcn (step_call line out name args (w, f, g)) =
    call_post_x out (gen_run_call lcn name (map (fun a => arg_val a w) args) out line (w, f, xlift lcn g)).
Proof.
  intros U lcn line out name args w f g Hl Hm.
  rewrite (gen_run_call_eq U) by (rewrite map_length; exact Hl).
  rewrite step_call_eq. destruct (aget str_eqb name (fs_meta g)); [apply call_post_lift | congruence].
Qed.

(* the same call made under a condition-position evaluation (FlowFnC.v, C05_sim_cond): eval_instructions ignores the
   output variable on GoTo results, so the step IS run_call *)
Lemma step_call_eval_eq : forall line out name args w f g,
  step_call_eval line out name args (w, f, g) =
  match aget str_eqb name (fs_meta g) with
  | None => (RCrash 3, (w, f, g))
  | Some _ => run_call_m name (map (fun a => arg_val a w) args) out line (w, f, g)
  end.
Proof.
  intros. unfold step_call_eval, run_call_m. destruct (aget str_eqb name (fs_meta g)); reflexivity.
Qed.
Theorem gen_run_call_eval_step : gen_run_call_understood = true ->
  forall lcn line out name args w f g, length args <= 9 -> aget str_eqb name (fs_meta g) <> None ->
    xlift_r lcn (step_call_eval line out name args (w, f, g)) =
    gen_run_call lcn name (map (fun a => arg_val a w) args) out line (w, f, xlift lcn g).
Proof.
  intros U lcn line out name args w f g Hl Hm.
  rewrite (gen_run_call_eq U) by (rewrite map_length; exact Hl).
  rewrite step_call_eval_eq. destruct (aget str_eqb name (fs_meta g)); [reflexivity | congruence].
Qed.

(* `fn [<annotations>] name`: FlowFn.v's instruction carries the decoded (scoped, name) *)
Theorem gen_function_run_step : gen_function_run_understood = true ->
  forall ann P line args name scoped lcn w f g, fn_decode ann args = Some (name, scoped) ->
    gen_function_run ann (fcmds P) line args (w, f, xlift lcn g) = xlift_r lcn (step_function P line scoped name (w, f, g)).
Proof.
  intros U ann P line args name scoped lcn w f g Hd.
  rewrite (gen_function_run_eq U), step_function_eq. unfold function_model. rewrite Hd. reflexivity.
Qed.
Theorem gen_function_run_missing : gen_function_run_understood = true ->
  forall ann cmds line lcn w f g,
    gen_function_run ann cmds line [] (w, f, xlift lcn g) = (RError 22%N, (w, f, xlift lcn g)).
Proof. intros U ann cmds line lcn w f g. rewrite (gen_function_run_eq U). reflexivity. Qed.

(* `return [value]`: FlowFn.v's instruction carries the unexpanded argument *)
Theorem gen_return_run_step : gen_return_run_understood = true ->
  forall lcn line args a w f g, hd_error args = option_map (fun x => arg_val x w) a ->
    gen_return_run lcn line args (w, f, xlift lcn g) = xlift_r lcn (step_return line a (w, f, g)).
Proof.
  intros U lcn line args a w f g Ha. rewrite (gen_return_run_eq U), step_return_eq, Ha. reflexivity.
Qed.

(* ---- the translations never take an RPanic arm ---------------------------------------------------------------------- *)
Lemma xlift_r_fst : forall lcn r, fst (xlift_r lcn r) = fst r.
Proof. intros lcn [r s]; reflexivity. Qed.

Theorem gen_end_function_run_no_panic : gen_end_function_run_understood = true ->
  forall lcn line w f g, fst (gen_end_function_run lcn line (w, f, xlift lcn g)) <> RPanic.
Proof. intros U lcn line w f g. rewrite (gen_end_function_run_eq U), xlift_r_fst. apply step_endfn_no_panic. Qed.
Theorem gen_return_run_no_panic : gen_return_run_understood = true ->
  forall lcn line args w f g, fst (gen_return_run lcn line args (w, f, xlift lcn g)) <> RPanic.
Proof. intros U lcn line args w f g. rewrite (gen_return_run_eq U), xlift_r_fst. apply step_return_v_no_panic. Qed.
Theorem gen_run_call_no_panic : gen_run_call_understood = true ->
  forall lcn name vals out line w f g, length vals <= 9 ->
    fst (gen_run_call lcn name vals out line (w, f, xlift lcn g)) <> RPanic.
Proof. intros U lcn name vals out line w f g Hl. rewrite (gen_run_call_eq U) by exact Hl. rewrite xlift_r_fst. apply run_call_m_no_panic. Qed.
Theorem gen_function_run_no_panic : gen_function_run_understood = true ->
  forall ann cmds line args lcn w f g, fst (gen_function_run ann cmds line args (w, f, xlift lcn g)) <> RPanic.
Proof. intros U ann cmds line args lcn w f g. rewrite (gen_function_run_eq U), xlift_r_fst. apply function_model_no_panic. Qed.
