(* FlowScanIxBounds.v — the length bound of FlowScanIxProof is needed (and exact for the
   overflow-checked profile): `block_delta` is an i32.
     checked profile:  2^31 instructions that all open a foreign block (`start_blocks`) — the
                       2^31-th `block_delta + 1` panics;
     release profile:  the same 2^31 openers followed by ONE command that is both in `end_blocks`
                       and in `end_names` (the generic `end` is) — the wrapped block_delta is
                       negative, so the code takes the line for its own end, where the unbounded
                       counter of the suffix model takes it for the end of a foreign block.
   (Vectors of >= 2^31 instructions, > 200 GiB: not executable; proved by induction, not by
   computation.) *)
Require Import DS.Base DS.Parser DS.FlowTables DS.FlowScan DS.CondIx DS.FlowScanIx DS.FlowScanIxProof.
Require Import Lia.
Open Scope nat_scope.

Local Arguments i32_result : simpl never.

Definition b_o : str := [111%N].       (* opens a foreign block *)
Definition b_x : str := [120%N].       (* closes a foreign block AND is an end name *)
Definition b_s : str := [115%N].
Definition b_T : tables := mkT [b_s] [] [b_x] [b_o] [b_x].
Definition b_I : instr := {| i_line := 0%N; i_source := None; i_type := IScript None None (Some b_o) None |}.
Definition b_J : instr := {| i_line := 0%N; i_source := None; i_type := IScript None None (Some b_x) None |}.

Lemma nth_repeat {A} (a : A) : forall N line, line < N -> nth_error (repeat a N) line = Some a.
Proof.
  induction N as [|N IH]; intros [|line] H; cbn; try lia; [reflexivity|]. apply IH. lia.
Qed.

Lemma for_range_app body : forall a b line s,
  for_range body (a + b) line s
  = match for_range body a line s with
    | XNext s' => for_range body b (line + a) s'
    | XRet r => XRet r
    end.
Proof.
  induction a as [|a IH]; intros b line s; cbn [for_range Nat.add].
  - now rewrite Nat.add_0_r.
  - destruct (body s line); [|reflexivity]. rewrite IH. now rewrite Nat.add_succ_comm.
Qed.

Section Openers.
Variable checked : bool.
Variable rec : option nat -> option nat -> xres.
Variable allow : bool.
Variable E : nat.
Variable instrs : list instr.
Variable N : nat.
Hypothesis Hopen : forall line, line < N -> nth_error instrs line = Some b_I.

(* one opener *)
Lemma open_step p sk d line : sk <= line -> line < N ->
  body_ix checked b_T rec instrs allow E (mkX p sk d) line
  = match i32_result checked (d + 1) with
    | None => XRet XPanic
    | Some d' => XNext (mkX p sk d')
    end.
Proof.
  intros Hsk Hl. unfold body_ix. cbn [x_skip x_delta x_pos].
  destruct (Nat.leb_spec sk line); [|lia]. rewrite (Hopen line Hl). reflexivity.
Qed.

(* n openers while block_delta stays in range *)
Lemma opens : forall n line p sk d, sk <= line -> line + n <= N ->
  (0 <= d)%Z -> (d + Z.of_nat n <= 2147483647)%Z ->
  for_range (body_ix checked b_T rec instrs allow E) n line (mkX p sk d) = XNext (mkX p sk (d + Z.of_nat n)).
Proof.
  induction n as [|n IH]; intros line p sk d Hsk Hl H0 Hd; cbn [for_range].
  - do 2 f_equal. lia.
  - rewrite open_step by lia. rewrite i32_fits by lia. rewrite IH by lia. do 2 f_equal. lia.
Qed.
End Openers.

(* ---- overflow-checked profile ------------------------------------------------------------------- *)
Lemma checked_witness N allow : Z.of_nat N = 2147483648%Z ->
  find_commands_ix true b_T (repeat b_I N) allow (Some 0) None = XPanic.
Proof.
  intros HN. unfold find_commands_ix. cbn [find_commands_fuel]. unfold go_ix.
  cbn [starts ends b_T orb get_start_ix get_end_ix]. cbv zeta. rewrite repeat_length, Nat.sub_0_r.
  destruct N as [|n]; [lia|].
  replace (S n) with (n + 1) by lia. rewrite for_range_app. unfold xinit.
  rewrite (opens true _ allow (n + 1) (repeat b_I (n + 1)) (n + 1)); try lia.
  2:{ intros line Hl. now apply nth_repeat. }
  cbn [for_range]. rewrite (open_step true _ allow (n + 1) (repeat b_I (n + 1)) (n + 1)); try lia.
  2:{ intros line Hl. now apply nth_repeat. }
  replace (0 + Z.of_nat n + 1)%Z with 2147483648%Z by lia. reflexivity.
Qed.

Theorem checked_bound_needed : exists T instrs,
  Z.of_nat (length instrs) = 2147483648%Z /\
  forall allow, find_commands_ix true T instrs allow (Some 0) None = XPanic.
Proof.
  exists b_T, (repeat b_I (Z.to_nat 2147483648)). split.
  - rewrite repeat_length. now rewrite Z2Nat.id.
  - intros allow. apply checked_witness. now rewrite Z2Nat.id.
Qed.

(* ---- release profile ------------------------------------------------------------------------------ *)
Lemma scan_opens rest : forall n pos sk d m, sk <= pos ->
  scan b_T (repeat (Some b_o) n ++ rest) pos sk d m = scan b_T rest (pos + n) sk (d + n) m.
Proof.
  induction n as [|n IH]; intros pos sk d m Hsk; cbn [repeat app].
  - now rewrite !Nat.add_0_r.
  - cbn [scan]. destruct (Nat.ltb_spec pos sk); [lia|].
    change (str_in b_o (sblocks b_T)) with true. cbv iota. rewrite IH by lia. f_equal; lia.
Qed.

Lemma map_cmd_repeat n : map cmd_of (repeat b_I n) = repeat (Some b_o) n.
Proof. induction n as [|n IH]; cbn [repeat map]; [reflexivity|]. now rewrite IH. Qed.

Lemma release_witness N : Z.of_nat N = 2147483648%Z ->
  find_commands_ix false b_T (repeat b_I N ++ [b_J]) true (Some 0) None = XOk (Some (mkPos [] N)) /\
  find_commands b_T (map cmd_of (repeat b_I N ++ [b_J])) 0 = SMissing.
Proof.
  intros HN. split.
  - unfold find_commands_ix. cbn [find_commands_fuel]. unfold go_ix.
    cbn [starts ends b_T orb get_start_ix get_end_ix]. cbv zeta.
    rewrite app_length, repeat_length. cbn [length]. rewrite Nat.sub_0_r.
    destruct N as [|n]; [lia|].
    assert (Hopen : forall line, line < S n -> nth_error (repeat b_I (S n) ++ [b_J]) line = Some b_I).
    { intros line Hl. rewrite nth_error_app1 by (rewrite repeat_length; lia). now apply nth_repeat. }
    replace (S n + 1) with (n + (1 + 1)) by lia. rewrite for_range_app. unfold xinit.
    rewrite (opens false _ true _ _ (S n) Hopen); try lia.
    rewrite for_range_app. cbn [for_range].
    rewrite (open_step false _ true _ _ (S n) Hopen); try lia.
    replace (0 + Z.of_nat n + 1)%Z with 2147483648%Z by lia.
    change (i32_result false 2147483648) with (Some (-2147483648)%Z). cbv iota.
    unfold body_ix. cbn [x_skip x_delta x_pos p_middle].
    destruct (Nat.leb_spec 0 (0 + n + 1)); [|lia].
    replace (0 + n + 1) with (S n) by lia.
    rewrite nth_error_app2 by (rewrite repeat_length; lia). rewrite repeat_length, Nat.sub_diag.
    reflexivity.
  - unfold find_commands. cbn [starts ends b_T skipn]. rewrite map_app, map_cmd_repeat. cbn [map].
    rewrite scan_opens by lia. change (cmd_of b_J) with (Some b_x). cbn [scan].
    destruct (Nat.ltb_spec (0 + N) 0); [lia|].
    change (str_in b_x (sblocks b_T)) with false. change (str_in b_x (middles b_T)) with false.
    change (str_in b_x (eblocks b_T)) with true. cbv iota. cbn [andb].
    destruct (Nat.ltb_spec 0 (0 + N)); [reflexivity|lia].
Qed.

Theorem release_bound_needed : exists T instrs,
  Z.of_nat (length instrs) = 2147483649%Z /\
  find_commands_ix false T instrs true (Some 0) None <> inject (find_commands T (map cmd_of instrs) 0).
Proof.
  exists b_T, (repeat b_I (Z.to_nat 2147483648) ++ [b_J]).
  assert (HN : Z.of_nat (Z.to_nat 2147483648) = 2147483648%Z) by now rewrite Z2Nat.id.
  split.
  - rewrite app_length, repeat_length. cbn [length]. lia.
  - destruct (release_witness _ HN) as [-> ->]. discriminate.
Qed.
