(* FsLaws.v — C18: laws of the reference tree S (what the property text promises), the UTF-8
   round trip behind "what is written is what is read" for text, and the witnesses showing that
   each class of known findings is a real difference between the commands (M) and S. *)
From Coq Require Import NArith ZArith List Lia.
From stdpp Require Import gmap list.
Require Import DS.FsTree DS.FsProof.

(* ---- UTF-8 ---------------------------------------------------------------------------------------- *)
Ltac Zify.zify_post_hook ::= Z.to_euclidean_division_equations.

Lemma ltb_false a b : (b <= a)%N -> (a <? b)%N = false.
Proof. intros. by apply N.ltb_ge. Qed.
Lemma ltb_true a b : (a < b)%N -> (a <? b)%N = true.
Proof. intros. by apply N.ltb_lt. Qed.
Lemma leb_true a b : (a <= b)%N -> (a <=? b)%N = true.
Proof. intros. by apply N.leb_le. Qed.
Lemma leb_false a b : (b < a)%N -> (a <=? b)%N = false.
Proof. intros. by apply N.leb_gt. Qed.
Lemma cont_true b : (128 <= b)%N -> (b < 192)%N -> cont b = true.
Proof. intros. unfold cont. by rewrite leb_true, ltb_true. Qed.

Lemma dec1 b0 r : (b0 < 128)%N -> utf8_decode (b0 :: r) = ocons b0 (utf8_decode r).
Proof. intros. cbn [utf8_decode]. by rewrite ltb_true. Qed.
Lemma dec2 b0 b1 r :
  (194 <= b0)%N -> (b0 < 224)%N -> (128 <= b1)%N -> (b1 < 192)%N ->
  utf8_decode (b0 :: b1 :: r) = ocons ((b0 - 192) * 64 + (b1 - 128))%N (utf8_decode r).
Proof.
  intros. cbn [utf8_decode]. rewrite (ltb_false b0 128) by lia.
  rewrite (leb_true 194 b0), (ltb_true b0 224) by lia. cbn [andb]. by rewrite cont_true.
Qed.
Lemma dec3 b0 b1 b2 r c :
  (224 <= b0)%N -> (b0 < 240)%N -> (128 <= b1)%N -> (b1 < 192)%N -> (128 <= b2)%N -> (b2 < 192)%N ->
  c = ((b0 - 224) * 4096 + (b1 - 128) * 64 + (b2 - 128))%N -> (2048 <= c)%N -> scalar c = true ->
  utf8_decode (b0 :: b1 :: b2 :: r) = ocons c (utf8_decode r).
Proof.
  intros ? ? ? ? ? ? Hc ? Hs. cbn [utf8_decode]. rewrite (ltb_false b0 128) by lia.
  rewrite (ltb_false b0 224) by lia. rewrite andb_false_r.
  rewrite (leb_true 224 b0), (ltb_true b0 240) by lia. cbn [andb].
  rewrite !cont_true by lia. rewrite <- Hc. by rewrite leb_true, Hs.
Qed.
Lemma dec4 b0 b1 b2 b3 r c :
  (240 <= b0)%N -> (b0 < 245)%N -> (128 <= b1)%N -> (b1 < 192)%N -> (128 <= b2)%N -> (b2 < 192)%N ->
  (128 <= b3)%N -> (b3 < 192)%N ->
  c = ((b0 - 240) * 262144 + (b1 - 128) * 4096 + (b2 - 128) * 64 + (b3 - 128))%N ->
  (65536 <= c)%N -> (c < 1114112)%N ->
  utf8_decode (b0 :: b1 :: b2 :: b3 :: r) = ocons c (utf8_decode r).
Proof.
  intros ? ? ? ? ? ? ? ? Hc ? ?. cbn [utf8_decode]. rewrite (ltb_false b0 128) by lia.
  rewrite (ltb_false b0 224) by lia. rewrite andb_false_r.
  rewrite (ltb_false b0 240) by lia. rewrite andb_false_r.
  rewrite (leb_true 240 b0), (ltb_true b0 245) by lia. cbn [andb].
  rewrite !cont_true by lia. rewrite <- Hc. by rewrite leb_true, ltb_true.
Qed.

Lemma utf8_roundtrip1 c r : scalar c = true -> utf8_decode (utf8_enc1 c ++ r) = ocons c (utf8_decode r).
Proof.
  intros Hs. unfold utf8_enc1.
  destruct (N.ltb_spec c 128); [by apply dec1|].
  destruct (N.ltb_spec c 2048).
  { cbn [app]. rewrite dec2 by lia. f_equal. lia. }
  destruct (N.ltb_spec c 65536).
  { cbn [app]. apply dec3; try lia. done. }
  assert (c < 1114112)%N.
  { unfold scalar in Hs. apply orb_true_iff in Hs as [Hs|Hs].
    - apply N.ltb_lt in Hs. lia.
    - apply andb_true_iff in Hs as [_ Hs]. by apply N.ltb_lt in Hs. }
  cbn [app]. apply dec4; lia.
Qed.
Theorem utf8_roundtrip s : forallb scalar s = true -> utf8_decode (utf8_encode s) = Some s.
Proof.
  induction s as [|c s IH]; [done|]. cbn [forallb utf8_encode flat_map].
  intros [Hc Hs]%andb_true_iff. rewrite utf8_roundtrip1 by done.
  change (flat_map utf8_enc1 s) with (utf8_encode s). by rewrite IH.
Qed.

(* ---- what is written is what is read; append extends ---------------------------------------------- *)
Lemma put_file_stat p b t t' : put_file p b t = Some t' -> stat p t' = Some (File b).
Proof.
  intros (t1 & _ & Hp & _ & _ & ->)%put_file_Some. apply stat_file. by rewrite lookup_insert.
Qed.
Theorem read_after_write p b t t' :
  S_write p b t = (OVal s_true, t') -> S_readb p t' = (OBytes b, t').
Proof.
  unfold S_write. destruct (put_file p b t) as [t1|] eqn:E; [|done]. intros [= <-].
  unfold S_readb. by rewrite (put_file_stat _ _ _ _ E).
Qed.
Theorem read_after_write_text p s t t' :
  forallb scalar s = true -> S_step (Write p s) t = (OVal s_true, t') -> S_step (Read p) t' = (OVal s, t').
Proof.
  cbn [S_step]. unfold S_write. intros Hs. destruct (put_file _ _ t) as [t1|] eqn:E; [|done]. intros [= <-].
  unfold S_read. rewrite (put_file_stat _ _ _ _ E). by rewrite utf8_roundtrip.
Qed.
Theorem append_extends p c b t :
  S_readb p t = (OBytes c, t) ->
  exists t', S_append p b t = (OVal s_true, t') /\ S_readb p t' = (OBytes (c ++ b), t').
Proof.
  unfold S_readb, S_append. destruct (stat p t) as [[c'|]|] eqn:Es; [|done|done]. intros [= ->].
  eexists. split; [done|]. apply stat_file in Es as [_ Hp].
  rewrite (proj2 (stat_file p _ (c ++ b))); [done|]. by rewrite lookup_insert.
Qed.
Theorem append_missing_is_write p b t : stat p t = None -> S_append p b t = S_write p b t.
Proof. intros Es. unfold S_append. by rewrite Es. Qed.

(* ---- copy: the source stays, the target is an equal file, parents exist --------------------------- *)
Theorem cp_law a b c t t' :
  stat a t = Some (File c) -> S_cp a b t = (OVal s_true, t') ->
  stat a t' = Some (File c) /\ stat b t' = Some (File c) /\ is_dir_at t' (parent (pk b)) = true
  /\ (forall q, ~ q `prefix_of` pk b -> t' !! q = t !! q).
Proof.
  intros Es. unfold S_cp. rewrite Es. destruct (same_entry a b); [done|].
  destruct (put_file b c t) as [t1|] eqn:E; [|done]. intros [= <-].
  pose proof (put_file_stat _ _ _ _ E) as Hb. split; [|split; [done|]].
  - apply put_file_Some in E as (t0 & Hm & Hp & Hk & Hd & ->). apply stat_file in Es as [Hl Hpa].
    apply stat_file. split; [|done]. destruct (decide (pk a = pk b)) as [->|Hne].
    + by rewrite lookup_insert.
    + rewrite lookup_insert_ne by done. by eapply mkdirs_keeps.
  - apply put_file_Some in E as (t0 & Hm & Hp & Hk & Hd & ->). split.
    + rewrite is_dir_at_insert_ne by (by apply parent_ne). by eapply mkdirs_is_dir.
    + intros q Hq. rewrite lookup_insert_ne by (intros <-; by apply Hq).
      apply (mkdirs_other _ _ _ _ Hm). intros Hp'. apply Hq. etrans; [done|apply parent_prefix].
Qed.

(* ---- move of a file = copy then delete -------------------------------------------------------------- *)
Theorem mv_is_cp_then_rm a b t :
  p_is_file a t = true -> p_is_dir b t = false -> ends_sep b = false ->
  S_mv a b t = (let '(o, t1) := S_cp a b t in
                match o with OVal _ => S_rm None [a] t1 | _ => (OErr, t) end).
Proof.
  intros Hf Hd He. unfold S_mv, p_is_file in *. destruct (stat a t) as [[c|]|]; [|done|done].
  unfold mv_target. rewrite Hd, He. cbn [orb].
  destruct (S_cp a b t) as [o t1]. destruct o; try done.
  cbn [S_rm S_rm_list]. by destruct (S_rm_one false a t1) as [[] t2].
Qed.
Theorem mv_into_directory a b name t :
  p_is_dir b t = true -> last (pk a) = Some name ->
  p_is_dir (pjoin b name) t = false -> ends_sep (pjoin b name) = false ->
  S_mv a b t = S_mv a (pjoin b name) t.
Proof.
  intros Hd Hl Hd' He. unfold S_mv. destruct (stat a t) as [[c|]|] eqn:Es; [|done|done].
  assert (mv_target a b t = pjoin b name) as -> by (unfold mv_target; by rewrite Hd, Hl).
  assert (mv_target a (pjoin b name) t = pjoin b name) as ->; [|done].
  unfold mv_target. by rewrite Hd', He.
Qed.

(* ---- delete removes exactly the named path ------------------------------------------------------------ *)
Theorem rm_exact r p t t' :
  S_rm_one r p t = (true, t') ->
  stat p t' = None /\ (forall q, ~ pk p `prefix_of` q -> t' !! q = t !! q).
Proof.
  unfold S_rm_one. destruct (stat p t) as [[c|]|] eqn:Es.
  - intros [= <-]. split.
    + apply stat_none. left. by rewrite lookup_delete.
    + intros q Hq. rewrite lookup_delete_ne; [done|]. intros <-. by apply Hq.
  - destruct r.
    + intros [= <-]. split.
      * apply stat_none. left. rewrite remove_subtree_lookup.
        by rewrite (proj2 (is_prefix_spec (pk p) (pk p))).
      * intros q Hq. rewrite remove_subtree_lookup. by rewrite (proj2 (is_prefix_false _ _) Hq).
    + destruct (dir_empty t (pk p)); [|done]. intros [= <-]. split.
      * apply stat_none. left. by rewrite lookup_delete.
      * intros q Hq. rewrite lookup_delete_ne; [done|]. intros <-. by apply Hq.
  - intros [= <-]. done.
Qed.
Theorem rm_nonempty_needs_r p t :
  stat p t = Some Dir -> dir_empty t (pk p) = false ->
  S_rm None [p] t = (OErr, t) /\ S_rmdir p t = (OVal s_false, t) /\
  (S_rm (Some [45;114]%N) [p] t).1 = OVal s_true.
Proof.
  intros Es He. unfold S_rm, S_rmdir. cbn [S_rm_list]. unfold S_rm_one. rewrite Es, He. done.
Qed.

(* ---- a failing operation leaves the tree unchanged ------------------------------------------------------ *)
Definition failed (o : out) : Prop := o = OErr \/ o = OVal s_false.
(* rm of several paths works through them in order and stops at the first failure *)
Definition single_target (o : op) : Prop :=
  match o with Rm _ ps => length ps <= 1 | _ => True end.
Lemma not_failed_true : ~ failed (OVal s_true).
Proof. intros [H|H]; [done|]. unfold s_true, s_false in H. congruence. Qed.
Lemma S_rm_one_false r p t t' : S_rm_one r p t = (false, t') -> t' = t.
Proof.
  unfold S_rm_one. destruct (stat p t) as [[c|]|]; [done| |done].
  destruct r; [done|]. destruct (dir_empty t (pk p)); [done|]. by intros [= <-].
Qed.
Lemma unchanged_or_true o t : single_target o -> (S_step o t).2 = t \/ (S_step o t).1 = OVal s_true.
Proof.
  intros Hs. destruct o; cbn [S_step single_target] in *; try (by left).
  - unfold S_write. destruct (put_file _ _ _); [by right|by left].
  - unfold S_append, S_write. destruct (stat p t) as [[c|]|]; [by right|by left|].
    destruct (put_file _ _ _); [by right|by left].
  - unfold S_read. destruct (stat p t) as [[c|]|]; [destruct (utf8_decode c)|..]; by left.
  - unfold S_write. destruct (put_file _ _ _); [by right|by left].
  - unfold S_readb. destruct (stat p t) as [[c|]|]; by left.
  - unfold S_touch, S_write. destruct (stat p t) as [[c|]|]; [by left|by left|].
    destruct (put_file _ _ _); [by right|by left].
  - unfold S_mkdir. destruct (mkdirs _ _); [by right|by left].
  - unfold S_cp. destruct (stat a t) as [[c|]|]; [|by left|by left].
    destruct (same_entry a b); [by left|]. destruct (put_file _ _ _); [by right|by left].
  - destruct (stat a t) as [[c|]|] eqn:Es.
    + rewrite (S_mv_unfold _ _ _ _ Es). destruct (same_entry _ _); [by left|].
      destruct (put_file _ _ _); [by right|by left].
    + unfold S_mv. rewrite Es. by left.
    + unfold S_mv. rewrite Es. by left.
  - unfold S_rm. destruct ps as [|p [|p' ps]]; [by left| |cbn [length] in Hs; lia].
    cbn [S_rm_list]. destruct (S_rm_one _ p t) as [[] t1] eqn:E; [by right|].
    left. by apply S_rm_one_false in E.
  - unfold S_rmdir. destruct (stat p t) as [[c|]|]; [by left| |by right].
    destruct (dir_empty _ _); [by right|by left].
  - unfold S_size. destruct (stat p t) as [[c|]|]; by left.
Qed.
Theorem failed_is_identity o t : single_target o -> failed (S_step o t).1 -> (S_step o t).2 = t.
Proof.
  intros Hs Hf. destruct (unchanged_or_true o t Hs) as [|E]; [done|].
  rewrite E in Hf. by apply not_failed_true in Hf.
Qed.

(* ---- basename / dirname / join_path ------------------------------------------------------------------------ *)
Definition nonslash (c : N) : bool := negb (is_slash c).
(* a file name: not empty, no separator *)
Definition is_name (n : str) : Prop := n <> [] /\ forallb nonslash n = true.
(* a directory text as join_path returns it: not empty, no doubled separator, no trailing separator *)
Definition is_clean (d : str) : Prop := d <> [] /\ has_dslash d = false /\ head_slash (rev d) = false.

Lemma name_no_slashes n : forallb nonslash n = true -> has_dslash n = false /\ head_slash n = false.
Proof.
  induction n as [|c n IH]; [done|]. cbn [forallb]. intros [Hc Hn]%andb_true_iff.
  destruct (IH Hn) as [H1 H2]. rewrite has_dslash_cons, H1. cbn [head_slash].
  unfold nonslash in Hc. apply negb_true_iff in Hc. by rewrite Hc.
Qed.
Lemma head_slash_rev_cons c (l : str) : l <> [] -> head_slash (rev (c :: l)) = head_slash (rev l).
Proof.
  intros Hl. cbn [rev]. destruct (rev l) eqn:E; [|done].
  apply (f_equal (@length N)) in E. rewrite rev_length in E. by destruct l.
Qed.
Lemma clean_join_no_dslash d n :
  is_clean d -> forallb nonslash n = true -> has_dslash (d ++ c_slash :: n) = false.
Proof.
  intros (Hd & Hds & Hl) Hn. destruct (name_no_slashes n Hn) as [Hn1 Hn2].
  induction d as [|c|c e d' _ IH] using list_ind2; [done| |].
  - cbn [app]. rewrite !has_dslash_cons, Hn1, Hn2. cbn [head_slash rev app] in *. rewrite Hl.
    by rewrite andb_false_r.
  - change ((c :: e :: d') ++ c_slash :: n) with (c :: (e :: d') ++ c_slash :: n).
    rewrite has_dslash_cons in Hds |- *. apply orb_false_iff in Hds as [H1 H2].
    cbn [head_slash app] in *. rewrite H1. cbn [orb]. apply IH; [done|done|].
    by rewrite head_slash_rev_cons in Hl.
Qed.
Theorem join_two d n : is_clean d -> is_name n -> S_join [d; n] = d ++ c_slash :: n.
Proof.
  intros Hd [_ Hn]. unfold S_join. cbn [join_with_slash]. apply squeeze_id. by apply clean_join_no_dslash.
Qed.
Theorem join_idempotent l : S_join [S_join l] = S_join l.
Proof.
  unfold S_join. cbn [join_with_slash]. apply squeeze_id.
  generalize (join_with_slash l). intros s.
  induction s as [|c|c e r IH1 IH2] using list_ind2; [done|done|].
  rewrite (squeeze_cons c (e :: r)). cbn [head_slash].
  destruct (is_slash c && is_slash e) eqn:E; [done|].
  rewrite has_dslash_cons, IH2. rewrite orb_false_r.
  assert (head_slash (squeeze (e :: r)) = is_slash e) as ->; [|done].
  rewrite squeeze_cons. destruct (is_slash e && head_slash r) eqn:E2; [|done].
  apply andb_true_iff in E2 as [-> E2]. clear -E2. revert E2.
  induction r as [|x r IH]; [done|]. cbn [head_slash]. intros Hx. rewrite squeeze_cons, Hx.
  destruct (head_slash r) eqn:Hr; cbn [andb]; [by apply IH|done].
Qed.

Lemma take_while_app f (a : str) c b :
  forallb f a = true -> f c = false -> take_while f (a ++ c :: b) = a.
Proof.
  induction a as [|x a IH]; cbn [app take_while forallb]; [by intros _ ->|].
  intros [-> Ha]%andb_true_iff Hc. by rewrite IH.
Qed.
Lemma drop_while_app f (a : str) c b :
  forallb f a = true -> f c = false -> drop_while_rev f (a ++ c :: b) = c :: b.
Proof.
  induction a as [|x a IH]; cbn [app drop_while_rev forallb]; [by intros _ ->|].
  intros [-> Ha]%andb_true_iff Hc. by rewrite IH.
Qed.
Lemma drop_while_head f (s : str) : (match s with c :: _ => f c | [] => false end) = false ->
  drop_while_rev f s = s.
Proof. destruct s as [|c s]; [done|]. cbn. by intros ->. Qed.
Lemma forallb_rev (f : N -> bool) l : forallb f (rev l) = forallb f l.
Proof.
  induction l as [|x l IH]; [done|]. cbn [rev forallb]. rewrite forallb_app, IH. cbn. by rewrite andb_true_r, andb_comm.
Qed.
Lemma name_rev_head n : is_name n -> head_slash (rev n) = false.
Proof.
  intros [Hn Hf]. rewrite <- forallb_rev in Hf. destruct (rev n) as [|c r]; [done|].
  cbn in *. apply andb_true_iff in Hf as [Hc _]. unfold nonslash in Hc. by apply negb_true_iff in Hc.
Qed.

Theorem basename_join d n : is_name n -> path_basename (d ++ c_slash :: n) = Some n.
Proof.
  intros Hn. pose proof (name_rev_head n Hn) as Hh. destruct Hn as [Hn Hf].
  unfold path_basename. rewrite rev_app_distr. cbn [rev]. rewrite <- !app_assoc. cbn [app].
  rewrite drop_while_head.
  - rewrite (take_while_app _ (rev n)); [|by rewrite forallb_rev|done].
    rewrite rev_involutive. by destruct n.
  - destruct (rev n) eqn:E; [|done]. apply (f_equal (@length N)) in E. rewrite rev_length in E. by destruct n.
Qed.
Theorem dirname_join d n :
  d <> [] -> head_slash (rev d) = false -> is_name n -> path_dirname (d ++ c_slash :: n) = Some d.
Proof.
  intros Hd Hdl Hn. pose proof (name_rev_head n Hn) as Hh. destruct Hn as [Hn Hf].
  assert (rev (d ++ c_slash :: n) = rev n ++ c_slash :: rev d) as Hr.
  { rewrite rev_app_distr. cbn [rev]. by rewrite <- app_assoc. }
  assert (rev n <> []) as Hrn.
  { intros E. apply (f_equal (@length N)) in E. rewrite rev_length in E. by destruct n. }
  assert (rstrip_slash (d ++ c_slash :: n) = d ++ c_slash :: n) as E1.
  { unfold rstrip_slash. rewrite drop_while_head; [by rewrite rev_involutive|].
    rewrite Hr. by destruct (rev n). }
  assert (rstrip_name (d ++ c_slash :: n) = d ++ [c_slash]) as E2.
  { unfold rstrip_name. rewrite Hr. rewrite drop_while_app; [|by rewrite forallb_rev|done].
    cbn [rev]. by rewrite rev_involutive. }
  assert (rstrip_slash (d ++ [c_slash]) = d) as E3.
  { unfold rstrip_slash. rewrite rev_app_distr. cbn [rev app drop_while_rev]. unfold is_slash at 1.
    rewrite N.eqb_refl. rewrite drop_while_head; [by rewrite rev_involutive|]. by destruct (rev d). }
  unfold path_dirname. rewrite E1. clear E1 Hr.
  remember (d ++ c_slash :: n) as s eqn:E0. destruct s as [|x l]; [by destruct d|]. rewrite E2.
  remember (d ++ [c_slash]) as s2 eqn:E4. destruct s2 as [|y l2]; [by destruct d|]. rewrite E3.
  by destruct d.
Qed.
Theorem path_algebra d n :
  is_clean d -> is_name n ->
  path_basename (S_join [d; n]) = Some n /\ path_dirname (S_join [d; n]) = Some d /\
  M_join [d; n] = Some (S_join [d; n]).
Proof.
  intros Hd Hn. rewrite join_two by done. split; [by apply basename_join|]. split.
  - destruct Hd as (H1 & _ & H3). by apply dirname_join.
  - rewrite M_join_S_join. by rewrite join_two.
Qed.

(* ---- the known classes are real: witnesses (computed) --------------------------------------------------------- *)
Definition w_f : path := P [[102%N]] false.            (* f *)
Definition w_t : path := P [[116%N]] false.            (* t *)
Definition w_d : path := P [[100%N]] false.            (* d *)
Definition w_df : path := P [[100%N]; [102%N]] false.  (* d/f *)
Definition w_nx : path := P [[110%N]; [120%N]] true.   (* n/x/ *)

Section Witness.
Variables prn xdc xmd : path -> path -> tree -> pres.
Notation M := (M_step prn xdc xmd).

(* F15: mv f t with t missing, no extension: the commands make a directory t and put f inside;
   the reference tree renames *)
Lemma F15_witness :
  let ops := [WriteB w_f [120%N]; Mv w_f w_t] in
  in_domain ops ∅ /\ KnownF15 ops ∅ /\
  (exists t', last (run M ops ∅) = Some (OVal s_true, t') /\ t' !! [[116%N]] = Some Dir /\
              t' !! [[116%N]; [102%N]] = Some (File [120%N]) /\ t' !! [[102%N]] = None) /\
  (exists t', last (run S_step ops ∅) = Some (OVal s_true, t') /\ t' !! [[116%N]] = Some (File [120%N]) /\
              t' !! [[116%N]; [102%N]] = None /\ t' !! [[102%N]] = None).
Proof.
  cbn zeta. split; [|split; [|split]].
  - split; [by vm_compute|]. split; [by vm_compute|done].
  - right. left. by vm_compute.
  - eexists. split; [vm_compute; reflexivity|]. by vm_compute.
  - eexists. split; [vm_compute; reflexivity|]. by vm_compute.
Qed.
(* writing to n/x/ fails and leaves the directory n behind *)
Lemma partial_parents_witness :
  let ops := [WriteB w_nx [113%N]] in
  in_domain ops ∅ /\ KnownPartialParents ops ∅ /\
  (exists t', last (run M ops ∅) = Some (OVal s_false, t') /\ t' !! [[110%N]] = Some Dir) /\
  last (run S_step ops ∅) = Some (OVal s_false, ∅).
Proof.
  cbn zeta. split; [|split; [|split]].
  - split; [by vm_compute|done].
  - left. by vm_compute.
  - eexists. split; [vm_compute; reflexivity|]. by vm_compute.
  - by vm_compute.
Qed.
(* mv f d with d/f present is refused; the reference tree overwrites like mv f d/f does *)
Lemma mv_noclobber_witness :
  let ops := [WriteB w_df [111%N]; WriteB w_f [110%N]; Mv w_f w_d] in
  in_domain ops ∅ /\ KnownMvNoClobber ops ∅ /\
  (exists t', last (run M ops ∅) = Some (OErr, t') /\ t' !! [[102%N]] = Some (File [110%N]) /\
              t' !! [[100%N]; [102%N]] = Some (File [111%N])) /\
  (exists t', last (run S_step ops ∅) = Some (OVal s_true, t') /\ t' !! [[102%N]] = None /\
              t' !! [[100%N]; [102%N]] = Some (File [110%N])).
Proof.
  cbn zeta. split; [|split; [|split]].
  - split; [by vm_compute|]. split; [by vm_compute|]. split; [by vm_compute|done].
  - right. right. left. by vm_compute.
  - eexists. split; [vm_compute; reflexivity|]. by vm_compute.
  - eexists. split; [vm_compute; reflexivity|]. by vm_compute.
Qed.
End Witness.
