(* FlowFnCIdealThms.v — where the mode flag [em] of FlowFnCTree.v matters.
   [em_scope]: if no function that can run under a condition-position call contains a call with an
   output variable, the interpreter with the flag ([cprog_run]) IS the flag-free structured
   semantics ([iprog_run], FlowFnCIdeal.v); with [cond_sim] the flat machine then simulates the
   flag-free semantics ([cond_sim_ideal]).  [em_witness]: the flag is observable beyond
   [corner_prog] — under a condition-position call the output variable of `r = g` is still visible
   to g's body even when g returns a value. *)
Require Import DS.Base DS.Cond DS.FlowTables DS.Flow DS.FlowFn DS.FlowFnTree DS.FlowFnC DS.FlowFnCTree
  DS.FlowFnCErase DS.FlowFnCSim DS.FlowFnCThms DS.FlowFnCIdeal.
Open Scope nat_scope.

Section Unfold.
Variable ds : list cndef.
Lemma ys_cmd n p w : ys ds (S n) (QCmd p) w = match exec_prim p w with Some w' => FOk w' | None => FErr end.
Proof. reflexivity. Qed.
Lemma ys_if n sp c b els e w : ys ds (S n) (QIf sp c b els e) w =
  match yc ds n c w with
  | Some (v, w1) => if v then yb ds n b w1 else ye ds n els w1
  | None => FErr
  end.
Proof. reflexivity. Qed.
Lemma ys_while n sp c b e w : ys ds (S n) (QWhile sp c b e) w =
  match yc ds n c w with
  | Some (v, w1) =>
    if v then match yb ds n b w1 with FOk w2 => ys ds n (QWhile sp c b e) w2 | r => r end else FOk w1
  | None => FErr
  end.
Proof. reflexivity. Qed.
Lemma ys_for n sp x hv b e w : ys ds (S n) (QFor sp x hv b e) w = yfor ds n x hv b 0 w.
Proof. reflexivity. Qed.
Lemma ys_return n sp a w : ys ds (S n) (QReturn sp a) w = FRet (option_map (fun x => arg_val x w) a) w.
Proof. reflexivity. Qed.
Lemma ys_call n out f args w : ys ds (S n) (QCall out f args) w =
  match ycall ds n out f args w with Some (_, w') => FOk w' | None => FErr end.
Proof. reflexivity. Qed.
Lemma yb_nil n w : yb ds (S n) QNil w = FOk w.
Proof. reflexivity. Qed.
Lemma yb_cons n s b w : yb ds (S n) (QCons s b) w =
  match ys ds n s w with FOk w1 => yb ds n b w1 | r => r end.
Proof. reflexivity. Qed.
Lemma ye_elseif n sp c b r w : ye ds (S n) (ZElseIf sp c b r) w =
  match yc ds n c w with
  | Some (v, w1) => if v then yb ds n b w1 else ye ds n r w1
  | None => FErr
  end.
Proof. reflexivity. Qed.
Lemma ye_else n sp b w : ye ds (S n) (ZElse sp b) w = yb ds n b w.
Proof. reflexivity. Qed.
Lemma ye_nil n w : ye ds (S n) ZNil w = FOk w.
Proof. reflexivity. Qed.
Lemma yfor_step n x hv b i w : yfor ds (S n) x hv b i w =
  match get_next_iteration i (vval hv w) w with
  | None => FOk w
  | Some v => match yb ds n b (vset x v w) with FOk w2 => yfor ds n x hv b (S i) w2 | r => r end
  end.
Proof. reflexivity. Qed.
Lemma ycall_step n out f args w : ycall ds (S n) out f args w =
  match find_cdef f ds with
  | None => None
  | Some d =>
    let vals := map (fun a => arg_val a w) args in
    let saved := w_vars w in
    let w1 := if cd_scoped d then set_vars [] w else w in
    let w3 := clear_out out (bind_args 1 vals w1) in
    match yb ds n (cd_body d) w3 with
    | FOk w4 => Some (None, if cd_scoped d then set_vars saved w4 else w4)
    | FRet v w4 =>
        let w5 := match out with
                  | Some o => match v with Some x => vset o x w4 | None => vunset o w4 end
                  | None => w4
                  end in
        Some (v, if cd_scoped d then set_vars (overlay saved out w5) w5 else w5)
    | _ => None
    end
  end.
Proof. reflexivity. Qed.
Lemma yc_base n c w : yc ds (S n) (FCBase c) w = Some (eval_cond c w).
Proof. reflexivity. Qed.
Lemma yc_not n c w : yc ds (S n) (FCNot c) w =
  match yc ds n c w with Some (b, w') => Some (negb b, w') | None => None end.
Proof. reflexivity. Qed.
Lemma yc_call n f args w : yc ds (S n) (FCCall f args) w =
  match ycall ds n None f args w with Some (v, w') => Some (is_true v, w') | None => None end.
Proof. reflexivity. Qed.
End Unfold.

Section EmScope.
Variable cp : cprog.
Let ds := cp_defs cp.

(* f can run under a condition-position call *)
Definition Under (f : str) : Prop :=
  exists c g, In c (all_conds cp) /\ In g (cond_calls c) /\ CReach cp g f.
Lemma CReach_r f g h : CReach cp f g -> ccalls_rel cp g h -> CReach cp f h.
Proof.
  induction 1 as [f|f f' g Hc _ IH]; intros Hh.
  - econstructor; [exact Hh|constructor].
  - econstructor; [exact Hc|auto].
Qed.
Lemma Under_step f g : Under f -> ccalls_rel cp f g -> Under g.
Proof. intros (c & g0 & A & B & C) H. exists c, g0. split; [exact A|]. split; [exact B|]. eapply CReach_r; eauto. Qed.

Definition CIc (c : fcond) : Prop := forall g, In g (cond_calls c) -> Under g.
Definition CI (l : list fcond) : Prop := forall c, In c l -> CIc c.
Lemma CI_app a b : CI (a ++ b) -> CI a /\ CI b.
Proof. intros H. split; intros c Hc; apply H; apply in_or_app; auto. Qed.
Lemma CI_cons c l : CI (c :: l) -> CIc c /\ CI l.
Proof. intros H. split; [apply H; now left|intros c' Hc'; apply H; now right]. Qed.

Hypothesis Hno : forall f, Under f -> forall d, find_cdef f ds = Some d -> out_calls_b (cd_body d) = [].
Hypothesis Hglob : forall f d, find_cdef f ds = Some d -> CI (all_conds_b (cd_body d)).

Definition um (em : bool) (outs calls : list str) : Prop :=
  em = true -> outs = [] /\ forall g, In g calls -> Under g.
Lemma um_app em o1 o2 c1 c2 : um em (o1 ++ o2) (c1 ++ c2) -> um em o1 c1 /\ um em o2 c2.
Proof.
  intros H. split; intros E; destruct (H E) as (A & B); apply app_eq_nil in A; destruct A as (A1 & A2);
    (split; [assumption|intros g Hg; apply B; apply in_or_app; auto]).
Qed.
Lemma um_calls_r em o c0 c1 : um em o (c0 ++ c1) -> um em o c1.
Proof. intros H E. destruct (H E) as (A & B). split; [exact A|]. intros g Hg. apply B. apply in_or_app. auto. Qed.
Definition okS em s := CI (all_conds_s s) /\ um em (out_calls_s s) (kcalls_s s).
Definition okB em b := CI (all_conds_b b) /\ um em (out_calls_b b) (kcalls_b b).
Definition okE em els := CI (all_conds_e els) /\ um em (out_calls_e els) (kcalls_e els).

Lemma em_irrel n :
  (forall em s w, okS em s -> xs ds n em s w = ys ds n s w) /\
  (forall em b w, okB em b -> xb ds n em b w = yb ds n b w) /\
  (forall em els w, okE em els -> xe ds n em els w = ye ds n els w) /\
  (forall em x hv b i w, okB em b -> xfor ds n em x hv b i w = yfor ds n x hv b i w) /\
  (forall em out f args w, (em = true -> out = None /\ Under f) ->
     xcall ds n em out f args w = ycall ds n out f args w) /\
  (forall c w, CIc c -> xc ds n c w = yc ds n c w).
Proof.
  induction n as [|n (IHs & IHb & IHe & IHf & IHk & IHc)]; [repeat split; intros; reflexivity|].
  repeat split.
  - intros em s w (HC & HU). destruct s as [p|sp c b els e|sp c b e|sp x hv b e|out f args|sp a].
    + reflexivity.
    + rewrite xs_if, ys_if. cbn [all_conds_s out_calls_s kcalls_s] in HC, HU.
      apply CI_cons in HC. destruct HC as (Hc & HC). apply CI_app in HC. destruct HC as (HCb & HCe).
      apply um_calls_r in HU. apply um_app in HU. destruct HU as (HUb & HUe).
      rewrite (IHc c w Hc). destruct (yc ds n c w) as [[[] w1]|]; [apply IHb|apply IHe|reflexivity]; split; auto.
    + rewrite xs_while, ys_while. pose proof (conj HC HU) as Hself. cbn [all_conds_s out_calls_s kcalls_s] in HC, HU.
      apply CI_cons in HC. destruct HC as (Hc & HCb). apply um_calls_r in HU.
      rewrite (IHc c w Hc). destruct (yc ds n c w) as [[[] w1]|]; [|reflexivity|reflexivity].
      rewrite (IHb em b w1 (conj HCb HU)). destruct (yb ds n b w1); try reflexivity. apply IHs. exact Hself.
    + rewrite xs_for, ys_for. apply IHf. split; assumption.
    + rewrite xs_call, ys_call. rewrite (IHk em out f args w); [reflexivity|].
      intros E. destruct (HU E) as (A & B). cbn [out_calls_s kcalls_s] in A, B. split; [|apply B; now left].
      destruct out; [discriminate|reflexivity].
    + reflexivity.
  - intros em b w (HC & HU). destruct b as [|s b]; [reflexivity|].
    rewrite xb_cons, yb_cons. cbn [all_conds_b out_calls_b kcalls_b] in HC, HU.
    apply CI_app in HC. destruct HC as (HCs & HCb). apply um_app in HU. destruct HU as (HUs & HUb).
    rewrite (IHs em s w (conj HCs HUs)). destruct (ys ds n s w); try reflexivity. apply IHb. split; assumption.
  - intros em els w (HC & HU). destruct els as [|sp c b r|sp b].
    + reflexivity.
    + rewrite xe_elseif, ye_elseif. cbn [all_conds_e out_calls_e kcalls_e] in HC, HU.
      apply CI_cons in HC. destruct HC as (Hc & HC). apply CI_app in HC. destruct HC as (HCb & HCe).
      apply um_calls_r in HU. apply um_app in HU. destruct HU as (HUb & HUe).
      rewrite (IHc c w Hc). destruct (yc ds n c w) as [[[] w1]|]; [apply IHb|apply IHe|reflexivity]; split; auto.
    + rewrite xe_else, ye_else. apply IHb. split; assumption.
  - intros em x hv b i w Hb. rewrite xfor_step, yfor_step.
    destruct (get_next_iteration i (vval hv w) w) as [v|]; [|reflexivity].
    rewrite (IHb em b (vset x v w) Hb). destruct (yb ds n b (vset x v w)); try reflexivity. apply IHf. exact Hb.
  - intros em out f args w H. rewrite xcall_step, ycall_step. destruct (find_cdef f ds) as [d|] eqn:Ef; [|reflexivity].
    cbv zeta.
    assert (Hb : okB em (cd_body d)).
    { split; [exact (Hglob f d Ef)|]. intros E. destruct (H E) as (_ & HUf). split; [exact (Hno f HUf d Ef)|].
      intros g Hg. apply (Under_step f g HUf). exists d. auto. }
    assert (E3 : (if em then bind_args 1 (map (fun a => arg_val a w) args) (if cd_scoped d then set_vars [] w else w)
                  else clear_out out (bind_args 1 (map (fun a => arg_val a w) args) (if cd_scoped d then set_vars [] w else w)))
                 = clear_out out (bind_args 1 (map (fun a => arg_val a w) args) (if cd_scoped d then set_vars [] w else w))).
    { destruct em; [|reflexivity]. destruct (H eq_refl) as (-> & _). reflexivity. }
    rewrite E3, (IHb em (cd_body d) _ Hb). reflexivity.
  - intros c w Hc. destruct c as [c'|f args|c'].
    + reflexivity.
    + rewrite xc_call, yc_call. rewrite (IHk true None f args w); [reflexivity|].
      intros _. split; [reflexivity|]. apply Hc. now left.
    + rewrite xc_not, yc_not. rewrite (IHc c' w); [reflexivity|]. exact Hc.
Qed.
End EmScope.

Lemma all_conds_def p d : In d (cp_defs p) -> incl (all_conds_b (cd_body d)) (all_conds p).
Proof.
  intros Hd c Hc. unfold all_conds. apply in_or_app. left. apply in_flat_map. exists d. auto.
Qed.

Theorem em_scope p : no_out_under p = true -> forall n w, cprog_run n p w = iprog_run n p w.
Proof.
  intros H n w. unfold no_out_under in H. rewrite forallb_forall in H.
  assert (Hinit : forall c g, In c (all_conds p) -> In g (cond_calls c) -> Under p g).
  { intros c g Hc Hg. exists c, g. split; [exact Hc|]. split; [exact Hg|constructor]. }
  assert (Hno : forall f, Under p f -> forall d, find_cdef f (cp_defs p) = Some d -> out_calls_b (cd_body d) = []).
  { intros f (c & g & A & B & C) d Hd.
    assert (Hin : In f (creach (length (cp_defs p)) (cp_defs p) (flat_map cond_calls (all_conds p)))).
    { eapply (creach_complete p); [|exact C]. apply in_flat_map. exists c. auto. }
    specialize (H f Hin). cbv beta in H. rewrite Hd in H. destruct (out_calls_b (cd_body d)); [reflexivity|discriminate]. }
  assert (Hglob : forall f d, find_cdef f (cp_defs p) = Some d -> CI p (all_conds_b (cd_body d))).
  { intros f d Hd c Hc g Hg. apply (Hinit c g); [|exact Hg].
    apply (all_conds_def p d); [eapply find_cdef_In; eauto|exact Hc]. }
  destruct (em_irrel p Hno Hglob n) as (_ & Hb & _). unfold cprog_run, iprog_run. apply Hb.
  split.
  - intros c Hc g Hg. apply (Hinit c g); [|exact Hg]. unfold all_conds. apply in_or_app. now right.
  - intros E. discriminate.
Qed.

(* the flat machine simulates the flag-free structured semantics on such programs *)
Theorem cond_sim_ideal p : tables_wf = true -> wf_cprog p = true -> cknown_f6 p = false -> no_out_under p = true ->
  forall n w w', iprog_run n p w = FOk w' ->
  exists fuel efuel f' g',
    (forall k e, fuel <= k -> efuel <= e -> crun_program k e (compile_cprog p) w = FDone (w', f', g')) /\
    f_forstk f' = [] /\ fs_stk g' = [] /\ fs_scopes g' = [].
Proof.
  intros TW Hwf Hk Hno n w w' Hr. apply (cond_sim p TW Hwf Hk n w w'). now rewrite (em_scope p Hno).
Qed.

(* ---- the flag is observable beyond [corner_prog] ------------------------------------------------------ *)
Local Open Scope N_scope.
(* fn g / emit in ${r} / return 1 / end ; fn f / r = g / return ${r} / end ;
   r = set old ; if f / emit T / end ; emit fin ${r} *)
Definition w_g : str := [103]. Definition w_f : str := [102]. Definition w_r : str := [114].
Definition w_fn : str := [102;110]. Definition w_ret : str := [114;101;116;117;114;110].
Definition w_end : str := DSG.GenFlowNames.gen_end_name.
Definition em_prog : cprog :=
  mkCProg
    [mkCD w_fn false w_g (QCons (QCmd (PEmit [105;110] [w_r])) (QCons (QReturn w_ret (Some (ALit [49]))) QNil)) w_end;
     mkCD w_fn false w_f (QCons (QCall (Some w_r) w_g []) (QCons (QReturn w_ret (Some (AVar w_r))) QNil)) w_end]
    (QCons (QCmd (PSet w_r [111;108;100]))
    (QCons (QIf [105;102] (FCCall w_f []) (QCons (QCmd (PEmit [84] [])) QNil) ZNil w_end)
    (QCons (QCmd (PEmit [102;105;110] [w_r])) QNil))).
(* a well-formed program outside KnownF6 and outside [corner_prog] (g always returns a value): under
   the condition-position call of f, g's body still sees the old value of r (flag, = the flat
   machine); the flag-free semantics removes r when `r = g` starts *)
Lemma em_witness :
  wf_cprog em_prog = true /\ cknown_f6 em_prog = false /\ corner_prog em_prog = false /\
  no_out_under em_prog = false /\
  exists ws wi ff sf,
    cprog_run 50%nat em_prog world0 = FOk ws /\ iprog_run 50%nat em_prog world0 = FOk wi /\
    crun_program 200%nat 200%nat (compile_cprog em_prog) world0 = FDone (ws, ff, sf) /\
    w_trace ws = [[[102;105;110]; [49]]; [[84]]; [[105;110]; [111;108;100]]] /\
    w_trace wi = [[[102;105;110]; [49]]; [[84]]; [[105;110]; []]].
Proof.
  split; [vm_compute; reflexivity|]. split; [vm_compute; reflexivity|]. split; [vm_compute; reflexivity|].
  split; [vm_compute; reflexivity|].
  eexists. eexists. eexists. eexists. split; [vm_compute; reflexivity|]. split; [vm_compute; reflexivity|].
  split; [vm_compute; reflexivity|]. split; vm_compute; reflexivity.
Qed.
