(* FlowFnCSim.v — the frame lemma of C05_sim_cond: the machine of FlowFnC.v (main runner and the
   nested eval_instructions loop) computes what the tree-walking interpreter of FlowFnCTree.v
   computes, for programs with user-function calls in condition position.
   Structure as in FlowFnRec.v (site-based junk invariant, for-in stack discipline of KnownF6);
   the static facts (scanner results, sites, layout) are those of the erased program
   (FlowFnCErase.v).  New: (a) every statement lemma holds in both modes [em] (main runner /
   nested loop: a call made under the nested loop does not remove its output variable);
   (b) [cond_ok]: a condition leaves a frame (the nested loop of a condition-position call pushes
   its own call frame with caller line = length P, runs the callee's body and leaves the program
   through the return / end_function of that frame); (c) configurations carry the output of the
   last instruction, which is the value of the nested loop. *)
Require Import DS.Base DS.Cond DS.FlowTables DS.FlowTablesWf DS.FlowScan DS.Flow DS.FlowTree DS.FlowScanProof
  DS.FlowLemmas DS.FlowFrame DS.FlowFn DS.FlowFnTree DS.FlowFnDom DS.FlowFnScan DS.FlowFnLemmas DS.FlowFnSim
  DS.FlowFnSites DS.FlowFnRec DS.FlowFnC DS.FlowFnCTree DS.FlowFnCErase DS.FlowFnCRuns.
Require DS.FlowSim.
Require Import DSG.GenFlowNames DSG.GenFnNames.
Open Scope nat_scope.

Ltac kwn := first [apply kw_in_0; assumption|apply kw_in_1; assumption|apply kw_in_2; assumption|apply kw_in_3; assumption|apply kw_in_4; assumption|apply kw_in_5; assumption|apply kw_in_6; assumption|apply kw_in_7; assumption].

Definition plain (i : finstr) : Prop :=
  match fi_arg i with FCondC _ | FCall _ _ => False | _ => True end.
Lemma plain_er i : plain i -> er_i i = i.
Proof. unfold plain, er_i. destruct (fi_arg i); tauto. Qed.

Section CSim.
Variable cp : cprog.
Hypothesis TW : tables_wf = true.
Let cds := cp_defs cp.
Let pr := er_prog cp.
Let ds := p_defs pr.
Let P := compile_cprog cp.
Let P' := compile_prog pr.
Let P0 := map down P'.
Let M := length (gdefs ds).
Let Sites := prog_sites pr.

Lemma HP' : P' = map er_i P.
Proof. apply er_compile_prog. Qed.
Lemma Hfc : fcmds P = fcmds P'.
Proof. rewrite HP'. symmetry. apply fcmds_er. Qed.
Lemma P_length : length P' = length P.
Proof. rewrite HP'. apply map_length. Qed.

(* ---- steps of the machine on the real program, computed on the erased one ----------------------- *)
Lemma cstep_plain ev em l i s : plain i -> cstep ev em P l i s = fstep P' l i s.
Proof.
  intros Hp. rewrite (cstep_cmds ev em P P' l i s Hfc). unfold cstep, plain in *.
  destruct (fi_cmd i), (fi_arg i); try reflexivity; contradiction.
Qed.
Lemma plain_step k em l i o s l' s' :
  nth_error P l = Some i -> plain i -> fstep1 P' (l, s) = Some (l', s') ->
  cstep1 k em P (l, o, s) = Some (l', out_of i s, s').
Proof.
  intros Hn Hp H. unfold cstep1. rewrite Hn, (cstep_plain _ em l i s Hp).
  unfold fstep1 in H. rewrite HP', (nth_error_er P l i Hn), (plain_er i Hp), <- HP' in H.
  destruct (fstep P' l i s) as [[] s2]; inversion H; reflexivity.
Qed.
Lemma plain_runs em l i o s l' s' :
  nth_error P l = Some i -> plain i -> fstep1 P' (l, s) = Some (l', s') ->
  cruns em P (l, o, s) (l', out_of i s, s').
Proof. intros. eapply (cruns_step em P 0). eapply plain_step; eauto. Qed.

Lemma kw_kind sp : In sp kw_names -> classify_fn sp = FKBase (classify sp).
Proof. intros H. apply (kw_names_base TW sp H). Qed.

(* if / elseif / while with any condition: the step is [cstep_*] on the erased program *)
Lemma cif_at k em l sp c s : In sp n_if ->
  cstep (ceval (S k) P) em P l (ckw sp c) s = cstep_if (ceval (S k) P) P' l c s.
Proof.
  intros Hsp. destruct c as [c'|fn args|c'].
  - cbn [ckw]. rewrite cstep_plain by exact I. destruct s as [[w f] g].
    rewrite (fstep_kw pr TW) by kwn. rewrite (disp_if (map down P') TW) by exact Hsp.
    unfold step_if, cstep_if, lift. destruct (if_meta_info (map down P') l f) as [[m|] f1]; [|reflexivity].
    rewrite ceval_S. destruct (eval_cond c' w) as [b w1]. destruct b; [reflexivity|]. destruct (im_else m); reflexivity.
  - rewrite (cstep_cmds _ em P P' l _ s Hfc). unfold cstep. cbn [ckw fkw fi_cmd fi_arg].
    rewrite (kw_kind sp) by kwn. rewrite (cl_if TW sp Hsp). reflexivity.
  - rewrite (cstep_cmds _ em P P' l _ s Hfc). unfold cstep. cbn [ckw fkw fi_cmd fi_arg].
    rewrite (kw_kind sp) by kwn. rewrite (cl_if TW sp Hsp). reflexivity.
Qed.
Lemma celseif_at k em l sp c s : In sp n_elseif ->
  cstep (ceval (S k) P) em P l (ckw sp c) s = cstep_elseif (ceval (S k) P) l c s.
Proof.
  intros Hsp. destruct c as [c'|fn args|c'].
  - cbn [ckw]. rewrite cstep_plain by exact I. destruct s as [[w f] g].
    rewrite (fstep_kw pr TW) by kwn. rewrite (disp_elseif (map down P') TW) by exact Hsp.
    unfold step_elseif, cstep_elseif, lift. destruct (if_pop l (f_ifstk f)) as [[ci|] stk]; [|reflexivity].
    destruct (ic_passed ci); [reflexivity|].
    rewrite ceval_S. destruct (eval_cond c' w) as [b w1]. destruct b.
    + destruct (S (ic_idx ci) <? length (im_else (ic_meta ci)));
        match goal with |- context [nth_error ?a ?b] => destruct (nth_error a b) end; reflexivity.
    + destruct (S (ic_idx ci) <? length (im_else (ic_meta ci))); [|reflexivity].
      match goal with |- context [nth_error ?a ?b] => destruct (nth_error a b) end; reflexivity.
  - unfold cstep. cbn [ckw fkw fi_cmd fi_arg].
    rewrite (kw_kind sp) by kwn. rewrite (cl_elseif TW sp Hsp). reflexivity.
  - unfold cstep. cbn [ckw fkw fi_cmd fi_arg].
    rewrite (kw_kind sp) by kwn. rewrite (cl_elseif TW sp Hsp). reflexivity.
Qed.
Lemma cwhile_at k em l sp c s : In sp n_while ->
  cstep (ceval (S k) P) em P l (ckw sp c) s = cstep_while (ceval (S k) P) P' l c s.
Proof.
  intros Hsp. destruct c as [c'|fn args|c'].
  - cbn [ckw]. rewrite cstep_plain by exact I. destruct s as [[w f] g].
    rewrite (fstep_kw pr TW) by kwn. rewrite (disp_while (map down P') TW) by exact Hsp.
    unfold step_while, cstep_while, lift. destruct (while_meta_info (map down P') l f) as [[m|] f1]; [|reflexivity].
    rewrite ceval_S. destruct (eval_cond c' w) as [b w1]. destruct b; reflexivity.
  - rewrite (cstep_cmds _ em P P' l _ s Hfc). unfold cstep. cbn [ckw fkw fi_cmd fi_arg].
    rewrite (kw_kind sp) by kwn. rewrite (cl_while TW sp Hsp). reflexivity.
  - rewrite (cstep_cmds _ em P P' l _ s Hfc). unfold cstep. cbn [ckw fkw fi_cmd fi_arg].
    rewrite (kw_kind sp) by kwn. rewrite (cl_while TW sp Hsp). reflexivity.
Qed.
Lemma out_of_ckw sp c s : out_of (ckw sp c) s = None.
Proof. destruct c; reflexivity. Qed.

(* a call statement: run_call; the main runner then removes the output variable *)
Lemma ccall_at ev em l out fn args s : free_name fn = true ->
  cstep ev em P l (fkw fn (FCall out args)) s
  = if em then step_call_eval l out fn args s else step_call l out fn args s.
Proof.
  intros Hf. unfold cstep. cbn [fkw fi_cmd fi_arg]. destruct em.
  - now rewrite (free_name_kind fn Hf).
  - unfold fstep. cbn [fkw fi_cmd fi_arg]. rewrite (free_name_kind fn Hf). destruct s as [[w f] g]. reflexivity.
Qed.

(* ---- placement ------------------------------------------------------------------------------------- *)
Lemma fplaced_P' p l : fplaced P p l -> fplaced P' p (map er_i l).
Proof. intros H. rewrite HP'. now apply fplaced_er. Qed.

(* ---- the definitions ------------------------------------------------------------------------------ *)
Definition CDefAt (cd : cndef) (s : nat) : Prop := In (cd, s) (clayout cds 0).
Lemma CDefAt_DefAt cd s : CDefAt cd s -> DefAt pr (er_def cd) s.
Proof. intros H. apply (clayout_layout cds 0 cd s H). Qed.
Lemma CDefAt_placed cd s : CDefAt cd s -> fplaced P s (kdef cd).
Proof.
  intros H. destruct (clayout_placed cds 0 [] (kb (cp_main cp)) cd s eq_refl H) as (pre' & post' & E & L).
  exists pre', post'. split; [|exact L]. unfold P, compile_cprog. exact E.
Qed.
Definition ccallable (f : str) : Prop := exists cd s, find_cdef f cds = Some cd /\ CDefAt cd s.
Lemma ccallable_callable f : ccallable f -> callable pr f.
Proof.
  intros (cd & s & A & B). exists (er_def cd), s. split; [|now apply CDefAt_DefAt].
  unfold pr, er_prog. cbn [p_defs]. fold cds. now rewrite er_find_def, A.
Qed.
Lemma d_end_er cd s : d_end (er_def cd) s = S s + length (kb (cd_body cd)).
Proof. unfold d_end, er_def. cbn [fd_body]. now rewrite er_len_b. Qed.

(* ---- the call graph with condition-position calls, the for-in stack discipline --------------------- *)
Definition ccalls_rel (f f' : str) : Prop :=
  exists cd, find_cdef f cds = Some cd /\ In f' (kcalls_b (cd_body cd)).
Inductive CReach : str -> str -> Prop :=
| CR_refl f : CReach f f
| CR_step f f' h : ccalls_rel f f' -> CReach f' h -> CReach f h.
Definition CCR (f : str) (o : own) : Prop :=
  match o with OMain => False | OFn d _ => CReach f (fd_name d) end.
Definition couter_ok (cx : own) (e : forcall) : Prop :=
  match cx with
  | OMain => False
  | OFn d _ => exists o, valid pr o /\ fe_lines_in pr o e /\ ~ CCR (fd_name d) o
  end.
Definition ccalls_in (cx : own) (fs : list str) : Prop :=
  match cx with OMain => True | OFn d _ => forall f', In f' fs -> ccalls_rel (fd_name d) f' end.
Definition CForPre (cx : own) (p q : nat) (cs : list str) (bs : list cblock) (f : flow) : Prop :=
  exists Cur Outer, f_forstk f = Cur ++ Outer /\
    Forall (fun e => outside p q e /\ fe_lines_in pr cx e) Cur /\ Forall (couter_ok cx) Outer /\
    (Cur <> [] -> forall f', In f' cs -> ~ CCR f' cx) /\
    (forall B, In B bs -> khas_return_b B = false /\ forall f', In f' (kcalls_b B) -> ~ CCR f' cx) /\
    ccalls_in cx cs.

Lemma CForPre_sub cx p q p' q' cs cs' bs bs' f f' :
  CForPre cx p q cs bs f -> p <= p' -> q' <= q -> incl cs' cs -> incl bs' bs ->
  f_forstk f' = f_forstk f -> CForPre cx p' q' cs' bs' f'.
Proof.
  intros (Cur & Outer & E & HC & HO & Hs & Hb & Hi) H1 H2 I1 I2 Ef.
  exists Cur, Outer. split; [congruence|]. split.
  - eapply Forall_impl; [|exact HC]. unfold outside. intros a [[A B] C]. split; [split; lia|exact C].
  - split; [exact HO|]. split; [intros Hne f0 Hf0; apply Hs; auto|]. split; [intros B HB; apply Hb; auto|].
    destruct cx; [exact I|]. intros f0 Hf0. apply Hi. auto.
Qed.
Lemma cfor_top_nomatch cx p q cs bs f l : CForPre cx p q cs bs f -> valid pr cx -> in_range pr cx l -> p <= l < q ->
  for_pop_top l (f_forstk f) = (None, f_forstk f).
Proof.
  intros (Cur & Outer & E & HC & HO & _) Hv Hr Hl. rewrite E.
  destruct Cur as [|e Cur].
  - cbn [app]. destruct Outer as [|e Outer]; [reflexivity|]. cbn [for_pop_top].
    pose proof (Forall_inv HO) as He. destruct cx as [|d s]; [contradiction|].
    destruct He as (o & Vo & (R1 & R2) & Hn).
    unfold for_match.
    destruct (Nat.eqb_spec (lm_start (fc_meta e)) l) as [E1|E1].
    + exfalso. rewrite E1 in R1. rewrite (in_range_unique pr _ _ _ Vo Hv R1 Hr) in Hn. apply Hn. cbn. constructor.
    + destruct (Nat.eqb_spec (lm_end (fc_meta e)) l) as [E2|E2]; [|reflexivity].
      exfalso. rewrite E2 in R2. rewrite (in_range_unique pr _ _ _ Vo Hv R2 Hr) in Hn. apply Hn. cbn. constructor.
  - cbn [app for_pop_top]. pose proof (Forall_inv HC) as ((A & B) & _). unfold for_match.
    destruct (Nat.eqb_spec (lm_start (fc_meta e)) l); [lia|].
    destruct (Nat.eqb_spec (lm_end (fc_meta e)) l); [lia|]. reflexivity.
Qed.
Lemma CReach_step_l f f' o : ccalls_rel f f' -> CCR f' o -> CCR f o.
Proof. destruct o; cbn; [auto|]. intros H1 H2. econstructor; eauto. Qed.

(* ---- what a statement needs, what it establishes ----------------------------------------------------- *)
Definition cready (cx : own) (infn : bool) (cs : list str) (bs : list cblock) (sts : list site)
  (p q : nat) (f : flow) (g : fnst) : Prop :=
  Good pr f /\ FnInv pr g /\ act_ok infn p q g /\ incl sts Sites /\ valid pr cx /\ rng pr cx p q /\
  CForPre cx p q cs bs f.

Definition cpost (em : bool) (c0 : ccfg) (q : nat) (f : flow) (g : fnst) (r : fres) : Prop :=
  match r with
  | FOk w' => exists o f', cruns em P c0 (q, o, (w', f', g)) /\ Good pr f' /\ hframe f f'
  | FRet v w' => exists ci rest f', fs_stk g = ci :: rest /\
       cruns em P c0 (S (fn_call ci), v, (ret_world ci v w' (fs_scopes g), f', popf ci g)) /\
       Good pr f' /\ hframe f f'
  | _ => True
  end.
Lemma cpost_runs em c0 c1 q f g r : cruns em P c0 c1 -> cpost em c1 q f g r -> cpost em c0 q f g r.
Proof.
  intros Hr. destruct r as [w'|v w'| |]; cbn; auto.
  - intros (o & f' & H1 & H2 & H3). exists o, f'. split; [eapply cruns_trans; eauto|auto].
  - intros (ci & rest & f' & H0 & H1 & H2 & H3). exists ci, rest, f'.
    split; [exact H0|]. split; [eapply cruns_trans; eauto|auto].
Qed.
Lemma cpost_pre em c0 c1 q f f1 g r :
  cruns em P c0 c1 -> hframe f f1 -> cpost em c1 q f1 g r -> cpost em c0 q f g r.
Proof.
  intros Hr Hg. destruct r as [w'|v w'| |]; cbn; auto.
  - intros (o & f' & H1 & H2 & H3). exists o, f'. split; [eapply cruns_trans; eauto|]. eauto using hframe_trans.
  - intros (ci & rest & f' & H0 & H1 & H2 & H3). exists ci, rest, f'.
    split; [exact H0|]. split; [eapply cruns_trans; eauto|]. eauto using hframe_trans.
Qed.
Lemma cpost_bind_in em c0 c1 a q f f2 g r (k : world -> fres) :
  cruns em P c0 c1 -> hframe f f2 -> cpost em c1 a f2 g r ->
  (forall o w1 f3, Good pr f3 -> hframe f2 f3 -> hframe f f3 -> cpost em (a, o, (w1, f3, g)) q f g (k w1)) ->
  cpost em c0 q f g (match r with FOk w1 => k w1 | FRet v w0 => FRet v w0 | FErr => FErr | FFuel => FFuel end).
Proof.
  intros Hr HF Hp Hk. destruct r as [w1|v w'| |]; cbn [cpost] in *; auto.
  - destruct Hp as (o & f3 & R3 & I3 & F3).
    eapply cpost_runs; [eapply cruns_trans; [exact Hr|exact R3]|]. apply Hk; auto.
    eapply hframe_trans; eauto.
  - destruct Hp as (ci & rest & f3 & E & R3 & I3 & F3). exists ci, rest, f3.
    split; [exact E|]. split; [eapply cruns_trans; eauto|]. split; [exact I3|]. eapply hframe_trans; eauto.
Qed.
Lemma cpost_then em c0 c1 a q f f2 g r :
  cruns em P c0 c1 -> hframe f f2 -> cpost em c1 a f2 g r ->
  (forall o w1 f3, Good pr f3 -> hframe f2 f3 -> hframe f f3 ->
     exists o' f', cruns em P (a, o, (w1, f3, g)) (q, o', (w1, f', g)) /\ Good pr f' /\ hframe f f') ->
  cpost em c0 q f g r.
Proof.
  intros Hr HF Hp Hk. rewrite <- (res_eta r).
  eapply (cpost_bind_in em c0 c1 a q f f2 g r (fun w1 => FOk w1)); eauto.
Qed.

Lemma cready_sub cx infn cs bs sts cs' bs' sts' p q p' q' f f' g :
  cready cx infn cs bs sts p q f g -> p <= p' -> q' <= q ->
  incl cs' cs -> incl bs' bs -> incl sts' sts ->
  Good pr f' -> f_forstk f' = f_forstk f -> cready cx infn cs' bs' sts' p' q' f' g.
Proof.
  intros (A & B & C & D & E & F & G) H1 H2 I1 I2 I3 HG Ef.
  split; [exact HG|]. split; [exact B|]. split; [eapply (act_ok_sub pr); eauto|].
  split; [eapply incl_tran; eauto|]. split; [exact E|]. split.
  - intros l Hl. apply F. lia.
  - eapply CForPre_sub; eauto.
Qed.

Definition stmt_ok (n : nat) : Prop := forall em cx infn s w o p f g,
  pks ccallable infn s -> nfr_s (er_s s) = true -> fplaced P p (ks s) ->
  cready cx infn (kcalls_s s) (kfor_bodies_s s) (sites_s (er_s s) p) p (p + length (gs (er_s s))) f g ->
  cpost em (p, o, (w, f, g)) (p + length (gs (er_s s))) f g (xs cds n em s w).
Definition block_ok (n : nat) : Prop := forall em cx infn b w o p f g,
  pkb ccallable infn b -> nfr_b (er_b b) = true -> fplaced P p (kb b) ->
  cready cx infn (kcalls_b b) (kfor_bodies_b b) (sites_b (er_b b) p) p (p + length (gb (er_b b))) f g ->
  cpost em (p, o, (w, f, g)) (p + length (gb (er_b b))) f g (xb cds n em b w).
(* a call: from the first line of the callee's body to the line behind the call line [cl] *)
Definition call_ok (n : nat) : Prop := forall em cx infn cs bs sts p q out fn args w cl f g,
  ccallable fn -> cready cx infn cs bs sts p q f g -> In fn cs ->
  forall v w', xcall cds n em out fn args w = Some (v, w') ->
  exists cd s, find_cdef fn cds = Some cd /\ CDefAt cd s /\
    forall o, exists f4,
      cruns em P (S s, o, ((let w2 := bind_args 1 (map (fun a => arg_val a w) args)
                                                (if cd_scoped cd then set_vars [] w else w) in
                            if em then w2 else clear_out out w2),
                           f,
                           mkFS (fs_meta g) (mkFNC cl s (d_end (er_def cd) s) out (cd_scoped cd) :: fs_stk g)
                                (if cd_scoped cd then w_vars w :: fs_scopes g else fs_scopes g)))
                 (S cl, v, (w', f4, g)) /\ Good pr f4 /\ hframe f f4.
(* a condition leaves a frame *)
Definition cond_ok (n : nat) : Prop := forall cx infn c w p q f g,
  pkc ccallable c -> cready cx infn (cond_calls c) [] [] p q f g ->
  forall v w1, xc cds n c w = Some (v, w1) ->
  exists k f2, ceval k P c (w, f, g) = Some (v, (w1, f2, g)) /\ Good pr f2 /\ hframe f f2.

(* ---- the program is well-formed and outside KnownF6 --------------------------------------------------- *)
Hypothesis Hcwf : forall cd s, CDefAt cd s ->
  In (cd_sp cd) n_function /\ In (cd_end cd) fn_closers /\
  pkb ccallable true (cd_body cd) /\ nfr_b (er_b (cd_body cd)) = true /\ find_cdef (cd_name cd) cds = Some cd.
Hypothesis HnoF6 : forall cd s, CDefAt cd s -> forall B, In B (kfor_bodies_b (cd_body cd)) ->
  khas_return_b B = false /\ forall f', In f' (kcalls_b B) -> ~ CReach f' (cd_name cd).

Lemma pk_pg_s infn s : pks ccallable infn s -> pgs (callable pr) infn (er_s s).
Proof. apply (pk_pg ccallable (callable pr) ccallable_callable infn). Qed.
Lemma pk_pg_b infn b : pkb ccallable infn b -> pgb (callable pr) infn (er_b b).
Proof. apply (pk_pg ccallable (callable pr) ccallable_callable infn). Qed.
Lemma pk_pg_e infn els : pke ccallable infn els -> pge (callable pr) infn (er_e els).
Proof. apply (pk_pg ccallable (callable pr) ccallable_callable infn). Qed.

(* ---- straight-line command, return --------------------------------------------------------------------- *)
Lemma cmd_case n : forall em cx infn cs bs sts p0 w o p f g,
  fplaced P p (ks (QCmd p0)) -> cready cx infn cs bs sts p (p + 1) f g ->
  cpost em (p, o, (w, f, g)) (p + 1) f g (xs cds (S n) em (QCmd p0) w).
Proof.
  intros em cx infn cs bs sts p0 w o p f g Hp Hr. rewrite xs_cmd.
  destruct (exec_prim p0 w) as [w1|] eqn:E; [|exact I].
  eexists _, f. split; [|split; [apply Hr|apply hframe_refl]].
  replace (p + 1) with (S p) by lia. cbn [ks] in Hp.
  eapply plain_runs; [eapply fplaced_nth; exact Hp|exact I|].
  pose proof (fplaced_nth _ _ _ _ (fplaced_P' _ _ Hp)) as Hn'. cbn [map er_i fi_arg] in Hn'.
  eapply fstep1_continue; [exact Hn'|].
  destruct (prim_cmd p0) as [c|] eqn:Ec.
  - rewrite (fdisp_base P').
    + rewrite <- Ec.
      change (down {| fi_cmd := prim_cmd p0; fi_arg := FBase (APrim p0) |}) with (mkI (prim_cmd p0) (APrim p0)).
      rewrite (prim_step (map down P') TW p p0 w w1 f E). reflexivity.
    + exists c. split; [reflexivity|].
      assert (Hin : In c prim_names) by (eapply prim_cmd_names; eauto).
      split; [apply base_kind; do 9 (apply in_or_app; right); exact Hin|].
      rewrite (cl_prim TW c Hin). discriminate.
    + eexists. reflexivity.
  - unfold fstep. cbn [fi_cmd]. destruct p0; try discriminate. cbn in E. now inversion E.
Qed.

Lemma return_case n : forall em cx cs bs sts sp a w o p f g,
  In sp n_return -> fplaced P p (ks (QReturn sp a)) -> cready cx true cs bs sts p (p + 1) f g ->
  cpost em (p, o, (w, f, g)) (p + 1) f g (xs cds (S n) em (QReturn sp a) w).
Proof.
  intros em cx cs bs sts sp a w o p f g Hsp Hp Hr. rewrite xs_return.
  destruct Hr as (HG & _ & Hact & _).
  destruct (Hact eq_refl) as (ci & rest & Estk & Hs & He & Hsc).
  exists ci, rest, f. split; [exact Estk|]. split; [|split; [exact HG|apply hframe_refl]].
  cbn [ks] in Hp.
  change (option_map (fun x => arg_val x w) a) with (out_of (fkw sp (FReturn a)) (w, f, g)).
  eapply plain_runs; [eapply fplaced_nth; exact Hp|exact I|].
  pose proof (fplaced_nth _ _ _ _ (fplaced_P' _ _ Hp)) as Hn'. cbn [map er_i fi_arg fkw] in Hn'.
  eapply fstep1_goto; [exact Hn'|].
  unfold fstep. cbn [fi_cmd fi_arg fkw]. rewrite (proj2 (proj2 fcl_parts) sp Hsp).
  unfold step_return. rewrite Estk.
  assert (Hrange : ((fn_start ci <? p) && (p <? fn_end ci)) = true).
  { apply andb_true_intro. split; apply Nat.ltb_lt; lia. }
  rewrite Hrange. unfold ret_world, popf. rewrite Estk. cbn [tl out_of fkw fi_arg fst].
  destruct (fn_scoped ci) eqn:Esc.
  - destruct (fs_scopes g) as [|saved rs] eqn:Es; [exfalso; now apply Hsc|]. reflexivity.
  - reflexivity.
Qed.

Lemma nth_P' l i : nth_error P l = Some i -> plain i -> nth_error P' l = Some i.
Proof. intros H Hp. rewrite HP', (nth_error_er P l i H), (plain_er i Hp). reflexivity. Qed.

(* ---- calls ------------------------------------------------------------------------------------------ *)
Lemma call_case n : block_ok n -> call_ok (S n).
Proof.
  intros Hb em cx infn cs bs sts p q out fn args w cl f g (cd & s & Hfd & Hd) Hr Hin v w' Hx.
  pose proof Hr as (HG & HF & Hact & Hsites & Hv & Hrng & (Cur & Outer & Efor & HC & HO & Hcs & Hbs & Hci)).
  destruct (Hcwf cd s Hd) as (Hsp & Hend & Hbody & Hnfr & Hfind).
  pose proof (CDefAt_placed cd s Hd) as Hpd.
  pose proof (CDefAt_DefAt cd s Hd) as Hd'.
  pose proof (find_cdef_name fn cds cd Hfd) as Hname.
  rewrite xcall_step in Hx. fold cds in Hx. rewrite Hfd in Hx. cbv zeta in Hx.
  exists cd, s. split; [exact Hfd|]. split; [exact Hd|]. intros o.
  set (d := er_def cd) in *.
  set (w3 := if em then bind_args 1 (map (fun a => arg_val a w) args) (if cd_scoped cd then set_vars [] w else w)
             else clear_out out (bind_args 1 (map (fun a => arg_val a w) args) (if cd_scoped cd then set_vars [] w else w))) in *.
  set (ci := mkFNC cl s (d_end d s) out (cd_scoped cd)).
  set (gc := mkFS (fs_meta g) (ci :: fs_stk g) (if cd_scoped cd then w_vars w :: fs_scopes g else fs_scopes g)).
  unfold kdef in Hpd. pose proof (fplaced_tail _ _ _ _ Hpd) as Hpb0.
  pose proof (fplaced_app_l _ _ _ _ Hpb0) as Hpb.
  pose proof (fplaced_app_r _ _ _ _ Hpb0) as Hpe.
  pose proof (fplaced_nth _ _ _ _ Hpe) as HnE. rewrite <- er_len_b in HnE.
  change (S s + length (gb (er_b (cd_body cd)))) with (d_end d s) in HnE.
  pose proof (def_site_in pr d s Hd') as Hdsites.
  set (xd := mkSite None s (d_end d s) []).
  assert (Hxd : In xd Sites) by (apply Hdsites; now left).
  assert (Hnm : fd_name d = fn) by exact Hname.
  assert (Hready : cready (OFn d s) true (kcalls_b (cd_body cd)) (kfor_bodies_b (cd_body cd))
                          (sites_b (er_b (cd_body cd)) (S s)) (S s) (S s + length (gb (er_b (cd_body cd)))) f gc).
  { split; [exact HG|]. split; [exact HF|]. split.
    - intros _. exists ci, (fs_stk g). cbn. unfold d_end, d, er_def. cbn [fd_body]. repeat split; try lia.
      intros Hs. rewrite Hs. discriminate.
    - split; [intros y Hy; apply Hdsites; now right|]. split; [exact Hd'|]. split.
      + intros l Hl. cbn. unfold d_end, d, er_def. cbn [fd_body]. lia.
      + exists [], (f_forstk f). split; [reflexivity|]. split; [constructor|]. split.
        * rewrite Efor. apply Forall_app. split.
          -- assert (Hnr : Cur <> [] -> ~ CCR (fd_name d) cx).
             { intros Hne. rewrite Hnm. apply Hcs; [exact Hne|exact Hin]. }
             clear - HC Hnr Hv. induction HC as [|e Cur (He1 & He2) HC IH]; constructor.
             ++ cbn. exists cx. split; [exact Hv|]. split; [exact He2|]. apply Hnr. discriminate.
             ++ apply IH. intros _. apply Hnr. discriminate.
          -- destruct cx as [|dc sc].
             ++ eapply Forall_impl; [|exact HO]. intros a [].
             ++ eapply Forall_impl; [|exact HO]. intros a (o0 & Vo & Ro & Hn). cbn.
                exists o0. split; [exact Vo|]. split; [exact Ro|]. intros Hc. apply Hn.
                assert (Hcr : ccalls_rel (fd_name dc) fn) by (apply Hci; exact Hin).
                rewrite <- Hname in Hcr. eapply CReach_step_l; [exact Hcr|exact Hc].
        * split; [intros Hne; congruence|]. split.
          -- intros B HB. destruct (HnoF6 cd s Hd B HB) as (H1 & H2). split; [exact H1|]. intros f' Hf'. cbn. auto.
          -- cbn. intros f' Hf'. exists cd. split; [exact Hfind|exact Hf']. }
  pose proof (Hb em (OFn d s) true (cd_body cd) w3 o (S s) f gc Hbody Hnfr Hpb Hready) as IH.
  fold (d_end d s) in IH. change (S s + length (gb (er_b (cd_body cd)))) with (d_end d s) in IH.
  destruct (xb cds n em (cd_body cd) w3) as [w4|rv w4| |] eqn:Er; try discriminate; cbn [cpost] in IH.
  - inversion Hx; subst v w'. destruct IH as (o4 & f4 & R4 & G4 & F4).
    assert (HE4 : aget Nat.eqb (d_end d s) (f_end f4) = Some gen_endfunction_name).
    { apply (end_name_at pr f4 xd); [apply G4|exact Hxd|]. cbn [xd s_end].
      apply (hf_end _ _ F4). destruct HG as (_ & _ & _ & _ & HES). now apply HES. }
    assert (Sendfn : step_endfn (d_end d s) (w4, f4, gc)
                     = (RGoto (S cl), (if cd_scoped cd then set_vars (w_vars w) w4 else w4, f4, g))).
    { unfold step_endfn. cbn [gc fs_stk ci fn_end fn_scoped fn_call fs_scopes fs_meta]. rewrite Nat.eqb_refl.
      destruct g as [gm gs0 gsc]. destruct (cd_scoped cd); reflexivity. }
    exists f4. split; [|split; [exact G4|exact F4]].
    eapply cruns_trans; [exact R4|].
    change (@None str) with (out_of (bkw (cd_end cd) ANone) (w4, f4, gc)).
    eapply plain_runs; [exact HnE|exact I|].
    eapply fstep1_goto; [apply nth_P'; [exact HnE|exact I]|].
    unfold fn_closers in Hend. apply in_app_or in Hend. destruct Hend as [Hend|[<-|[]]].
    + unfold fstep. cbn [fi_cmd fi_arg bkw]. rewrite (proj1 (proj2 fcl_parts) _ Hend). exact Sendfn.
    + unfold fstep. cbn [fi_cmd fi_arg bkw]. rewrite (fcl_end TW). unfold step_end_fn. rewrite HE4, fcl_endfn_name.
      exact Sendfn.
  - inversion Hx; subst v w'. destruct IH as (ci' & rest & f4 & Estk & R4 & G4 & F4).
    cbn [gc fs_stk] in Estk. inversion Estk; subst ci' rest.
    exists f4. split; [|split; [exact G4|exact F4]].
    replace (S (fn_call ci)) with (S cl) in R4 by reflexivity.
    assert (Epop : popf ci gc = g).
    { unfold popf. cbn [gc fs_stk fs_meta fs_scopes ci fn_scoped tl]. destruct g as [gm gs0 gsc].
      destruct (cd_scoped cd); reflexivity. }
    assert (Eret : ret_world ci rv w4 (fs_scopes gc)
                   = (let w5 := match out with
                                | Some o => match rv with Some x => vset o x w4 | None => vunset o w4 end
                                | None => w4
                                end in
                      if cd_scoped cd then set_vars (overlay (w_vars w) out w5) w5 else w5)).
    { unfold ret_world. cbn [gc fs_scopes ci fn_out fn_scoped]. destruct (cd_scoped cd); reflexivity. }
    rewrite Epop, Eret in R4. exact R4.
Qed.

Lemma fninv_at g cd s : FnInv pr g -> CDefAt cd s ->
  aget str_eqb (cd_name cd) (fs_meta g) = Some (mkFM s (d_end (er_def cd) s) (cd_scoped cd)).
Proof. intros HF Hd. exact (HF (er_def cd) s (CDefAt_DefAt cd s Hd)). Qed.

Lemma qcall_case n : call_ok n -> forall em cx infn out fn args w o p f g,
  pks ccallable infn (QCall out fn args) -> fplaced P p (ks (QCall out fn args)) ->
  cready cx infn (kcalls_s (QCall out fn args)) (kfor_bodies_s (QCall out fn args))
         (sites_s (er_s (QCall out fn args)) p) p (p + 1) f g ->
  cpost em (p, o, (w, f, g)) (p + 1) f g (xs cds (S n) em (QCall out fn args) w).
Proof.
  intros Hc em cx infn out fn args w o p f g (Hcal & Hfree & Hargs) Hp Hr. rewrite xs_call.
  destruct (xcall cds n em out fn args w) as [[v w']|] eqn:Ex; [|exact I].
  destruct (Hc em cx infn _ _ _ p (p + 1) out fn args w p f g Hcal Hr (or_introl eq_refl) v w' Ex)
    as (cd & s & Hfd & Hd & Hrun).
  destruct (Hrun None) as (f4 & R4 & G4 & F4).
  exists v, f4. split; [|split; [exact G4|exact F4]]. replace (p + 1) with (S p) by lia.
  eapply cruns_step_then; [|exact R4]. cbn [ks] in Hp.
  apply (cstep1_goto em P 0 p (fkw fn (FCall out args)) o (w, f, g) _ (S s) (fplaced_nth _ _ _ _ Hp)).
  rewrite ccall_at by exact Hfree.
  pose proof (fninv_at g cd s (proj1 (proj2 Hr)) Hd) as HF. rewrite (find_cdef_name fn cds cd Hfd) in HF.
  destruct em; [unfold step_call_eval|unfold step_call]; rewrite HF; reflexivity.
Qed.

Lemma cond_case n : call_ok n -> cond_ok n -> cond_ok (S n).
Proof.
  intros Hc Hn cx infn c w p q f g Hw Hr v w1 Hx. destruct c as [c'|fn args|c'].
  - rewrite xc_base in Hx. exists 1, f. split; [|split; [apply Hr|apply hframe_refl]].
    rewrite ceval_S. destruct (eval_cond c' w) as [b w0]. inversion Hx; subst. reflexivity.
  - rewrite xc_call in Hx. destruct (xcall cds n true None fn args w) as [[rv w']|] eqn:Ex; [|discriminate].
    inversion Hx; subst v w1. destruct Hw as (Hcal & Hfree & Hargs).
    destruct (Hc true cx infn _ _ _ p q None fn args w (length P) f g Hcal Hr (or_introl eq_refl) rv w' Ex)
      as (cd & s & Hfd & Hd & Hrun).
    destruct (Hrun None) as (f4 & R4 & G4 & F4).
    pose proof (fninv_at g cd s (proj1 (proj2 Hr)) Hd) as HF. rewrite (find_cdef_name fn cds cd Hfd) in HF.
    match type of R4 with cruns _ _ (_, _, ?s1) _ =>
      assert (Hst : step_call_eval (length P) None fn args (w, f, g) = (RGoto (S s), s1))
        by (unfold step_call_eval; rewrite HF; reflexivity) end.
    destruct (ceval_of_cruns P fn args (w, f, g) (S s) _ _ Hst R4) as (k & Hk).
    { cbn [fst]. apply nth_error_None. lia. }
    exists k, f4. cbn [fst snd] in Hk. auto.
  - rewrite xc_not in Hx. destruct (xc cds n c' w) as [[b w']|] eqn:Ex; [|discriminate]. inversion Hx; subst.
    destruct (Hn cx infn c' w p q f g Hw Hr b w1 Ex) as (k & f2 & Hk & G2 & F2).
    exists (S k), f2. split; [rewrite ceval_S, Hk; reflexivity|auto].
Qed.

Lemma block_case n : stmt_ok n -> block_ok n -> block_ok (S n).
Proof.
  intros Hs Hb em cx infn b w o p f g Hw Hn Hp Hr. destruct b as [|s b].
  - rewrite xb_nil. cbn [er_b gb length]. rewrite Nat.add_0_r. exists o, f.
    split; [apply cruns_refl|split; [apply Hr|apply hframe_refl]].
  - rewrite xb_cons. destruct Hw as (Hws & Hwb). cbn [er_b nfr_b] in Hn. apply andb_prop in Hn. destruct Hn as (Hns & Hnb).
    cbn [er_b gb kb kcalls_b kfor_bodies_b sites_b] in Hp, Hr |- *. rewrite app_length in *.
    pose proof (fplaced_app_l _ _ _ _ Hp) as Hp1. pose proof (fplaced_app_r _ _ _ _ Hp) as Hp2.
    rewrite <- er_len_s in Hp2.
    set (q := p + (length (gs (er_s s)) + length (gb (er_b b)))) in *.
    eapply (cpost_bind_in em (p, o, (w, f, g)) (p, o, (w, f, g)) (p + length (gs (er_s s))) q f f g
              (xs cds n em s w) (fun w1 => xb cds n em b w1));
      [apply cruns_refl|apply hframe_refl| |].
    + apply (Hs em cx infn s w o p f g Hws Hns Hp1).
      eapply cready_sub; try exact Hr; try (unfold q; lia); try (apply incl_appl; apply incl_refl); try apply Hr; reflexivity.
    + intros o1 w1 f1 G1 _ F1.
      replace q with (p + length (gs (er_s s)) + length (gb (er_b b))) by (unfold q; lia).
      eapply cpost_pre; [apply cruns_refl|exact F1|].
      apply (Hb em cx infn b w1 o1 (p + length (gs (er_s s))) f1 g Hwb Hnb Hp2).
      replace (p + length (gs (er_s s)) + length (gb (er_b b))) with q by (unfold q; lia).
      eapply cready_sub; try exact Hr; try (unfold q; lia); try (apply incl_appr; apply incl_refl); auto.
      exact (hf_for _ _ F1).
Qed.

(* ---- if ---------------------------------------------------------------------------------------------- *)
Definition chain_ok (n : nat) : Prop := forall em cx infn els w o L e m x pfx fb g,
  els <> ZNil -> pke ccallable infn els -> nfr_e (er_e els) = true -> In e (closers CkIf) ->
  fplaced P L (ke els ++ [bkw e ANone]) ->
  In x Sites -> s_kind x = Some CkIf -> m = mkIM (s_start x) (s_end x) (s_mids x) ->
  im_else m = pfx ++ gmid_pos (er_e els) L -> im_end m = L + length (ge (er_e els)) ->
  cready cx infn (kcalls_e els) (kfor_bodies_e els) (sites_e (er_e els) L) L (S (im_end m)) fb g ->
  aget Nat.eqb (im_end m) (f_end fb) <> None ->
  cpost em (L, o, (w, if_push (mkIC L false (length pfx) m) fb, g)) (S (im_end m)) fb g (xe cds n em els w).

(* an else line reached with a passed entry jumps behind the block *)
Lemma celse_passed em r infn L rest w o f g e stk' :
  r <> ZNil -> pke ccallable infn r -> fplaced P L (ke r ++ rest) ->
  if_pop L (f_ifstk f) = (Some e, stk') -> ic_passed e = true ->
  exists o', cstep1 1 em P (L, o, (w, f, g)) = Some (S (im_end (ic_meta e)), o', (w, set_ifstk stk' f, g)).
Proof.
  intros Hr Hw Hp Hpop Hpass. destruct r as [|sp c b r|sp b]; [congruence| |].
  - cbn [ke app] in Hp. destruct Hw as (Hsp & _). eexists.
    eapply cstep1_goto; [eapply fplaced_nth; exact Hp|]. rewrite celseif_at by exact Hsp.
    unfold cstep_elseif. rewrite Hpop, Hpass. reflexivity.
  - cbn [ke app] in Hp. destruct Hw as (Hsp & _). eexists.
    eapply plain_step; [eapply fplaced_nth; exact Hp|exact I|].
    eapply fstep1_goto; [apply nth_P'; [eapply fplaced_nth; exact Hp|exact I]|].
    rewrite (fstep_kw pr TW) by kwn. rewrite (disp_else (map down P') TW) by exact Hsp. unfold step_else.
    rewrite Hpop, Hpass. reflexivity.
Qed.

Lemma cafter_branch em r infn L e w' o f f2 f3 g (ent : ifcall) :
  r <> ZNil -> pke ccallable infn r -> fplaced P L (ke r ++ [bkw e ANone]) ->
  Good pr f -> hframe f f3 -> Good pr f3 -> hframe f2 f3 ->
  f_ifstk f2 = ent :: f_ifstk f -> ic_current ent = L -> ic_passed ent = true -> if_ok pr ent ->
  exists o' f', cruns em P (L, o, (w', f3, g)) (S (im_end (ic_meta ent)), o', (w', f', g)) /\ Good pr f' /\ hframe f f'.
Proof.
  intros Hr Hw Hp HG F3' G3 F3 E2 Hc Hpass Hok.
  destruct (hf_if _ _ F3) as (Jb & Ei & Fi). rewrite E2 in Ei.
  pose proof G3 as (I3 & O3 & W3 & D3 & S3). rewrite Ei in O3. apply Forall_app in O3. destruct O3 as (OJ & Orest).
  destruct (if_pop_sites pr L Jb ent (f_ifstk f) Fi OJ Hc Hpass Hok) as (e0 & J' & Hpop & Pe & Me & PJ & OJ').
  rewrite <- Ei in Hpop.
  destruct (celse_passed em r infn L [bkw e ANone] w' o f3 g e0 _ Hr Hw Hp Hpop Pe) as (o' & St).
  exists o', (set_ifstk (J' ++ f_ifstk f) f3). split; [|split].
  - eapply cruns_step. rewrite <- Me. exact St.
  - split; [eapply Inv_same; [| | |exact I3]; reflexivity|]. split.
    + cbn. apply Forall_app. split; [exact OJ'|]. apply HG.
    + split; [exact W3|]. split; [exact D3|exact S3].
  - constructor.
    + exists J'. split; [reflexivity|exact PJ].
    + exact (hf_wh _ _ F3').
    + exact (hf_for _ _ F3').
    + exact (hf_end _ _ F3').
Qed.

Lemma er_e_ne els : els <> ZNil -> er_e els <> HNil.
Proof. intros H E. apply H. now apply er_e_nil. Qed.
Lemma hframe_push_if e f : ic_passed e = true -> hframe f (if_push e f).
Proof.
  intros H. constructor.
  - exists [e]. split; [reflexivity|]. constructor; [exact H|constructor].
  - exists []. reflexivity.
  - reflexivity.
  - auto.
Qed.

Lemma gif_case n : block_ok n -> chain_ok n -> cond_ok n -> forall em cx infn sp c b els e w o p f g,
  pks ccallable infn (QIf sp c b els e) -> nfr_s (er_s (QIf sp c b els e)) = true ->
  fplaced P p (ks (QIf sp c b els e)) ->
  cready cx infn (kcalls_s (QIf sp c b els e)) (kfor_bodies_s (QIf sp c b els e)) (sites_s (er_s (QIf sp c b els e)) p)
         p (p + length (gs (er_s (QIf sp c b els e)))) f g ->
  cpost em (p, o, (w, f, g)) (p + length (gs (er_s (QIf sp c b els e)))) f g (xs cds (S n) em (QIf sp c b els e) w).
Proof.
  intros Hb Hch Hcd em cx infn sp c b els e w o p f g Hw Hn Hp Hr.
  pose proof (pk_pg_s infn _ Hw) as Hw'.
  pose proof (fplaced_P' _ _ Hp) as Hp'. rewrite <- er_gs in Hp'.
  cbn [er_s] in Hw', Hn, Hr, Hp' |- *.
  pose proof (gif_meta_placed P' TW (callable pr) infn p sp (er_c c) (er_b b) (er_e els) e Hp' Hw') as Hm. fold P0 in Hm.
  destruct Hw as (Hsp & He & Hwc & Hwb & Hwe).
  cbn [nfr_s] in Hn. apply andb_prop in Hn. destruct Hn as (Hnb & Hne).
  rewrite gs_length_if in *.
  cbn [kcalls_s kfor_bodies_s sites_s] in Hr.
  set (nb := length (gb (er_b b))) in *. set (ne := length (ge (er_e els))) in *.
  set (E := S p + nb + ne) in *.
  set (x := mkSite (Some CkIf) p E (gmid_pos (er_e els) (S p + nb))) in *.
  set (m := mkIM p E (gmid_pos (er_e els) (S p + nb))) in *.
  replace (S (S (nb + ne))) with (S E - p) in * by (unfold E; lia).
  replace (p + (S E - p)) with (S E) in * by (unfold E; lia).
  pose proof Hr as (HG & HF & Hact & Hsites & Hv & Hrng & HFP).
  assert (Hx : In x Sites) by (apply Hsites; now left).
  cbn [ks] in Hp.
  pose proof (fplaced_nth _ _ _ _ Hp) as Hn0.
  pose proof (fplaced_tail _ _ _ _ Hp) as Hp1.
  pose proof (fplaced_app_l _ _ _ _ Hp1) as Hpb.
  pose proof (fplaced_app_r _ _ _ _ Hp1) as Hpe. rewrite <- er_len_b in Hpe. fold nb in Hpe.
  pose proof (fplaced_app_r _ _ _ _ Hpe) as Hpend. rewrite <- er_len_e in Hpend. fold ne in Hpend.
  pose proof (fplaced_nth _ _ _ _ Hpend) as HnE. fold E in HnE.
  destruct (if_meta_info_ok P0 f p m (proj1 HG) Hm) as (f1 & Hmi & I1 & SS1 & E1).
  pose proof SS1 as (S1a & S1b & S1c).
  destruct (Good_meta pr f f1 x HG Hx I1 SS1 E1) as (G1 & Fr1).
  assert (HE1 : aget Nat.eqb E (f_end f1) <> None).
  { rewrite E1. cbn [m im_end]. rewrite aget_aset_same. discriminate. }
  rewrite xs_if. destruct (xc cds n c w) as [[v w1]|] eqn:Ec; [|exact I].
  assert (Hr1 : cready cx infn (cond_calls c) [] [] p (S E) f1 g).
  { apply (cready_sub cx infn _ _ _ (cond_calls c) [] [] p (S E) p (S E) f f1 g Hr);
      [lia|lia|apply incl_appl; apply incl_refl|intros ? []|intros ? []|exact G1|exact S1c]. }
  destruct (Hcd cx infn c w p (S E) f1 g Hwc Hr1 v w1 Ec) as (k & f2c & Hev & G2c & Fr2c).
  assert (Hev' : ceval (S k) P c (w, f1, g) = Some (v, (w1, f2c, g))) by (eapply ceval_mono; [exact Hev|lia]).
  assert (Hstep : cstep (ceval (S k) P) em P p (ckw sp c) (w, f, g) = cstep_if (ceval (S k) P) P' p c (w, f, g))
    by (apply cif_at; exact Hsp).
  assert (Frc : hframe f f2c) by (eapply hframe_trans; eauto).
  assert (HEc : aget Nat.eqb E (f_end f2c) <> None) by (apply (hf_end _ _ Fr2c); exact HE1).
  assert (Efor : f_forstk f2c = f_forstk f) by exact (hf_for _ _ Frc).
  destruct v.
  - (* the condition holds: run the body *)
    set (next := match im_else m with [] => im_end m | l0 :: _ => l0 end).
    set (ent := mkIC next true 0 m).
    set (f2 := if_push ent f2c).
    assert (St : cstep1 (S k) em P (p, o, (w, f, g)) = Some (S p, None, (w1, f2, g))).
    { rewrite <- (out_of_ckw sp c (w, f, g)). eapply cstep1_continue; [exact Hn0|]. rewrite Hstep.
      unfold cstep_if. change (map down P') with P0. rewrite Hmi, Hev'. reflexivity. }
    assert (Hok : if_ok pr ent).
    { exists x. split; [exact Hx|]. split; [reflexivity|]. split; [reflexivity|].
      unfold ent, next, m, keys. cbn [ic_current im_else im_end x s_end s_mids].
      destruct (gmid_pos (er_e els) (S p + nb)); [now left|right; now left]. }
    assert (G2 : Good pr f2) by (apply Good_push_if; auto).
    assert (Fr2 : hframe f f2) by (eapply hframe_trans; [exact Frc|apply hframe_push_if; reflexivity]).
    assert (Hready2 : cready cx infn (kcalls_b b) (kfor_bodies_b b) (sites_b (er_b b) (S p)) (S p) (S p + nb) f2 g).
    { apply (cready_sub cx infn _ _ _ (kcalls_b b) (kfor_bodies_b b) (sites_b (er_b b) (S p)) p (S E) (S p) (S p + nb) f f2 g Hr);
        [lia|lia|apply incl_appr; apply incl_appl; apply incl_refl|apply incl_appl; apply incl_refl
        |apply incl_tl; apply incl_appl; apply incl_refl|exact G2|cbn; exact Efor]. }
    pose proof (Hb em cx infn b w1 None (S p) f2 g Hwb Hnb Hpb Hready2) as IH. fold nb in IH.
    apply (cpost_then em (p, o, (w, f, g)) (S p, None, (w1, f2, g)) (S p + nb) (S E) f f2 g);
      [eapply cruns_step; exact St|exact Fr2|exact IH|].
    intros o3 w' f3 G3 F3 F3'.
    destruct (celses_dec els) as [Eels|Hnel].
    + assert (ne = 0) by (unfold ne; rewrite Eels; reflexivity). assert (E = S p + nb) by lia.
      eexists _, f3. split; [|split; [exact G3|exact F3']].
      replace (S p + nb) with E by lia.
      eapply plain_runs; [exact HnE|exact I|].
      eapply fstep1_continue; [apply nth_P'; [exact HnE|exact I]|]. apply (fclose_if pr TW); [exact He|].
      apply (end_name_at pr f3 x); [apply G3|exact Hx|]. apply (hf_end _ _ F3). exact HEc.
    + destruct (gmid_pos_hd (er_e els) (S p + nb) (er_e_ne els Hnel)) as (t & Ht0).
      assert (Hnx : ic_current ent = S p + nb) by (unfold ent, next, m; cbn [ic_current im_else]; now rewrite Ht0).
      assert (F3c : hframe f2c f3) by (eapply hframe_trans; [apply (hframe_push_if ent f2c); reflexivity|exact F3]).
      destruct (cafter_branch em els infn (S p + nb) e w' o3 f2c f2 f3 g ent Hnel Hwe Hpe G2c F3c G3 F3
                  eq_refl Hnx eq_refl Hok) as (o' & f' & R' & G' & F').
      exists o', f'. split; [exact R'|]. split; [exact G'|exact (hframe_trans _ _ _ Frc F')].
  - (* the condition fails *)
    destruct (celses_dec els) as [Eels|Hnel].
    + rewrite Eels. destruct n as [|n']; [exact I|]. rewrite xe_nil.
      exists None, f2c. split; [|split; [exact G2c|exact Frc]].
      eapply cruns_step. rewrite <- (out_of_ckw sp c (w, f, g)). eapply cstep1_goto; [exact Hn0|]. rewrite Hstep.
      unfold cstep_if. change (map down P') with P0. rewrite Hmi, Hev'. unfold m at 1. cbn [im_else]. rewrite Eels. reflexivity.
    + destruct (gmid_pos_hd (er_e els) (S p + nb) (er_e_ne els Hnel)) as (t & Ht0).
      assert (St : cstep1 (S k) em P (p, o, (w, f, g))
                   = Some (S p + nb, None, (w1, if_push (mkIC (S p + nb) false 0 m) f2c, g))).
      { rewrite <- (out_of_ckw sp c (w, f, g)). eapply cstep1_goto; [exact Hn0|]. rewrite Hstep.
        unfold cstep_if. change (map down P') with P0. rewrite Hmi, Hev'. unfold m at 1. cbn [im_else]. rewrite Ht0. reflexivity. }
      eapply cpost_pre; [eapply cruns_step; exact St|exact Frc|].
      apply (Hch em cx infn els w1 None (S p + nb) e m x [] f2c g Hnel Hwe Hne He Hpe Hx eq_refl eq_refl eq_refl eq_refl).
      * apply (cready_sub cx infn _ _ _ (kcalls_e els) (kfor_bodies_e els) (sites_e (er_e els) (S p + nb)) p (S E)
                          (S p + nb) (S (im_end m)) f f2c g Hr);
          [lia|cbn [m im_end]; lia|apply incl_appr; apply incl_appr; apply incl_refl|apply incl_appr; apply incl_refl
          |apply incl_tl; apply incl_appr; apply incl_refl|exact G2c|exact Efor].
      * exact HEc.
Qed.

(* ---- the else chain -------------------------------------------------------------------------------------- *)
Lemma gchain_case n : block_ok n -> chain_ok n -> cond_ok n -> chain_ok (S n).
Proof.
  intros Hb Hch Hcd em cx infn els w o L e m x pfx fb g Hnel Hwe Hnfr He Hp Hx Hk Hm Hel Hend Hr HE.
  set (entry := mkIC L false (length pfx) m).
  pose proof Hr as (HG & HF & Hact & Hsites & Hv & Hrng & HFP).
  assert (Hmids : forall l, In l (im_else m) -> In l (keys x)).
  { intros l Hl. rewrite Hm in Hl. cbn [im_else] in Hl. right. exact Hl. }
  assert (Hmend : im_end m = s_end x) by (rewrite Hm; reflexivity).
  destruct els as [|sp c b r|sp b]; [congruence| |].
  - (* elseif *)
    destruct Hwe as (Hsp & Hwc & Hwb & Hwr).
    cbn [er_e nfr_e] in Hnfr. apply andb_prop in Hnfr. destruct Hnfr as (Hnb & Hnr).
    cbn [ke app] in Hp. rewrite <- app_assoc in Hp.
    pose proof (fplaced_nth _ _ _ _ Hp) as Hn0.
    pose proof (fplaced_tail _ _ _ _ Hp) as Hp1.
    pose proof (fplaced_app_l _ _ _ _ Hp1) as Hpb.
    pose proof (fplaced_app_r _ _ _ _ Hp1) as Hpr. rewrite <- er_len_b in Hpr.
    cbn [er_e gmid_pos] in Hel. cbn [er_e ge length] in Hend. rewrite app_length in Hend.
    cbn [er_e kcalls_e kfor_bodies_e sites_e] in Hr.
    set (nb := length (gb (er_b b))) in *. set (nr := length (ge (er_e r))) in *.
    assert (HEq : im_end m = S L + nb + nr) by lia.
    rewrite xe_elseif. destruct (xc cds n c w) as [[v w1]|] eqn:Ec; [|exact I].
    assert (Hr1 : cready cx infn (cond_calls c) [] [] L (S (im_end m)) fb g).
    { apply (cready_sub cx infn _ _ _ (cond_calls c) [] [] L (S (im_end m)) L (S (im_end m)) fb fb g Hr);
        [lia|lia|apply incl_appl; apply incl_refl|intros ? []|intros ? []|exact HG|reflexivity]. }
    destruct (Hcd cx infn c w L (S (im_end m)) fb g Hwc Hr1 v w1 Ec) as (k & f2c & Hev & G2c & Frc).
    assert (Hev' : ceval (S k) P c (w, fb, g) = Some (v, (w1, f2c, g))) by (eapply ceval_mono; [exact Hev|lia]).
    assert (HEc : aget Nat.eqb (im_end m) (f_end f2c) <> None) by (apply (hf_end _ _ Frc); exact HE).
    assert (Efor : f_forstk f2c = f_forstk fb) by exact (hf_for _ _ Frc).
    assert (Hstep : cstep (ceval (S k) P) em P L (ckw sp c) (w, if_push entry fb, g)
                    = cstep_elseif (ceval (S k) P) L c (w, if_push entry fb, g)) by (apply celseif_at; exact Hsp).
    assert (Hpop : if_pop L (f_ifstk (if_push entry fb)) = (Some entry, f_ifstk fb)).
    { cbn. now rewrite Nat.eqb_refl. }
    assert (Hlen : length (im_else m) = length pfx + S (length (gmid_pos (er_e r) (S L + nb)))).
    { rewrite Hel, app_length. reflexivity. }
    destruct v.
    + (* this branch is taken *)
      assert (Htaken : forall x0, In x0 (im_else m) ->
        cstep1 (S k) em P (L, o, (w, if_push entry fb, g)) = Some (S L, None, (w1, if_push (mkIC x0 true (length pfx) m) f2c, g)) ->
        (forall o3 w' f3, Good pr f3 -> hframe (if_push (mkIC x0 true (length pfx) m) f2c) f3 -> hframe f2c f3 ->
           exists o' f', cruns em P (S L + nb, o3, (w', f3, g)) (S (im_end m), o', (w', f', g)) /\ Good pr f' /\ hframe f2c f') ->
        cpost em (L, o, (w, if_push entry fb, g)) (S (im_end m)) fb g (xb cds n em b w1)).
      { intros x0 Hx0 St Hcont.
        set (ent := mkIC x0 true (length pfx) m).
        set (f2 := if_push ent f2c).
        assert (Hok : if_ok pr ent).
        { exists x. split; [exact Hx|]. split; [exact Hk|]. split; [exact Hm|]. apply Hmids. exact Hx0. }
        assert (G2 : Good pr f2) by (apply Good_push_if; auto).
        assert (Fr2 : hframe f2c f2) by (apply hframe_push_if; reflexivity).
        assert (Hready2 : cready cx infn (kcalls_b b) (kfor_bodies_b b) (sites_b (er_b b) (S L)) (S L) (S L + nb) f2 g).
        { apply (cready_sub cx infn _ _ _ (kcalls_b b) (kfor_bodies_b b) (sites_b (er_b b) (S L)) L (S (im_end m))
                            (S L) (S L + nb) fb f2 g Hr);
            [lia|lia|apply incl_appr; apply incl_appl; apply incl_refl|apply incl_appl; apply incl_refl
            |apply incl_appl; apply incl_refl|exact G2|exact Efor]. }
        pose proof (Hb em cx infn b w1 None (S L) f2 g Hwb Hnb Hpb Hready2) as IH. fold nb in IH.
        eapply cpost_pre; [eapply cruns_step; exact St|exact Frc|].
        apply (cpost_then em (S L, None, (w1, f2, g)) (S L, None, (w1, f2, g)) (S L + nb) (S (im_end m)) f2c f2 g);
          [apply cruns_refl|exact Fr2|exact IH|exact Hcont]. }
      destruct (felses_dec (er_e r)) as [Er|Hr0].
      * (* last else line: the entry pushed here stays as junk *)
        assert (Hnr0 : nr = 0) by (unfold nr; rewrite Er; reflexivity).
        assert (Hlt : (S (length pfx) <? length (im_else m)) = false).
        { apply Nat.ltb_ge. rewrite Hlen, Er. cbn. lia. }
        destruct (nth_error (im_else m) 0) as [x0|] eqn:Ex0.
        2:{ apply nth_error_None in Ex0. rewrite Hlen in Ex0. lia. }
        apply (Htaken x0 (nth_error_In _ _ Ex0)).
        -- rewrite <- (out_of_ckw sp c (w, if_push entry fb, g)). eapply cstep1_continue; [exact Hn0|]. rewrite Hstep.
           unfold cstep_elseif. rewrite Hpop. cbn [entry ic_passed ic_meta ic_idx].
           rewrite FlowSim.set_ifstk_push, Hev', Hlt, Ex0. reflexivity.
        -- intros o3 w' f3 G3 F3 F3'. eexists _, f3. split; [|split; [exact G3|exact F3']].
           assert (HnE : nth_error P (im_end m) = Some (bkw e ANone)).
           { apply er_e_nil in Er. rewrite Er in Hpr. cbn [ke app] in Hpr. fold nb in Hpr. apply fplaced_nth in Hpr.
             rewrite HEq, Hnr0, Nat.add_0_r. exact Hpr. }
           replace (S L + nb) with (im_end m) by lia.
           eapply plain_runs; [exact HnE|exact I|].
           eapply fstep1_continue; [apply nth_P'; [exact HnE|exact I]|]. apply (fclose_if pr TW); [exact He|].
           rewrite Hmend. replace gen_endif_name with (site_end_name x) by (unfold site_end_name; rewrite Hk; reflexivity).
           apply (end_name_at pr f3 x); [apply G3|exact Hx|].
           rewrite <- Hmend. apply (hf_end _ _ F3'). exact HEc.
      * (* another else line follows *)
        assert (Hr0' : r <> ZNil) by (intros ->; apply Hr0; reflexivity).
        destruct (gmid_pos_hd (er_e r) (S L + nb) Hr0) as (t & Ht0).
        assert (Hlt : (S (length pfx) <? length (im_else m)) = true).
        { apply Nat.ltb_lt. rewrite Hlen, Ht0. cbn. lia. }
        assert (Ex1 : nth_error (im_else m) (S (length pfx)) = Some (S L + nb)).
        { rewrite Hel, Ht0. apply FlowSim.nth_error_mid1. }
        apply (Htaken (S L + nb) (nth_error_In _ _ Ex1)).
        -- rewrite <- (out_of_ckw sp c (w, if_push entry fb, g)). eapply cstep1_continue; [exact Hn0|]. rewrite Hstep.
           unfold cstep_elseif. rewrite Hpop. cbn [entry ic_passed ic_meta ic_idx].
           rewrite FlowSim.set_ifstk_push, Hev', Hlt, Ex1. reflexivity.
        -- intros o3 w' f3 G3 F3 F3'.
           set (ent := mkIC (S L + nb) true (length pfx) m) in *.
           assert (Hok : if_ok pr ent).
           { exists x. split; [exact Hx|]. split; [exact Hk|]. split; [exact Hm|]. apply Hmids.
             exact (nth_error_In _ _ Ex1). }
           destruct (cafter_branch em r infn (S L + nb) e w' o3 f2c (if_push ent f2c) f3 g ent Hr0' Hwr Hpr G2c F3' G3 F3
                       eq_refl eq_refl eq_refl Hok) as (o' & f' & R' & G' & F').
           exists o', f'. auto.
    + (* this branch is not taken *)
      destruct (felses_dec (er_e r)) as [Er|Hr0].
      * apply er_e_nil in Er. rewrite Er in *. destruct n as [|n']; [exact I|]. rewrite xe_nil.
        assert (Hlt : (S (length pfx) <? length (im_else m)) = false).
        { apply Nat.ltb_ge. rewrite Hlen. cbn. lia. }
        exists None, f2c. split; [|split; [exact G2c|exact Frc]].
        eapply cruns_step. rewrite <- (out_of_ckw sp c (w, if_push entry fb, g)). eapply cstep1_goto; [exact Hn0|]. rewrite Hstep.
        unfold cstep_elseif. rewrite Hpop. cbn [entry ic_passed ic_meta ic_idx].
        rewrite FlowSim.set_ifstk_push, Hev', Hlt. reflexivity.
      * assert (Hr0' : r <> ZNil) by (intros ->; apply Hr0; reflexivity).
        destruct (gmid_pos_hd (er_e r) (S L + nb) Hr0) as (t & Ht0).
        assert (Hlt : (S (length pfx) <? length (im_else m)) = true).
        { apply Nat.ltb_lt. rewrite Hlen, Ht0. cbn. lia. }
        assert (Ex1 : nth_error (im_else m) (S (length pfx)) = Some (S L + nb)).
        { rewrite Hel, Ht0. apply FlowSim.nth_error_mid1. }
        assert (St : cstep1 (S k) em P (L, o, (w, if_push entry fb, g))
                     = Some (S L + nb, None, (w1, if_push (mkIC (S L + nb) false (S (length pfx)) m) f2c, g))).
        { rewrite <- (out_of_ckw sp c (w, if_push entry fb, g)). eapply cstep1_goto; [exact Hn0|]. rewrite Hstep.
          unfold cstep_elseif. rewrite Hpop. cbn [entry ic_passed ic_meta ic_idx].
          rewrite FlowSim.set_ifstk_push, Hev', Hlt, Ex1. reflexivity. }
        eapply cpost_pre; [eapply cruns_step; exact St|exact Frc|].
        replace (S (length pfx)) with (length (pfx ++ [L])) by (rewrite app_length; cbn; lia).
        apply (Hch em cx infn r w1 None (S L + nb) e m x (pfx ++ [L]) f2c g Hr0' Hwr Hnr He Hpr Hx Hk Hm).
        -- rewrite Hel, <- app_assoc. reflexivity.
        -- fold nr. lia.
        -- apply (cready_sub cx infn _ _ _ (kcalls_e r) (kfor_bodies_e r) (sites_e (er_e r) (S L + nb)) L (S (im_end m))
                             (S L + nb) (S (im_end m)) fb f2c g Hr);
             [lia|lia|apply incl_appr; apply incl_appr; apply incl_refl|apply incl_appr; apply incl_refl
             |apply incl_appr; apply incl_refl|exact G2c|exact Efor].
        -- exact HEc.
  - (* else *)
    destruct Hwe as (Hsp & Hwb). cbn [er_e nfr_e] in Hnfr.
    cbn [ke app] in Hp.
    pose proof (fplaced_nth _ _ _ _ Hp) as Hn0.
    pose proof (fplaced_tail _ _ _ _ Hp) as Hp1.
    pose proof (fplaced_app_l _ _ _ _ Hp1) as Hpb.
    pose proof (fplaced_app_r _ _ _ _ Hp1) as Hpend. rewrite <- er_len_b in Hpend.
    cbn [er_e ge length] in Hend. cbn [er_e kcalls_e kfor_bodies_e sites_e] in Hr.
    set (nb := length (gb (er_b b))) in *.
    assert (HEq : im_end m = S L + nb) by lia.
    rewrite xe_else.
    assert (St : fstep1 P' (L, (w, if_push entry fb, g)) = Some (S L, (w, fb, g))).
    { eapply fstep1_continue; [apply nth_P'; [exact Hn0|exact I]|]. rewrite (fstep_kw pr TW) by kwn.
      rewrite (disp_else (map down P') TW) by exact Hsp.
      unfold step_else. cbn [if_push f_ifstk set_ifstk if_pop entry ic_current]. rewrite Nat.eqb_refl.
      cbn [ic_passed]. fold (if_push entry fb). rewrite FlowSim.set_ifstk_push. reflexivity. }
    assert (Hready2 : cready cx infn (kcalls_b b) (kfor_bodies_b b) (sites_b (er_b b) (S L)) (S L) (S L + nb) fb g).
    { apply (cready_sub cx infn _ _ _ (kcalls_b b) (kfor_bodies_b b) (sites_b (er_b b) (S L)) L (S (im_end m))
                        (S L) (S L + nb) fb fb g Hr);
        [lia|lia|apply incl_refl|apply incl_refl|apply incl_refl|exact HG|reflexivity]. }
    pose proof (Hb em cx infn b w None (S L) fb g Hwb Hnfr Hpb Hready2) as IH. fold nb in IH.
    apply (cpost_then em (L, o, (w, if_push entry fb, g)) (S L, None, (w, fb, g)) (S L + nb) (S (im_end m)) fb fb g);
      [apply (plain_runs em L (bkw sp ANone) o _ _ _ Hn0 I St)|apply hframe_refl|exact IH|].
    intros o3 w' f3 G3 F3 F3'. eexists _, f3. split; [|split; [exact G3|exact F3']].
    assert (HnE : nth_error P (im_end m) = Some (bkw e ANone)) by (apply fplaced_nth in Hpend; rewrite HEq; exact Hpend).
    replace (S L + nb) with (im_end m) by lia.
    eapply plain_runs; [exact HnE|exact I|].
    eapply fstep1_continue; [apply nth_P'; [exact HnE|exact I]|].
    apply (fclose_if pr TW); [exact He|].
    rewrite Hmend. replace gen_endif_name with (site_end_name x) by (unfold site_end_name; rewrite Hk; reflexivity).
    apply (end_name_at pr f3 x); [apply G3|exact Hx|].
    rewrite <- Hmend. apply (hf_end _ _ F3'). exact HE.
Qed.

(* ---- while ---------------------------------------------------------------------------------------------- *)
Lemma gwhile_case n : stmt_ok n -> block_ok n -> cond_ok n -> forall em cx infn sp c b e w o p f g,
  pks ccallable infn (QWhile sp c b e) -> nfr_s (er_s (QWhile sp c b e)) = true ->
  fplaced P p (ks (QWhile sp c b e)) ->
  cready cx infn (kcalls_s (QWhile sp c b e)) (kfor_bodies_s (QWhile sp c b e)) (sites_s (er_s (QWhile sp c b e)) p)
         p (p + length (gs (er_s (QWhile sp c b e)))) f g ->
  cpost em (p, o, (w, f, g)) (p + length (gs (er_s (QWhile sp c b e)))) f g (xs cds (S n) em (QWhile sp c b e) w).
Proof.
  intros Hs Hb Hcd em cx infn sp c b e w o p f g Hw Hn Hp Hr.
  pose proof (pk_pg_s infn _ Hw) as Hw'.
  pose proof (fplaced_P' _ _ Hp) as Hp'. rewrite <- er_gs in Hp'.
  pose proof (Hs em cx infn (QWhile sp c b e)) as Hself.
  cbn [er_s] in Hw', Hn, Hr, Hp', Hself |- *.
  pose proof (gwhile_meta_placed P' TW (callable pr) infn p sp (er_c c) (er_b b) e Hp' Hw') as Hm. fold P0 in Hm.
  pose proof Hw as (Hsp & He & Hwc & Hwb). pose proof Hn as Hnb. cbn [nfr_s] in Hnb.
  pose proof (gs_length_while sp (er_c c) (er_b b) e) as Hq.
  rewrite Hq in Hr |- *. cbn [kcalls_s kfor_bodies_s sites_s] in Hr.
  set (nb := length (gb (er_b b))) in *. set (E := S p + nb) in *. set (m := mkLM p E) in *.
  set (x := mkSite (Some CkWhile) p E []) in *.
  replace (p + S (S nb)) with (S E) in * by (unfold E; lia).
  pose proof Hr as (HG & HF & Hact & Hsites & Hv & Hrng & HFP).
  assert (Hx : In x Sites) by (apply Hsites; now left).
  pose proof Hp as Hp0. cbn [ks] in Hp.
  pose proof (fplaced_nth _ _ _ _ Hp) as Hn0.
  pose proof (fplaced_tail _ _ _ _ Hp) as Hp1.
  pose proof (fplaced_app_l _ _ _ _ Hp1) as Hpb.
  pose proof (fplaced_app_r _ _ _ _ Hp1) as Hpend. rewrite <- er_len_b in Hpend. fold nb in Hpend.
  pose proof (fplaced_nth _ _ _ _ Hpend) as HnE. fold E in HnE.
  destruct (while_meta_info_ok P0 f p m (proj1 HG) Hm) as (f1 & Hmi & I1 & SS1 & E1).
  pose proof SS1 as (S1a & S1b & S1c).
  destruct (Good_meta pr f f1 x HG Hx I1 SS1 E1) as (G1 & Fr1).
  assert (HE1 : aget Nat.eqb E (f_end f1) <> None).
  { rewrite E1. cbn [m lm_end]. rewrite aget_aset_same. discriminate. }
  assert (Hwok : wh_ok pr m) by (exists x; auto).
  rewrite xs_while. destruct (xc cds n c w) as [[v w1]|] eqn:Ec; [|exact I].
  assert (Hr1 : cready cx infn (cond_calls c) [] [] p (S E) f1 g).
  { apply (cready_sub cx infn _ _ _ (cond_calls c) [] [] p (S E) p (S E) f f1 g Hr);
      [lia|lia|apply incl_appl; apply incl_refl|intros ? []|intros ? []|exact G1|exact S1c]. }
  destruct (Hcd cx infn c w p (S E) f1 g Hwc Hr1 v w1 Ec) as (k & f2c & Hev & G2c & Fr2c).
  assert (Hev' : ceval (S k) P c (w, f1, g) = Some (v, (w1, f2c, g))) by (eapply ceval_mono; [exact Hev|lia]).
  assert (Hstep : cstep (ceval (S k) P) em P p (ckw sp c) (w, f, g) = cstep_while (ceval (S k) P) P' p c (w, f, g))
    by (apply cwhile_at; exact Hsp).
  assert (Frc : hframe f f2c) by (eapply hframe_trans; eauto).
  assert (HEc : aget Nat.eqb E (f_end f2c) <> None) by (apply (hf_end _ _ Fr2c); exact HE1).
  assert (Efor : f_forstk f2c = f_forstk f) by exact (hf_for _ _ Frc).
  destruct v.
  - set (f2 := wh_push m f2c).
    assert (St : cstep1 (S k) em P (p, o, (w, f, g)) = Some (S p, None, (w1, f2, g))).
    { rewrite <- (out_of_ckw sp c (w, f, g)). eapply cstep1_continue; [exact Hn0|]. rewrite Hstep.
      unfold cstep_while. change (map down P') with P0. rewrite Hmi, Hev'. reflexivity. }
    assert (G2 : Good pr f2).
    { destruct G2c as (A & B & C & D & E0). split; [exact A|]. split; [exact B|]. split; [cbn; constructor; auto|].
      split; [exact D|exact E0]. }
    assert (Fr2 : hframe f f2).
    { eapply hframe_trans; [exact Frc|]. constructor.
      - exists []. split; [reflexivity|constructor].
      - exists [m]. reflexivity.
      - reflexivity.
      - auto. }
    assert (Hready2 : cready cx infn (kcalls_b b) (kfor_bodies_b b) (sites_b (er_b b) (S p)) (S p) (S p + nb) f2 g).
    { apply (cready_sub cx infn _ _ _ (kcalls_b b) (kfor_bodies_b b) (sites_b (er_b b) (S p)) p (S E) (S p) (S p + nb) f f2 g Hr);
        [lia|unfold E; lia|apply incl_appr; apply incl_refl|apply incl_refl|apply incl_tl; apply incl_refl|exact G2|cbn; exact Efor]. }
    pose proof (Hb em cx infn b w1 None (S p) f2 g Hwb Hnb Hpb Hready2) as IH. fold nb in IH. fold E in IH.
    apply (cpost_bind_in em (p, o, (w, f, g)) (S p, None, (w1, f2, g)) E (S E) f f2 g
                         (xb cds n em b w1) (fun w2 => xs cds n em (QWhile sp c b e) w2));
      [eapply cruns_step; exact St|exact Fr2|exact IH|].
    intros o3 w2 f3 G3 F3 F3'.
    destruct (hf_wh _ _ F3) as (Jw & Ew). cbn [f2 wh_push f_whstk set_whstk] in Ew.
    pose proof G3 as (I3 & O3 & W3 & D3 & S3).
    assert (WJ : Forall (wh_ok pr) Jw) by (rewrite Ew in W3; apply Forall_app in W3; apply W3).
    destruct (wh_pop_sites pr E Jw m (f_whstk f2c) WJ eq_refl Hwok) as (J' & Hpop & WJ').
    rewrite <- Ew in Hpop.
    set (f4 := wh_push m (set_whstk (J' ++ f_whstk f2c) f3)).
    assert (St2 : fstep1 P' (E, (w2, f3, g)) = Some (p, (w2, f4, g))).
    { eapply fstep1_goto; [apply nth_P'; [exact HnE|exact I]|]. rewrite (fclose_while pr TW); [|exact He|].
      - unfold step_endwhile. rewrite Hpop. reflexivity.
      - apply (end_name_at pr f3 x); [exact D3|exact Hx|]. apply (hf_end _ _ F3). exact HEc. }
    assert (G4 : Good pr f4).
    { split; [eapply Inv_same; [| | |exact I3]; reflexivity|]. split; [exact O3|]. split.
      - cbn. constructor; [exact Hwok|]. apply Forall_app. split; [exact WJ'|]. apply G2c.
      - split; [exact D3|exact S3]. }
    assert (Fr4 : hframe f f4).
    { destruct (hf_wh _ _ Frc) as (Jc & Ewc). constructor.
      - exact (hf_if _ _ F3').
      - exists (m :: J' ++ Jc). cbn. rewrite Ewc, <- app_assoc. reflexivity.
      - cbn. exact (hf_for _ _ F3').
      - exact (hf_end _ _ F3'). }
    eapply cpost_pre; [apply (plain_runs em E (bkw e ANone) o3 _ _ _ HnE I St2)|exact Fr4|].
    pose proof (Hself w2 None p f4 g Hw Hn Hp0) as IH2. rewrite Hq in IH2.
    replace (p + S (S nb)) with (S E) in IH2 by (unfold E; lia). apply IH2.
    cbn [kcalls_s kfor_bodies_s sites_s].
    apply (cready_sub cx infn _ _ _ (cond_calls c ++ kcalls_b b) (kfor_bodies_b b) (x :: sites_b (er_b b) (S p)) p (S E) p (S E) f f4 g Hr);
      [lia|lia|apply incl_refl|apply incl_refl|apply incl_refl|exact G4|exact (hf_for _ _ Fr4)].
  - exists None, f2c. split; [|split; [exact G2c|exact Frc]].
    eapply cruns_step. rewrite <- (out_of_ckw sp c (w, f, g)). eapply cstep1_goto; [exact Hn0|]. rewrite Hstep.
    unfold cstep_while. change (map down P') with P0. rewrite Hmi, Hev'. reflexivity.
Qed.

(* ---- for-in ----------------------------------------------------------------------------------------------- *)
Definition loop_ok (n : nat) : Prop := forall em cx infn sp x hv b e i w o p fb f g,
  pks ccallable infn (QFor sp x hv b e) -> nfr_s (er_s (QFor sp x hv b e)) = true ->
  fplaced P p (ks (QFor sp x hv b e)) ->
  cready cx infn (kcalls_s (QFor sp x hv b e)) (kfor_bodies_s (QFor sp x hv b e)) (sites_s (er_s (QFor sp x hv b e)) p)
         p (S (S p + length (gb (er_b b)))) fb g ->
  ((i = 0 /\ f = fb) \/
   (i > 0 /\ f = for_push (mkFC i (mkLM p (S p + length (gb (er_b b))))) fb /\
    aget Nat.eqb (S p + length (gb (er_b b))) (f_end fb) <> None)) ->
  cpost em (p, o, (w, f, g)) (S (S p + length (gb (er_b b)))) fb g (xfor cds n em x hv b i w).

Lemma gloop_case n : block_ok n -> loop_ok n -> loop_ok (S n).
Proof.
  intros Hb Hl em cx infn sp x hv b e i w o p fb f g Hw Hn Hp Hr Hentry.
  pose proof (pk_pg_s infn _ Hw) as Hw'.
  pose proof (fplaced_P' _ _ Hp) as Hp'. rewrite <- er_gs in Hp'.
  cbn [er_s] in Hw', Hp'.
  pose proof (gfor_meta_placed P' TW (callable pr) infn p sp x hv (er_b b) e Hp' Hw') as Hm. fold P0 in Hm.
  pose proof Hw as (Hsp & He & Hwb).
  pose proof Hn as Hn2. cbn [er_s nfr_s] in Hn2. apply andb_prop in Hn2. destruct Hn2 as (Hnoret & Hnb).
  apply negb_true_iff in Hnoret. rewrite (proj1 (proj2 er_has_return)) in Hnoret.
  pose proof Hr as Hr0. cbn [er_s kcalls_s kfor_bodies_s sites_s] in Hr.
  set (nb := length (gb (er_b b))) in *. set (E := S p + nb) in *. set (m := mkLM p E) in *.
  set (xs0 := mkSite (Some CkFor) p E []) in *.
  pose proof Hr as (HG & HF & Hact & Hsites & Hv & Hrng & HFP).
  assert (Hx : In xs0 Sites) by (apply Hsites; now left).
  pose proof Hp as Hp0. cbn [ks] in Hp.
  pose proof (fplaced_nth _ _ _ _ Hp) as Hn0.
  pose proof (fplaced_tail _ _ _ _ Hp) as Hp1.
  pose proof (fplaced_app_l _ _ _ _ Hp1) as Hpb.
  pose proof (fplaced_app_r _ _ _ _ Hp1) as Hpend. rewrite <- er_len_b in Hpend. fold nb in Hpend.
  pose proof (fplaced_nth _ _ _ _ Hpend) as HnE. fold E in HnE.
  assert (Hci : exists f1,
    for_call_info P0 p f = (Some (mkFC i m), f1) /\ Good pr f1 /\ hframe fb f1 /\
    f_ifstk f1 = f_ifstk fb /\ f_whstk f1 = f_whstk fb /\
    aget Nat.eqb E (f_end f1) <> None).
  { unfold for_call_info. destruct Hentry as [(Hi & ->)|(Hi & -> & HEb)].
    - subst i. rewrite (cfor_top_nomatch cx p (S E) _ _ fb p HFP Hv) by (try apply Hrng; lia).
      rewrite set_forstk_id. cbv zeta.
      destruct (for_meta_info_ok P0 fb p m (proj1 HG) Hm) as (f1 & Hmi & I1 & SS1 & E1).
      destruct (Good_meta pr fb f1 xs0 HG Hx I1 SS1 E1) as (G1 & Fr1).
      rewrite Hmi. exists f1. split; [reflexivity|]. split; [exact G1|]. split; [exact Fr1|].
      destruct SS1 as (A & B & C). split; [exact A|]. split; [exact B|].
      rewrite E1. cbn [m lm_end]. rewrite aget_aset_same. discriminate.
    - exists fb. cbn [for_push f_forstk set_forstk for_pop_top].
      assert (Hfm : for_match p (mkFC i m) = true)
        by (unfold for_match; cbn; rewrite Nat.eqb_refl; reflexivity).
      rewrite Hfm. cbv beta iota zeta. fold (for_push (mkFC i m) fb). rewrite set_forstk_push.
      split; [reflexivity|]. split; [exact HG|]. split; [apply hframe_refl|]. auto. }
  destruct Hci as (f1 & Hci & G1 & Fr1 & S1a & S1b & HE1).
  assert (Hstep : fstep P' p (bkw sp (AFor x hv)) (w, f, g) = lift g (step_for P0 p x hv (w, f))).
  { rewrite (fstep_kw pr TW) by kwn. rewrite (disp_for (map down P') TW) by exact Hsp. reflexivity. }
  pose proof (nth_P' _ _ Hn0 I) as Hn0'. pose proof (nth_P' _ _ HnE I) as HnE'.
  rewrite xfor_step.
  destruct (get_next_iteration i (vval hv w) w) as [v|] eqn:Eg.
  - set (ent := mkFC (S i) m).
    set (f2 := for_push ent f1).
    assert (St : fstep1 P' (p, (w, f, g)) = Some (S p, (vset x v w, f2, g))).
    { eapply fstep1_continue; [exact Hn0'|]. rewrite Hstep.
      unfold step_for. rewrite Hci. cbn [fc_iter fc_meta]. rewrite Eg. reflexivity. }
    assert (G2 : Good pr f2).
    { eapply Good_same; [| | | | | |exact G1]; reflexivity. }
    assert (Hready2 : cready cx infn (kcalls_b b) (kfor_bodies_b b) (sites_b (er_b b) (S p)) (S p) (S p + nb) f2 g).
    { split; [exact G2|]. split; [exact HF|]. split; [apply (act_ok_sub pr infn p (S E) (S p) (S p + nb) g Hact); lia|].
      split; [intros y Hy; apply Hsites; now right|]. split; [exact Hv|]. split.
      - intros l Hl0. apply Hrng. lia.
      - destruct HFP as (Cur & Outer & Efor & HC & HO & Hcs & Hbs & Hcin).
        exists (ent :: Cur), Outer. split.
        + cbn [f2 for_push f_forstk set_forstk]. rewrite (hf_for _ _ Fr1), Efor. reflexivity.
        + split.
          * constructor.
            -- split; [unfold outside; cbn; lia|]. split; cbn; apply Hrng; lia.
            -- eapply Forall_impl; [|exact HC]. unfold outside. intros a [[A B] C]. split; [split; lia|exact C].
          * split; [exact HO|]. split.
            -- intros _ f' Hf'. apply (proj2 (Hbs b (or_introl eq_refl))). exact Hf'.
            -- split; [intros B HB; apply Hbs; now right|].
               destruct cx; [exact I|]. intros f' Hf'. apply Hcin. exact Hf'. }
    pose proof (Hb em cx infn b (vset x v w) None (S p) f2 g Hwb Hnb Hpb Hready2) as IH. fold nb in IH. fold E in IH.
    destruct (xb cds n em b (vset x v w)) as [w2|rv rw| |] eqn:Eb; [| |exact I|exact I].
    2:{ exfalso. eapply (proj1 (proj2 (kno_return cds n))); [exact Hnoret|exact Eb]. }
    destruct IH as (o3 & f3 & R3 & G3 & F3).
    pose proof (hf_for _ _ F3) as Ef. cbn [f2 for_push f_forstk set_forstk] in Ef.
    set (fb' := set_forstk (f_forstk fb) f3).
    assert (St2 : fstep1 P' (E, (w2, f3, g)) = Some (p, (w2, for_push ent fb', g))).
    { eapply fstep1_goto; [exact HnE'|]. rewrite (fclose_for pr TW); [|exact He|].
      - unfold step_endfor. rewrite Ef. cbn [for_pop].
        assert (Hfm : for_match E ent = true)
          by (unfold for_match; cbn; rewrite Nat.eqb_refl; apply orb_true_r).
        rewrite Hfm. rewrite (hf_for _ _ Fr1). reflexivity.
      - apply (end_name_at pr f3 xs0); [apply G3|exact Hx|]. apply (hf_end _ _ F3). exact HE1. }
    assert (Gb' : Good pr fb').
    { eapply Good_same; [| | | | | |exact G3]; reflexivity. }
    assert (Frb : hframe fb fb').
    { destruct (hf_if _ _ F3) as (Jb & Ei & Fi). destruct (hf_wh _ _ F3) as (Jw & Ew).
      cbn [f2 for_push f_ifstk f_whstk set_forstk] in Ei, Ew.
      constructor.
      - exists Jb. split; [cbn; rewrite Ei, S1a; reflexivity|exact Fi].
      - exists Jw. cbn. rewrite Ew, S1b. reflexivity.
      - reflexivity.
      - intros l Hl0. cbn. apply (hf_end _ _ F3). cbn. apply (hf_end _ _ Fr1). exact Hl0. }
    assert (Hrb' : cready cx infn (kcalls_s (QFor sp x hv b e)) (kfor_bodies_s (QFor sp x hv b e))
                          (sites_s (er_s (QFor sp x hv b e)) p) p (S E) fb' g).
    { apply (cready_sub cx infn _ _ _ _ _ _ p (S E) p (S E) fb fb' g Hr0);
        [lia|lia|apply incl_refl|apply incl_refl|apply incl_refl|exact Gb'|reflexivity]. }
    eapply cpost_pre; [eapply cruns_trans; [apply (plain_runs em p _ o _ _ _ Hn0 I St)|];
                       eapply cruns_trans; [exact R3|apply (plain_runs em E _ o3 _ _ _ HnE I St2)]
                      |exact Frb|].
    apply (Hl em cx infn sp x hv b e (S i) w2 _ p fb' (for_push ent fb') g Hw Hn Hp0 Hrb').
    right. split; [lia|]. split; [reflexivity|].
    cbn. apply (hf_end _ _ F3). exact HE1.
  - eexists _, f1. split; [|split; [exact G1|exact Fr1]].
    apply (plain_runs em p _ o _ _ _ Hn0 I). eapply fstep1_goto; [exact Hn0'|]. rewrite Hstep.
    unfold step_for. rewrite Hci. cbn [fc_iter fc_meta]. rewrite Eg. reflexivity.
Qed.

Lemma gfor_case n : loop_ok n -> forall em cx infn sp x hv b e w o p f g,
  pks ccallable infn (QFor sp x hv b e) -> nfr_s (er_s (QFor sp x hv b e)) = true ->
  fplaced P p (ks (QFor sp x hv b e)) ->
  cready cx infn (kcalls_s (QFor sp x hv b e)) (kfor_bodies_s (QFor sp x hv b e)) (sites_s (er_s (QFor sp x hv b e)) p)
         p (p + length (gs (er_s (QFor sp x hv b e)))) f g ->
  cpost em (p, o, (w, f, g)) (p + length (gs (er_s (QFor sp x hv b e)))) f g (xs cds (S n) em (QFor sp x hv b e) w).
Proof.
  intros Hl em cx infn sp x hv b e w o p f g Hw Hn Hp Hr.
  cbn [er_s] in Hr |- *.
  rewrite gs_length_for in *. replace (p + S (S (length (gb (er_b b))))) with (S (S p + length (gb (er_b b)))) in * by lia.
  rewrite xs_for.
  apply (Hl em cx infn sp x hv b e 0 w o p f f g Hw Hn Hp Hr). left. auto.
Qed.

(* ---- all together ------------------------------------------------------------------------------------------ *)
Lemma csim_all n : stmt_ok n /\ block_ok n /\ chain_ok n /\ loop_ok n /\ call_ok n /\ cond_ok n.
Proof.
  induction n as [|n (Hs & Hb & Hc & Hl & Hk & Hd)].
  - repeat split; red; intros; try exact I; discriminate.
  - assert (Hb' : block_ok (S n)) by (apply block_case; assumption).
    split; [|split; [exact Hb'|split; [apply gchain_case; assumption|split; [apply gloop_case; assumption|
             split; [apply call_case; assumption|apply cond_case; assumption]]]]].
    intros em cx infn s w o p f g Hw Hn Hp Hr.
    destruct s as [p0|sp c b els e|sp c b e|sp x hv b e|out fn args|sp a].
    + exact (cmd_case n em cx infn _ _ _ p0 w o p f g Hp Hr).
    + exact (gif_case n Hb Hc Hd em cx infn sp c b els e w o p f g Hw Hn Hp Hr).
    + exact (gwhile_case n Hs Hb Hd em cx infn sp c b e w o p f g Hw Hn Hp Hr).
    + exact (gfor_case n Hl em cx infn sp x hv b e w o p f g Hw Hn Hp Hr).
    + exact (qcall_case n Hk em cx infn out fn args w o p f g Hw Hp Hr).
    + destruct Hw as (Hi & Hsp). subst infn. exact (return_case n em cx _ _ _ sp a w o p f g Hsp Hp Hr).
Qed.
End CSim.
