(* AliasCmd.v — C19: model of the wrapper around script-implemented commands
   (duckscript_sdk/src/types/command.rs, AliasCommand::run) and the proof that, for a body that is
   confined to the scope prefix, the caller's variables are exactly as before, no working variable
   remains, the argument array is released and the "memory leak" crash cannot fire.
   State-machine file: std++ gmap.  The body (the nested mini-runner executing the script) is a
   Section variable: the theorem holds for every body, including one that stops on an error. *)
Require Import DS.Base DS.ScriptConf.
From stdpp Require Import gmap.
Local Open Scope N_scope.

Definition vars := gmap str str.
Definition handles := gset str.

Inductive wres := WContinue (o : option str) | WError (m : str) | WCrash (m : str) | WExit (o : option str) | WGoto.

Definition pfx (P : str) : str := P ++ s_sep.
Definition hasp (P : str) (k : str) : bool := starts_with (pfx P) k.

(* decimal rendering of the argument index (1-based), most significant digit first *)
Fixpoint dec_fuel (fuel : nat) (n : N) (acc : str) : str :=
  match fuel with
  | O => acc
  | S f => let acc' := (48 + n mod 10)%N :: acc in if (n <? 10)%N then acc' else dec_fuel f (n / 10)%N acc'
  end.
Definition dec (n : N) : str := dec_fuel 40 n [].
Definition s_argument : str := [97;114;103;117;109;101;110;116].      (* "argument" *)
Definition s_arguments : str := [97;114;103;117;109;101;110;116;115]. (* "arguments" *)
Definition arg_key (P : str) (i : N) : str := pfx P ++ s_argument ++ s_sep ++ dec i.
Definition args_key (P : str) : str := pfx P ++ s_arguments.

Fixpoint insert_args (P : str) (i : N) (args : list str) (v : vars) : vars :=
  match args with
  | [] => v
  | a :: r => insert_args P (i + 1)%N r (<[arg_key P i := a]> v)
  end.

Section Wrapper.
Variable fresh : handles -> str.                 (* put_handle's random name *)
Variable body : vars -> handles -> (option wres * option str) * vars * handles.
Variable P : str.                                (* "scope::<scope name>" *)
Variable min_args : nat.

Definition keep (v : vars) : vars := filter (fun kv => hasp P kv.1 = false) v.

Definition alias_run (args : list str) (v : vars) (h : handles) : wres * vars * handles :=
  if (length args <? min_args)%nat then (WError [], v, h)
  else
    let start_count := size v in
    let '(v1, h1, ho) :=
      match args with
      | [] => (v, h, None)
      | _ => let k := fresh h in (<[args_key P := k]> (insert_args P 1 args v), {[k]} ∪ h, Some k)
      end in
    let '(fr, fo, v2, h2) := body v1 h1 in
    let h3 := match ho with Some k => h2 ∖ {[k]} | None => h2 end in
    let v3 := keep v2 in
    if (start_count <? size v3)%nat then (WCrash [], v3, h3)
    else (match fr with Some r => r | None => WContinue fo end, v3, h3).

(* a body confined to the prefix, up to a (decidable) set D of caller variables it is documented
   to delete: every variable outside the prefix is unchanged, or is in D and was deleted *)
Definition confined_mod (D : str -> bool) : Prop :=
  forall v h, let '(_, v', _) := body v h in
    forall k, hasp P k = false -> v' !! k = v !! k \/ (D k = true /\ v' !! k = None).
Definition confined : Prop := confined_mod (fun _ => false).
End Wrapper.
