(* Expansion.v — model of duckscript/src/expansion.rs (expand_by_wrapper) and of
   runner.rs::bind_command_arguments.  Definitions only; proofs are in ExpansionFacts.v.

   The Rust loop `for next_char in value.chars() { ... }` over six mutable locals is a left fold
   of [xstep] over the characters of the value; the code after the loop is [xfinish]; the final
   `if value_string.is_empty() ...` is [expand].  `String::push`/`push_str` append at the end, so
   the buffers are kept in reading order ([++]).  [prefix_index] is kept as a number (the code
   compares it with 0 and 1). *)
Require Import DS.Base DS.Parser.

Inductive expanded := Single (s : str) | Multi (l : list str) | ENone.

(* variables: &HashMap<String, String> *)
Definition env := str -> option str.
Definition env_empty : env := fun _ => None.
Fixpoint env_of_list (l : list (str * str)) : env :=
  fun k => match l with
           | [] => None
           | (n, v) :: r => if str_eqb k n then Some v else env_of_list r k
           end.

Definition should_break_key (c : char) : bool :=
  (c =? c_sp) || (c =? c_lf) || (c =? c_tab) || (c =? c_cr) || (c =? c_eq).

Definition push_prefix (buffer : str) (single_type found_prefix_fully : bool) : str :=
  let b := buffer ++ [if single_type then c_dollar else c_pct] in
  if found_prefix_fully then b ++ [c_lbrace] else b.

Record xst := mk_xst {
  x_value : str;          (* value_string *)
  x_pidx : N;             (* prefix_index *)
  x_found : bool;         (* found_prefix *)
  x_key : str;            (* key *)
  x_force : bool;         (* force_push *)
  x_single : bool         (* single_type *)
}.

Definition xinit : xst := mk_xst [] 0 false [] false true.

(* `if prefix_index > 0 || found_prefix { push_prefix(..); prefix_index = 0; }` *)
Definition flush_prefix (s : xst) : str * N :=
  if (0 <? x_pidx s) || x_found s
  then (push_prefix (x_value s) (x_single s) (x_found s), 0)
  else (x_value s, x_pidx s).

(* one iteration of the loop body *)
Definition xstep (variables : env) (s : xst) (c : char) : xst :=
  if negb (x_found s) then
    if x_force s then
      let v := if negb (c =? c_dollar) && negb (c =? c_pct) then x_value s ++ [c_bs] else x_value s in
      mk_xst (v ++ [c]) (x_pidx s) (x_found s) (x_key s) false (x_single s)
    else if (c =? c_bs) && (x_pidx s =? 0) then
      mk_xst (x_value s) (x_pidx s) (x_found s) (x_key s) true (x_single s)
    else if (x_pidx s =? 0) && ((c =? c_dollar) || (c =? c_pct)) then
      mk_xst (x_value s) 1 (x_found s) (x_key s) (x_force s) (c =? c_dollar)
    else if (x_pidx s =? 1) && (c =? c_lbrace) then
      mk_xst (x_value s) 0 true [] (x_force s) (x_single s)
    else
      let '(v, p) := flush_prefix s in
      mk_xst (v ++ [c]) p (x_found s) (x_key s) (x_force s) (x_single s)
  else if c =? c_rbrace then
    let v := match variables (x_key s) with
             | Some variable_value => x_value s ++ variable_value
             | None => x_value s
             end in
    mk_xst v (x_pidx s) false [] (x_force s) (x_single s)
  else if should_break_key c then
    let '(v, p) := flush_prefix s in
    mk_xst (v ++ x_key s ++ [c]) p false [] (x_force s) (x_single s)
  else
    mk_xst (x_value s) (x_pidx s) (x_found s) (x_key s ++ [c]) (x_force s) (x_single s).

Definition is_nil {A} (l : list A) : bool := match l with [] => true | _ => false end.

(* the code after the loop: final value_string and single_type *)
Definition xfinish (s : xst) : str * bool :=
  if x_force s then (x_value s ++ [c_bs], x_single s)
  else if negb (is_nil (x_key s)) then
    let v := if (0 <? x_pidx s) || x_found s
             then push_prefix (x_value s) (x_single s) (x_found s) else x_value s in
    (v ++ x_key s, x_single s)
  else if x_pidx s =? 1 then (push_prefix (x_value s) (x_single s) false, true)
  else (x_value s, x_single s).

Definition xscan (variables : env) (value : str) : xst := fold_left (xstep variables) value xinit.

(* what a non-single value_string is turned into *)
Definition spread_of (value_string : str) : expanded :=
  match value_string with
  | [] => Multi []
  | _ => match reparse_arguments value_string with
         | POk (Some values) => Multi values
         | POk None => Multi []
         | PErr _ => ENone
         end
  end.

Definition expand_by_wrapper (value : str) (variables : env) : expanded :=
  let '(value_string, single_type) := xfinish (xscan variables value) in
  if single_type then
    match value_string with [] => ENone | _ => Single value_string end
  else spread_of value_string.

(* runner.rs::bind_command_arguments *)
Definition bound_of (e : expanded) : list str :=
  match e with
  | Single value => [value]
  | Multi values => values
  | ENone => [[]]
  end.

Fixpoint bind_args (variables : env) (arguments : list str) : list str :=
  match arguments with
  | [] => []
  | argument :: rest => bound_of (expand_by_wrapper argument variables) ++ bind_args variables rest
  end.

Definition bind_command_arguments (variables : env) (arguments : option (list str)) : list str :=
  match arguments with
  | Some l => bind_args variables l
  | None => []
  end.
