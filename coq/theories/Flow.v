(* Flow.v — the flat machine of C04: the flow-control commands of
   duckscript_sdk/src/sdk/std/flowcontrol/{ifelse,while_mod,forin,end}/mod.rs as step functions on
   a typed state, driven by the line counter of duckscript/src/runner.rs::run_instructions.
   One Coq function per Rust function, same control structure; definitions only (no proofs).

   State = world (variables, emit trace, array handles) + flow state (the three meta-info caches,
   the three call stacks with the fields of the Rust CallInfo structs, the [end] table).
   The Rust structs also carry [line_context_name]; it is the constant "" in programs without
   function calls (C04's domain), so it is omitted here (stated as an assumption of the check). *)
Require Import DS.Base DS.Cond DS.FlowTables DS.FlowScan.
Require Import DSG.GenFlowNames.

(* ---- instructions ------------------------------------------------------------------------ *)
(* a condition: [next n] (harness command: pops the first character of the script stored in
   variable n, truthy iff it was 'T'), the value [${n}], or [not <condition>] *)
Inductive cond := CNext (n : str) | CVar (n : str) | CNot (c : cond).

(* straight-line commands *)
Inductive prim :=
| PEmit (tag : str) (vs : list str)     (* emit tag ${v1} ... ${vk}   logs [tag; values]        *)
| PSet (x v : str)                      (* x = set v                                             *)
| PCopy (x y : str)                     (* x = set ${y}                                          *)
| PArr (h : str) (elems : list str)     (* h = array e1 ... ek                                   *)
| PPush (hv v : str)                    (* array_push ${hv} v                                    *)
| PNop.                                 (* empty line                                            *)

Inductive iarg := ACond (c : cond) | AFor (x hv : str) | APrim (p : prim) | ANone.
Record instr := mkI { i_cmd : option str; i_arg : iarg }.

Definition prim_cmd (p : prim) : option str :=
  match p with
  | PEmit _ _ => Some s_emit | PSet _ _ => Some s_set | PCopy _ _ => Some s_set
  | PArr _ _ => Some s_array | PPush _ _ => Some s_array_push | PNop => None
  end.

(* ---- world --------------------------------------------------------------------------------- *)
Fixpoint aget {A B} (eqb : A -> A -> bool) (k : A) (l : list (A * B)) : option B :=
  match l with [] => None | (k', v) :: r => if eqb k k' then Some v else aget eqb k r end.
(* HashMap::insert: replace in place, or add *)
Fixpoint aset {A B} (eqb : A -> A -> bool) (k : A) (v : B) (l : list (A * B)) : list (A * B) :=
  match l with
  | [] => [(k, v)]
  | (k', v') :: r => if eqb k k' then (k, v) :: r else (k', v') :: aset eqb k v r
  end.

Record world := mkW {
  w_vars : list (str * str);            (* Context.variables *)
  w_trace : list (list str);            (* arguments of every emit call, latest first *)
  w_arrs : list (str * list str);       (* handles sub-state, arrays only *)
  w_next : N }.                         (* number of handles created so far (handle naming) *)

Definition vget (x : str) (w : world) : option str := aget str_eqb x (w_vars w).
Definition vval (x : str) (w : world) : str := match vget x w with Some v => v | None => [] end.
Definition vset (x v : str) (w : world) : world :=
  mkW (aset str_eqb x v (w_vars w)) (w_trace w) (w_arrs w) (w_next w).

Definition c_T : char := 84.
Fixpoint eval_cond (c : cond) (w : world) : bool * world :=
  match c with
  | CNext n => match vget n w with
               | Some (ch :: rest) => (N.eqb ch c_T, vset n rest w)
               | _ => (false, w)
               end
  | CVar n => (is_true_some (vval n w), w)
  | CNot c' => let (b, w') := eval_cond c' w in (negb b, w')
  end.

(* "handle:" followed by a counter; the real handles are random, the check renames them *)
Definition handle_name (n : N) : str := [104;97;110;100;108;101;58] ++ [n + 48].

Definition exec_prim (p : prim) (w : world) : option world :=
  match p with
  | PEmit tag vs => Some (mkW (w_vars w) ((tag :: map (fun v => vval v w) vs) :: w_trace w) (w_arrs w) (w_next w))
  | PSet x v => Some (vset x v w)
  | PCopy x y => Some (vset x (vval y w) w)
  | PArr h elems =>
      let key := handle_name (w_next w) in
      Some (mkW (aset str_eqb h key (w_vars w)) (w_trace w) (aset str_eqb key elems (w_arrs w)) (w_next w + 1))
  | PPush hv v =>
      match aget str_eqb (vval hv w) (w_arrs w) with
      | Some l => Some (mkW (w_vars w) (w_trace w) (aset str_eqb (vval hv w) (l ++ [v]) (w_arrs w)) (w_next w))
      | None => None
      end
  | PNop => Some w
  end.

(* forin::get_next_iteration *)
Definition get_next_iteration (iteration : nat) (handle : str) (w : world) : option str :=
  match aget str_eqb handle (w_arrs w) with
  | Some l => nth_error l iteration
  | None => None
  end.

(* ---- flow state ---------------------------------------------------------------------------- *)
Record ifmeta := mkIM { im_start : nat; im_end : nat; im_else : list nat }.       (* IfElseMetaInfo *)
Record ifcall := mkIC { ic_current : nat; ic_passed : bool; ic_idx : nat; ic_meta : ifmeta }.
Record lmeta := mkLM { lm_start : nat; lm_end : nat }.                 (* While/ForInMetaInfo *)
Record forcall := mkFC { fc_iter : nat; fc_meta : lmeta }.

Record flow := mkF {
  f_ifmeta : list (nat * ifmeta);   f_ifstk : list ifcall;       (* head = top of the Vec *)
  f_whmeta : list (nat * lmeta);    f_whstk : list lmeta;        (* while CallInfo = its meta info *)
  f_formeta : list (nat * lmeta);   f_forstk : list forcall;
  f_end : list (nat * str) }.
Definition flow0 : flow := mkF [] [] [] [] [] [] [].

Definition set_ifmeta v (f : flow) := mkF v (f_ifstk f) (f_whmeta f) (f_whstk f) (f_formeta f) (f_forstk f) (f_end f).
Definition set_ifstk v (f : flow) := mkF (f_ifmeta f) v (f_whmeta f) (f_whstk f) (f_formeta f) (f_forstk f) (f_end f).
Definition set_whmeta v (f : flow) := mkF (f_ifmeta f) (f_ifstk f) v (f_whstk f) (f_formeta f) (f_forstk f) (f_end f).
Definition set_whstk v (f : flow) := mkF (f_ifmeta f) (f_ifstk f) (f_whmeta f) v (f_formeta f) (f_forstk f) (f_end f).
Definition set_formeta v (f : flow) := mkF (f_ifmeta f) (f_ifstk f) (f_whmeta f) (f_whstk f) v (f_forstk f) (f_end f).
Definition set_forstk v (f : flow) := mkF (f_ifmeta f) (f_ifstk f) (f_whmeta f) (f_whstk f) (f_formeta f) v (f_end f).
Definition set_end v (f : flow) := mkF (f_ifmeta f) (f_ifstk f) (f_whmeta f) (f_whstk f) (f_formeta f) (f_forstk f) v.

(* end::set_command *)
Definition end_set (line : nat) (name : str) (f : flow) : flow :=
  set_end (aset Nat.eqb line name (f_end f)) f.

Definition state := (world * flow)%type.

Inductive cres :=
| RContinue | RGoto (l : nat)
| RError (code : N)      (* CommandResult::Error *)
| RCrash (code : N)      (* CommandResult::Crash *)
| RPanic.                (* an index out of range in the Rust code *)

(* ---- if / elseif / else / end_if ----------------------------------------------------------- *)
Definition cmds (P : list instr) : list (option str) := map i_cmd P.

(* create_if_meta_info_for_line *)
Definition create_if_meta (P : list instr) (line : nat) : option ifmeta :=
  match find_commands gen_if_tables (cmds P) (S line) with
  | SOk mid e => Some (mkIM line e mid)
  | _ => None
  end.
(* get_or_create_if_meta_info_for_line *)
Definition if_meta_info (P : list instr) (line : nat) (f : flow) : option ifmeta * flow :=
  match aget Nat.eqb line (f_ifmeta f) with
  | Some m => (Some m, end_set (im_end m) gen_endif_name f)
  | None =>
    match create_if_meta P line with
    | Some m => (Some m, end_set (im_end m) gen_endif_name (set_ifmeta ((line, m) :: f_ifmeta f) f))
    | None => (None, f)
    end
  end.
(* pop_call_info_for_line: entries that do not match are dropped *)
Fixpoint if_pop (line : nat) (stk : list ifcall) : option ifcall * list ifcall :=
  match stk with
  | [] => (None, [])
  | e :: r => if Nat.eqb (ic_current e) line then (Some e, r) else if_pop line r
  end.
Definition if_push (e : ifcall) (f : flow) : flow := set_ifstk (e :: f_ifstk f) f.

Definition step_if (P : list instr) (line : nat) (c : cond) (s : state) : cres * state :=
  let (w, f) := s in
  match if_meta_info P line f with
  | (None, f1) => (RCrash 1, (w, f1))
  | (Some m, f1) =>
    let (passed, w1) := eval_cond c w in
    if passed then
      let next_line := match im_else m with [] => im_end m | l0 :: _ => l0 end in
      (RContinue, (w1, if_push (mkIC next_line true 0 m) f1))
    else match im_else m with
         | [] => (RGoto (S (im_end m)), (w1, f1))
         | l0 :: _ => (RGoto l0, (w1, if_push (mkIC l0 false 0 m) f1))
         end
  end.

Definition step_elseif (line : nat) (c : cond) (s : state) : cres * state :=
  let (w, f) := s in
  match if_pop line (f_ifstk f) with
  | (None, stk) => (RError 2, (w, set_ifstk stk f))
  | (Some ci, stk) =>
    let f1 := set_ifstk stk f in
    if ic_passed ci then (RGoto (S (im_end (ic_meta ci))), (w, f1))
    else
      let m := ic_meta ci in
      let (passed, w1) := eval_cond c w in
      if passed then
        match (if (S (ic_idx ci) <? length (im_else m))%nat
               then nth_error (im_else m) (S (ic_idx ci)) else nth_error (im_else m) 0) with
        | Some next_line => (RContinue, (w1, if_push (mkIC next_line true (ic_idx ci) m) f1))
        | None => (RPanic, (w1, f1))
        end
      else if (S (ic_idx ci) <? length (im_else m))%nat then
        match nth_error (im_else m) (S (ic_idx ci)) with
        | Some next_line => (RGoto next_line, (w1, if_push (mkIC next_line false (S (ic_idx ci)) m) f1))
        | None => (RPanic, (w1, f1))
        end
      else (RGoto (S (im_end m)), (w1, f1))
  end.

Definition step_else (line : nat) (s : state) : cres * state :=
  let (w, f) := s in
  match if_pop line (f_ifstk f) with
  | (None, stk) => (RError 3, (w, set_ifstk stk f))
  | (Some ci, stk) =>
    if ic_passed ci then (RGoto (S (im_end (ic_meta ci))), (w, set_ifstk stk f))
    else (RContinue, (w, set_ifstk stk f))
  end.

(* ---- while / end_while ---------------------------------------------------------------------- *)
Definition create_loop_meta (T : tables) (P : list instr) (line : nat) : option lmeta :=
  match find_commands T (cmds P) (S line) with
  | SOk _ e => Some (mkLM line e)
  | _ => None
  end.
Definition while_meta_info (P : list instr) (line : nat) (f : flow) : option lmeta * flow :=
  match aget Nat.eqb line (f_whmeta f) with
  | Some m => (Some m, end_set (lm_end m) gen_endwhile_name f)
  | None =>
    match create_loop_meta gen_while_tables P line with
    | Some m => (Some m, end_set (lm_end m) gen_endwhile_name (set_whmeta ((line, m) :: f_whmeta f) f))
    | None => (None, f)
    end
  end.
Fixpoint wh_pop (line : nat) (stk : list lmeta) : option lmeta * list lmeta :=
  match stk with
  | [] => (None, [])
  | e :: r => if Nat.eqb (lm_end e) line then (Some e, r) else wh_pop line r
  end.
Definition wh_push (e : lmeta) (f : flow) : flow := set_whstk (e :: f_whstk f) f.

Definition step_while (P : list instr) (line : nat) (c : cond) (s : state) : cres * state :=
  let (w, f) := s in
  match while_meta_info P line f with
  | (None, f1) => (RCrash 1, (w, f1))
  | (Some m, f1) =>
    let (passed, w1) := eval_cond c w in
    if passed then (RContinue, (w1, wh_push m f1))
    else (RGoto (S (lm_end m)), (w1, f1))
  end.

Definition step_endwhile (line : nat) (s : state) : cres * state :=
  let (w, f) := s in
  match wh_pop line (f_whstk f) with
  | (None, stk) => (RError 4, (w, set_whstk stk f))
  | (Some m, stk) => (RGoto (lm_start m), (w, wh_push m (set_whstk stk f)))
  end.

(* ---- for / end_for -------------------------------------------------------------------------- *)
Definition for_meta_info (P : list instr) (line : nat) (f : flow) : option lmeta * flow :=
  match aget Nat.eqb line (f_formeta f) with
  | Some m => (Some m, end_set (lm_end m) gen_endfor_name f)
  | None =>
    match create_loop_meta gen_for_tables P line with
    | Some m => (Some m, end_set (lm_end m) gen_endfor_name (set_formeta ((line, m) :: f_formeta f) f))
    | None => (None, f)
    end
  end.
Definition for_match (line : nat) (e : forcall) : bool :=
  Nat.eqb (lm_start (fc_meta e)) line || Nat.eqb (lm_end (fc_meta e)) line.
(* pop_call_info_for_line(line, state, recursive = false): a non-matching top entry is put back *)
Definition for_pop_top (line : nat) (stk : list forcall) : option forcall * list forcall :=
  match stk with
  | [] => (None, [])
  | e :: r => if for_match line e then (Some e, r) else (None, e :: r)
  end.
(* recursive = true *)
Fixpoint for_pop (line : nat) (stk : list forcall) : option forcall * list forcall :=
  match stk with
  | [] => (None, [])
  | e :: r => if for_match line e then (Some e, r) else for_pop line r
  end.
Definition for_push (e : forcall) (f : flow) : flow := set_forstk (e :: f_forstk f) f.

(* the `let call_info = match pop_call_info_for_line(..., false) { ... }` block of ForInCommand::run *)
Definition for_call_info (P : list instr) (line : nat) (f : flow) : option forcall * flow :=
  let (found, stk) := for_pop_top line (f_forstk f) in
  let f0 := set_forstk stk f in
  match found with
  | Some ci => (Some ci, f0)
  | None => match for_meta_info P line f0 with
            | (Some m, f1) => (Some (mkFC 0 m), f1)
            | (None, f1) => (None, f1)
            end
  end.

Definition step_for (P : list instr) (line : nat) (x hv : str) (s : state) : cres * state :=
  let (w, f) := s in
  let handle := vval hv w in                      (* the arguments are bound before the command runs *)
  match for_call_info P line f with
  | (None, f1) => (RCrash 1, (w, f1))
  | (Some ci, f1) =>
    match get_next_iteration (fc_iter ci) handle w with
    | Some v => (RContinue, (vset x v w, for_push (mkFC (S (fc_iter ci)) (fc_meta ci)) f1))
    | None => (RGoto (S (lm_end (fc_meta ci))), (w, f1))
    end
  end.

Definition step_endfor (line : nat) (s : state) : cres * state :=
  let (w, f) := s in
  match for_pop line (f_forstk f) with
  | (None, stk) => (RError 5, (w, set_forstk stk f))
  | (Some ci, stk) => (RGoto (lm_start (fc_meta ci)), (w, for_push ci (set_forstk stk f)))
  end.

(* ---- the generic end ------------------------------------------------------------------------- *)
(* end::CommandImpl::run: the command stored for this line is run, without arguments, at this line *)
Definition step_end (line : nat) (s : state) : cres * state :=
  match aget Nat.eqb line (f_end (snd s)) with
  | None => (RContinue, s)
  | Some name =>
    match classify name with
    | KEndIf => (RContinue, s)
    | KEndWhile => step_endwhile line s
    | KEndFor => step_endfor line s
    | _ => (RError 6, s)       (* only the three end commands are ever stored by this machine *)
    end
  end.

(* ---- one instruction (runner::run_instruction + the command) -------------------------------- *)
Definition step (P : list instr) (line : nat) (i : instr) (s : state) : cres * state :=
  match i_cmd i with
  | None => (RContinue, s)
  | Some c =>
    match classify c, i_arg i with
    | KIf, ACond cd => step_if P line cd s
    | KElseIf, ACond cd => step_elseif line cd s
    | KElse, ANone => step_else line s
    | KEndIf, ANone => (RContinue, s)
    | KWhile, ACond cd => step_while P line cd s
    | KEndWhile, ANone => step_endwhile line s
    | KFor, AFor x hv => step_for P line x hv s
    | KEndFor, ANone => step_endfor line s
    | KEnd, ANone => step_end line s
    | KOther, APrim p => match exec_prim p (fst s) with
                         | Some w' => (RContinue, (w', snd s))
                         | None => (RError 9, s)
                         end
    | _, _ => (RError 10, s)   (* arguments of the wrong shape for the command *)
    end
  end.

(* ---- runner::run_instructions ---------------------------------------------------------------- *)
(* small-step form: [None] when the line is past the end or the command did not continue *)
Definition step1 (P : list instr) (cfg : nat * state) : option (nat * state) :=
  let (line, s) := cfg in
  match nth_error P line with
  | None => None
  | Some i => match step P line i s with
              | (RContinue, s') => Some (S line, s')
              | (RGoto l, s') => Some (l, s')
              | _ => None
              end
  end.
Fixpoint steps (n : nat) (P : list instr) (cfg : nat * state) : option (nat * state) :=
  match n with
  | O => Some cfg
  | S n' => match step1 P cfg with Some cfg' => steps n' P cfg' | None => None end
  end.

Inductive outcome :=
| Done (s : state)                           (* ran past the last instruction *)
| Stopped (line : nat) (r : cres) (s : state) (* first Error / Crash / Panic *)
| OutOfFuel.
Definition run_body (rec : nat -> state -> outcome) (P : list instr) (line : nat) (s : state) : outcome :=
  match nth_error P line with
  | None => Done s
  | Some i => match step P line i s with
              | (RContinue, s') => rec (S line) s'
              | (RGoto l, s') => rec l s'
              | (r, s') => Stopped line r s'
              end
  end.
Fixpoint run (fuel : nat) (P : list instr) (line : nat) (s : state) : outcome :=
  match fuel with
  | O => OutOfFuel
  | S f => run_body (run f P) P line s
  end.
Definition world0 : world := mkW [] [] [] 0.
Definition run_program (fuel : nat) (P : list instr) (w : world) : outcome := run fuel P 0 (w, flow0).
