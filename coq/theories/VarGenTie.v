(* VarGenTie.v — the `run` functions of the variable commands (duckscript_sdk/src/sdk/std/var/{set, set_by_name, get_by_name,
   is_defined, get_all_var_names, unset_all_vars}/mod.rs), of the scope commands (sdk/std/scope/{clear, push_stack,
   pop_stack}/mod.rs) and push / pop of duckscript_sdk/src/utils/scope.rs: the hand model Scope.v (C11) is EQUAL, for all
   arguments and all states, to the mechanical translation of the CURRENT Rust source (coq/generated/GenVarFn.v, rewritten
   on every run by lib/rs2v.py, classes PVar / FnVar, through lib/gen/var_gen.py).

   The translation works on the raw argument vector; Scope.v's [cmd] is the DECODED command.  The [*_model] functions below
   say which command an argument vector denotes (and what happens when it denotes none: the "name not provided" error /
   the empty result) in terms of Scope.m_cmd / m_step; each theorem is

       gen_cmd_<name> .. args v st = Some (<name>_model args (MS v st))            for every args, v, st

   The [Some] is the no-panic content: every `context.arguments[i]`, the slice `context.arguments[1..]` and the callee's
   SPanic are explicit [None] arms of the translation; no argument vector and no state reaches one.

       gen_scope_push copy v st = SOk (m_push (MS v st) copy)
       gen_scope_pop  copy v st = sres_of (m_pop (MS v st) copy)                   (SErr exactly on the empty stack)

   Callees that are not part of a `run` are parameters of its translation: the theorems about gen_cmd_scope_push_stack /
   gen_cmd_scope_pop_stack hold for every callee that behaves like m_push / m_pop (gen_scope_push / gen_scope_pop do, by the
   two theorems above: [gen_cmd_scope_push_stack_tied]), the one about gen_cmd_clear_scope for every `clear` (the
   translation of types/scope.rs::clear is GenAliasFn.gen_scope_clear, tied to Scope.v by AliasGenTie.gen_scope_clear_c11:
   [gen_cmd_clear_scope_tied]), the one about gen_cmd_set for every get_output (`set` with two or more arguments evaluates
   a condition: outside Scope.v's CSet, whose result it only passes through — the state is untouched on every path).

   Every theorem is stated under its own flag: when the translator does not understand a function any more the generated
   file holds [false] and a stub for it and the theorem holds vacuously (the check reports that tie as inactive).  Every
   proof must also compile against the stub: the first sentence then closes the goal by [discriminate], so every later
   sentence is prefixed with [all:] and no bullets / braces are used.  No proof mentions a generated variable name or the
   position of a test in a decision tree. *)
Require Import DS.Base.
From stdpp Require Import gmap list sorting.
Require Import DS.Registry DS.Scope DS.VarGenLib.
Require Import DSG.GenVarFn.
Require DS.AliasGenTie DSG.GenAliasFn.

Definition lit_prefix : name := [45; 45; 112; 114; 101; 102; 105; 120]%N.     (* "--prefix" *)
Definition lit_copy : name := [45; 45; 99; 111; 112; 121]%N.                  (* "--copy" *)

(* ---- which command an argument vector denotes ------------------------------------------------------------------- *)
Definition out_of (o : option (option value)) : outcome :=
  match o with Some (Some x) => OVal x | Some None => ONone | None => OErr end.
Definition set_model (get_output : list name -> option (option value)) (args : list name) (s : mstate) : outcome * mstate :=
  match args with
  | [] => (ONone, s)
  | [x] => m_cmd s (CSet x)
  | _ :: _ :: _ => (out_of (get_output args), s)      (* the condition form: the value get_output computes, state untouched *)
  end.
Definition set_by_name_model (args : list name) (s : mstate) : outcome * mstate :=
  match args with
  | [] => (OErr, s)
  | [n] => m_cmd s (CSetByName n None)
  | n :: x :: _ => m_cmd s (CSetByName n (Some x))
  end.
Definition get_by_name_model (args : list name) (s : mstate) : outcome * mstate :=
  match args with [] => (ONone, s) | n :: _ => m_cmd s (CGetByName n) end.
Definition is_defined_model (args : list name) (s : mstate) : outcome * mstate :=
  match args with [] => (OErr, s) | n :: _ => m_cmd s (CIsDefined n) end.
Definition all_names_model (args : list name) (s : mstate) : outcome * mstate := m_step s OpNames.
Definition unset_all_vars_model (args : list name) (s : mstate) : outcome * mstate :=
  match args with
  | a :: p :: _ => m_cmd s (CUnsetAllVars (if str_eqb a lit_prefix then Some p else None))
  | _ => m_cmd s (CUnsetAllVars None)
  end.
Definition clear_scope_model (args : list name) (s : mstate) : outcome * mstate :=
  match args with [] => (OErr, s) | n :: _ => m_cmd s (CClearScope n) end.
Definition copy_of (args : list name) : option (list name) :=
  match args with a :: l => if str_eqb a lit_copy then Some l else None | [] => None end.
Definition push_model (args : list name) (s : mstate) : outcome * mstate := m_cmd s (CPush (copy_of args)).
Definition pop_model (args : list name) (s : mstate) : outcome * mstate := m_cmd s (CPop (copy_of args)).

Definition sres_of (r : outcome * mstate) : sres := match r.1 with OErr => SErr r.2 | _ => SOk r.2 end.

(* ---- tactics ----------------------------------------------------------------------------------------------------- *)
Lemma foldl_ext_all {A B : Type} (f g : A -> B -> A) (l : list B) : (forall a x, f a x = g a x) -> forall a, foldl f a l = foldl g a l.
Proof. intros E. induction l as [|x l IH]; intros a; cbn [foldl]; [reflexivity|]. rewrite E. apply IH. Qed.

Ltac vg_open :=
  unfold set_model, set_by_name_model, get_by_name_model, is_defined_model, all_names_model, unset_all_vars_model,
         clear_scope_model, push_model, pop_model, copy_of, out_of, sres_of, lit_prefix, lit_copy, vmap_has, vmap_keys,
         m_step, var_names.

Ltac vg_simpl :=
  cbn [length nth_error Nat.ltb Nat.leb Nat.eqb vec_is_empty vec_slice_from drop negb andb orb app m_cmd m_push m_pop copy_list
       vars stack fst snd sres_of];
  cbn beta iota zeta.

Ltac vg_leaf :=
  first [ reflexivity
        | discriminate
        | congruence
        | rewrite foldl_snoc; reflexivity
        | repeat f_equal; apply vmap_retain_filter; intros ? ?; cbn [fst snd]; apply Bool.negb_true_iff
        | repeat f_equal; first [reflexivity | apply foldl_ext_all; intros ? ?; repeat case_match; reflexivity] ].

(* split on every test of either side, innermost scrutinee first *)
Ltac vg_tree :=
  repeat (vg_simpl;
          match goal with
          | |- context [match ?x with _ => _ end] =>
              lazymatch x with
              | context [match _ with _ => _ end] => fail
              | _ => destruct x eqn:?
              end
          end);
  vg_simpl; vg_leaf.

(* the same with a hypothesis about a callee, used as soon as its arguments are known *)
Ltac vg_tree_with E :=
  repeat (vg_simpl;
          first [ progress rewrite ?E
                | match goal with
                  | |- context [match ?x with _ => _ end] =>
                      lazymatch x with
                      | context [match _ with _ => _ end] => fail
                      | _ => destruct x eqn:?
                      end
                  end ]);
  vg_simpl; vg_leaf.

Ltac vg_args args := destruct args as [|?a [|?a [|?a ?rest]]]; vg_simpl.

(* ---- utils::scope::push / pop ------------------------------------------------------------------------------------ *)
Theorem gen_scope_push_eq : gen_scope_push_understood = true ->
  forall copy v st, gen_scope_push copy v st = SOk (m_push (MS v st) copy).
Proof.
  unfold gen_scope_push_understood; intros U; try discriminate U; clear U.
  all: intros copy v st; unfold gen_scope_push, m_push, collect, insert_all; vg_tree.
Qed.

Theorem gen_scope_pop_eq : gen_scope_pop_understood = true ->
  forall copy v st, gen_scope_pop copy v st = sres_of (m_pop (MS v st) copy).
Proof.
  unfold gen_scope_pop_understood; intros U; try discriminate U; clear U.
  all: intros copy v st; unfold gen_scope_pop, sres_of, m_pop, collect, insert_all; destruct st as [|old rest]; vg_tree.
Qed.

(* ---- the variable commands --------------------------------------------------------------------------------------- *)
Theorem gen_cmd_set_eq : gen_cmd_set_understood = true ->
  forall get_output args v st, gen_cmd_set get_output args v st = Some (set_model get_output args (MS v st)).
Proof.
  unfold gen_cmd_set_understood; intros U; try discriminate U; clear U.
  all: intros get_output args v st; unfold gen_cmd_set; vg_args args; vg_open; vg_tree.
Qed.

Theorem gen_cmd_set_by_name_eq : gen_cmd_set_by_name_understood = true ->
  forall args v st, gen_cmd_set_by_name args v st = Some (set_by_name_model args (MS v st)).
Proof.
  unfold gen_cmd_set_by_name_understood; intros U; try discriminate U; clear U.
  all: intros args v st; unfold gen_cmd_set_by_name; vg_args args; vg_open; vg_tree.
Qed.

Theorem gen_cmd_get_by_name_eq : gen_cmd_get_by_name_understood = true ->
  forall args v st, gen_cmd_get_by_name args v st = Some (get_by_name_model args (MS v st)).
Proof.
  unfold gen_cmd_get_by_name_understood; intros U; try discriminate U; clear U.
  all: intros args v st; unfold gen_cmd_get_by_name; vg_args args; vg_open; vg_tree.
Qed.

Theorem gen_cmd_is_defined_eq : gen_cmd_is_defined_understood = true ->
  forall args v st, gen_cmd_is_defined args v st = Some (is_defined_model args (MS v st)).
Proof.
  unfold gen_cmd_is_defined_understood; intros U; try discriminate U; clear U.
  all: intros args v st; unfold gen_cmd_is_defined; vg_args args; vg_open; vg_tree.
Qed.

Theorem gen_cmd_get_all_var_names_eq : gen_cmd_get_all_var_names_understood = true ->
  forall args v st, gen_cmd_get_all_var_names args v st = Some (all_names_model args (MS v st)).
Proof.
  unfold gen_cmd_get_all_var_names_understood; intros U; try discriminate U; clear U.
  all: intros args v st; unfold gen_cmd_get_all_var_names; vg_open; vg_tree.
Qed.

Theorem gen_cmd_unset_all_vars_eq : gen_cmd_unset_all_vars_understood = true ->
  forall args v st, gen_cmd_unset_all_vars args v st = Some (unset_all_vars_model args (MS v st)).
Proof.
  unfold gen_cmd_unset_all_vars_understood; intros U; try discriminate U; clear U.
  all: intros args v st; unfold gen_cmd_unset_all_vars; vg_args args; vg_open; vg_tree.
Qed.

(* ---- the scope commands ------------------------------------------------------------------------------------------ *)
(* clear_scope: for EVERY callee; what it leaves is what the callee leaves *)
Theorem gen_cmd_clear_scope_eq : gen_cmd_clear_scope_understood = true ->
  forall scope_clear args v st,
    gen_cmd_clear_scope scope_clear args v st =
    Some (match args with [] => (OErr, MS v st) | n :: _ => (ONone, MS (scope_clear n v) st) end).
Proof.
  unfold gen_cmd_clear_scope_understood; intros U; try discriminate U; clear U.
  all: intros scope_clear args v st; unfold gen_cmd_clear_scope; vg_args args; vg_open; vg_tree.
Qed.

(* with the translation of types/scope.rs::clear (lib/gen/alias_gen.py) as the callee: Scope.v's CClearScope *)
Theorem gen_cmd_clear_scope_tied : gen_cmd_clear_scope_understood = true -> GenAliasFn.gen_scope_clear_understood = true ->
  forall args v st, gen_cmd_clear_scope GenAliasFn.gen_scope_clear args v st = Some (clear_scope_model args (MS v st)).
Proof.
  intros U C args v st. rewrite (gen_cmd_clear_scope_eq U). unfold clear_scope_model.
  destruct args as [|n rest]; [reflexivity|]. rewrite (AliasGenTie.gen_scope_clear_c11 C). reflexivity.
Qed.

Theorem gen_cmd_scope_push_stack_eq : gen_cmd_scope_push_stack_understood = true ->
  forall scope_push, (forall copy v st, scope_push copy v st = SOk (m_push (MS v st) copy)) ->
  forall args v st, gen_cmd_scope_push_stack scope_push args v st = Some (push_model args (MS v st)).
Proof.
  unfold gen_cmd_scope_push_stack_understood; intros U; try discriminate U; clear U.
  all: intros scope_push E args v st; unfold gen_cmd_scope_push_stack; vg_args args; vg_open; vg_tree_with E.
Qed.

Theorem gen_cmd_scope_pop_stack_eq : gen_cmd_scope_pop_stack_understood = true ->
  forall scope_pop, (forall copy v st, scope_pop copy v st = sres_of (m_pop (MS v st) copy)) ->
  forall args v st, gen_cmd_scope_pop_stack scope_pop args v st = Some (pop_model args (MS v st)).
Proof.
  unfold gen_cmd_scope_pop_stack_understood; intros U; try discriminate U; clear U.
  all: intros scope_pop E args v st; unfold gen_cmd_scope_pop_stack; destruct st as [|old rest].
  all: vg_args args; vg_open; vg_tree_with E.
Qed.

Theorem gen_cmd_scope_push_stack_tied : gen_cmd_scope_push_stack_understood = true -> gen_scope_push_understood = true ->
  forall args v st, gen_cmd_scope_push_stack gen_scope_push args v st = Some (push_model args (MS v st)).
Proof. exact (fun U P => gen_cmd_scope_push_stack_eq U gen_scope_push (gen_scope_push_eq P)). Qed.

Theorem gen_cmd_scope_pop_stack_tied : gen_cmd_scope_pop_stack_understood = true -> gen_scope_pop_understood = true ->
  forall args v st, gen_cmd_scope_pop_stack gen_scope_pop args v st = Some (pop_model args (MS v st)).
Proof. exact (fun U P => gen_cmd_scope_pop_stack_eq U gen_scope_pop (gen_scope_pop_eq P)). Qed.
