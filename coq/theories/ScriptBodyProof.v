(* ScriptBodyProof.v — C19 `confined_sound`: a script whose instructions pass the confinement
   check [iok], run by the model of eval_instructions / run_instruction / AliasCommand::run /
   eval_condition of ScriptBody.v, is semantically confined — provided the native commands satisfy
   the frame hypotheses below (one per class of the check) and the run ends with the ghost flag
   [g_odd] down.  Scripts calling scripts and conditions running commands are handled by
   induction on the nesting depth; no assumption on the call graph. *)
From stdpp Require Import gmap.
Require Import DS.Base DS.Parser DS.Expansion DS.ExpansionSpec DS.ExpansionFacts DS.EvalSer DS.Cond DS.ScriptConf.
Require Import DS.AliasCmd DS.AliasCmdProof DS.Runner DS.SdkErr DS.ScriptBody.
Local Open Scope nat_scope.
#[local] Arguments eo_result {cstate}. #[local] Arguments eo_output {cstate}.
#[local] Arguments eo_w {cstate}. #[local] Arguments eo_calls {cstate}. #[local] Arguments EO {cstate}.

(* ---- prefixes -------------------------------------------------------------------------------- *)
Lemma scope_prefix_pfx sc : scope_prefix sc = pfx (s_scope ++ sc).
Proof. unfold scope_prefix, pfx. now rewrite app_assoc. Qed.

Lemma starts_with_nonempty p s : p <> [] -> ScriptConf.starts_with p s = true -> s <> [].
Proof. destruct p; [congruence|]. destruct s; cbn; [discriminate|discriminate]. Qed.

Lemma scope_prefix_nonempty sc : scope_prefix sc <> [].
Proof. unfold scope_prefix, s_scope. discriminate. Qed.

Lemma find_script_In t c s : find_script t c = Some s -> In s t.
Proof.
  induction t as [|s0 t IH]; cbn; [discriminate|].
  destruct (str_in c (se_aliases s0)); [intros [= ->]; now left|]. intros H. right. now apply IH.
Qed.

Lemma reserved_hasp t s k : In s t -> reserved t k = false -> hasp (se_P s) k = false.
Proof.
  intros Hin Hr. destruct (hasp (se_P s) k) eqn:E; [|reflexivity].
  assert (reserved t k = true) by (apply existsb_exists; eauto). congruence.
Qed.

(* ---- binding of the two argument shapes the check relies on ---------------------------------- *)
Lemma bind_lit e a r : lit_ok a = true -> a <> [] -> bind_args e (a :: r) = a :: bind_args e r.
Proof.
  intros Hl Hne. cbn [bind_args].
  pose proof (expand_tmpl [Lit a] e) as H. unfold render_tmpl, denote_tmpl in H.
  cbn [map concat render_piece denote wf_tmpl forallb wf_piece] in H. rewrite app_nil_r, Hl in H.
  rewrite H by reflexivity. destruct a; [congruence|]. reflexivity.
Qed.

Lemma var_ref_name_inv a K : var_ref_name a = Some K ->
  name_ok K = true /\ a = c_dollar :: c_lbrace :: K ++ [c_rbrace].
Proof.
  unfold var_ref_name. destruct a as [|x [|y r]]; try discriminate.
  destruct ((x =? c_dollar) && (y =? c_lbrace))%N eqn:Exy; [|discriminate].
  apply andb_prop in Exy. destruct Exy as [Ex Ey]. apply N.eqb_eq in Ex, Ey. subst x y.
  destruct (rev r) as [|z rk] eqn:Er; [discriminate|].
  destruct ((z =? c_rbrace)%N && name_ok (rev rk)) eqn:Ez; [|discriminate].
  apply andb_prop in Ez. destruct Ez as [Ez En]. apply N.eqb_eq in Ez. subst z.
  intros [= <-]. split; [exact En|]. f_equal. f_equal.
  rewrite <- (rev_involutive r), Er. reflexivity.
Qed.

Lemma bind_var_ref e a K : var_ref_name a = Some K -> bind_args e [a] = [lookup_or_empty e K].
Proof.
  intros H. apply var_ref_name_inv in H. destruct H as [Hn ->]. cbn [bind_args]. rewrite app_nil_r.
  pose proof (expand_tmpl [Var K] e) as H. unfold render_tmpl, denote_tmpl in H.
  cbn [map concat render_piece denote wf_tmpl forallb wf_piece] in H. rewrite !app_nil_r, Hn in H.
  rewrite H by reflexivity. apply bound_of_text.
Qed.

(* ---- eval_instructions preserves every reflexive transitive relation its steps preserve ------ *)
Section EvalRel.
Variable cstate : Type.
Variable exists_cmd : cstate -> str -> bool.
Variable cmd : str -> inv -> world cstate -> result * world cstate.
Variable R : world cstate -> world cstate -> Prop.
Hypothesis R_refl : forall w, R w w.
Hypothesis R_trans : forall a b c, R a b -> R b c -> R a c.
Variable body : list Runner.instr.
Hypothesis step_ok : forall i line w, In i body -> R w (ri_w (run_instruction cstate exists_cmd cmd w i line)).
Hypothesis out_ok_R : forall i s w out, In i body -> Runner.i_type i = Runner.IScript s -> R w (update_output w (s_out s) out).

Lemma ei_rel : forall fuel line w fo calls o,
  eval_instructions cstate exists_cmd cmd fuel body line w fo calls = Some o -> R w (eo_w o).
Proof.
  induction fuel as [|fuel IH]; intros line w fo calls o H; [discriminate|].
  cbn [eval_instructions] in H.
  destruct (body !! line) as [i|] eqn:Hi; [|inversion H; subst; apply R_refl].
  assert (Hin : In i body) by (apply elem_of_list_In; eapply elem_of_list_lookup_2; exact Hi).
  destruct (Runner.i_type i) as [| |s] eqn:Ht; [eapply IH; exact H|eapply IH; exact H|].
  pose proof (step_ok i line w Hin) as Hs.
  destruct (ri_res (run_instruction cstate exists_cmd cmd w i line)) as [out|out g|e|e|out] eqn:Hr.
  - eapply R_trans; [exact Hs|]. eapply R_trans; [eapply out_ok_R; eassumption|]. eapply IH; exact H.
  - destruct g; [inversion H; subst; exact Hs|]. eapply R_trans; [exact Hs|]. eapply IH; exact H.
  - inversion H; subst; exact Hs.
  - inversion H; subst; exact Hs.
  - inversion H; subst; exact Hs.
Qed.
End EvalRel.

(* ---- the theorem ----------------------------------------------------------------------------- *)
Definition nv {A B C : Type} (x : A * vmap * B * C) : vmap := x.1.1.2.

Section Sound.
Variable ustate : Type.
Variable table : list sentry.
Variable fresh : handles -> str.
Variable store_args : str -> list str -> ustate -> ustate.
Variable drop_handle : str -> ustate -> ustate.
Variable set_ctx : str -> ustate -> str * ustate.
Variable nexists : ustate -> str -> bool.
Variable ncmd : str -> list Runner.instr -> inv -> nat_t ustate.
Variable cond_pre : str -> list Runner.instr -> inv -> vmap -> handles -> ustate -> option result * vmap * handles * ustate.
Variable cond_post : str -> list Runner.instr -> inv -> option bool -> nat_t ustate.

(* the frame assumptions about native commands, one per class of the check *)
Record frame_hyps : Prop := FH {
  (* a command of the variable-pure table leaves the variable map alone (the runner writes its output) *)
  fh_pure : forall c p a v h u, str_in c pure_cmds = true -> str_in c cond_cmds = false -> nv (ncmd c p a v h u) = v;
  (* else / end / end_if / endif / fi / end_while / endwhile / end_for *)
  fh_flow : forall c p a v h u, str_in c flow_cmds = true -> str_in c cond_cmds = false -> nv (ncmd c p a v h u) = v;
  (* for: nothing, or the variable named by its first received argument *)
  fh_for : forall p a v h u, nv (ncmd s_for p a v h u) = v \/
             exists k r x, a_args a = k :: r /\ nv (ncmd s_for p a v h u) = <[k := x]> v;
  (* set_by_name with one received argument deletes the variable of that name *)
  fh_sbn : forall p a v h u n, a_args a = [n] -> nv (ncmd s_set_by_name p a v h u) = delete n v;
  (* if / elif / elseif / while / not: the native parts around eval_condition *)
  fh_pre : forall c p a v h u, str_in c cond_cmds = true -> nv (cond_pre c p a v h u) = v;
  fh_post : forall c p a cr v h u, str_in c cond_cmds = true -> nv (cond_post c p a cr v h u) = v }.

Hypothesis FHyp : frame_hyps.
Hypothesis Htable : table_ok table = true.

Notation W := (world (gst ustate)).
Notation evn := (ev ustate table fresh store_args drop_handle set_ctx nexists ncmd cond_pre cond_post).
Notation dispatchn := (dispatch ustate table fresh store_args drop_handle set_ctx nexists ncmd cond_pre cond_post).
Notation alias_wn := (alias_w ustate fresh store_args drop_handle set_ctx).
Notation eval_conditionn := (eval_condition ustate table nexists).
Notation cond_runn := (cond_run ustate table nexists cond_pre cond_post).
Notation odd w := (g_odd (cst w)).

(* D: may non-reserved variables be deleted (unset).  P: the running script's own prefix. *)
Definition frame (D : bool) (P : str) (v v' : vmap) : Prop :=
  forall k, (reserved table k = false -> v' !! k = v !! k \/ (D = true /\ v' !! k = None)) /\
            (hasp P k = false -> v' !! k = v !! k \/ v' !! k = None).
Definition M (w w' : W) : Prop := odd w = true -> odd w' = true.
Definition R (D : bool) (P : str) (w w' : W) : Prop := M w w' /\ (odd w' = true \/ frame D P (vars w) (vars w')).

Lemma frame_refl D P v : frame D P v v.
Proof. intros k. split; intros _; now left. Qed.
Lemma frame_trans D P a b c : frame D P a b -> frame D P b c -> frame D P a c.
Proof.
  intros H1 H2 k. destruct (H1 k) as [A1 B1]. destruct (H2 k) as [A2 B2]. split; intros Hk.
  - destruct (A2 Hk) as [E2|[HD E2]]; [|right; now split].
    destruct (A1 Hk) as [E1|[HD E1]]; [left; congruence|right; split; [exact HD|congruence]].
  - destruct (B2 Hk) as [E2|E2]; [|now right].
    destruct (B1 Hk) as [E1|E1]; [left; congruence|right; congruence].
Qed.
Lemma M_refl w : M w w. Proof. intros H; exact H. Qed.
Lemma M_trans a b c : M a b -> M b c -> M a c. Proof. unfold M. auto. Qed.
Lemma R_refl D P w : R D P w w.
Proof. split; [apply M_refl|right; apply frame_refl]. Qed.
Lemma R_trans D P a b c : R D P a b -> R D P b c -> R D P a c.
Proof.
  intros [M1 F1] [M2 F2]. split; [eapply M_trans; eassumption|].
  destruct (odd c) eqn:Ec; [now left|right].
  destruct F2 as [F2|F2]; [congruence|].
  destruct F1 as [F1|F1]; [apply M2 in F1; congruence|].
  eapply frame_trans; eassumption.
Qed.
Lemma R_same D P (w w' : W) : vars w' = vars w -> odd w' = odd w -> R D P w w'.
Proof. intros Hv Ho. split; [unfold M; congruence|right; rewrite Hv; apply frame_refl]. Qed.
Lemma R_flagged D P (w w' : W) : odd w' = true -> R D P w w'.
Proof. intros H. split; [intros _; exact H|now left]. Qed.
Lemma R_frame D P (w w' : W) : odd w' = odd w -> frame D P (vars w) (vars w') -> R D P w w'.
Proof. intros Ho Hf. split; [unfold M; congruence|now right]. Qed.

(* a write to / deletion of a key under the running script's prefix *)
Definition scope_in (scope : str) : Prop := exists s, In s table /\ se_scope s = scope.

Lemma frame_own_key D scope v v' x : scope_in scope -> hasp (s_scope ++ scope) x = true ->
  (forall k, k <> x -> v' !! k = v !! k) -> frame D (s_scope ++ scope) v v'.
Proof.
  intros (s & Hin & <-) Hx Hv k. split; intros Hk; left; apply Hv; intros ->.
  - pose proof (reserved_hasp _ _ _ Hin Hk) as E. unfold se_P in E. congruence.
  - congruence.
Qed.

Lemma update_output_R D scope (w : W) o out : scope_in scope -> out_ok scope o = true ->
  R D (s_scope ++ scope) w (update_output w o out).
Proof.
  intros Hs Ho. destruct o as [x|]; [|apply R_refl]. cbn [out_ok] in Ho. rewrite scope_prefix_pfx in Ho.
  apply R_frame; [destruct out; reflexivity|].
  eapply frame_own_key; [exact Hs|exact Ho|]. intros k Hk.
  destruct out; cbn [update_output set_vars vars].
  - apply lookup_insert_ne. congruence.
  - apply lookup_delete_ne. congruence.
Qed.

(* ---- monotonicity of the flag: for every body ------------------------------------------------ *)
Section Step.
Variable evp : ev_t ustate.
Hypothesis IHM : forall scope body line w o, evp scope body line w = Some o -> M w (eo_w o).

Lemma alias_M s a w : M w (alias_wn evp s a w).2.
Proof.
  unfold alias_w. destruct (length (a_args a) <? se_min s); [apply M_refl|].
  destruct (set_ctx _ _) as [prev u0].
  destruct (a_args a) as [|a0 ar].
  - destruct (evp _ _ _ _) as [o|] eqn:E; [|intros H; exact H].
    apply IHM in E. destruct (size (vars w) <? _); exact E.
  - destruct (evp _ _ _ _) as [o|] eqn:E; [|intros H; exact H].
    apply IHM in E. destruct (size (vars w) <? _); exact E.
Qed.

Lemma eval_condition_M scope body args w : M w (eval_conditionn evp scope body args w).2.
Proof.
  unfold eval_condition. destruct args as [|first r]; [apply M_refl|].
  destruct (gexists _ _ _ _); [|apply M_refl].
  destruct (eval_parse _) as [t|e|]; [|apply M_refl|intros H; exact H].
  set (w1 := if iok table scope (cond_instr t) then w else mark_odd ustate w).
  assert (H1 : M w w1) by (subst w1; destruct (iok _ _ _); [apply M_refl|intros _; reflexivity]).
  destruct (evp _ _ _ _) as [o|] eqn:E; [|exact H1].
  apply IHM in E. destruct (flow_answer ustate o); (eapply M_trans; [exact H1|exact E]).
Qed.

Lemma cond_run_M scope body c a w : M w (cond_runn evp scope body c a w).2.
Proof.
  unfold cond_run. destruct (cond_pre _ _ _ _ _ _) as [[[pr v] h] u].
  destruct pr as [r|]; [intros H; exact H|].
  pose proof (eval_condition_M scope body (a_args a) (set_g ustate w v h u)) as H.
  destruct (eval_conditionn _ _ _ _ _) as [cr w2]. unfold lift.
  destruct (cond_post _ _ _ _ _ _ _) as [[[r v'] h'] u']. exact H.
Qed.

Lemma dispatch_M scope body c a w : M w (dispatchn evp scope body c a w).2.
Proof.
  unfold dispatch. destruct (find_script table c) as [s|]; [apply alias_M|].
  destruct (str_in c cond_cmds); [apply cond_run_M|].
  unfold lift. destruct (ncmd _ _ _ _ _ _) as [[[r v'] h'] u']. intros H; exact H.
Qed.

Lemma run_instruction_M scope body i line w :
  M w (ri_w (run_instruction (gst ustate) (gexists ustate nexists) (bound ustate (dispatchn evp scope body)) w i line)).
Proof.
  unfold run_instruction. destruct (Runner.i_type i) as [| |s]; try apply M_refl.
  destruct (s_cmd s) as [c|]; [|apply M_refl].
  destruct (gexists _ _ _ _); [|apply M_refl]. cbn [ri_w]. unfold bound. apply dispatch_M.
Qed.
End Step.

Lemma ev_M fuel : forall n scope body line w o, evn fuel n scope body line w = Some o -> M w (eo_w o).
Proof.
  induction n as [|n IH]; intros scope body line w o H; [discriminate|].
  cbn [ev] in H. eapply ei_rel; [apply M_refl|apply M_trans| | |exact H].
  - intros i ln w0 _. apply run_instruction_M. exact IH.
  - intros i s w0 out _ _. destruct (s_out s), out; intros Hm; exact Hm.
Qed.

(* ---- the frame ------------------------------------------------------------------------------- *)
Lemma not_cond_for : str_in s_for cond_cmds = false. Proof. reflexivity. Qed.
Lemma not_cond_sbn : str_in s_set_by_name cond_cmds = false. Proof. reflexivity. Qed.

Section StepR.
Variable evp : ev_t ustate.
Hypothesis IHM : forall scope body line w o, evp scope body line w = Some o -> M w (eo_w o).
Hypothesis IHR : forall scope body line w o, scope_in scope -> forallb (iok table scope) body = true ->
  evp scope body line w = Some o -> R (is_unset scope) (s_scope ++ scope) w (eo_w o).

Lemma table_entry_ok s : In s table -> forallb (iok table (se_scope s)) (se_body s) = true.
Proof. intros Hin. unfold table_ok in Htable. rewrite forallb_forall in Htable. now apply Htable. Qed.

(* a call of another script command: for EVERY key outside that script's prefix, unchanged or deleted *)
Lemma alias_R D P s a w : In s table -> is_unset (se_scope s) = false -> R D P w (alias_wn evp s a w).2.
Proof.
  intros Hin Hnu. unfold alias_w. destruct (length (a_args a) <? se_min s); [apply R_refl|].
  destruct (set_ctx _ _) as [prev u0].
  set (Q := se_P s).
  assert (Hgen : forall v1 h1 u1 ho o,
     (forall k, hasp Q k = false -> v1 !! k = vars w !! k) ->
     evp (se_scope s) (se_body s) 0 (set_g ustate w v1 h1 u1) = Some o ->
     R D P w (let w2 := eo_w o in
              let '(h3, u3) := match ho with
                               | Some k => (g_h (cst w2) ∖ {[k]}, drop_handle k (g_u (cst w2)))
                               | None => (g_h (cst w2), g_u (cst w2))
                               end in
              let v3 := keep Q (vars w2) in
              let w3 := set_g ustate w2 v3 h3 (set_ctx prev u3).2 in
              if size (vars w) <? size v3 then (Crash (Msg msg_leak), w3) else (flow_answer ustate o, w3)).2).
  { intros v1 h1 u1 ho o Hv1 E.
    pose proof (IHM _ _ _ _ _ E) as Hm.
    pose proof (IHR _ _ _ _ _ (ex_intro _ s (conj Hin eq_refl)) (table_entry_ok s Hin) E) as [_ Hr].
    rewrite Hnu in Hr.
    set (w2 := eo_w o) in *.
    assert (Hres : R D P w (set_g ustate w2 (keep Q (vars w2))
                     (match ho with Some k => g_h (cst w2) ∖ {[k]} | None => g_h (cst w2) end)
                     (set_ctx prev (match ho with Some k => drop_handle k (g_u (cst w2)) | None => g_u (cst w2) end)).2)).
    { split; [exact Hm|]. cbn [set_g cst g_odd vars].
      destruct Hr as [Hr|Hr]; [now left|right].
      cbn [set_g vars] in Hr. intros k.
      assert (Hall : keep Q (vars w2) !! k = vars w !! k \/ keep Q (vars w2) !! k = None).
      { destruct (hasp Q k) eqn:HQ; [right; now apply keep_prefix|].
        rewrite keep_other by exact HQ. destruct (Hr k) as [_ B]. fold Q in B.
        destruct (B HQ) as [E1|E1]; [left; etrans; [exact E1|now apply Hv1]|now right]. }
      split; intros Hk; [|exact Hall].
      left. pose proof (reserved_hasp _ _ _ Hin Hk) as HQ. fold Q in HQ.
      rewrite keep_other by exact HQ. destruct (Hr k) as [A _].
      destruct (A Hk) as [E1|[E1 _]]; [etrans; [exact E1|now apply Hv1]|discriminate]. }
    destruct ho; cbn zeta; destruct (size (vars w) <? _); exact Hres. }
  destruct (a_args a) as [|a0 ar].
  - destruct (evp _ _ _ _) as [o|] eqn:E; [|apply R_same; reflexivity].
    refine (Hgen _ _ _ None o _ E). reflexivity.
  - destruct (evp _ _ _ _) as [o|] eqn:E; [|apply R_same; reflexivity].
    refine (Hgen _ _ _ (Some (fresh (g_h (cst w)))) o _ E).
    intros k Hk. etrans.
    + apply lookup_insert_ne. intros Ek. subst k. unfold Q in Hk. rewrite hasp_args_key in Hk. discriminate.
    + apply insert_args_other. exact Hk.
Qed.

Lemma eval_condition_R scope body args w : scope_in scope -> forallb (iok table scope) body = true ->
  R (is_unset scope) (s_scope ++ scope) w (eval_conditionn evp scope body args w).2.
Proof.
  intros Hs Hb. unfold eval_condition. destruct args as [|first r]; [apply R_refl|].
  destruct (gexists _ _ _ _); [|apply R_refl].
  destruct (eval_parse _) as [t|e|]; [|apply R_refl|apply R_same; reflexivity].
  destruct (iok table scope (cond_instr t)) eqn:Hi.
  - destruct (evp _ _ _ _) as [o|] eqn:E; [|apply R_same; reflexivity].
    assert (Hr : R (is_unset scope) (s_scope ++ scope) w (eo_w o)).
    { eapply IHR; [exact Hs| |exact E]. rewrite forallb_app, Hb. cbn [forallb]. now rewrite Hi. }
    destruct (flow_answer ustate o); exact Hr.
  - destruct (evp _ _ _ _) as [o|] eqn:E; [|apply R_flagged; reflexivity].
    apply IHM in E. assert (Ho : odd (eo_w o) = true) by (apply E; reflexivity).
    destruct (flow_answer ustate o); apply R_flagged; exact Ho.
Qed.

Lemma cond_run_R scope body c a w : scope_in scope -> forallb (iok table scope) body = true ->
  str_in c cond_cmds = true -> R (is_unset scope) (s_scope ++ scope) w (cond_runn evp scope body c a w).2.
Proof.
  intros Hs Hb Hc. unfold cond_run.
  pose proof (fh_pre FHyp c body a (vars w) (g_h (cst w)) (g_u (cst w)) Hc) as Hpre.
  destruct (cond_pre _ _ _ _ _ _) as [[[pr v] h] u]. unfold nv in Hpre. cbn in Hpre. subst v.
  destruct pr as [r|]; [apply R_same; reflexivity|].
  pose proof (eval_condition_R scope body (a_args a) (set_g ustate w (vars w) h u) Hs Hb) as H.
  destruct (eval_conditionn _ _ _ _ _) as [cr w2]. unfold lift.
  pose proof (fh_post FHyp c body a cr (vars w2) (g_h (cst w2)) (g_u (cst w2)) Hc) as Hpost.
  destruct (cond_post _ _ _ _ _ _ _) as [[[r v'] h'] u']. unfold nv in Hpost. cbn in Hpost. subst v'.
  cbn [snd] in *. eapply R_trans; [|apply R_same; reflexivity].
  eapply R_trans; [apply R_same|exact H]; reflexivity.
Qed.

Lemma lift_same D P f (w : W) : nv (f (vars w) (g_h (cst w)) (g_u (cst w))) = vars w -> R D P w (lift ustate f w).2.
Proof.
  unfold lift, nv. destruct (f _ _ _) as [[[r v'] h'] u']. cbn. intros ->. apply R_same; reflexivity.
Qed.

Lemma dispatch_R scope body c wargs out line w : scope_in scope -> forallb (iok table scope) body = true ->
  cmd_iok table scope c wargs = true ->
  R (is_unset scope) (s_scope ++ scope) w
    (dispatchn evp scope body c (Inv (bind_args (env_of (vars w)) wargs) out line) w).2.
Proof.
  intros Hs Hb Hc. unfold cmd_iok in Hc. unfold dispatch.
  destruct (find_script table c) as [s|] eqn:Hf.
  { apply alias_R; [eapply find_script_In; exact Hf|]. now apply negb_true_iff. }
  destruct (str_eqb_spec c s_for) as [->|Hnf].
  { rewrite not_cond_for. destruct wargs as [|x rest]; [discriminate|].
    unfold lit_name in Hc. apply andb_prop in Hc. destruct Hc as [Hp Hl].
    rewrite bind_lit; [|exact Hl|eapply starts_with_nonempty; [apply scope_prefix_nonempty|exact Hp]].
    rewrite scope_prefix_pfx in Hp.
    set (a := Inv _ _ _).
    destruct (fh_for FHyp body a (vars w) (g_h (cst w)) (g_u (cst w))) as [E|(k & r & val & Ea & E)].
    - apply lift_same. exact E.
    - unfold lift. unfold nv in E. destruct (ncmd _ _ _ _ _ _) as [[[r0 v'] h'] u']. cbn in E. subst v'.
      subst a. cbn [a_args] in Ea. injection Ea as <- _.
      apply R_frame; [reflexivity|]. cbn [snd set_g vars].
      eapply frame_own_key; [exact Hs|exact Hp|]. intros k Hk. apply lookup_insert_ne. congruence. }
  destruct (str_eqb_spec c s_set_by_name) as [->|Hns].
  { rewrite not_cond_sbn. apply andb_prop in Hc. destruct Hc as [Hu Hc]. rewrite Hu.
    destruct wargs as [|a0 [|? ?]]; try discriminate.
    destruct (var_ref_name a0) as [K|] eqn:HK; [|discriminate].
    rewrite (bind_var_ref _ _ _ HK).
    set (a := Inv _ _ _).
    pose proof (fh_sbn FHyp body a (vars w) (g_h (cst w)) (g_u (cst w)) _ eq_refl) as E.
    unfold lift. unfold nv in E. destruct (ncmd _ _ _ _ _ _) as [[[r0 v'] h'] u']. cbn in E. subst v'.
    apply R_frame; [reflexivity|]. cbn [snd set_g vars]. intros k.
    destruct (decide (k = lookup_or_empty (env_of (vars w)) K)) as [->|Hne].
    - split; intros _; right; [split; [reflexivity|]|]; apply lookup_delete.
    - split; intros _; left; apply lookup_delete_ne; congruence. }
  destruct (str_in c cond_cmds) eqn:Hcc; [now apply cond_run_R|].
  apply lift_same. apply orb_prop in Hc. destruct Hc as [Hp|Hfl].
  - now apply (fh_pure FHyp).
  - now apply (fh_flow FHyp).
Qed.

Lemma run_instruction_R scope body i line w : scope_in scope -> forallb (iok table scope) body = true ->
  iok table scope i = true ->
  R (is_unset scope) (s_scope ++ scope) w
    (ri_w (run_instruction (gst ustate) (gexists ustate nexists) (bound ustate (dispatchn evp scope body)) w i line)).
Proof.
  intros Hs Hb Hi. unfold run_instruction. unfold iok in Hi.
  destruct (Runner.i_type i) as [| |s]; try apply R_refl.
  destruct (s_cmd s) as [c|]; [|apply R_refl].
  destruct (gexists _ _ _ _); [|apply R_refl]. cbn [ri_w]. unfold bound. cbn [a_args a_out a_line].
  apply andb_prop in Hi. destruct Hi as [_ Hc]. now apply dispatch_R.
Qed.
End StepR.

Theorem ev_R fuel : forall n scope body line w o, scope_in scope -> forallb (iok table scope) body = true ->
  evn fuel n scope body line w = Some o -> R (is_unset scope) (s_scope ++ scope) w (eo_w o).
Proof.
  induction n as [|n IH]; intros scope body line w o Hs Hb H; [discriminate|].
  cbn [ev] in H. eapply ei_rel; [apply R_refl|apply R_trans| | |exact H].
  - intros i ln w0 Hin. apply run_instruction_R; try assumption.
    + apply ev_M.
    + rewrite forallb_forall in Hb. now apply Hb.
  - intros i s w0 out Hin Ht. apply update_output_R; [exact Hs|].
    rewrite forallb_forall in Hb. specialize (Hb i Hin). unfold iok in Hb. rewrite Ht in Hb.
    apply andb_prop in Hb. apply Hb.
Qed.

(* confined_sound: the body of a checked script, run to the end with the flag down, changes no
   variable outside the reserved prefixes (unset: changes none, may delete), and neither changes
   nor creates any variable outside its own prefix *)
Theorem confined_sound fuel n scope body v h u r out v' h' u' :
  scope_in scope -> forallb (iok table scope) body = true ->
  script_body ustate table fresh store_args drop_handle set_ctx nexists ncmd cond_pre cond_post
              fuel n scope body v h u = SBDone r out v' h' u' false ->
  (forall k, reserved table k = false -> v' !! k = v !! k \/ (is_unset scope = true /\ v' !! k = None)) /\
  (forall k, hasp (s_scope ++ scope) k = false -> v' !! k = v !! k \/ v' !! k = None).
Proof.
  intros Hs Hb H. unfold script_body in H.
  destruct (evn fuel n scope body 0 _) as [o|] eqn:E; [|discriminate].
  pose proof (ev_R _ _ _ _ _ _ _ Hs Hb E) as [_ Hr].
  destruct (g_oof (cst (eo_w o))); [discriminate|]. destruct (g_panic (cst (eo_w o))); [discriminate|].
  injection H as _ _ Hv _ _ Ho. destruct Hr as [Hr|Hr]; [congruence|]. subst v'. cbn [start vars] in Hr.
  split; intros k; apply (Hr k).
Qed.

(* ---- the whole command: wrapper + body ---------------------------------------------------------- *)
Definition to_wres (r : result) : wres :=
  match r with
  | Continue o => WContinue o | GoTo _ _ => WGoto | Error _ => WError [] | Crash _ => WCrash [] | Exit o => WExit o
  end.

(* what the wrapper hands to the body *)
Definition alias_u1 (s : sentry) (args : list str) (w : W) : ustate :=
  let u0 := (set_ctx (se_P s) (g_u (cst w))).2 in
  match args with [] => u0 | _ => store_args (fresh (g_h (cst w))) args u0 end.
Definition alias_start (s : sentry) (args : list str) (w : W) : W :=
  match args with
  | [] => set_g ustate w (vars w) (g_h (cst w)) (alias_u1 s args w)
  | _ => let k := fresh (g_h (cst w)) in
         set_g ustate w (<[args_key (se_P s) := k]> (insert_args (se_P s) 1 args (vars w))) ({[k]} ∪ g_h (cst w))
               (alias_u1 s args w)
  end.

(* the body as AliasCmd.v sees it: a function of the variables and the handle keys *)
Definition body_fn (evp : ev_t ustate) (s : sentry) (w : W) (u1 : ustate) (v1 : vmap) (h1 : handles)
  : (option wres * option str) * vmap * handles :=
  match evp (se_scope s) (se_body s) 0 (set_g ustate w v1 h1 u1) with
  | Some o => (option_map to_wres (eo_result o), eo_output o, vars (eo_w o), g_h (cst (eo_w o)))
  | None => (Some (WCrash []), None, v1, h1)
  end.

(* adapter: on the variables, the handle keys and the kind of the result, [alias_w] IS the wrapper
   model of AliasCmd.v (whose theorems hold for every body), unless the nested run ran out of fuel *)
Lemma alias_w_is_alias_run evp s a w o :
  evp (se_scope s) (se_body s) 0 (alias_start s (a_args a) w) = Some o ->
  (to_wres (alias_wn evp s a w).1, vars (alias_wn evp s a w).2, g_h (cst (alias_wn evp s a w).2)) =
  AliasCmd.alias_run fresh (body_fn evp s w (alias_u1 s (a_args a) w)) (se_P s) (se_min s) (a_args a) (vars w) (g_h (cst w)).
Proof.
  intros E. unfold alias_w, AliasCmd.alias_run, alias_start, alias_u1, body_fn in *.
  destruct (length (a_args a) <? se_min s); [reflexivity|].
  destruct (set_ctx (se_P s) (g_u (cst w))) as [prev u0]. cbn [snd] in *.
  destruct (a_args a) as [|a0 ar].
  - rewrite E. cbn zeta.
    match goal with |- context [if ?b then (Crash _, _) else _] => set (B := b) end;
    match goal with |- context [if ?b then (WCrash _, _, _) else _] => change b with B end;
    destruct B; [reflexivity|].
    cbn [fst snd set_g vars cst g_h]. unfold flow_answer. destruct (eo_result o); reflexivity.
  - cbn zeta in *. rewrite E.
    match goal with |- context [if ?b then (Crash _, _) else _] => set (B := b) end;
    match goal with |- context [if ?b then (WCrash _, _, _) else _] => change b with B end;
    destruct B; [reflexivity|].
    cbn [fst snd set_g vars cst g_h]. unfold flow_answer. destruct (eo_result o); reflexivity.
Qed.

Notation script_commandn := (script_command ustate table fresh store_args drop_handle set_ctx nexists ncmd cond_pre cond_post).

(* every script command of the table, invoked on any variables with any arguments, run to the end
   with the flag down:
   (a) every caller variable outside the reserved prefixes is exactly as before (unset: or deleted);
   (b) nothing is left under the command's own prefix;  (c) the argument array is released;
   (d) there are no more variables than before — the wrapper's leak check cannot fire — and the
       answer is the answer of the body run on the variables the wrapper prepared *)
Theorem every_script_command fuel n s args v h u r v' h' u' :
  In s table ->
  script_commandn fuel n s args v h u = SCDone r v' h' u' false ->
  (forall k, reserved table k = false -> v' !! k = v !! k \/ (is_unset (se_scope s) = true /\ v' !! k = None)) /\
  (se_min s <= length args -> forall k, hasp (se_P s) k = true -> v' !! k = None) /\
  (se_min s <= length args -> forall a0 ar, args = a0 :: ar -> fresh h ∉ h') /\
  (size v' <= size v) /\
  (se_min s <= length args ->
   exists o, evn fuel n (se_scope s) (se_body s) 0 (alias_start s args (start ustate v h u)) = Some o /\
             r = flow_answer ustate o).
Proof.
  intros Hin H. unfold script_command in H.
  set (a := Inv args None 0) in *. set (w := start ustate v h u) in *.
  destruct (alias_wn (evn fuel n) s a w) as [r0 w3] eqn:Ea.
  destruct (g_oof (cst w3)) eqn:Eoof; [discriminate|]. destruct (g_panic (cst w3)); [discriminate|].
  injection H as -> <- <- _ Hodd.
  destruct (Nat.ltb_spec (length args) (se_min s)) as [Hlt|Hge].
  { unfold alias_w in Ea. cbn [a a_args] in Ea.
    destruct (Nat.ltb_spec (length args) (se_min s)) as [_|?]; [|lia].
    injection Ea as <- <-. cbn [w start vars].
    repeat split; try (intros; lia); try (intros k _; now left). }
  destruct (evn fuel n (se_scope s) (se_body s) 0 (alias_start s (a_args a) w)) as [o|] eqn:E.
  2:{ exfalso. unfold alias_w, alias_start, alias_u1 in *. cbn [a a_args] in *.
      destruct (Nat.ltb_spec (length args) (se_min s)) as [?|_]; [lia|].
      destruct (set_ctx _ _) as [prev u0]. cbn [snd] in E.
      destruct args as [|a0 ar]; cbn zeta in *; rewrite E in Ea; injection Ea as _ <-; discriminate Eoof. }
  pose proof (alias_w_is_alias_run _ _ _ _ _ E) as Heq. rewrite Ea in Heq. cbn [fst snd] in Heq.
  symmetry in Heq. cbn [a a_args w start vars cst g_h] in Heq.
  pose proof (ev_R fuel n _ _ _ _ _ (ex_intro _ s (conj Hin eq_refl)) (table_entry_ok s Hin) E) as [Hm Hr].
  (* the flag *)
  assert (Hodd2 : odd (eo_w o) = false).
  { unfold alias_w in Ea. cbn [a a_args] in Ea.
    destruct (Nat.ltb_spec (length args) (se_min s)) as [?|_]; [lia|].
    unfold alias_start, alias_u1 in E. cbn [a a_args] in E.
    destruct (set_ctx _ _) as [prev u0]. cbn [snd] in E.
    destruct args as [|a0 ar]; cbn zeta in *; rewrite E in Ea;
      destruct (size (vars w) <? _); injection Ea as _ <-; exact Hodd. }
  destruct Hr as [Hr|Hr]; [congruence|].
  (* the variables: v' = keep P (body result) *)
  assert (Hv' : vars w3 = keep (se_P s) (vars (eo_w o))).
  { unfold alias_w in Ea. cbn [a a_args] in Ea.
    destruct (Nat.ltb_spec (length args) (se_min s)) as [?|_]; [lia|].
    unfold alias_start, alias_u1 in E. cbn [a a_args] in E.
    destruct (set_ctx _ _) as [prev u0]. cbn [snd] in E.
    destruct args as [|a0 ar]; cbn zeta in *; rewrite E in Ea;
      destruct (size (vars w) <? _); injection Ea as _ <-; reflexivity. }
  assert (Hstart : forall k, hasp (se_P s) k = false -> vars (alias_start s (a_args a) w) !! k = v !! k).
  { intros k Hk. unfold alias_start. cbn [a a_args]. destruct args as [|a0 ar]; [reflexivity|].
    cbn [set_g vars w start]. etrans.
    - apply lookup_insert_ne. intros Ek. subst k. rewrite hasp_args_key in Hk. discriminate.
    - apply insert_args_other. exact Hk. }
  assert (Hall : forall k, vars w3 !! k = v !! k \/ vars w3 !! k = None).
  { intros k. rewrite Hv'. destruct (hasp (se_P s) k) eqn:HP; [right; now apply keep_prefix|].
    rewrite keep_other by exact HP. destruct (Hr k) as [_ B]. unfold se_P in HP.
    destruct (B HP) as [E1|E1]; [left; etrans; [exact E1|now apply Hstart]|now right]. }
  split; [|split; [|split; [|split]]].
  - intros k Hk. pose proof (reserved_hasp _ _ _ Hin Hk) as HP. rewrite Hv', keep_other by exact HP.
    destruct (Hr k) as [A _]. destruct (A Hk) as [E1|[E1 E2]]; [left; etrans; [exact E1|now apply Hstart]|right; now split].
  - intros _ k Hk.
    eapply (no_working_variable_left fresh _ (se_P s) (se_min s) args v h); [exact Heq|exact Hge|exact Hk].
  - intros _ a0 ar ->.
    eapply (argument_array_released fresh _ (se_P s) (se_min s) a0 ar v h); [exact Heq|exact Hge].
  - assert (Hsub : vars w3 ⊆ v).
    { apply map_subseteq_spec. intros k x Hx. destruct (Hall k) as [E1|E1].
      - etrans; [symmetry; exact E1|exact Hx].
      - assert (E0 : @None str = Some x) by (etrans; [symmetry; exact E1|exact Hx]). discriminate E0. }
    pose proof (subseteq_size _ _ (subseteq_dom (D := gset str) _ _ Hsub)) as Hsz.
    rewrite !size_dom in Hsz. exact Hsz.
  - intros _. exists o. split; [exact E|].
    assert (Hsub : vars w3 ⊆ v).
    { apply map_subseteq_spec. intros k x Hx. destruct (Hall k) as [E1|E1].
      - etrans; [symmetry; exact E1|exact Hx].
      - assert (E0 : @None str = Some x) by (etrans; [symmetry; exact E1|exact Hx]). discriminate E0. }
    pose proof (subseteq_size _ _ (subseteq_dom (D := gset str) _ _ Hsub)) as Hsz.
    rewrite !size_dom, Hv' in Hsz.
    unfold alias_w in Ea. cbn [a a_args] in Ea.
    destruct (Nat.ltb_spec (length args) (se_min s)) as [?|_]; [lia|].
    unfold alias_start, alias_u1 in E. cbn [a a_args] in E.
    destruct (set_ctx _ _) as [prev u0]. cbn [snd] in E.
    destruct args as [|a0 ar]; cbn zeta in *; rewrite E in Ea; cbn [w start vars] in Ea;
      (match type of Ea with context [if ?b then _ else _] =>
         assert (Hb : b = false) by (apply Nat.ltb_ge; exact Hsz); rewrite Hb in Ea end);
      injection Ea as <- _; reflexivity.
Qed.
End Sound.
