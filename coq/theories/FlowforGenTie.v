(* FlowforGenTie.v — translation tie "flowfor": every function of DSG.GenFlowforFn (the Gallina translation of
   duckscript_sdk/src/sdk/std/flowcontrol/forin/mod.rs, regenerated from the source on every run by lib/gen/flowfor_gen.py)
   EQUALS, for all inputs, `GVal` of the hand-written g-model of FlowforLib.v.  In particular no translated function can
   reach GPanic (`arguments[i]`, `list[iteration]`) or GFuel (the `loop` of pop_call_info_for_line).
   FlowforEmbed.v connects the g-model to Flow.v; the corollaries at the end state the tie directly against Flow.v.

   Every theorem is stated under the flags of the functions it speaks about (a function the translator does not
   understand gets a stub and its flag is false), and every proof compiles against the real generated file AND against
   the all-stub file: no generated name is used, decision trees are walked by [ff_tree]. *)
Require Import DS.Base DS.Cond DS.FlowTables DS.FlowScan DS.Flow DS.FlowforLib DS.FlowforEmbed.
Require Import DSG.GenFlowNames DSG.GenFlowforFn.
Local Open Scope nat_scope.
Local Open Scope bool_scope.

(* ---- walking two decision trees ---------------------------------------------------------------------------------- *)
Ltac ff_inner x :=
  lazymatch x with
  | context [match ?y with _ => _ end] => ff_inner y
  | negb ?y => ff_inner y
  | andb ?y _ => ff_inner y
  | orb ?y _ => ff_inner y
  | _ => x
  end.
Ltac ff_destruct y :=
  lazymatch y with
  | Nat.eqb ?a ?b => destruct (Nat.eqb_spec a b)
  | Nat.leb ?a ?b => destruct (Nat.leb_spec0 a b)
  | Nat.ltb ?a ?b => destruct (Nat.ltb_spec0 a b)
  | str_eqb ?a ?b => destruct (str_eqb_spec a b)
  | _ => tryif is_constructor y then fail "constructor" else destruct y eqn:?
  end.
Ltac ff_step :=
  match goal with
  | |- context [match ?x with _ => _ end] => let y := ff_inner x in ff_destruct y
  end.
Ltac ff_red :=
  cbn [gs_meta gs_stk gs_end gs_arrs gs_lcn gc_iter gc_meta gc_lcn lm_start lm_end gbind negb andb orb fst snd
       length nth_error Nat.eqb Nat.leb Nat.ltb g_set_meta g_set_stk g_set_end g_store] in *.
Ltac ff_kill :=
  try discriminate; try congruence; try lia;
  try (exfalso;
       match goal with
       | H : nth_error ?l ?i = None |- _ => apply nth_error_None in H; lia
       end).
Ltac ff_leaf :=
  try reflexivity;
  try (rewrite (proj2 (nth_error_None _ _)) by lia; reflexivity);
  repeat match goal with b : bool |- _ => destruct b end;
  try reflexivity; try congruence.
Ltac ff_tree := ff_red; repeat (ff_step; subst; ff_red; ff_kill); ff_leaf.

(* ---- store_call_info ---------------------------------------------------------------------------------------------- *)
Theorem gen_store_call_info_eq : gen_store_call_info_understood = true ->
  forall ci gs, gen_store_call_info ci gs = GVal (tt, g_store ci gs).
Proof.
  unfold gen_store_call_info_understood; intros U; try discriminate U.
  all: intros ci gs; destruct gs as [meta stk en arrs lcn].
  all: unfold gen_store_call_info.
  all: ff_tree.
Qed.

(* ---- get_next_iteration -------------------------------------------------------------------------------------------- *)
Theorem gen_get_next_iteration_eq : gen_get_next_iteration_understood = true ->
  forall iteration handle gs, gen_get_next_iteration iteration handle gs = GVal (g_next iteration handle gs, gs).
Proof.
  unfold gen_get_next_iteration_understood; intros U; try discriminate U.
  all: intros iteration handle gs; destruct gs as [meta stk en arrs lcn].
  all: unfold gen_get_next_iteration, g_next.
  all: ff_tree.
Qed.

(* ---- get_or_create_forin_meta_info_for_line ------------------------------------------------------------------------- *)
Theorem gen_get_or_create_forin_meta_info_for_line_eq : gen_get_or_create_forin_meta_info_for_line_understood = true ->
  forall P line gs, gen_get_or_create_forin_meta_info_for_line P line gs = GVal (g_meta_info P line gs).
Proof.
  unfold gen_get_or_create_forin_meta_info_for_line_understood; intros U; try discriminate U.
  all: intros P line gs; destruct gs as [meta stk en arrs lcn].
  all: unfold gen_get_or_create_forin_meta_info_for_line, g_meta_info.
  all: ff_tree.
Qed.

(* ---- pop_call_info_for_line ------------------------------------------------------------------------------------------ *)
Theorem gen_pop_call_info_for_line_eq :
  gen_store_call_info_understood = true -> gen_pop_call_info_for_line_understood = true ->
  forall line recursive gs, gen_pop_call_info_for_line line recursive gs = GVal (g_pop line recursive gs).
Proof.
  unfold gen_store_call_info_understood, gen_pop_call_info_for_line_understood; intros Us U; try discriminate Us; try discriminate U.
  all: intros line recursive gs.
  all: rewrite <- g_pop_loop.
  all: unfold gen_pop_call_info_for_line.
  all: apply gloop_ext.
  all: intros g; destruct g as [meta stk en arrs lcn].
  all: unfold g_pop_body, g_match.
  all: rewrite ?(gen_store_call_info_eq Us).
  all: ff_tree.
  all: rewrite ?(gen_store_call_info_eq Us).
  all: ff_tree.
Qed.

(* ---- the two commands ---------------------------------------------------------------------------------------------------- *)
(* rewrite the callee ties wherever a callee application is not under a binder, walk the trees in between *)
Ltac ff_run Us Un Um Up :=
  repeat first
    [ progress rewrite ?(gen_store_call_info_eq Us), ?(gen_get_next_iteration_eq Un),
        ?(gen_get_or_create_forin_meta_info_for_line_eq Um), ?(gen_pop_call_info_for_line_eq Us Up)
    | progress ff_red
    | ff_step; subst; ff_red; ff_kill ];
  ff_leaf.

Theorem gen_forin_run_eq :
  gen_store_call_info_understood = true -> gen_get_next_iteration_understood = true ->
  gen_get_or_create_forin_meta_info_for_line_understood = true -> gen_pop_call_info_for_line_understood = true ->
  gen_forin_run_understood = true ->
  forall P line args vars gs, gen_forin_run P line args vars gs = GVal (g_step_for P line args vars gs).
Proof.
  unfold gen_store_call_info_understood, gen_get_next_iteration_understood, gen_get_or_create_forin_meta_info_for_line_understood,
    gen_pop_call_info_for_line_understood, gen_forin_run_understood.
  intros Us Un Um Up U; try discriminate Us; try discriminate Un; try discriminate Um; try discriminate Up; try discriminate U.
  all: intros P line args vars gs.
  all: unfold gen_forin_run, g_step_for, s_in.
  all: destruct args as [|a0 [|a1 [|a2 [|a3 rest]]]].
  all: ff_run Us Un Um Up.
Qed.

Theorem gen_endforin_run_eq :
  gen_store_call_info_understood = true -> gen_pop_call_info_for_line_understood = true -> gen_endforin_run_understood = true ->
  forall P line args vars gs, gen_endforin_run P line args vars gs = GVal (g_step_endfor line vars gs).
Proof.
  unfold gen_store_call_info_understood, gen_pop_call_info_for_line_understood, gen_endforin_run_understood.
  intros Us Up U; try discriminate Us; try discriminate Up; try discriminate U.
  all: intros P line args vars gs.
  all: unfold gen_endforin_run, g_step_endfor.
  all: repeat first
    [ progress rewrite ?(gen_store_call_info_eq Us), ?(gen_pop_call_info_for_line_eq Us Up)
    | progress ff_red
    | ff_step; subst; ff_red; ff_kill ].
  all: ff_leaf.
Qed.

(* ---- corollaries: the translation against Flow.v, on the states Flow.v describes ------------------------------------------- *)
Section AgainstFlow.
  Hypothesis Us : gen_store_call_info_understood = true.
  Hypothesis Un : gen_get_next_iteration_understood = true.
  Hypothesis Um : gen_get_or_create_forin_meta_info_for_line_understood = true.
  Hypothesis Up : gen_pop_call_info_for_line_understood = true.

  Theorem gen_store_flow c e w f : gen_store_call_info (addl c e) (embed c (w, f)) = GVal (tt, embed c (w, for_push e f)).
  Proof. rewrite (gen_store_call_info_eq Us), embed_store. reflexivity. Qed.

  Theorem gen_next_flow c i h w f :
    gen_get_next_iteration i h (embed c (w, f)) = GVal (get_next_iteration i h w, embed c (w, f)).
  Proof. rewrite (gen_get_next_iteration_eq Un), embed_next. reflexivity. Qed.

  Theorem gen_meta_info_flow P line c w f :
    gen_get_or_create_forin_meta_info_for_line P line (embed c (w, f)) =
    GVal (let (o, f') := for_meta_info P line f in (o, embed c (w, f'))).
  Proof. rewrite (gen_get_or_create_forin_meta_info_for_line_eq Um), embed_meta_info. reflexivity. Qed.

  Theorem gen_pop_flow line recursive c w f :
    gen_pop_call_info_for_line line recursive (embed c (w, f)) =
    GVal (let (o, stk) := (if recursive then for_pop else for_pop_top) line (f_forstk f) in
          (option_map (addl c) o, embed c (w, set_forstk stk f))).
  Proof. rewrite (gen_pop_call_info_for_line_eq Us Up), embed_pop. reflexivity. Qed.

  Theorem gen_forin_run_flow : gen_forin_run_understood = true ->
    forall P line x hv c w f,
    gen_forin_run P line [x; s_in; vval hv w] (w_vars w) (embed c (w, f)) =
    GVal (let '(r, (w', f')) := step_for P line x hv (w, f) in (r, w_vars w', embed c (w', f'))).
  Proof. intros U P line x hv c w f. rewrite (gen_forin_run_eq Us Un Um Up U), embed_step_for. reflexivity. Qed.

  Theorem gen_forin_run_invalid : gen_forin_run_understood = true ->
    forall P line args vars gs, (forall x h, args <> [x; s_in; h]) ->
    gen_forin_run P line args vars gs = GVal (RError 10, vars, gs).
  Proof. intros U P line args vars gs H. rewrite (gen_forin_run_eq Us Un Um Up U), g_step_for_invalid by exact H. reflexivity. Qed.

  Theorem gen_endforin_run_flow : gen_endforin_run_understood = true ->
    forall P line args c w f,
    gen_endforin_run P line args (w_vars w) (embed c (w, f)) =
    GVal (let '(r, (w', f')) := step_endfor line (w, f) in (r, w_vars w', embed c (w', f'))).
  Proof. intros U P line args c w f. rewrite (gen_endforin_run_eq Us Up U), embed_step_endfor. reflexivity. Qed.
End AgainstFlow.
