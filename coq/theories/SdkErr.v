(* SdkErr.v — the SDK's error protocol on top of the runner model (definitions only).
   duckscript_sdk/src/sdk/std/on_error/{on_error,exit_on_error,get_last_error,get_last_error_line,
   get_last_error_source,set_error,trigger_error}/mod.rs and sdk/std/test/assert_error/mod.rs, one
   Coq function per `run`.  The string-keyed sub-state "duckscriptsdk::command::on_error"
   {error, line, source, exit_on_error} is the typed record [estate]; everything else commands
   keep is [e_user].  All other commands are the Section variable [ucmd].

   Also: utils/eval.rs `eval_instructions` (the mini-runner used for script-implemented commands)
   and the wrapper of duckscript_sdk/src/types/command.rs (AliasCommand::run) with the parts C19
   is about (argument variables, handle, scope clearing, line-context name, leak test) abstracted
   as Section variables. *)
From stdpp Require Import gmap.
Require Import DS.Base DS.Cond DS.Runner.
Local Open Scope nat_scope.

(* command names (the aliases under which the SDK registers them) *)
Definition n_exit_on_error : str := [101;120;105;116;95;111;110;95;101;114;114;111;114]%N.
Definition n_set_exit_on_error : str := [115;101;116;95;101;120;105;116;95;111;110;95;101;114;114;111;114]%N.
Definition n_get_last_error : str := [103;101;116;95;108;97;115;116;95;101;114;114;111;114]%N.
Definition n_get_last_error_line : str := n_get_last_error ++ [95;108;105;110;101]%N.
Definition n_get_last_error_source : str := n_get_last_error ++ [95;115;111;117;114;99;101]%N.
Definition n_set_error : str := [115;101;116;95;101;114;114;111;114]%N.
Definition n_trigger_error : str := [116;114;105;103;103;101;114;95;101;114;114;111;114]%N.
Definition n_assert_error : str := [97;115;115;101;114;116;95;101;114;114;111;114]%N.

Definition true_str : str := [116;114;117;101]%N.
Definition bool_str (b : bool) : str := if b then true_str else false_str.      (* bool::to_string *)
Definition msg_invalid_input : str :=                                            (* "Invalid input provided." *)
  [73;110;118;97;108;105;100;32;105;110;112;117;116;32;112;114;111;118;105;100;101;100;46]%N.
Definition msg_error : str := [69;114;114;111;114]%N.                            (* "Error" *)
Definition msg_assert_failed : str := [65;115;115;101;114;116;32;102;97;105;108;101;100;46]%N.  (* "Assert failed." *)

Section SdkErr.
Variable ustate : Type.
Record estate := EState {
  e_error : option str;      (* "error"  : StateValue::String *)
  e_line : option str;       (* "line"   : StateValue::String *)
  e_source : option str;     (* "source" : StateValue::String *)
  e_exit : option bool;      (* "exit_on_error" : StateValue::Boolean *)
  e_user : ustate }.

Variable uexists : ustate -> str -> bool.
Variable ucmd : str -> inv -> world estate -> result * world estate.

Definition set_cst (w : world estate) (st : estate) : world estate := World (vars w) st (halt w).

(* get_value(state, EXIT_ON_ERROR_KEY) then condition::is_true *)
Definition exit_on (st : estate) : bool := is_true (option_map bool_str (e_exit st)).

Definition sdk_names : list str :=
  [on_error_name; n_exit_on_error; n_set_exit_on_error; n_get_last_error; n_get_last_error_line;
   n_get_last_error_source; n_set_error; n_trigger_error; n_assert_error].
Definition is_sdk (name : str) : bool := str_in name sdk_names.
Definition sdk_exists (st : estate) (name : str) : bool := is_sdk name || uexists (e_user st) name.

(* on_error/mod.rs *)
Definition run_on_error_cmd (a : inv) (w : world estate) : result * world estate :=
  match a_args a with
  | [] => (Crash (Msg msg_invalid_input), w)
  | error :: rest =>
    if exit_on (cst w) then (Crash (Msg error), w)
    else
      let line := match rest with l :: _ => l | [] => [] end in
      let source := match rest with _ :: s :: _ => s | _ => [] end in
      (Continue (Some false_str),
       set_cst w (EState (Some error) (Some line) (Some source) (e_exit (cst w)) (e_user (cst w))))
  end.

(* exit_on_error/mod.rs *)
Definition run_exit_on_error (a : inv) (w : world estate) : result * world estate :=
  match a_args a with
  | [] => (Continue (Some (bool_str (exit_on (cst w)))), w)
  | v :: _ =>
    let b := is_true (Some v) in
    (Continue (Some (bool_str b)),
     set_cst w (EState (e_error (cst w)) (e_line (cst w)) (e_source (cst w)) (Some b) (e_user (cst w))))
  end.

(* set_error/mod.rs: the line is the instruction *index* (context.line), the source is dropped *)
Definition run_set_error (a : inv) (w : world estate) : result * world estate :=
  match a_args a with
  | [] => (Error msg_invalid_input, w)
  | error :: _ =>
    (Continue None,
     set_cst w (EState (Some error) (Some (nat_str (a_line a))) None (e_exit (cst w)) (e_user (cst w))))
  end.

Definition sdk_cmd (name : str) (a : inv) (w : world estate) : result * world estate :=
  if str_eqb name on_error_name then run_on_error_cmd a w
  else if str_eqb name n_exit_on_error || str_eqb name n_set_exit_on_error then run_exit_on_error a w
  else if str_eqb name n_get_last_error then (Continue (e_error (cst w)), w)
  else if str_eqb name n_get_last_error_line then (Continue (e_line (cst w)), w)
  else if str_eqb name n_get_last_error_source then (Continue (e_source (cst w)), w)
  else if str_eqb name n_set_error then run_set_error a w
  else if str_eqb name n_trigger_error then
    (Error (match a_args a with m :: _ => m | [] => msg_error end), w)
  else if str_eqb name n_assert_error then
    (Error (match a_args a with m :: _ => m | [] => msg_assert_failed end), w)
  else ucmd name a w.

(* the last-error record as the three queries see it *)
Definition record (st : estate) : option str * option str * option str :=
  (e_error st, e_line st, e_source st).

(* what one command invocation does to the record, read off the invocation alone *)
Definition record_after (r : option str * option str * option str) (k : call) :=
  if str_eqb (c_name k) on_error_name then
    match a_args (c_inv k) with
    | [] => r
    | e :: rest => (Some e, Some (match rest with l :: _ => l | [] => [] end),
                    Some (match rest with _ :: s :: _ => s | _ => [] end))
    end
  else if str_eqb (c_name k) n_set_error then
    match a_args (c_inv k) with
    | [] => r
    | e :: _ => (Some e, Some (nat_str (a_line (c_inv k))), None)
    end
  else r.

End SdkErr.

Arguments EState {ustate}. Arguments e_error {ustate}. Arguments e_line {ustate}.
Arguments e_source {ustate}. Arguments e_exit {ustate}. Arguments e_user {ustate}.
Arguments record {ustate}. Arguments exit_on {ustate}. Arguments set_cst {ustate}.

(* ---- utils/eval.rs eval_instructions and the AliasCommand wrapper ------------------------- *)
Definition msg_goto_label : str :=   (* "goto label result not supported in alias command flow." — the literal of the source,
     in full since builder B11: EvalGenTie.v proves eval_instructions EQUAL to the translation of eval.rs *)
  [103;111;116;111;32;108;97;98;101;108;32;114;101;115;117;108;116;32;110;111;116;32;115;117;112;112;111;114;116;101;100;32;
   105;110;32;97;108;105;97;115;32;99;111;109;109;97;110;100;32;102;108;111;119;46]%N.
Definition msg_invalid_args : str := [73;110;118;97;108;105;100;32;97;114;103;115]%N.
Definition msg_leak : str := [108;101;97;107]%N.

Section Alias.
Variable cstate : Type.
Variable exists_cmd : cstate -> str -> bool.
Variable cmd : str -> inv -> world cstate -> result * world cstate.

Record eval_out := EO { eo_result : option result; eo_output : option str; eo_w : world cstate; eo_calls : list call }.

(* eval_instructions: no halt poll, no on_error, no label table, errors end the flow *)
Fixpoint eval_instructions (fuel : nat) (body : program) (line : nat) (w : world cstate)
         (flow_output : option str) (calls : list call) : option eval_out :=
  match fuel with
  | O => None
  | S f =>
    match body !! line with
    | None => Some (EO None flow_output w calls)
    | Some i =>
      match i_type i with
      | IScript s =>
        let o := run_instruction cstate exists_cmd cmd w i line in
        let calls' := calls ++ ri_calls o in
        match ri_res o with
        | Exit out => Some (EO (Some (Exit out)) flow_output (ri_w o) calls')
        | Error e => Some (EO (Some (Error e)) flow_output (ri_w o) calls')
        | Crash e => Some (EO (Some (Crash e)) flow_output (ri_w o) calls')
        | GoTo out g =>
          match g with
          | GLabel _ => Some (EO (Some (Error msg_goto_label)) out (ri_w o) calls')
          | GLine n => eval_instructions f body n (ri_w o) out calls'
          end
        | Continue out =>
          eval_instructions f body (S line) (update_output (ri_w o) (s_out s) out) out calls'
        end
      | _ => eval_instructions f body (S line) w flow_output calls
      end
    end
  end.

(* AliasCommand::run; [prepare] binds the argument variables and the handle, [cleanup] releases
   the handle, clears the scope prefix and restores the line-context name, [leaked] is the
   variable-count test *)
Variable prepare : list str -> world cstate -> world cstate.
Variable cleanup : world cstate -> world cstate -> world cstate.
Variable leaked : world cstate -> world cstate -> bool.

Definition alias_run (fuel : nat) (amount : nat) (body : program) (a : inv) (w : world cstate)
  : option (result * world cstate * list call) :=
  if length (a_args a) <? amount then Some (Error msg_invalid_args, w, [])
  else
    match eval_instructions fuel body 0 (prepare (a_args a) w) None [] with
    | None => None
    | Some o =>
      let w3 := cleanup w (eo_w o) in
      if leaked w w3 then Some (Crash (Msg msg_leak), w3, eo_calls o)
      else Some (match eo_result o with Some r => r | None => Continue (eo_output o) end, w3, eo_calls o)
    end.
End Alias.
