(* RunnerBindProof.v — the runner with argument binding (RunnerBind.v) against its abstract machine
   (RunnerBindSpec.v): one iteration is exactly one move, runs refine and are complete, determinism;
   with the identity binder both are Runner.v / RunnerSpec.v; simulation by Runner.v over the
   command function [bound_cmd]; what a command receives for well-formed templates (C02).
   The step proofs follow RunnerProof.v line by line. *)
From stdpp Require Import gmap.
Require Import DS.Base DS.Parser DS.Expansion DS.ExpansionSpec DS.ExpansionFacts.
Require Import DS.Runner DS.RunnerSpec DS.RunnerProof DS.RunnerBind DS.RunnerBindSpec.
Local Open Scope nat_scope.

Section Proof.
Variable cstate : Type.
Variable exists_cmd : cstate -> str -> bool.
Variable cmd : str -> inv -> world cstate -> result * world cstate.
Variable ext : nat -> bool.
Variable bnd : vmap -> list str -> list str.

Notation world := (world cstate).
Notation config := (config cstate).
Notation final := (final cstate).
Notation step := (step_b cstate exists_cmd cmd ext bnd).
Notation exec := (exec_b cstate exists_cmd cmd bnd).
Notation loop := (loop_b cstate exists_cmd cmd ext bnd).
Notation run := (run_b cstate exists_cmd cmd ext bnd).
Notation run_instruction := (run_instruction_b cstate exists_cmd cmd bnd).
Notation run_on_error_b := (run_on_error_b cstate exists_cmd cmd).
Notation spec_step := (spec_step_b cstate exists_cmd cmd ext bnd).
Notation spec_run := (spec_run_b cstate exists_cmd cmd ext bnd).
Notation handled := (handled cstate exists_cmd cmd).
Notation invokes := (invokes_b cstate exists_cmd cmd ext bnd).
Notation at_instr := (at_instr cstate ext).

Section Prog.
Variable prog : program.
Notation stp := (step prog (label_table prog)).
Notation sstep := (spec_step prog).

(* ---- the handler ----------------------------------------------------------------------- *)
Lemma run_on_error_b_handled w msg m :
  exists h w' ks, handled w msg m h w' ks /\
    oe_calls (run_on_error_b w msg m) = ks /\
    match h with
    | Some (Exit o) => oe_err (run_on_error_b w msg m) = Some RHandlerExit
    | Some (Crash e) => oe_err (run_on_error_b w msg m) = Some (RHandlerCrash e)
    | _ => oe_err (run_on_error_b w msg m) = None /\ oe_w (run_on_error_b w msg m) = w'
    end.
Proof.
  unfold RunnerBind.run_on_error_b. destruct (exists_cmd (cst w) on_error_name) eqn:Ex.
  - destruct (cmd on_error_name (on_error_inv msg m) w) as [r w'] eqn:Ec. cbn [fst snd].
    exists (Some r), w', [Call on_error_name (on_error_inv msg m)].
    split; [eapply H_called; [exact Ex|reflexivity|exact Ec]|].
    destruct r; cbn; auto.
  - exists None, w, []. split; [constructor; auto|]. cbn. auto.
Qed.

(* ---- soundness of one step ------------------------------------------------------------- *)
Lemma step_sound c x : stp c = x -> sstep c x.
Proof.
  intros <-. unfold RunnerBind.step_b, flag_seen.
  destruct (halt (wd c)) eqn:Hh; [apply B_halted; auto|].
  destruct (ext (polls c)) eqn:He; [apply B_halted; auto|].
  cbn [orb]. unfold RunnerBind.exec_b.
  destruct (prog !! pc c) as [i|] eqn:Hf.
  2:{ apply B_end; auto. apply lookup_ge_None. exact Hf. }
  assert (Hat : at_instr prog c i) by (repeat split; auto).
  unfold RunnerBind.run_instruction_b.
  destruct (i_type i) as [| |s] eqn:Hty; cbn [ri_res ri_w ri_ov ri_calls].
  - rewrite (update_output_assign cstate). eapply B_blank; eauto.
  - rewrite (update_output_assign cstate). eapply B_blank; eauto.
  - destruct (s_cmd s) as [name|] eqn:Hc; cbn [ri_res ri_w ri_ov ri_calls].
    2:{ rewrite (update_output_assign cstate). eapply B_nocmd; eauto. }
    destruct (exists_cmd (cst (wd c)) name) eqn:Hex; cbn [ri_res ri_w ri_ov ri_calls].
    2:{ eapply B_unknown; eauto. }
    destruct (cmd name (Inv (bnd (vars (wd c)) (s_args s)) (s_out s) (pc c)) (wd c)) as [r w'] eqn:Hcmd.
    cbn [fst snd].
    assert (Hinv : invokes prog c i s (Call name (Inv (bnd (vars (wd c)) (s_args s)) (s_out s) (pc c))) r w').
    { split; [exact Hat|]. split; [exact Hty|]. exists name. repeat split; auto. }
    destruct r as [o|o g|e|e|o]; rewrite ?(update_output_assign cstate).
    + eapply B_continue; eauto.
    + destruct g as [l|n].
      * destruct (label_table prog !! l) as [n|] eqn:Hl.
        -- apply label_table_some in Hl. eapply B_goto_label; eauto.
        -- apply label_table_none in Hl. eapply B_goto_nolabel; eauto.
      * eapply B_goto_line; eauto.
    + destruct (run_on_error_b_handled (assign cstate w' (s_out s) (Some false_str)) e (i_meta i))
        as (h & w'' & ks & Hh' & Hks & Hres).
      destruct h as [[o|o g|e'|e'|o]|].
      * destruct Hres as [-> ->]. rewrite Hks. eapply B_error; eauto. exact I.
      * destruct Hres as [-> ->]. rewrite Hks. eapply B_error; eauto. exact I.
      * destruct Hres as [-> ->]. rewrite Hks. eapply B_error; eauto. exact I.
      * rewrite Hres, Hks. eapply B_error_crash; eauto.
      * rewrite Hres, Hks. eapply B_error_exit; eauto.
      * destruct Hres as [-> ->]. rewrite Hks. eapply B_error; eauto. exact I.
    + eapply B_crash; eauto.
    + unfold exit_code. destruct o as [v|].
      * destruct (parse_i32 v) as [z|] eqn:Hp.
        -- destruct (Z.eqb_spec z 0) as [->|Hz].
           ++ eapply B_exit; eauto. intros v' z' [= <-] Hp'. congruence.
           ++ eapply B_exit_code; eauto.
        -- eapply B_exit; eauto. intros v' z' [= <-] Hp'. congruence.
      * eapply B_exit; eauto. intros v' z' Hv. discriminate.
Qed.

Lemma step_complete c x : sstep c x -> stp c = x.
Proof.
  intros H. unfold RunnerBind.step_b, flag_seen.
  destruct H as [Hh|Hh He Hlen|i Hat Hty|i s Hat Hty Hc|i s name Hat Hty Hc Hex
                |i s k o w' Hinv|i s k o l w' n Hinv Hl|i s k o l w' Hinv Hl|i s k o n w' Hinv
                |i s k o w' Hinv Hz|i s k v z w' Hinv Hp Hz
                |i s k e w' h w'' ks Hinv Hh Hs|i s k e w' o w'' ks Hinv Hh|i s k e w' e' w'' ks Hinv Hh
                |i s k e w' Hinv].
  - destruct Hh as [-> | ->]; [reflexivity|]. rewrite orb_true_r. reflexivity.
  - rewrite Hh, He. cbn [orb]. unfold RunnerBind.exec_b.
    apply lookup_ge_None in Hlen. rewrite Hlen. reflexivity.
  - destruct Hat as (Hh & He & Hf). rewrite Hh, He. cbn [orb]. unfold RunnerBind.exec_b. rewrite Hf.
    unfold RunnerBind.run_instruction_b. destruct Hty as [-> | ->]; reflexivity.
  - destruct Hat as (Hh & He & Hf). rewrite Hh, He. cbn [orb]. unfold RunnerBind.exec_b. rewrite Hf.
    unfold RunnerBind.run_instruction_b. rewrite Hty, Hc. cbn [ri_res ri_w ri_ov ri_calls].
    rewrite (update_output_assign cstate). reflexivity.
  - destruct Hat as (Hh & He & Hf). rewrite Hh, He. cbn [orb]. unfold RunnerBind.exec_b. rewrite Hf.
    unfold RunnerBind.run_instruction_b. rewrite Hty, Hc, Hex. reflexivity.
  - destruct Hinv as ((Hh & He & Hf) & Hty & name & Hc & Hex & -> & Hcmd). cbn in Hcmd.
    rewrite Hh, He. cbn [orb]. unfold RunnerBind.exec_b. rewrite Hf.
    unfold RunnerBind.run_instruction_b. rewrite Hty, Hc, Hex, Hcmd. cbn [fst snd ri_res ri_w ri_ov ri_calls].
    rewrite (update_output_assign cstate). reflexivity.
  - destruct Hinv as ((Hh & He & Hf) & Hty & name & Hc & Hex & -> & Hcmd). cbn in Hcmd.
    rewrite Hh, He. cbn [orb]. unfold RunnerBind.exec_b. rewrite Hf.
    unfold RunnerBind.run_instruction_b. rewrite Hty, Hc, Hex, Hcmd. cbn [fst snd ri_res ri_w ri_ov ri_calls].
    apply label_table_some in Hl. rewrite Hl, (update_output_assign cstate). reflexivity.
  - destruct Hinv as ((Hh & He & Hf) & Hty & name & Hc & Hex & -> & Hcmd). cbn in Hcmd.
    rewrite Hh, He. cbn [orb]. unfold RunnerBind.exec_b. rewrite Hf.
    unfold RunnerBind.run_instruction_b. rewrite Hty, Hc, Hex, Hcmd. cbn [fst snd ri_res ri_w ri_ov ri_calls].
    apply label_table_none in Hl. rewrite Hl. reflexivity.
  - destruct Hinv as ((Hh & He & Hf) & Hty & name & Hc & Hex & -> & Hcmd). cbn in Hcmd.
    rewrite Hh, He. cbn [orb]. unfold RunnerBind.exec_b. rewrite Hf.
    unfold RunnerBind.run_instruction_b. rewrite Hty, Hc, Hex, Hcmd. cbn [fst snd ri_res ri_w ri_ov ri_calls].
    rewrite (update_output_assign cstate). reflexivity.
  - destruct Hinv as ((Hh & He & Hf) & Hty & name & Hc & Hex & -> & Hcmd). cbn in Hcmd.
    rewrite Hh, He. cbn [orb]. unfold RunnerBind.exec_b. rewrite Hf.
    unfold RunnerBind.run_instruction_b. rewrite Hty, Hc, Hex, Hcmd. cbn [fst snd ri_res ri_w ri_ov ri_calls].
    rewrite (update_output_assign cstate).
    assert (exit_code o = None) as ->; [|reflexivity].
    unfold exit_code. destruct o as [v|]; [|reflexivity].
    destruct (parse_i32 v) as [z|] eqn:Hp; [|reflexivity].
    rewrite (Hz v z eq_refl Hp). reflexivity.
  - destruct Hinv as ((Hh & He & Hf) & Hty & name & Hc & Hex & -> & Hcmd). cbn in Hcmd.
    rewrite Hh, He. cbn [orb]. unfold RunnerBind.exec_b. rewrite Hf.
    unfold RunnerBind.run_instruction_b. rewrite Hty, Hc, Hex, Hcmd. cbn [fst snd ri_res ri_w ri_ov ri_calls].
    unfold exit_code. rewrite Hp. destruct (Z.eqb_spec z 0); [contradiction|]. reflexivity.
  - destruct Hinv as ((Hh' & He & Hf) & Hty & name & Hc & Hex & -> & Hcmd). cbn in Hcmd.
    rewrite Hh', He. cbn [orb]. unfold RunnerBind.exec_b. rewrite Hf.
    unfold RunnerBind.run_instruction_b. rewrite Hty, Hc, Hex, Hcmd. cbn [fst snd ri_res ri_w ri_ov ri_calls].
    rewrite (update_output_assign cstate).
    destruct (run_on_error_b_handled (assign cstate w' (s_out s) (Some false_str)) e (i_meta i))
      as (h2 & w2 & ks2 & Hh2 & Hks & Hres).
    destruct (handled_det cstate exists_cmd cmd _ _ _ _ _ _ _ _ _ Hh Hh2) as (<- & <- & <-).
    destruct h as [[o|o g|e'|e'|o]|]; cbn in Hs; try contradiction;
      destruct Hres as [-> ->]; rewrite Hks; reflexivity.
  - destruct Hinv as ((Hh' & He & Hf) & Hty & name & Hc & Hex & -> & Hcmd). cbn in Hcmd.
    rewrite Hh', He. cbn [orb]. unfold RunnerBind.exec_b. rewrite Hf.
    unfold RunnerBind.run_instruction_b. rewrite Hty, Hc, Hex, Hcmd. cbn [fst snd ri_res ri_w ri_ov ri_calls].
    rewrite (update_output_assign cstate).
    destruct (run_on_error_b_handled (assign cstate w' (s_out s) (Some false_str)) e (i_meta i))
      as (h2 & w2 & ks2 & Hh2 & Hks & Hres).
    destruct (handled_det cstate exists_cmd cmd _ _ _ _ _ _ _ _ _ Hh Hh2) as (<- & <- & <-).
    rewrite Hres, Hks. reflexivity.
  - destruct Hinv as ((Hh' & He & Hf) & Hty & name & Hc & Hex & -> & Hcmd). cbn in Hcmd.
    rewrite Hh', He. cbn [orb]. unfold RunnerBind.exec_b. rewrite Hf.
    unfold RunnerBind.run_instruction_b. rewrite Hty, Hc, Hex, Hcmd. cbn [fst snd ri_res ri_w ri_ov ri_calls].
    rewrite (update_output_assign cstate).
    destruct (run_on_error_b_handled (assign cstate w' (s_out s) (Some false_str)) e (i_meta i))
      as (h2 & w2 & ks2 & Hh2 & Hks & Hres).
    destruct (handled_det cstate exists_cmd cmd _ _ _ _ _ _ _ _ _ Hh Hh2) as (<- & <- & <-).
    rewrite Hres, Hks. reflexivity.
  - destruct Hinv as ((Hh & He & Hf) & Hty & name & Hc & Hex & -> & Hcmd). cbn in Hcmd.
    rewrite Hh, He. cbn [orb]. unfold RunnerBind.exec_b. rewrite Hf.
    unfold RunnerBind.run_instruction_b. rewrite Hty, Hc, Hex, Hcmd. reflexivity.
Qed.

Lemma step_iff c x : stp c = x <-> sstep c x.
Proof. split; [apply step_sound|apply step_complete]. Qed.

Lemma spec_step_det c x y : sstep c x -> sstep c y -> x = y.
Proof. intros Hx Hy. apply step_complete in Hx, Hy. congruence. Qed.

(* ---- runs ------------------------------------------------------------------------------- *)
Lemma loop_sound fuel : forall c f t,
  loop prog (label_table prog) fuel c = Done f t -> spec_run prog c f t.
Proof.
  induction fuel as [|fuel IH]; intros c f t; [discriminate|]. cbn [RunnerBind.loop_b].
  destruct (stp c) as [c'|[f' t']] eqn:E.
  - intros H. eapply BR_more; [apply step_sound; exact E|]. apply IH. exact H.
  - intros [= <- <-]. apply BR_final. apply step_sound. exact E.
Qed.

Lemma loop_complete c f t :
  spec_run prog c f t -> exists fuel, loop prog (label_table prog) fuel c = Done f t.
Proof.
  induction 1 as [c f t H|c c' f t H _ [fuel IH]].
  - exists 1. cbn [RunnerBind.loop_b]. rewrite (step_complete _ _ H). reflexivity.
  - exists (S fuel). cbn [RunnerBind.loop_b]. rewrite (step_complete _ _ H). exact IH.
Qed.

Lemma spec_run_det c f1 t1 f2 t2 :
  spec_run prog c f1 t1 -> spec_run prog c f2 t2 -> f1 = f2 /\ t1 = t2.
Proof.
  intros H1. revert f2 t2.
  induction H1 as [c f t H|c c' f t H _ IH]; intros f2 t2 H2.
  - destruct H2 as [f2 t2 H2|c2 f2 t2 H2 _].
    + pose proof (spec_step_det _ _ _ H H2) as E. injection E as -> ->. auto.
    + pose proof (spec_step_det _ _ _ H H2) as E. discriminate.
  - destruct H2 as [f2 t2 H2|c2 f2 t2 H2 H2'].
    + pose proof (spec_step_det _ _ _ H H2) as E. discriminate.
    + pose proof (spec_step_det _ _ _ H H2) as E. injection E as <-. apply IH. exact H2'.
Qed.

(* more fuel does not change a finished run *)
Lemma loop_mono fuel : forall c f t k,
  loop prog (label_table prog) fuel c = Done f t -> loop prog (label_table prog) (fuel + k) c = Done f t.
Proof.
  induction fuel as [|fuel IH]; intros c f t k; [discriminate|]. cbn [RunnerBind.loop_b Nat.add].
  destruct (stp c) as [c'|[f' t']]; auto.
Qed.

End Prog.

(* ---- whole programs --------------------------------------------------------------------- *)
Theorem run_b_refines prog w fuel f t :
  run fuel prog w = Done f t -> spec_program_b cstate exists_cmd cmd ext bnd prog w f t.
Proof. apply loop_sound. Qed.

Theorem run_b_complete prog w f t :
  spec_program_b cstate exists_cmd cmd ext bnd prog w f t -> exists fuel, run fuel prog w = Done f t.
Proof. apply loop_complete. Qed.

Theorem spec_program_b_det prog w f1 t1 f2 t2 :
  spec_program_b cstate exists_cmd cmd ext bnd prog w f1 t1 ->
  spec_program_b cstate exists_cmd cmd ext bnd prog w f2 t2 -> f1 = f2 /\ t1 = t2.
Proof. apply spec_run_det. Qed.

(* ---- simulation by Runner.v over [bound_cmd] -------------------------------------------- *)
Notation bcmd := (bound_cmd cstate cmd bnd).
Notation cshape := (call_shape).
Notation eshape := (event_shape).

Lemma handler_shape_on_error msg m : handler_shape on_error_name (on_error_inv msg m) = true.
Proof. unfold handler_shape, on_error_inv. cbn [a_args a_out a_line length]. rewrite str_eqb_refl. reflexivity. Qed.

(* the handler invocation is the same on both sides, log included *)
Lemma run_on_error_sim w msg m :
  Runner.run_on_error cstate exists_cmd bcmd w msg m = run_on_error_b w msg m.
Proof.
  unfold Runner.run_on_error, RunnerBind.run_on_error_b.
  destruct (exists_cmd (cst w) on_error_name) eqn:Ex; [|reflexivity].
  unfold Runner.run_instruction, on_error_instr. cbn [i_type s_cmd s_args s_out]. rewrite Ex.
  cbn [ri_res ri_w ri_ov ri_calls].
  change (Inv [msg; nat_str (default 0 (m_line m)); default [] (m_src m)] None 0) with (on_error_inv msg m).
  assert (E : bcmd on_error_name (on_error_inv msg m) w = cmd on_error_name (on_error_inv msg m) w).
  { unfold bound_cmd. rewrite handler_shape_on_error. reflexivity. }
  rewrite E. destruct (cmd on_error_name (on_error_inv msg m) w) as [r w']. cbn [fst snd].
  destruct r; reflexivity.
Qed.

(* a script invocation: same result, same world, same logged name / output variable / line *)
Lemma run_instruction_sim w i line :
  (forall s c0, i_type i = IScript s -> s_cmd s = Some c0 ->
                handler_shape c0 (Inv (s_args s) (s_out s) line) = false) ->
  let o1 := run_instruction w i line in
  let o2 := Runner.run_instruction cstate exists_cmd bcmd w i line in
  ri_res o2 = ri_res o1 /\ ri_ov o2 = ri_ov o1 /\ ri_w o2 = ri_w o1 /\
  map cshape (ri_calls o2) = map cshape (ri_calls o1).
Proof.
  intros H. unfold Runner.run_instruction, RunnerBind.run_instruction_b.
  destruct (i_type i) as [| |s] eqn:Hty; try (cbn; auto).
  destruct (s_cmd s) as [c0|] eqn:Hc; [|cbn; auto].
  destruct (exists_cmd (cst w) c0); [|cbn; auto].
  unfold bound_cmd. rewrite (H s c0 eq_refl Hc). cbn [a_args a_out a_line ri_res ri_ov ri_w ri_calls]. auto.
Qed.

(* Runner.exec and exec_b are one body over (run_instruction, run_on_error) *)
Section Core.
Variable prog : program.
Variable lt : gmap str nat.
Variable ri : world -> instr -> nat -> ri_out cstate.
Variable roe : world -> str -> meta -> oe_out cstate.
Definition exec_core (c : config) : config + final * list event :=
  match prog !! pc c with
  | None => inr (FOk ReachedEnd (wd c), trace c)
  | Some i =>
    let m := i_meta i in
    let o := ri (wd c) i (pc c) in
    let tr calls := trace c ++ [Event (pc c) calls] in
    match ri_res o with
    | Exit out =>
      let w1 := update_output (ri_w o) (ri_ov o) out in
      match exit_code out with
      | Some z => inr (FErr (RExitCode z) m, tr (ri_calls o))
      | None => inr (FOk ExitCalled w1, tr (ri_calls o))
      end
    | Error e =>
      let w1 := update_output (ri_w o) (ri_ov o) (Some false_str) in
      let h := roe w1 e m in
      match oe_err h with
      | Some err => inr (FErr err m, tr (ri_calls o ++ oe_calls h))
      | None => inl (Config (S (pc c)) (oe_w h) (S (polls c)) (tr (ri_calls o ++ oe_calls h)))
      end
    | Crash e => inr (FErr (RCrash e) m, tr (ri_calls o))
    | Continue out =>
      inl (Config (S (pc c)) (update_output (ri_w o) (ri_ov o) out) (S (polls c)) (tr (ri_calls o)))
    | GoTo out g =>
      let w1 := update_output (ri_w o) (ri_ov o) out in
      match g with
      | GLabel l =>
        match lt !! l with
        | Some n => inl (Config n w1 (S (polls c)) (tr (ri_calls o)))
        | None => inr (FErr (RLabel l) m, tr (ri_calls o))
        end
      | GLine n => inl (Config n w1 (S (polls c)) (tr (ri_calls o)))
      end
    end
  end.
End Core.

Lemma exec_b_core prog lt c :
  exec prog lt c = exec_core prog lt run_instruction run_on_error_b c.
Proof. reflexivity. Qed.
Lemma exec_core_runner prog lt c :
  Runner.exec cstate exists_cmd bcmd prog lt c
  = exec_core prog lt (Runner.run_instruction cstate exists_cmd bcmd) (Runner.run_on_error cstate exists_cmd bcmd) c.
Proof. reflexivity. Qed.

Definition cfg_shape (c : config) := (pc c, wd c, polls c, map eshape (trace c)).
Definition res_shape (x : config + final * list event) :=
  match x with
  | inl c => inl (cfg_shape c)
  | inr (f, t) => inr (f, map eshape t)
  end.

Lemma tr_shape (t1 t2 : list event) n (k1 k2 : list call) :
  map eshape t1 = map eshape t2 -> map cshape k1 = map cshape k2 ->
  map eshape (t1 ++ [Event n k1]) = map eshape (t2 ++ [Event n k2]).
Proof. intros Ht Hk. rewrite !map_app, Ht. cbn [map]. unfold event_shape at 2 4. cbn [e_pc e_calls]. rewrite Hk. reflexivity. Qed.

Lemma step_sim prog c1 c2 :
  first_is_handler_call prog = false -> cfg_shape c1 = cfg_shape c2 ->
  res_shape (step prog (label_table prog) c1)
  = res_shape (Runner.step cstate exists_cmd bcmd ext prog (label_table prog) c2).
Proof.
  intros Hfirst Hc. destruct c1 as [pc1 w1 po1 t1], c2 as [pc2 w2 po2 t2].
  unfold cfg_shape in Hc. cbn [pc wd polls trace] in Hc. injection Hc as -> -> -> Ht.
  unfold RunnerBind.step_b, Runner.step, flag_seen. cbn [wd polls].
  destruct (halt w2 || ext po2); [cbn; rewrite Ht; reflexivity|].
  rewrite exec_b_core, exec_core_runner. unfold exec_core. cbn [pc wd polls trace].
  destruct (prog !! pc2) as [i|] eqn:Hi; [|cbn; rewrite Ht; reflexivity].
  assert (Hsh : forall s c0, i_type i = IScript s -> s_cmd s = Some c0 ->
                handler_shape c0 (Inv (s_args s) (s_out s) pc2) = false).
  { intros s c0 Hty Hc0. destruct (handler_shape c0 (Inv (s_args s) (s_out s) pc2)) eqn:Hh; [|reflexivity].
    exfalso. assert (pc2 = 0) as ->.
    { unfold handler_shape in Hh. cbn [a_line] in Hh. apply andb_prop in Hh. destruct Hh as [_ Hl].
      apply Nat.eqb_eq in Hl. exact Hl. }
    destruct prog as [|i0 rest]; [discriminate|]. cbn in Hi. injection Hi as ->.
    unfold first_is_handler_call in Hfirst. rewrite Hty, Hc0 in Hfirst. congruence. }
  destruct (run_instruction_sim w2 i pc2 Hsh) as (Hr & Hov & Hw & Hk).
  rewrite Hr, Hov, Hw.
  set (o1 := run_instruction w2 i pc2) in *.
  set (o2 := Runner.run_instruction cstate exists_cmd bcmd w2 i pc2) in *.
  destruct (ri_res o1) as [o|o g|e|e|o].
  - cbn. unfold cfg_shape. cbn [pc wd polls trace]. rewrite (tr_shape t1 t2 pc2 _ _ Ht (eq_sym Hk)). reflexivity.
  - destruct g as [l|n].
    + destruct (label_table prog !! l); cbn; unfold cfg_shape; cbn [pc wd polls trace];
        rewrite (tr_shape t1 t2 pc2 _ _ Ht (eq_sym Hk)); reflexivity.
    + cbn. unfold cfg_shape. cbn [pc wd polls trace]. rewrite (tr_shape t1 t2 pc2 _ _ Ht (eq_sym Hk)). reflexivity.
  - rewrite run_on_error_sim. set (h := run_on_error_b _ e (i_meta i)).
    assert (Hk' : map cshape (ri_calls o1 ++ oe_calls h) = map cshape (ri_calls o2 ++ oe_calls h)).
    { rewrite !map_app, Hk. reflexivity. }
    destruct (oe_err h); cbn; unfold cfg_shape; cbn [pc wd polls trace];
      rewrite (tr_shape t1 t2 pc2 _ _ Ht Hk'); reflexivity.
  - cbn. rewrite (tr_shape t1 t2 pc2 _ _ Ht (eq_sym Hk)). reflexivity.
  - destruct (exit_code o); cbn; rewrite (tr_shape t1 t2 pc2 _ _ Ht (eq_sym Hk)); reflexivity.
Qed.

Lemma loop_sim prog fuel : forall c1 c2,
  first_is_handler_call prog = false -> cfg_shape c1 = cfg_shape c2 ->
  outcome_shape cstate (loop prog (label_table prog) fuel c1)
  = outcome_shape cstate (Runner.loop cstate exists_cmd bcmd ext prog (label_table prog) fuel c2).
Proof.
  induction fuel as [|f IH]; intros c1 c2 Hf Hc; [reflexivity|]. cbn [RunnerBind.loop_b Runner.loop].
  pose proof (step_sim prog c1 c2 Hf Hc) as Hs.
  destruct (step prog (label_table prog) c1) as [c1'|[f1 t1]],
           (Runner.step cstate exists_cmd bcmd ext prog (label_table prog) c2) as [c2'|[f2 t2]];
    cbn in Hs; try discriminate.
  - apply IH; [assumption|congruence].
  - injection Hs as -> Ht. cbn. rewrite Ht. reflexivity.
Qed.

(* for a program whose instruction 0 is not itself a bare `on_error a b c`, Runner.v run over
   [bound_cmd] and this runner agree on everything but the logged arguments: same success / failure
   with meta-information, same final context, same sequence of executed lines and of invoked
   commands (name, output variable, line) *)
Theorem run_b_sim prog w fuel :
  first_is_handler_call prog = false ->
  outcome_shape cstate (run fuel prog w) = outcome_shape cstate (Runner.run cstate exists_cmd bcmd ext fuel prog w).
Proof. intros Hf. apply loop_sim; [exact Hf|reflexivity]. Qed.

End Proof.

(* ---- with the identity binder this is Runner.v and RunnerSpec.v ------------------------------- *)
Section Id.
Variable cstate : Type.
Variable exists_cmd : cstate -> str -> bool.
Variable cmd : str -> inv -> world cstate -> result * world cstate.
Variable ext : nat -> bool.
Definition idb : vmap -> list str -> list str := fun _ a => a.

Lemma run_on_error_b_id w msg m :
  run_on_error_b cstate exists_cmd cmd w msg m = Runner.run_on_error cstate exists_cmd cmd w msg m.
Proof.
  unfold Runner.run_on_error, RunnerBind.run_on_error_b.
  destruct (exists_cmd (cst w) on_error_name) eqn:Ex; [|reflexivity].
  unfold Runner.run_instruction, on_error_instr. cbn [i_type s_cmd s_args s_out]. rewrite Ex.
  cbn [ri_res ri_w ri_ov ri_calls]. unfold on_error_inv.
  destruct (cmd on_error_name _ w) as [r w']. cbn [fst snd]. destruct r; reflexivity.
Qed.

Lemma step_b_id prog lt c :
  step_b cstate exists_cmd cmd ext idb prog lt c = Runner.step cstate exists_cmd cmd ext prog lt c.
Proof.
  unfold RunnerBind.step_b, Runner.step. destruct (flag_seen cstate ext c); [reflexivity|].
  unfold RunnerBind.exec_b, Runner.exec. destruct (prog !! pc c) as [i|]; [|reflexivity].
  change (run_instruction_b cstate exists_cmd cmd idb (wd c) i (pc c))
    with (Runner.run_instruction cstate exists_cmd cmd (wd c) i (pc c)).
  destruct (ri_res (Runner.run_instruction cstate exists_cmd cmd (wd c) i (pc c))); try reflexivity.
  rewrite run_on_error_b_id. reflexivity.
Qed.

Theorem run_b_id fuel p w :
  run_b cstate exists_cmd cmd ext idb fuel p w = Runner.run cstate exists_cmd cmd ext fuel p w.
Proof.
  unfold run_b, Runner.run. generalize (init w). induction fuel as [|f IH]; intros c; [reflexivity|].
  cbn [RunnerBind.loop_b Runner.loop]. rewrite step_b_id.
  destruct (Runner.step cstate exists_cmd cmd ext p (label_table p) c) as [c'|[fin t]]; [apply IH|reflexivity].
Qed.

Theorem spec_step_b_id prog c x :
  spec_step_b cstate exists_cmd cmd ext idb prog c x <-> spec_step cstate exists_cmd cmd ext prog c x.
Proof.
  rewrite <- (step_iff cstate exists_cmd cmd ext idb prog c x).
  rewrite <- (RunnerProof.step_iff cstate exists_cmd cmd ext prog c x).
  rewrite step_b_id. reflexivity.
Qed.
End Id.

(* ---- composition with C02: what the command receives ------------------------------------------ *)
(* for arguments written as well-formed templates (ExpansionSpec: literal text, ${name}, \${name},
   or a whole-argument %{name}) outside the known-finding classes of C02, the invoked command
   receives exactly the denotations against the variables at that moment *)
Theorem bound_receives (cstate : Type) (exists_cmd : cstate -> str -> bool)
    (cmd : str -> inv -> world cstate -> result * world cstate) w i s c line (args : list warg) :
  i_type i = IScript s -> s_cmd s = Some c -> exists_cmd (cst w) c = true ->
  s_args s = map render_arg args -> forallb wf_arg args = true ->
  existsb (known_arg (env_of (vars w))) args = false ->
  ri_calls (run_instruction_b cstate exists_cmd cmd bind_vars w i line)
  = [Call c (Inv (denote_args (env_of (vars w)) args) (s_out s) line)].
Proof.
  intros Hty Hc Hex Ha Hwf Hk. unfold run_instruction_b. rewrite Hty, Hc, Hex. cbn [ri_calls].
  unfold bind_vars. rewrite Ha. rewrite (bind_spec args (env_of (vars w)) Hwf Hk). reflexivity.
Qed.
