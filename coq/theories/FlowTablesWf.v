(* FlowTablesWf.v — the regenerated tables are well-formed (computation on the tables read from
   /repo's current sources).  With defect F5 un-fixed (full names of ElseIf/Else pushed into the
   start list) [table_ok CkIf] computes to [false] and this file no longer compiles. *)
Require Import DS.Base DS.FlowTables.

Lemma if_tables_wf : table_ok CkIf = true.
Proof. vm_compute; reflexivity. Qed.
Lemma while_tables_wf : table_ok CkWhile = true.
Proof. vm_compute; reflexivity. Qed.
Lemma for_tables_wf : table_ok CkFor = true.
Proof. vm_compute; reflexivity. Qed.
Lemma classify_wf : classify_ok = true.
Proof. vm_compute; reflexivity. Qed.
Lemma tables_doc_wf : tables_doc_ok = true.
Proof. vm_compute; reflexivity. Qed.
Lemma gen_tables_wf : tables_wf = true.
Proof.
  unfold tables_wf. rewrite if_tables_wf, while_tables_wf, for_tables_wf, classify_wf, tables_doc_wf.
  reflexivity.
Qed.
