(* FlowFn.v — the flat machine of C05: the C04 machine (Flow.v: if / while / for-in / end, runner
   line counter) extended with duckscript_sdk/src/sdk/std/flowcontrol/function/mod.rs
   (FunctionCommand, the per-function call command it registers, EndFunctionCommand,
   ReturnCommand, run_call, the function call stack) and duckscript_sdk/src/utils/scope.rs
   (push / pop of the whole variable map for <scope> functions).  Definitions only.

   The if / while / for-in / end step functions are the ones of Flow.v, run on the projected
   program ([down]); function-related state lives in a third component [fnst]. *)
Require Import DS.Base DS.Cond DS.FlowTables DS.FlowScan DS.Flow.
Require Import DSG.GenFlowNames DSG.GenFnNames.

(* ---- instructions -------------------------------------------------------------------------- *)
Inductive carg := ALit (s : str) | AVar (v : str).        (* literal word | ${v} *)
(* conditions that may call a user function: `if f a b`, `while not f x` (C05_cond) *)
Inductive fcond := FCBase (c : cond) | FCCall (f : str) (args : list carg) | FCNot (c : fcond).
Inductive farg :=
| FBase (a : iarg)                                 (* an instruction of the C04 machine *)
| FCondC (c : fcond)                               (* if / elseif / while with such a condition; only
                                                      run by the machine of FlowFnC.v *)
| FFn (scoped : bool) (name : str)                 (* fn name  |  fn <scope> name *)
| FCall (out : option str) (args : list carg)      (* [out =] name args..   (the command is the name) *)
| FReturn (a : option carg).                       (* return [value] *)
Record finstr := mkFI { fi_cmd : option str; fi_arg : farg }.
Definition down (i : finstr) : instr :=
  mkI (fi_cmd i) (match fi_arg i with FBase a => a | _ => ANone end).
Definition fcmds (P : list finstr) : list (option str) := map fi_cmd P.

Definition n_return := gen_return_aliases ++ [gen_return_name].
Inductive fkind := FKBase (k : kind) | FKFunction | FKEndFunction | FKReturn.
Definition classify_fn (c : str) : fkind :=
  if str_in c n_function then FKFunction
  else if str_in c n_endfunction then FKEndFunction
  else if str_in c n_return then FKReturn
  else FKBase (classify c).

(* ---- function state -------------------------------------------------------------------------- *)
Record fmeta := mkFM { fm_start : nat; fm_end : nat; fm_scoped : bool }.      (* FunctionMetaInfo *)
Record fncall := mkFNC {                                                    (* function CallInfo *)
  fn_call : nat; fn_start : nat; fn_end : nat; fn_out : option str; fn_scoped : bool }.
Record fnst := mkFS {
  fs_meta : list (str * fmeta);           (* function::meta_info, = the registered call commands *)
  fs_stk : list fncall;                   (* function::call_stack, head = top *)
  fs_scopes : list (list (str * str)) }.  (* scope_stack: saved variable maps, head = top *)
Definition fnst0 : fnst := mkFS [] [] [].
Definition fstate := (world * flow * fnst)%type.

Definition set_vars (vs : list (str * str)) (w : world) : world :=
  mkW vs (w_trace w) (w_arrs w) (w_next w).
Fixpoint adel (k : str) (l : list (str * str)) : list (str * str) :=
  match l with
  | [] => []
  | (k', v) :: r => if str_eqb k k' then r else (k', v) :: adel k r
  end.
Definition vunset (x : str) (w : world) : world := set_vars (adel x (w_vars w)) w.
Definition arg_val (a : carg) (w : world) : str :=
  match a with ALit s => s | AVar v => vval v w end.
(* index.to_string() for the argument variables "1", "2", ...; one digit (programs of the domain
   pass at most nine arguments) *)
Definition idx_name (k : nat) : str := [N.of_nat (48 + k)].
Fixpoint bind_args (k : nat) (vals : list str) (w : world) : world :=
  match vals with
  | [] => w
  | v :: r => bind_args (S k) r (vset (idx_name k) v w)
  end.
(* runner::update_output(variables, output_variable, None) *)
Definition clear_out (out : option str) (w : world) : world :=
  match out with Some o => vunset o w | None => w end.

(* ---- instruction_query::find_commands with allow_recursive = false ---------------------------- *)
Fixpoint scan_nr (T : tables) (l : list (option str)) (pos delta : nat) (mid : list nat)
  {struct l} : sres :=
  match l with
  | [] => SMissing
  | i :: l' =>
    match i with
    | None => scan_nr T l' (S pos) delta mid
    | Some c =>
      if str_in c (sblocks T) then scan_nr T l' (S pos) (S delta) mid
      else if str_in c (middles T) then scan_nr T l' (S pos) delta (mid ++ [pos])
      else if str_in c (eblocks T) && (0 <? delta)%nat then scan_nr T l' (S pos) (delta - 1) mid
      else if str_in c (ends T) then SOk mid pos
      else if str_in c (starts T) then SNested       (* "Unsupported nested structure" *)
      else scan_nr T l' (S pos) delta mid
    end
  end.
Definition find_commands_nr (T : tables) (l : list (option str)) (start : nat) : sres :=
  match starts T, ends T with
  | [], _ => SNoNames
  | _, [] => SNoNames
  | _, _ => scan_nr T (skipn start l) start 0 []
  end.

(* ---- function / call / end_function / return -------------------------------------------------- *)
Definition step_function (P : list finstr) (line : nat) (scoped : bool) (name : str) (s : fstate)
  : cres * fstate :=
  let '(w, f, g) := s in
  match aget str_eqb name (fs_meta g) with
  | Some m => if Nat.eqb (fm_start m) line then (RGoto (S (fm_end m)), s) else (RError 20, s)
  | None =>
    match (if gen_function_allow_recursive
           then find_commands gen_function_tables (fcmds P) (S line)
           else find_commands_nr gen_function_tables (fcmds P) (S line)) with
    | SOk _ e =>
      (* end::set_command; store_fn_info_in_state; commands.set(CallFunctionCommand) *)
      (RGoto (S e), (w, end_set e gen_endfunction_name f,
                     mkFS (aset str_eqb name (mkFM line e scoped) (fs_meta g)) (fs_stk g) (fs_scopes g)))
    | _ => (RCrash 2, s)
    end
  end.

(* CallFunctionCommand::run = run_call, followed by the runner's update_output for GoTo(None, _) *)
Definition step_call (line : nat) (out : option str) (name : str) (args : list carg) (s : fstate)
  : cres * fstate :=
  let '(w, f, g) := s in
  match aget str_eqb name (fs_meta g) with
  | None => (RCrash 3, s)                          (* Command: name not found *)
  | Some m =>
    let vals := map (fun a => arg_val a w) args in          (* bound before the command runs *)
    let w1 := if fm_scoped m then set_vars [] w else w in   (* scope::push(variables, state, &[]) *)
    let scopes1 := if fm_scoped m then w_vars w :: fs_scopes g else fs_scopes g in
    let w2 := bind_args 1 vals w1 in
    let ci := mkFNC line (fm_start m) (fm_end m) out (fm_scoped m) in
    (RGoto (S (fm_start m)), (clear_out out w2, f, mkFS (fs_meta g) (ci :: fs_stk g) scopes1))
  end.

Definition step_endfn (line : nat) (s : fstate) : cres * fstate :=
  let '(w, f, g) := s in
  match fs_stk g with
  | [] => (RContinue, s)
  | ci :: r =>
    if Nat.eqb (fn_end ci) line then
      if fn_scoped ci then
        match fs_scopes g with
        | saved :: rest => (RGoto (S (fn_call ci)), (set_vars saved w, f, mkFS (fs_meta g) r rest))
        | [] => (RError 21, (w, f, mkFS (fs_meta g) r []))       (* Reached end of scope stack. *)
        end
      else (RGoto (S (fn_call ci)), (w, f, mkFS (fs_meta g) r (fs_scopes g)))
    else (RContinue, s)                               (* pushed back *)
  end.

(* scope::pop(variables, state, copy): the saved map, overlaid with the copied variables *)
Definition overlay (saved : list (str * str)) (copy : option str) (w : world) : list (str * str) :=
  match copy with
  | Some o => match vget o w with Some v => aset str_eqb o v saved | None => saved end
  | None => saved
  end.

Definition step_return (line : nat) (a : option carg) (s : fstate) : cres * fstate :=
  let '(w, f, g) := s in
  match fs_stk g with
  | [] => (RContinue, s)
  | ci :: r =>
    if (fn_start ci <? line)%nat && (line <? fn_end ci)%nat then
      let v := option_map (fun x => arg_val x w) a in
      let w1 := match fn_out ci with
                | Some o => match v with Some x => vset o x w | None => vunset o w end
                | None => w
                end in
      if fn_scoped ci then
        match fs_scopes g with
        | saved :: rest =>
          (RGoto (S (fn_call ci)), (set_vars (overlay saved (fn_out ci) w1) w1, f, mkFS (fs_meta g) r rest))
        | [] => (RError 21, (w1, f, mkFS (fs_meta g) r []))
        end
      else (RGoto (S (fn_call ci)), (w1, f, mkFS (fs_meta g) r (fs_scopes g)))
    else (RContinue, s)
  end.

(* the generic end, with the function end command among the stored names *)
Definition step_end_fn (line : nat) (s : fstate) : cres * fstate :=
  let '(w, f, g) := s in
  match aget Nat.eqb line (f_end f) with
  | None => (RContinue, s)
  | Some name =>
    match classify_fn name with
    | FKEndFunction => step_endfn line s
    | FKBase KEndIf => (RContinue, s)
    | FKBase KEndWhile => let (r, s') := step_endwhile line (w, f) in (r, (s', g))
    | FKBase KEndFor => let (r, s') := step_endfor line (w, f) in (r, (s', g))
    | _ => (RError 6, s)
    end
  end.

Definition lift (g : fnst) (r : cres * state) : cres * fstate := (fst r, (snd r, g)).

Definition fstep (P : list finstr) (line : nat) (i : finstr) (s : fstate) : cres * fstate :=
  let '(w, f, g) := s in
  match fi_cmd i with
  | None => (RContinue, s)
  | Some c =>
    match classify_fn c, fi_arg i with
    | FKFunction, FFn scoped name => step_function P line scoped name s
    | FKEndFunction, FBase ANone => step_endfn line s
    | FKReturn, FReturn a => step_return line a s
    | FKBase KEnd, FBase ANone => step_end_fn line s
    | FKBase KOther, FCall out args => step_call line out c args s
    | FKBase KEnd, _ => (RError 10, s)
    | FKBase _, FBase _ => lift g (step (map down P) line (down i) (w, f))
    | _, _ => (RError 10, s)
    end
  end.

(* ---- runner ------------------------------------------------------------------------------------ *)
Definition fstep1 (P : list finstr) (cfg : nat * fstate) : option (nat * fstate) :=
  let (line, s) := cfg in
  match nth_error P line with
  | None => None
  | Some i => match fstep P line i s with
              | (RContinue, s') => Some (S line, s')
              | (RGoto l, s') => Some (l, s')
              | _ => None
              end
  end.
Fixpoint fsteps (n : nat) (P : list finstr) (cfg : nat * fstate) : option (nat * fstate) :=
  match n with
  | O => Some cfg
  | S n' => match fstep1 P cfg with Some cfg' => fsteps n' P cfg' | None => None end
  end.

Inductive foutcome :=
| FDone (s : fstate)
| FStopped (line : nat) (r : cres) (s : fstate)
| FOutOfFuel.
Definition frun_body (rec : nat -> fstate -> foutcome) (P : list finstr) (line : nat) (s : fstate)
  : foutcome :=
  match nth_error P line with
  | None => FDone s
  | Some i => match fstep P line i s with
              | (RContinue, s') => rec (S line) s'
              | (RGoto l, s') => rec l s'
              | (r, s') => FStopped line r s'
              end
  end.
Fixpoint frun (fuel : nat) (P : list finstr) (line : nat) (s : fstate) : foutcome :=
  match fuel with
  | O => FOutOfFuel
  | S f => frun_body (frun f P) P line s
  end.
Definition frun_program (fuel : nat) (P : list finstr) (w : world) : foutcome :=
  frun fuel P 0 (w, flow0, fnst0).
