(* JsonProof.v — C17: json_parse --collection followed by json_encode --collection is the documented
   normalisation, for every document and every well-formed handle store (proofs about Json.v). *)
Require Import DS.Base DS.Strings DS.StringsProof DS.Json.
Import ListNotations.
Local Open Scope nat_scope.

(* ------------------------------------------------------------------------------------------- *)
(* association lists                                                                             *)

Section AlistFacts.
  Context {V : Type}.
  Implicit Types m : list (str * V).

  Lemma alist_get_insert_eq k v m : alist_get k (alist_insert k v m) = Some v.
  Proof.
    induction m as [|[k' v'] r IH]; cbn.
    - rewrite str_eqb_refl. reflexivity.
    - destruct (str_eqb k k') eqn:E; cbn.
      + rewrite str_eqb_refl. reflexivity.
      + rewrite E. exact IH.
  Qed.

  Lemma alist_get_insert_ne k k' v m : k' <> k -> alist_get k' (alist_insert k v m) = alist_get k' m.
  Proof.
    intros Hne. assert (Hf : str_eqb k' k = false) by (apply str_eqb_neq; exact Hne).
    induction m as [|[k2 v2] r IH]; cbn.
    - rewrite Hf. reflexivity.
    - destruct (str_eqb k k2) eqn:E; cbn.
      + apply str_eqb_eq in E. subst k2. rewrite Hf. reflexivity.
      + rewrite IH. reflexivity.
  Qed.

  Lemma alist_get_none k m : ~ In k (map fst m) -> alist_get k m = None.
  Proof.
    induction m as [|[k' v'] r IH]; cbn; intros H; [reflexivity|].
    destruct (str_eqb k k') eqn:E.
    - apply str_eqb_eq in E. subst. exfalso. apply H. left. reflexivity.
    - apply IH. intros Hin. apply H. right. exact Hin.
  Qed.

  Lemma alist_insert_fresh k v m : ~ In k (map fst m) -> alist_insert k v m = m ++ [(k, v)].
  Proof.
    induction m as [|[k' v'] r IH]; cbn; intros H; [reflexivity|].
    destruct (str_eqb k k') eqn:E.
    - apply str_eqb_eq in E. subst. exfalso. apply H. left. reflexivity.
    - rewrite IH; [reflexivity|]. intros Hin. apply H. right. exact Hin.
  Qed.
End AlistFacts.

(* ------------------------------------------------------------------------------------------- *)
(* handle names                                                                                  *)

Lemma strip_prefix_app p s : strip_prefix p (p ++ s) = Some s.
Proof. induction p as [|a p IH]; cbn; [destruct s; reflexivity|]. rewrite N.eqb_refl. exact IH. Qed.

Lemma hname_inj a b : hname a = hname b -> a = b.
Proof.
  unfold hname. intros H. apply app_inv_head in H.
  pose proof (digits_val_show_N a) as Ha. rewrite H, digits_val_show_N in Ha. congruence.
Qed.

Lemma is_hnameb_hname n : is_hnameb (hname n) = true.
Proof. unfold is_hnameb, hname. rewrite strip_prefix_app, digits_val_show_N. apply str_eqb_refl. Qed.

Lemma not_hname s : is_hnameb s = false -> forall n, s <> hname n.
Proof. intros H n ->. rewrite is_hnameb_hname in H. discriminate. Qed.

(* ------------------------------------------------------------------------------------------- *)
(* stores                                                                                        *)

Lemma store_wf_empty : store_wf empty_store.
Proof. intros k v H. discriminate H. Qed.

Lemma extends_refl st : extends st st.
Proof. split; [apply N.le_refl|auto]. Qed.

Lemma extends_trans a b c : extends a b -> extends b c -> extends a c.
Proof. intros [H1 H2] [H3 H4]. split; [eapply N.le_trans; eassumption|auto]. Qed.

Lemma wf_get_none st s : store_wf st -> is_hnameb s = false -> alist_get s (cells st) = None.
Proof.
  intros Hst Hs. destruct (alist_get s (cells st)) eqn:E; [|reflexivity].
  destruct (Hst _ _ E) as (n & _ & ->). rewrite is_hnameb_hname in Hs. discriminate.
Qed.

Lemma put_handle_ok st v h st' :
  store_wf st -> put_handle st v = (h, st') ->
  store_wf st' /\ extends st st' /\ alist_get h (cells st') = Some v.
Proof.
  unfold put_handle. intros Hst H. inversion H; subst; clear H. cbn [next cells]. repeat split.
  - intros k x Hk. cbn [next cells] in *.
    destruct (str_eqb_spec k (hname (next st))) as [->|Hne].
    + exists (next st). split; [lia|reflexivity].
    + rewrite alist_get_insert_ne in Hk by exact Hne.
      destruct (Hst _ _ Hk) as (n & Hn & ->). exists n. split; [lia|reflexivity].
  - cbn. lia.
  - intros k x Hk. cbn [cells]. rewrite alist_get_insert_ne; [exact Hk|].
    destruct (Hst _ _ Hk) as (n & Hn & ->). intros E. apply hname_inj in E. lia.
  - apply alist_get_insert_eq.
Qed.

(* ------------------------------------------------------------------------------------------- *)
(* nested induction principle for json                                                           *)

Section JsonInd.
  Variable P : json -> Prop.
  Hypothesis HNull : P JNull.
  Hypothesis HBool : forall b, P (JBool b).
  Hypothesis HNum : forall t, P (JNum t).
  Hypothesis HStr : forall s, P (JStr s).
  Hypothesis HArr : forall l, Forall P l -> P (JArr l).
  Hypothesis HObj : forall m, Forall (fun kv => P (snd kv)) m -> P (JObj m).

  Fixpoint json_ind' (j : json) : P j :=
    match j with
    | JNull => HNull
    | JBool b => HBool b
    | JNum t => HNum t
    | JStr s => HStr s
    | JArr l =>
        HArr l ((fix go (l : list json) : Forall P l :=
                   match l with
                   | [] => Forall_nil P
                   | x :: r => Forall_cons x (json_ind' x) (go r)
                   end) l)
    | JObj m =>
        HObj m ((fix go (m : list (str * json)) : Forall (fun kv => P (snd kv)) m :=
                   match m with
                   | [] => Forall_nil _
                   | (k, x) :: r => Forall_cons (k, x) (json_ind' x : P (snd (k, x))) (go r)
                   end) m)
    end.
End JsonInd.

(* ------------------------------------------------------------------------------------------- *)
(* one-step unfoldings                                                                           *)

Lemma cs_items_cons cs x r st acc :
  cs_items cs (x :: r) st acc =
  let '(o, st1) := cs x st in cs_items cs r st1 (match o with Some v => acc ++ [SStr v] | None => acc end).
Proof. reflexivity. Qed.

Lemma cs_fields_cons cs k x r st acc :
  cs_fields cs ((k, x) :: r) st acc =
  let '(o, st1) := cs x st in cs_fields cs r st1 (match o with Some v => alist_insert k (SStr v) acc | None => acc end).
Proof. reflexivity. Qed.

Lemma cs_arr l st :
  create_structure (JArr l) st =
  let '(state_list, st1) := cs_items create_structure l st [] in
  let '(key, st2) := put_handle st1 (SList state_list) in (Some key, st2).
Proof. reflexivity. Qed.

Lemma cs_obj m st :
  create_structure (JObj m) st =
  let '(state_map, st1) := cs_fields create_structure m st [] in
  let '(key, st2) := put_handle st1 (SMap state_map) in (Some key, st2).
Proof. reflexivity. Qed.

Lemma enc_S f c v : encode_from_state_value (S f) c v = enc_step (encode_from_state_value f c) c v.
Proof. reflexivity. Qed.

Lemma filter_map_cons {A B} (f : A -> option B) x r :
  filter_map f (x :: r) = match f x with Some y => y :: filter_map f r | None => filter_map f r end.
Proof. reflexivity. Qed.

Definition nkv (kv : str * json) : option (str * json) :=
  match kv with (k, x) => match normalise x with Some y => Some (k, y) | None => None end end.

Lemma normalise_arr l : normalise (JArr l) = Some (JArr (filter_map normalise l)).
Proof. reflexivity. Qed.
Lemma normalise_obj m : normalise (JObj m) = Some (JObj (filter_map nkv m)).
Proof. reflexivity. Qed.
Lemma depth_arr l : depth (JArr l) = S (list_max (map depth l)).
Proof. reflexivity. Qed.
Lemma depth_obj m : depth (JObj m) = S (list_max (map (fun kv => depth (snd kv)) m)).
Proof.
  cbn [depth]. f_equal. f_equal. apply map_ext. intros [k x]. reflexivity.
Qed.

(* ------------------------------------------------------------------------------------------- *)
(* more fuel never hurts                                                                         *)

Lemma enc_list_mono (ev ev' : sv -> option json) :
  (forall x r, ev x = Some r -> ev' x = Some r) ->
  forall l rs, enc_list ev l = Some rs -> enc_list ev' l = Some rs.
Proof.
  intros Hm. induction l as [|a l IH]; cbn; intros rs H; [exact H|].
  destruct (ev a) eqn:E; [|discriminate]. rewrite (Hm _ _ E).
  destruct (enc_list ev l) eqn:E2; [|discriminate]. rewrite (IH _ eq_refl). exact H.
Qed.

Lemma enc_fields_mono (ev ev' : sv -> option json) :
  (forall x r, ev x = Some r -> ev' x = Some r) ->
  forall l acc rs, enc_fields ev l acc = Some rs -> enc_fields ev' l acc = Some rs.
Proof.
  intros Hm. induction l as [|[k a] l IH]; cbn; intros acc rs H; [exact H|].
  destruct (ev a) eqn:E; [|discriminate]. rewrite (Hm _ _ E). apply IH. exact H.
Qed.

Lemma encode_mono_S c : forall f v r,
  encode_from_state_value f c v = Some r -> encode_from_state_value (S f) c v = Some r.
Proof.
  induction f as [|f IH]; intros v r H; [discriminate|].
  rewrite enc_S in H. rewrite (enc_S (S f)). destruct v as [s|l|m]; cbn [enc_step] in *.
  - destruct (alist_get s c); [apply IH; exact H|exact H].
  - destruct (enc_list (encode_from_state_value f c) l) eqn:E; [|discriminate].
    rewrite (enc_list_mono _ _ IH _ _ E). exact H.
  - destruct (enc_fields (encode_from_state_value f c) m []) eqn:E; [|discriminate].
    rewrite (enc_fields_mono _ _ IH _ _ _ E). exact H.
Qed.

Lemma encode_mono c v r f f' :
  f <= f' -> encode_from_state_value f c v = Some r -> encode_from_state_value f' c v = Some r.
Proof. induction 1 as [|f' Hle IH]; intros H0; [exact H0|]. apply encode_mono_S. auto. Qed.

Lemma encode_from_state_mono c h r f f' :
  f <= f' -> encode_from_state f c h = Some r -> encode_from_state f' c h = Some r.
Proof.
  unfold encode_from_state. intros Hle. destruct (alist_get h c); [apply encode_mono; exact Hle|auto].
Qed.

(* ------------------------------------------------------------------------------------------- *)
(* "v encodes to j in every later store"                                                         *)

Definition enc_okv (F : nat) (st : store) (v : sv) (j : json) : Prop :=
  forall st'', store_wf st'' -> extends st st'' -> encode_from_state_value F (cells st'') v = Some j.

Lemma enc_okv_mono F F' st st1 v j :
  F <= F' -> extends st st1 -> enc_okv F st v j -> enc_okv F' st1 v j.
Proof.
  intros HF He H st'' Hw He2. eapply encode_mono; [exact HF|]. apply H; [exact Hw|].
  eapply extends_trans; eassumption.
Qed.

Lemma Forall2_weaken {A B} (R1 R2 : A -> B -> Prop) :
  (forall a b, R1 a b -> R2 a b) -> forall l1 l2, Forall2 R1 l1 l2 -> Forall2 R2 l1 l2.
Proof. intros H l1 l2. induction 1; constructor; auto. Qed.

Lemma enc_list_forall2 ev vs js :
  Forall2 (fun v j => ev v = Some j) vs js -> enc_list ev vs = Some js.
Proof. induction 1 as [|v j vs js Hv _ IH]; cbn; [reflexivity|]. rewrite Hv, IH. reflexivity. Qed.

Lemma enc_fields_forall2 ev new js :
  Forall2 (fun a b => fst a = fst b /\ ev (snd a) = Some (snd b)) new js ->
  NoDup (map fst js) ->
  forall acc, (forall k, In k (map fst js) -> ~ In k (map fst acc)) ->
  enc_fields ev new acc = Some (acc ++ js).
Proof.
  induction 1 as [|[k v] [k' j'] new js [Hk Hv] _ IH]; intros Hnd acc Hdis; cbn.
  - rewrite app_nil_r. reflexivity.
  - cbn in Hk, Hv. subst k'. rewrite Hv.
    rewrite alist_insert_fresh by (apply Hdis; left; reflexivity).
    cbn in Hnd. inversion Hnd as [|? ? Hnotin Hnd']; subst.
    rewrite IH; [rewrite <- app_assoc; reflexivity|exact Hnd'|].
    intros k0 Hin. rewrite map_app, in_app_iff. cbn. intros [Ha|[He|[]]].
    + eapply Hdis; [right; exact Hin|exact Ha].
    + subst k0. contradiction.
Qed.

(* ------------------------------------------------------------------------------------------- *)
(* domain predicates                                                                             *)

Lemma nodupb_NoDup l : nodupb l = true -> NoDup l.
Proof.
  induction l as [|x r IH]; cbn; intros H; [constructor|].
  apply andb_prop in H. destruct H as [H1 H2]. constructor; [|auto].
  intros Hin. apply str_in_spec in Hin. rewrite Hin in H1. discriminate.
Qed.

Lemma forallb_flat_map {A B} (p : B -> bool) (f : A -> list B) l :
  forallb p (flat_map f l) = forallb (fun x => forallb p (f x)) l.
Proof. induction l as [|x r IH]; cbn; [reflexivity|]. rewrite forallb_app, IH. reflexivity. Qed.

Lemma forallb_ext' {A} (p q : A -> bool) l : (forall x, p x = q x) -> forallb p l = forallb q l.
Proof. intros H. induction l as [|x r IH]; cbn; [reflexivity|]. rewrite H, IH. reflexivity. Qed.

Lemma nkv_keys_sub m k : In k (map fst (filter_map nkv m)) -> In k (map fst m).
Proof.
  induction m as [|[k' x] r IH]; [auto|]. rewrite filter_map_cons. cbn [nkv map fst].
  destruct (normalise x); cbn; intros H; [destruct H as [H|H]; [left; exact H|right; auto]|right; auto].
Qed.

Lemma nkv_keys_nodup m : NoDup (map fst m) -> NoDup (map fst (filter_map nkv m)).
Proof.
  induction m as [|[k' x] r IH]; [auto|]. rewrite filter_map_cons. cbn [nkv map fst]. intros H.
  inversion H as [|? ? Hn Hr]; subst. destruct (normalise x); cbn; [|auto].
  constructor; [|auto]. intros Hin. apply Hn. apply nkv_keys_sub. exact Hin.
Qed.

(* ------------------------------------------------------------------------------------------- *)
(* the invariant of create_structure                                                             *)

Definition cs_ok (j : json) : Prop :=
  json_wfb j = true -> no_handle_leafb j = true ->
  forall st o st', store_wf st -> create_structure j st = (o, st') ->
  store_wf st' /\ extends st st' /\
  match o with
  | None => normalise j = None
  | Some v => exists j', normalise j = Some j' /\ enc_okv (S (2 * depth j)) st' (SStr v) j'
  end.

Lemma cs_items_ok F : forall l,
  Forall cs_ok l -> forallb json_wfb l = true -> forallb no_handle_leafb l = true ->
  Forall (fun x => S (2 * depth x) <= F) l ->
  forall st acc items st1, store_wf st -> cs_items create_structure l st acc = (items, st1) ->
  store_wf st1 /\ extends st st1 /\
  exists new, items = acc ++ new /\
              Forall2 (fun v j' => enc_okv F st1 v j') new (filter_map normalise l).
Proof.
  induction l as [|x r IH]; intros HP Hwf Hnl HF st acc items st1 Hst Hgo.
  - cbn in Hgo. inversion Hgo; subst. split; [exact Hst|]. split; [apply extends_refl|].
    exists []. rewrite app_nil_r. split; [reflexivity|constructor].
  - rewrite cs_items_cons in Hgo. destruct (create_structure x st) as [o sta] eqn:Ex.
    inversion HP as [|? ? Hx HPr]; subst. inversion HF as [|? ? HFx HFr]; subst.
    cbn [forallb] in Hwf, Hnl. apply andb_prop in Hwf. apply andb_prop in Hnl.
    destruct Hwf as [Hwx Hwr]. destruct Hnl as [Hnx Hnr].
    destruct (Hx Hwx Hnx _ _ _ Hst Ex) as (Hwa & Hea & Ho).
    destruct (IH HPr Hwr Hnr HFr _ _ _ _ Hwa Hgo) as (Hw1 & He1 & new & Hitems & HF2).
    split; [exact Hw1|]. split; [eapply extends_trans; eassumption|].
    rewrite filter_map_cons. destruct o as [v|].
    + destruct Ho as (j' & Hn & Hok). rewrite Hn. exists (SStr v :: new). split.
      * rewrite Hitems, <- app_assoc. reflexivity.
      * constructor; [|exact HF2]. eapply enc_okv_mono; [exact HFx|exact He1|exact Hok].
    + rewrite Ho. exists new. split; [exact Hitems|exact HF2].
Qed.

Lemma cs_fields_ok F : forall m,
  Forall (fun kv => cs_ok (snd kv)) m ->
  forallb (fun kv => match kv with (_, x) => json_wfb x end) m = true ->
  forallb (fun kv => match kv with (_, x) => no_handle_leafb x end) m = true ->
  Forall (fun kv => S (2 * depth (snd kv)) <= F) m ->
  NoDup (map fst m) ->
  forall st acc fields st1, store_wf st ->
  (forall k, In k (map fst m) -> ~ In k (map fst acc)) ->
  cs_fields create_structure m st acc = (fields, st1) ->
  store_wf st1 /\ extends st st1 /\
  exists new, fields = acc ++ new /\
              Forall2 (fun a b => fst a = fst b /\ enc_okv F st1 (snd a) (snd b)) new (filter_map nkv m).
Proof.
  induction m as [|[k x] r IH]; intros HP Hwf Hnl HF Hnd st acc fields st1 Hst Hdis Hgo.
  - cbn in Hgo. inversion Hgo; subst. split; [exact Hst|]. split; [apply extends_refl|].
    exists []. rewrite app_nil_r. split; [reflexivity|constructor].
  - rewrite cs_fields_cons in Hgo. destruct (create_structure x st) as [o sta] eqn:Ex.
    inversion HP as [|? ? Hx HPr]; subst. inversion HF as [|? ? HFx HFr]; subst.
    cbn [map fst] in Hnd. inversion Hnd as [|? ? Hk Hndr]; subst.
    cbn [forallb] in Hwf, Hnl. apply andb_prop in Hwf. apply andb_prop in Hnl.
    destruct Hwf as [Hwx Hwr]. destruct Hnl as [Hnx Hnr]. cbn [snd] in Hx, HFx.
    destruct (Hx Hwx Hnx _ _ _ Hst Ex) as (Hwa & Hea & Ho).
    assert (Hka : ~ In k (map fst acc)) by (apply Hdis; left; reflexivity).
    assert (Hdis' : forall k0, In k0 (map fst r) ->
                    ~ In k0 (map fst (match o with Some v => alist_insert k (SStr v) acc | None => acc end))).
    { intros k0 Hin. destruct o as [v|].
      - rewrite alist_insert_fresh by exact Hka. rewrite map_app, in_app_iff. cbn.
        intros [Ha|[He|[]]]; [eapply Hdis; [right; exact Hin|exact Ha]|subst; contradiction].
      - apply Hdis. right. exact Hin. }
    destruct (IH HPr Hwr Hnr HFr Hndr _ _ _ _ Hwa Hdis' Hgo) as (Hw1 & He1 & new & Hfields & HF2).
    split; [exact Hw1|]. split; [eapply extends_trans; eassumption|].
    rewrite filter_map_cons. cbn [nkv]. destruct o as [v|].
    + destruct Ho as (j' & Hn & Hok). rewrite Hn. exists ((k, SStr v) :: new). split.
      * rewrite Hfields, alist_insert_fresh by exact Hka. rewrite <- app_assoc. reflexivity.
      * constructor; [|exact HF2]. split; [reflexivity|]. cbn [snd].
        eapply enc_okv_mono; [exact HFx|exact He1|exact Hok].
    + rewrite Ho. exists new. split; [exact Hfields|exact HF2].
Qed.

Lemma cs_ok_leaf s st'' : store_wf st'' -> is_hnameb s = false ->
  encode_from_state_value 1 (cells st'') (SStr s) = Some (JStr s).
Proof. intros Hw Hs. rewrite enc_S. cbn [enc_step]. rewrite (wf_get_none _ _ Hw Hs). reflexivity. Qed.

Lemma leafb_single s : forallb (fun s => negb (is_hnameb s)) [s] = true -> is_hnameb s = false.
Proof. cbn. rewrite andb_true_r. apply negb_true_iff. Qed.

Lemma cs_ok_all : forall j, cs_ok j.
Proof.
  apply json_ind'.
  - intros _ _ st o st' Hst H. cbn in H. inversion H; subst. split; [exact Hst|]. split; [apply extends_refl|reflexivity].
  - intros b _ Hnl st o st' Hst H. cbn in H. inversion H; subst. split; [exact Hst|]. split; [apply extends_refl|].
    exists (JStr (bool_text b)). split; [reflexivity|]. intros st'' Hw _. apply cs_ok_leaf; [exact Hw|]. apply leafb_single. exact Hnl.
  - intros t _ Hnl st o st' Hst H. cbn in H. inversion H; subst. split; [exact Hst|]. split; [apply extends_refl|].
    exists (JStr t). split; [reflexivity|]. intros st'' Hw _. apply cs_ok_leaf; [exact Hw|]. apply leafb_single. exact Hnl.
  - intros s _ Hnl st o st' Hst H. cbn in H. inversion H; subst. split; [exact Hst|]. split; [apply extends_refl|].
    exists (JStr s). split; [reflexivity|]. intros st'' Hw _. apply cs_ok_leaf; [exact Hw|]. apply leafb_single. exact Hnl.
  - (* arrays *)
    intros l HP Hwf Hnl st o st' Hst H. rewrite cs_arr in H.
    destruct (cs_items create_structure l st []) as [items st1] eqn:Ei.
    destruct (put_handle st1 (SList items)) as [h st2] eqn:Ep. inversion H; subst o st'; clear H.
    cbn [json_wfb] in Hwf. unfold no_handle_leafb in Hnl. cbn [leaves] in Hnl. rewrite forallb_flat_map in Hnl.
    set (M := list_max (map depth l)).
    assert (HF : Forall (fun x => S (2 * depth x) <= S (2 * M)) l).
    { apply Forall_forall. intros x Hin.
      assert (depth x <= M); [|lia].
      pose proof (proj1 (list_max_le (map depth l) M) (le_n _)) as Hall.
      rewrite Forall_forall in Hall. apply Hall. apply in_map. exact Hin. }
    destruct (cs_items_ok (S (2 * M)) l HP Hwf Hnl HF _ _ _ _ Hst Ei) as (Hw1 & He1 & new & Hitems & HF2).
    cbn [app] in Hitems. subst items.
    destruct (put_handle_ok _ _ _ _ Hw1 Ep) as (Hw2 & He2 & Hget).
    split; [exact Hw2|]. split; [eapply extends_trans; eassumption|].
    exists (JArr (filter_map normalise l)). split; [apply normalise_arr|].
    intros st'' Hw He. rewrite depth_arr. fold M.
    replace (S (2 * S M)) with (S (S (S (2 * M)))) by lia.
    rewrite enc_S. cbn [enc_step]. rewrite (proj2 He _ _ Hget).
    rewrite enc_S. cbn [enc_step].
    rewrite (enc_list_forall2 _ new (filter_map normalise l)); [reflexivity|].
    eapply Forall2_weaken; [|exact HF2]. intros v j' Hok. apply Hok; [exact Hw|].
    eapply extends_trans; eassumption.
  - (* objects *)
    intros m HP Hwf Hnl st o st' Hst H. rewrite cs_obj in H.
    destruct (cs_fields create_structure m st []) as [fields st1] eqn:Ei.
    destruct (put_handle st1 (SMap fields)) as [h st2] eqn:Ep. inversion H; subst o st'; clear H.
    cbn [json_wfb] in Hwf. apply andb_prop in Hwf. destruct Hwf as [Hnd Hwf]. apply nodupb_NoDup in Hnd.
    unfold no_handle_leafb in Hnl. cbn [leaves] in Hnl. rewrite forallb_flat_map in Hnl.
    assert (Hnl' : forallb (fun kv : str * json => let (_, x) := kv in no_handle_leafb x) m = true).
    { rewrite <- Hnl. apply forallb_ext'. intros [k x]. reflexivity. }
    set (M := list_max (map (fun kv => depth (snd kv)) m)).
    assert (HF : Forall (fun kv => S (2 * depth (snd kv)) <= S (2 * M)) m).
    { apply Forall_forall. intros kv Hin.
      assert (depth (snd kv) <= M); [|lia].
      pose proof (proj1 (list_max_le (map (fun kv => depth (snd kv)) m) M) (le_n _)) as Hall.
      rewrite Forall_forall in Hall. apply Hall. apply (in_map (fun kv => depth (snd kv))). exact Hin. }
    destruct (cs_fields_ok (S (2 * M)) m HP Hwf Hnl' HF Hnd st [] _ _ Hst (fun _ _ F => F) Ei)
      as (Hw1 & He1 & new & Hfields & HF2).
    cbn [app] in Hfields. subst fields.
    destruct (put_handle_ok _ _ _ _ Hw1 Ep) as (Hw2 & He2 & Hget).
    split; [exact Hw2|]. split; [eapply extends_trans; eassumption|].
    exists (JObj (filter_map nkv m)). split; [apply normalise_obj|].
    intros st'' Hw He. rewrite depth_obj. fold M.
    replace (S (2 * S M)) with (S (S (S (2 * M)))) by lia.
    rewrite enc_S. cbn [enc_step]. rewrite (proj2 He _ _ Hget).
    rewrite enc_S. cbn [enc_step].
    rewrite (enc_fields_forall2 _ new (filter_map nkv m)); [reflexivity| |apply nkv_keys_nodup; exact Hnd|intros k _ []].
    eapply Forall2_weaken; [|exact HF2]. intros a b [Hk Hok]. split; [exact Hk|]. apply Hok; [exact Hw|].
    eapply extends_trans; eassumption.
Qed.

(* ------------------------------------------------------------------------------------------- *)
(* the round trip                                                                                *)

(* the form asked for: whatever create_structure returns encodes, in the store it leaves behind,
   to the normalised document; no value exactly when the normalisation has none *)
Theorem json_roundtrip_ex : forall j st,
  store_wf st -> json_dom j ->
  let (o, st') := create_structure j st in
  match o with
  | Some v => exists fuel, encode_from_state fuel (cells st') v = normalise j
  | None => normalise j = None
  end.
Proof.
  intros j st Hst [Hwf Hnl]. destruct (create_structure j st) as [o st'] eqn:E.
  destruct (cs_ok_all j Hwf Hnl _ _ _ Hst E) as (Hw & _ & Ho). destruct o as [v|]; [|exact Ho].
  destruct Ho as (j' & Hn & Hok). exists (2 * depth j). rewrite Hn.
  specialize (Hok st' Hw (extends_refl _)). rewrite enc_S in Hok. cbn [enc_step] in Hok.
  unfold encode_from_state. destruct (alist_get v (cells st')); exact Hok.
Qed.

(* ... and the fuel [2 * depth j] (or any larger one) suffices: no existential, no out-of-fuel *)
Theorem encode_fuel_enough : forall j st fuel,
  store_wf st -> json_dom j -> fuel_for j <= fuel ->
  roundtrip fuel j st = Some (normalise j).
Proof.
  intros j st fuel Hst [Hwf Hnl] Hfuel. unfold roundtrip.
  destruct (create_structure j st) as [o st'] eqn:E.
  destruct (cs_ok_all j Hwf Hnl _ _ _ Hst E) as (Hw & _ & Ho). destruct o as [v|]; [|rewrite Ho; reflexivity].
  destruct Ho as (j' & Hn & Hok). rewrite Hn.
  specialize (Hok st' Hw (extends_refl _)). rewrite enc_S in Hok. cbn [enc_step] in Hok.
  assert (H0 : encode_from_state (2 * depth j) (cells st') v = Some j').
  { unfold encode_from_state. destruct (alist_get v (cells st')); exact Hok. }
  rewrite (encode_from_state_mono _ _ _ _ _ Hfuel H0). reflexivity.
Qed.

Theorem json_roundtrip : forall j st,
  store_wf st -> json_dom j -> roundtrip (fuel_for j) j st = Some (normalise j).
Proof. intros j st Hst Hd. apply encode_fuel_enough; auto. Qed.

(* the allocation discipline is preserved, so the theorem applies again to the next document *)
Theorem create_structure_wf : forall j st,
  store_wf st -> json_dom j -> store_wf (snd (create_structure j st)) /\ extends st (snd (create_structure j st)).
Proof.
  intros j st Hst [Hwf Hnl]. destruct (create_structure j st) as [o st'] eqn:E. cbn [snd].
  destruct (cs_ok_all j Hwf Hnl _ _ _ Hst E) as (Hw & He & _). split; assumption.
Qed.

(* the script-visible run from a fresh context *)
Corollary roundtrip_model_spec : forall j, json_dom j -> roundtrip_model j = Some (normalise j).
Proof. intros j Hd. apply json_roundtrip; [apply store_wf_empty|exact Hd]. Qed.

(* the Prop reading of the computable leaf condition *)
Lemma no_handle_leafb_spec j : no_handle_leafb j = true -> forall s, In s (leaves j) -> forall n, s <> hname n.
Proof.
  unfold no_handle_leafb. rewrite forallb_forall. intros H s Hin. apply not_hname.
  apply negb_true_iff. apply H. exact Hin.
Qed.
