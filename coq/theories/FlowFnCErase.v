(* FlowFnCErase.v — condition-position calls (C05_sim_cond): erasure of the extended syntax of
   FlowFnCTree.v to the syntax of FlowFnTree.v.  A condition that is not a base condition is
   replaced by a dummy base condition; the compiled program keeps every command name and every
   line, so everything the flat machine derives from the command names (scanner results, block
   sites, meta info caches, the layout of the definitions) is the same for a program and for its
   erasure, and the static lemmas of the C05 development apply to the erased program. *)
Require Import DS.Base DS.Cond DS.FlowTables DS.FlowTablesWf DS.FlowScan DS.Flow DS.FlowTree DS.FlowScanProof
  DS.FlowLemmas DS.FlowFrame DS.FlowFn DS.FlowFnTree DS.FlowFnDom DS.FlowFnScan DS.FlowFnLemmas DS.FlowFnSim
  DS.FlowFnSites DS.FlowFnC DS.FlowFnCTree.
Require Import DSG.GenFlowNames DSG.GenFnNames.
Open Scope nat_scope.

Scheme cstmt_ind3 := Induction for cstmt Sort Prop
  with cblock_ind3 := Induction for cblock Sort Prop
  with celses_ind3 := Induction for celses Sort Prop.
Combined Scheme csyntax_ind from cstmt_ind3, cblock_ind3, celses_ind3.

(* ---- erasure ------------------------------------------------------------------------------------ *)
Definition dummy_cond : cond := CVar [].
Definition er_c (c : fcond) : cond := match c with FCBase c' => c' | _ => dummy_cond end.
Fixpoint er_s (s : cstmt) : fstmt :=
  match s with
  | QCmd p => GCmd p
  | QIf sp c b els e => GIf sp (er_c c) (er_b b) (er_e els) e
  | QWhile sp c b e => GWhile sp (er_c c) (er_b b) e
  | QFor sp x hv b e => GFor sp x hv (er_b b) e
  | QCall out f args => GCall out f args
  | QReturn sp a => GReturn sp a
  end
with er_b (b : cblock) : fblock :=
  match b with QNil => GNil | QCons s b' => GCons (er_s s) (er_b b') end
with er_e (els : celses) : felses :=
  match els with
  | ZNil => HNil
  | ZElseIf sp c b r => HElseIf sp (er_c c) (er_b b) (er_e r)
  | ZElse sp b => HElse sp (er_b b)
  end.
Definition er_def (d : cndef) : fndef := mkFD (cd_sp d) (cd_scoped d) (cd_name d) (er_b (cd_body d)) (cd_end d).
Definition er_prog (p : cprog) : prog := mkProg (map er_def (cp_defs p)) (er_b (cp_main p)).

(* the same on instructions *)
Definition er_i (i : finstr) : finstr :=
  match fi_arg i with FCondC _ => mkFI (fi_cmd i) (FBase (ACond dummy_cond)) | _ => i end.

Lemma er_ckw sp c : er_i (ckw sp c) = bkw sp (ACond (er_c c)).
Proof. destruct c; reflexivity. Qed.
Lemma er_i_cmd i : fi_cmd (er_i i) = fi_cmd i.
Proof. unfold er_i. destruct (fi_arg i); reflexivity. Qed.

Lemma er_compile :
  (forall s, gs (er_s s) = map er_i (ks s)) /\
  (forall b, gb (er_b b) = map er_i (kb b)) /\
  (forall els, ge (er_e els) = map er_i (ke els)).
Proof.
  apply csyntax_ind; cbn [er_s er_b er_e gs gb ge ks kb ke map]; intros.
  - reflexivity.
  - rewrite !map_app, er_ckw, H, H0. reflexivity.
  - rewrite !map_app, er_ckw, H. reflexivity.
  - rewrite !map_app, H. reflexivity.
  - reflexivity.
  - reflexivity.
  - reflexivity.
  - rewrite map_app, H, H0. reflexivity.
  - reflexivity.
  - rewrite !map_app, er_ckw, H, H0. reflexivity.
  - rewrite H. reflexivity.
Qed.
Lemma er_gs s : gs (er_s s) = map er_i (ks s). Proof. apply er_compile. Qed.
Lemma er_gb b : gb (er_b b) = map er_i (kb b). Proof. apply er_compile. Qed.
Lemma er_ge els : ge (er_e els) = map er_i (ke els). Proof. apply er_compile. Qed.
Lemma er_len_s s : length (gs (er_s s)) = length (ks s). Proof. now rewrite er_gs, map_length. Qed.
Lemma er_len_b b : length (gb (er_b b)) = length (kb b). Proof. now rewrite er_gb, map_length. Qed.
Lemma er_len_e els : length (ge (er_e els)) = length (ke els). Proof. now rewrite er_ge, map_length. Qed.

Lemma er_gdef d : gdef (er_def d) = map er_i (kdef d).
Proof.
  unfold gdef, kdef, er_def. cbn [fd_sp fd_scoped fd_name fd_body fd_end map]. rewrite map_app, er_gb. reflexivity.
Qed.
Lemma er_gdefs ds : gdefs (map er_def ds) = map er_i (kdefs ds).
Proof. induction ds as [|d r IH]; cbn [map gdefs kdefs]; [reflexivity|]. now rewrite map_app, er_gdef, IH. Qed.
Lemma er_compile_prog p : compile_prog (er_prog p) = map er_i (compile_cprog p).
Proof. unfold compile_prog, compile_cprog, er_prog. cbn [p_defs p_main]. now rewrite map_app, er_gdefs, er_gb. Qed.

Lemma fcmds_er P : fcmds (map er_i P) = fcmds P.
Proof. unfold fcmds. rewrite map_map. apply map_ext. apply er_i_cmd. Qed.
Lemma fplaced_er P p l : fplaced P p l -> fplaced (map er_i P) p (map er_i l).
Proof.
  intros (pre & post & E & L). exists (map er_i pre), (map er_i post). rewrite E, !map_app, map_length. auto.
Qed.
Lemma nth_error_er P l i : nth_error P l = Some i -> nth_error (map er_i P) l = Some (er_i i).
Proof. intros H. now rewrite nth_error_map, H. Qed.

(* ---- definitions and their layout --------------------------------------------------------------- *)
Lemma er_find_def f ds : find_def f (map er_def ds) = option_map er_def (find_cdef f ds).
Proof.
  induction ds as [|d r IH]; cbn [map find_def find_cdef option_map]; [reflexivity|].
  cbn [er_def fd_name]. destruct (str_eqb f (cd_name d)); [reflexivity|exact IH].
Qed.
Lemma find_cdef_name f ds : forall d, find_cdef f ds = Some d -> cd_name d = f.
Proof.
  induction ds as [|d0 r IH]; intros d H; cbn in H; [discriminate|].
  destruct (str_eqb f (cd_name d0)) eqn:E; [|auto]. inversion H; subst. symmetry. now apply str_eqb_eq.
Qed.
Fixpoint clayout (ds : list cndef) (s : nat) : list (cndef * nat) :=
  match ds with [] => [] | d :: r => (d, s) :: clayout r (s + length (kdef d)) end.
Lemma er_layout ds : forall s0, layout (map er_def ds) s0 = map (fun x => (er_def (fst x), snd x)) (clayout ds s0).
Proof.
  induction ds as [|d r IH]; intros s0; cbn [map layout clayout fst snd]; [reflexivity|].
  rewrite er_gdef, map_length, IH. reflexivity.
Qed.
Lemma clayout_layout ds s0 d s : In (d, s) (clayout ds s0) -> In (er_def d, s) (layout (map er_def ds) s0).
Proof. intros H. rewrite er_layout. apply in_map_iff. exists (d, s). auto. Qed.
Lemma clayout_placed ds : forall s0 pre post d s, length pre = s0 -> In (d, s) (clayout ds s0) ->
  exists pre' post', pre ++ kdefs ds ++ post = pre' ++ kdef d ++ post' /\ length pre' = s.
Proof.
  induction ds as [|d0 r IH]; intros s0 pre post d s L H; cbn [clayout kdefs In] in *; [contradiction|].
  destruct H as [E|H].
  - inversion E; subst. exists pre, (kdefs r ++ post). split; [now rewrite <- app_assoc|reflexivity].
  - destruct (IH (s0 + length (kdef d0)) (pre ++ kdef d0) post d s) as (pre' & post' & E' & L'); auto.
    + rewrite app_length. lia.
    + exists pre', post'. split; [|exact L']. rewrite <- E', <- !app_assoc. reflexivity.
Qed.
Lemma clayout_In l : forall s0 d s, In (d, s) (clayout l s0) -> In d l.
Proof.
  induction l as [|d0 r IH]; intros s0 d s H; cbn [clayout In] in *; [contradiction|].
  destruct H as [E|H]; [inversion E; now left|right; eauto].
Qed.
Lemma find_in_clayout r : forall s1 f, In f (map cd_name r) ->
  exists d' s', find_cdef f r = Some d' /\ In (d', s') (clayout r s1).
Proof.
  induction r as [|d1 r IH]; intros s1 f Hin; cbn [map In find_cdef clayout] in *; [contradiction|].
  destruct (str_eqb f (cd_name d1)) eqn:Ef.
  - exists d1, s1. split; [reflexivity|now left].
  - destruct Hin as [E|Hin]; [apply str_eqb_neq in Ef; congruence|].
    destruct (IH (s1 + length (kdef d1)) f Hin) as (d2 & s2 & A & B).
    exists d2, s2. split; [exact A|now right].
Qed.
Lemma distinct_find_c l : distinct (map cd_name l) = true -> forall d, In d l -> find_cdef (cd_name d) l = Some d.
Proof.
  induction l as [|d0 r IH]; intros H d Hd; [contradiction|]. cbn [map distinct] in H.
  apply andb_prop in H. destruct H as [Hf Hr]. apply negb_true_iff in Hf. cbn [find_cdef].
  destruct Hd as [->|Hd]; [now rewrite str_eqb_refl|].
  destruct (str_eqb (cd_name d) (cd_name d0)) eqn:E; [|auto].
  apply str_eqb_eq in E. assert (Hc : str_in (cd_name d0) (map cd_name r) = true).
  { apply str_in_spec. rewrite <- E. now apply in_map. }
  congruence.
Qed.
Lemma er_names ds : map fd_name (map er_def ds) = map cd_name ds.
Proof. rewrite map_map. reflexivity. Qed.

(* ---- the machine depends on the program only through its command names ----------------------- *)
Lemma create_if_meta_cmds A B l : cmds A = cmds B -> create_if_meta A l = create_if_meta B l.
Proof. unfold create_if_meta. now intros ->. Qed.
Lemma create_loop_meta_cmds T A B l : cmds A = cmds B -> create_loop_meta T A l = create_loop_meta T B l.
Proof. unfold create_loop_meta. now intros ->. Qed.
Lemma Inv_cmds A B f : cmds A = cmds B -> Inv A f -> Inv B f.
Proof.
  intros E (H1 & H2 & H3). unfold Inv.
  split; [|split]; intros l m Hl.
  - rewrite <- (create_if_meta_cmds A B l E). auto.
  - rewrite <- (create_loop_meta_cmds _ A B l E). auto.
  - rewrite <- (create_loop_meta_cmds _ A B l E). auto.
Qed.
Lemma if_meta_info_cmds A B l f : cmds A = cmds B -> if_meta_info A l f = if_meta_info B l f.
Proof. intros E. unfold if_meta_info. now rewrite (create_if_meta_cmds A B l E). Qed.
Lemma while_meta_info_cmds A B l f : cmds A = cmds B -> while_meta_info A l f = while_meta_info B l f.
Proof. intros E. unfold while_meta_info. now rewrite (create_loop_meta_cmds _ A B l E). Qed.
Lemma for_meta_info_cmds A B l f : cmds A = cmds B -> for_meta_info A l f = for_meta_info B l f.
Proof. intros E. unfold for_meta_info. now rewrite (create_loop_meta_cmds _ A B l E). Qed.
Lemma step_cmds A B l i s : cmds A = cmds B -> step A l i s = step B l i s.
Proof.
  intros E. unfold step. destruct (i_cmd i) as [c|]; [|reflexivity].
  destruct (classify c), (i_arg i); try reflexivity.
  - unfold step_if. destruct s as [w f]. now rewrite (if_meta_info_cmds A B l f E).
  - unfold step_while. destruct s as [w f]. now rewrite (while_meta_info_cmds A B l f E).
  - unfold step_for, for_call_info. destruct s as [w f].
    destruct (for_pop_top l (f_forstk f)) as [found stk]. now rewrite (for_meta_info_cmds A B l _ E).
Qed.
Lemma fstep_cmds P Q l i s : fcmds P = fcmds Q -> fstep P l i s = fstep Q l i s.
Proof.
  intros E. assert (E0 : cmds (map down P) = cmds (map down Q)) by (now rewrite !cmds_down).
  unfold fstep. destruct s as [[w f] g]. destruct (fi_cmd i) as [c|]; [|reflexivity].
  destruct (classify_fn c) as [k| | |], (fi_arg i) as [a|fc|sc nm|out args|a]; try reflexivity.
  - destruct k; try reflexivity; now rewrite (step_cmds _ _ l (down i) (w, f) E0).
  - unfold step_function. now rewrite E.
Qed.
Lemma cstep_if_cmds ev P Q l c s : fcmds P = fcmds Q -> cstep_if ev P l c s = cstep_if ev Q l c s.
Proof.
  intros E. assert (E0 : cmds (map down P) = cmds (map down Q)) by (now rewrite !cmds_down).
  unfold cstep_if. destruct s as [[w f] g]. now rewrite (if_meta_info_cmds _ _ l f E0).
Qed.
Lemma cstep_while_cmds ev P Q l c s : fcmds P = fcmds Q -> cstep_while ev P l c s = cstep_while ev Q l c s.
Proof.
  intros E. assert (E0 : cmds (map down P) = cmds (map down Q)) by (now rewrite !cmds_down).
  unfold cstep_while. destruct s as [[w f] g]. now rewrite (while_meta_info_cmds _ _ l f E0).
Qed.
Lemma cstep_cmds ev em P Q l i s : fcmds P = fcmds Q -> cstep ev em P l i s = cstep ev em Q l i s.
Proof.
  intros E. unfold cstep. destruct (fi_cmd i) as [c|] eqn:Ec, (fi_arg i) as [a|fc|sc nm|out args|a] eqn:Ea;
    try apply (fstep_cmds P Q l i s E).
  - destruct (classify_fn c) as [[]| | |]; try reflexivity; [now apply cstep_if_cmds|now apply cstep_while_cmds].
  - destruct em; [reflexivity|apply (fstep_cmds P Q l i s E)].
Qed.

(* ---- propositional well-formedness of the extended syntax ------------------------------------- *)
Section Wf.
Variable callable : str -> Prop.
Fixpoint pkc (c : fcond) : Prop :=
  match c with
  | FCBase _ => True
  | FCCall f args => callable f /\ free_name f = true /\ length args <= 9
  | FCNot c' => pkc c'
  end.
Fixpoint pks (infn : bool) (s : cstmt) : Prop :=
  match s with
  | QCmd _ => True
  | QIf sp c b els e => In sp (openers CkIf) /\ In e (closers CkIf) /\ pkc c /\ pkb infn b /\ pke infn els
  | QWhile sp c b e => In sp (openers CkWhile) /\ In e (closers CkWhile) /\ pkc c /\ pkb infn b
  | QFor sp _ _ b e => In sp (openers CkFor) /\ In e (closers CkFor) /\ pkb infn b
  | QCall _ f args => callable f /\ free_name f = true /\ length args <= 9
  | QReturn sp _ => infn = true /\ In sp n_return
  end
with pkb (infn : bool) (b : cblock) : Prop :=
  match b with QNil => True | QCons s b' => pks infn s /\ pkb infn b' end
with pke (infn : bool) (els : celses) : Prop :=
  match els with
  | ZNil => True
  | ZElseIf sp c b r => In sp n_elseif /\ pkc c /\ pkb infn b /\ pke infn r
  | ZElse sp b => In sp n_else /\ pkb infn b
  end.

(* what the erased program needs: the same, with the callable names of the erased program *)
Variable callable' : str -> Prop.
Hypothesis Hcall : forall f, callable f -> callable' f.
Lemma pk_pg infn :
  (forall s, pks infn s -> pgs callable' infn (er_s s)) /\
  (forall b, pkb infn b -> pgb callable' infn (er_b b)) /\
  (forall els, pke infn els -> pge callable' infn (er_e els)).
Proof.
  apply csyntax_ind; cbn [pks pkb pke pgs pgb pge er_s er_b er_e]; intros; try tauto.
  destruct H as (A & B & C). auto.
Qed.
End Wf.

(* ---- syntactic functions commute with erasure ---------------------------------------------------- *)
Lemma er_has_return :
  (forall s, has_return_s (er_s s) = khas_return_s s) /\
  (forall b, has_return_b (er_b b) = khas_return_b b) /\
  (forall els, has_return_e (er_e els) = khas_return_e els).
Proof.
  apply csyntax_ind; cbn [er_s er_b er_e has_return_s has_return_b has_return_e khas_return_s khas_return_b khas_return_e];
    intros; try reflexivity; try congruence.
Qed.
Lemma er_for_bodies :
  (forall s, for_bodies_s (er_s s) = map er_b (kfor_bodies_s s)) /\
  (forall b, for_bodies_b (er_b b) = map er_b (kfor_bodies_b b)) /\
  (forall els, for_bodies_e (er_e els) = map er_b (kfor_bodies_e els)).
Proof.
  apply csyntax_ind; cbn [er_s er_b er_e for_bodies_s for_bodies_b for_bodies_e kfor_bodies_s kfor_bodies_b kfor_bodies_e map];
    intros; try reflexivity; rewrite ?map_app; congruence.
Qed.
(* no return inside a for-in body *)
Lemma nfr_of_kbodies :
  (forall s, (forall B, In B (kfor_bodies_s s) -> khas_return_b B = false) -> nfr_s (er_s s) = true) /\
  (forall b, (forall B, In B (kfor_bodies_b b) -> khas_return_b B = false) -> nfr_b (er_b b) = true) /\
  (forall els, (forall B, In B (kfor_bodies_e els) -> khas_return_b B = false) -> nfr_e (er_e els) = true).
Proof.
  apply csyntax_ind; cbn [er_s er_b er_e nfr_s nfr_b nfr_e kfor_bodies_s kfor_bodies_b kfor_bodies_e]; try reflexivity.
  - intros sp c b IHb els IHe e H. rewrite IHb, IHe; auto; intros B HB; apply H; apply in_or_app; auto.
  - intros sp c b IHb e H. auto.
  - intros sp x hv b IHb e H. rewrite (proj1 (proj2 er_has_return)), (H b (or_introl eq_refl)), IHb; auto.
    intros B HB. apply H. now right.
  - intros s IHs b IHb H. rewrite IHs, IHb; auto; intros B HB; apply H; apply in_or_app; auto.
  - intros sp c b IHb r IHr H. rewrite IHb, IHr; auto; intros B HB; apply H; apply in_or_app; auto.
  - intros sp b IHb H. auto.
Qed.
Lemma nfr_kbodies :
  (forall s, nfr_s (er_s s) = true -> forall B, In B (kfor_bodies_s s) -> khas_return_b B = false) /\
  (forall b, nfr_b (er_b b) = true -> forall B, In B (kfor_bodies_b b) -> khas_return_b B = false) /\
  (forall els, nfr_e (er_e els) = true -> forall B, In B (kfor_bodies_e els) -> khas_return_b B = false).
Proof.
  apply csyntax_ind; cbn [er_s er_b er_e nfr_s nfr_b nfr_e kfor_bodies_s kfor_bodies_b kfor_bodies_e];
    try (intros; contradiction).
  - intros sp c b IHb els IHe e H B HB. apply andb_prop in H. destruct H as [H1 H2].
    apply in_app_or in HB. destruct HB; auto.
  - intros sp c b IHb e H B HB. auto.
  - intros sp x hv b IHb e H B HB. apply andb_prop in H. destruct H as [H1 H2].
    destruct HB as [<-|HB]; [|auto]. apply negb_true_iff in H1. now rewrite (proj1 (proj2 er_has_return)) in H1.
  - intros s IHs b IHb H B HB. apply andb_prop in H. destruct H as [H1 H2].
    apply in_app_or in HB. destruct HB; auto.
  - intros sp c b IHb r IHr H B HB. apply andb_prop in H. destruct H as [H1 H2].
    apply in_app_or in HB. destruct HB; auto.
  - intros sp b IHb H B HB. auto.
Qed.

(* ---- one-step unfoldings of the interpreter of FlowFnCTree.v ----------------------------------- *)
Section Unfold.
Variable ds : list cndef.
Lemma xs_cmd n em p w : xs ds (S n) em (QCmd p) w = match exec_prim p w with Some w' => FOk w' | None => FErr end.
Proof. reflexivity. Qed.
Lemma xs_if n em sp c b els e w : xs ds (S n) em (QIf sp c b els e) w =
  match xc ds n c w with
  | Some (v, w1) => if v then xb ds n em b w1 else xe ds n em els w1
  | None => FErr
  end.
Proof. reflexivity. Qed.
Lemma xs_while n em sp c b e w : xs ds (S n) em (QWhile sp c b e) w =
  match xc ds n c w with
  | Some (v, w1) =>
    if v then match xb ds n em b w1 with FOk w2 => xs ds n em (QWhile sp c b e) w2 | r => r end else FOk w1
  | None => FErr
  end.
Proof. reflexivity. Qed.
Lemma xs_for n em sp x hv b e w : xs ds (S n) em (QFor sp x hv b e) w = xfor ds n em x hv b 0 w.
Proof. reflexivity. Qed.
Lemma xs_return n em sp a w : xs ds (S n) em (QReturn sp a) w = FRet (option_map (fun x => arg_val x w) a) w.
Proof. reflexivity. Qed.
Lemma xs_call n em out f args w : xs ds (S n) em (QCall out f args) w =
  match xcall ds n em out f args w with Some (_, w') => FOk w' | None => FErr end.
Proof. reflexivity. Qed.
Lemma xb_nil n em w : xb ds (S n) em QNil w = FOk w.
Proof. reflexivity. Qed.
Lemma xb_cons n em s b w : xb ds (S n) em (QCons s b) w =
  match xs ds n em s w with FOk w1 => xb ds n em b w1 | r => r end.
Proof. reflexivity. Qed.
Lemma xe_elseif n em sp c b r w : xe ds (S n) em (ZElseIf sp c b r) w =
  match xc ds n c w with
  | Some (v, w1) => if v then xb ds n em b w1 else xe ds n em r w1
  | None => FErr
  end.
Proof. reflexivity. Qed.
Lemma xe_else n em sp b w : xe ds (S n) em (ZElse sp b) w = xb ds n em b w.
Proof. reflexivity. Qed.
Lemma xe_nil n em w : xe ds (S n) em ZNil w = FOk w.
Proof. reflexivity. Qed.
Lemma xfor_step n em x hv b i w : xfor ds (S n) em x hv b i w =
  match get_next_iteration i (vval hv w) w with
  | None => FOk w
  | Some v => match xb ds n em b (vset x v w) with FOk w2 => xfor ds n em x hv b (S i) w2 | r => r end
  end.
Proof. reflexivity. Qed.
Lemma xcall_step n em out f args w : xcall ds (S n) em out f args w =
  match find_cdef f ds with
  | None => None
  | Some d =>
    let vals := map (fun a => arg_val a w) args in
    let saved := w_vars w in
    let w1 := if cd_scoped d then set_vars [] w else w in
    let w2 := bind_args 1 vals w1 in
    let w3 := if em then w2 else clear_out out w2 in
    match xb ds n em (cd_body d) w3 with
    | FOk w4 => Some (None, if cd_scoped d then set_vars saved w4 else w4)
    | FRet v w4 =>
        let w5 := match out with
                  | Some o => match v with Some x => vset o x w4 | None => vunset o w4 end
                  | None => w4
                  end in
        Some (v, if cd_scoped d then set_vars (overlay saved out w5) w5 else w5)
    | _ => None
    end
  end.
Proof. reflexivity. Qed.
Lemma xc_base n c w : xc ds (S n) (FCBase c) w = Some (eval_cond c w).
Proof. reflexivity. Qed.
Lemma xc_not n c w : xc ds (S n) (FCNot c) w =
  match xc ds n c w with Some (b, w') => Some (negb b, w') | None => None end.
Proof. reflexivity. Qed.
Lemma xc_call n f args w : xc ds (S n) (FCCall f args) w =
  match xcall ds n true None f args w with Some (v, w') => Some (is_true v, w') | None => None end.
Proof. reflexivity. Qed.

(* a block without a lexical return never ends with the return signal *)
Lemma kno_return n :
  (forall em s w v w', khas_return_s s = false -> xs ds n em s w <> FRet v w') /\
  (forall em b w v w', khas_return_b b = false -> xb ds n em b w <> FRet v w') /\
  (forall em els w v w', khas_return_e els = false -> xe ds n em els w <> FRet v w') /\
  (forall em x hv b i w v w', khas_return_b b = false -> xfor ds n em x hv b i w <> FRet v w').
Proof.
  induction n as [|n (IHs & IHb & IHe & IHf)]; [repeat split; intros; cbn; discriminate|].
  repeat split.
  - intros em s w v w' H. destruct s as [p|sp c b els e|sp c b e|sp x hv b e|out f args|sp a]; cbn [khas_return_s] in H.
    + rewrite xs_cmd. destruct (exec_prim p w); discriminate.
    + rewrite xs_if. apply orb_false_elim in H. destruct H as [H1 H2].
      destruct (xc ds n c w) as [[[] w1]|]; auto. discriminate.
    + rewrite xs_while. destruct (xc ds n c w) as [[[] w1]|]; try discriminate.
      destruct (xb ds n em b w1) eqn:E; try discriminate; auto. intros E2. inversion E2; subst. eapply IHb; eauto.
    + rewrite xs_for. auto.
    + rewrite xs_call. destruct (xcall ds n em out f args w) as [[? ?]|]; discriminate.
    + discriminate.
  - intros em b w v w' H. destruct b as [|s b]; [rewrite xb_nil; discriminate|].
    cbn [khas_return_b] in H. apply orb_false_elim in H. destruct H as [H1 H2].
    rewrite xb_cons. destruct (xs ds n em s w) eqn:E; try discriminate; auto.
    intros E2. inversion E2; subst. eapply IHs; eauto.
  - intros em els w v w' H. destruct els as [|sp c b r|sp b]; cbn [khas_return_e] in H.
    + rewrite xe_nil. discriminate.
    + rewrite xe_elseif. apply orb_false_elim in H. destruct H as [H1 H2].
      destruct (xc ds n c w) as [[[] w1]|]; auto. discriminate.
    + rewrite xe_else. auto.
  - intros em x hv b i w v w' H. rewrite xfor_step.
    destruct (get_next_iteration i (vval hv w) w); [|discriminate].
    destruct (xb ds n em b (vset x s w)) eqn:E; try discriminate; auto.
    intros E2. inversion E2; subst. eapply IHb; eauto.
Qed.
End Unfold.

Lemma celses_dec (els : celses) : {els = ZNil} + {els <> ZNil}.
Proof. destruct els; [left; reflexivity|right; discriminate|right; discriminate]. Qed.
Lemma er_e_nil els : er_e els = HNil <-> els = ZNil.
Proof. destruct els; cbn; split; congruence. Qed.
