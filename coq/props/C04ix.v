(* C04ix — property theorems about the index-faithful model of instruction_query::find_commands
   (FlowScanIx.v: the whole instruction vector, `instructions[line]` as nth_error with an explicit
   panic outcome, usize line / skip_to, i32 block_delta under the profile flag `checked`, get_start /
   get_end with min(len, end), the recursive call closed by fuel).  The model is proved equal to the
   translation of the current source in props/SrcFindCmds.v.  Property theorems only; every proof is
   [exact <lemma>]. *)
Require Import DS.Base DS.FlowTables DS.FlowScan DS.Flow DS.FlowTree DS.FlowScanProof.
Require DS.Parser DS.FlowFn.
Require Import DS.FlowScanIx DS.FlowScanIxProof DS.FlowScanIxThms DS.FlowScanIxBounds.
Open Scope nat_scope.

(* default release profile (wrapping i32): for EVERY instruction vector, table, start, end and
   allow_recursive the scanner does not panic (every `instructions[line]` is in range), does not
   run out of fuel (S (length) suffices for the recursion on nested openers), and never returns
   Ok(None) nor the error of the `None =>` arm after the nested call (both are dead code) *)
Theorem C04_ix_total : forall T (instructions : list DS.Parser.instr) allow_recursive start end_,
  let r := find_commands_ix false T instructions allow_recursive start end_ in
  r <> XPanic /\ r <> XFuel /\ r <> XOk None /\ r <> XErr XENestedNoEnd.
Proof. exact find_commands_ix_total. Qed.
Print Assumptions C04_ix_total.

(* overflow-checked profile (dev builds and the verification harness): the same below 2^31 instructions *)
Theorem C04_ix_checked_total : forall T (instructions : list DS.Parser.instr) allow_recursive start end_,
  (Z.of_nat (length instructions) < 2147483648)%Z ->
  let r := find_commands_ix true T instructions allow_recursive start end_ in
  r <> XPanic /\ r <> XFuel /\ r <> XOk None /\ r <> XErr XENestedNoEnd.
Proof. exact find_commands_ix_checked_total. Qed.
Print Assumptions C04_ix_checked_total.

(* refinement, allow_recursive = true (if / while / for-in): the index-faithful scanner IS the
   suffix-style scanner FlowScan.find_commands of the C04 / C05 theorems, run on the command names of
   the first min(len, end) instructions — any profile, table, start and end, below 2^31 instructions *)
Theorem C04_ix_refines : forall checked T (instructions : list DS.Parser.instr) start end_,
  (Z.of_nat (length instructions) < 2147483648)%Z ->
  find_commands_ix checked T instructions true start end_
  = inject (find_commands T (firstn (get_end_ix end_ instructions) (map cmd_of instructions)) (get_start_ix start)).
Proof. exact find_commands_ix_refines. Qed.
Print Assumptions C04_ix_refines.

(* ... allow_recursive = false (function): FlowFn.find_commands_nr of the C05 theorems *)
Theorem C04_ix_refines_nr : forall checked T (instructions : list DS.Parser.instr) start end_,
  (Z.of_nat (length instructions) < 2147483648)%Z ->
  find_commands_ix checked T instructions false start end_
  = inject_nr (DS.FlowFn.find_commands_nr T (firstn (get_end_ix end_ instructions) (map cmd_of instructions))
                                          (get_start_ix start)).
Proof. exact find_commands_ix_refines_nr. Qed.
Print Assumptions C04_ix_refines_nr.

(* as the flow-control commands call it: find_commands(.., Some(line + 1), None, ..) *)
Theorem C04_ix_scan : forall checked T (instructions : list DS.Parser.instr) start,
  (Z.of_nat (length instructions) < 2147483648)%Z ->
  find_commands_ix checked T instructions true (Some start) None
  = inject (find_commands T (map cmd_of instructions) start).
Proof. exact find_commands_ix_scan. Qed.
Print Assumptions C04_ix_scan.

Theorem C04_ix_scan_nr : forall checked T (instructions : list DS.Parser.instr) start,
  (Z.of_nat (length instructions) < 2147483648)%Z ->
  find_commands_ix checked T instructions false (Some start) None
  = inject_nr (DS.FlowFn.find_commands_nr T (map cmd_of instructions) start).
Proof. exact find_commands_ix_scan_nr. Qed.
Print Assumptions C04_ix_scan_nr.

(* transfer of C04_find_own_end: the code as written finds the construct's own end and middles *)
Theorem C04_ix_find_own_end : tables_wf = true ->
  forall checked k (instructions : list DS.Parser.instr) pre b els c rest,
    map cmd_of instructions = pre ++ cmds (cb b) ++ cmds (ce els) ++ Some c :: rest ->
    (Z.of_nat (length instructions) < 2147483648)%Z ->
    wfb b -> wfe els -> In c (closers k) ->
    find_commands_ix checked (table_of k) instructions true (Some (length pre)) None
    = XOk (Some (mkPos (mids k els (length pre + length (cb b)))
                       (length pre + length (cb b) + length (ce els)))).
Proof. exact find_own_end_ix. Qed.
Print Assumptions C04_ix_find_own_end.

(* the length bound is needed, because block_delta is an i32.  Overflow-checked profile: 2^31
   instructions that all open a foreign block panic in the last `block_delta + 1` (the bound of
   C04_ix_checked_total is exact).  Release profile: the same 2^31 openers followed by one generic
   `end`-like command (in end_blocks and in end_names) — the wrapped counter is negative, the code
   takes that line for its own end where the suffix model's unbounded counter does not.  (Vectors
   of > 200 GiB: not executable; proved by induction, not by computation.) *)
Theorem C04_ix_bounds_needed :
  (exists T (instructions : list DS.Parser.instr),
     Z.of_nat (length instructions) = 2147483648%Z /\
     forall allow_recursive, find_commands_ix true T instructions allow_recursive (Some 0) None = XPanic) /\
  (exists T (instructions : list DS.Parser.instr),
     Z.of_nat (length instructions) = 2147483649%Z /\
     find_commands_ix false T instructions true (Some 0) None
     <> inject (find_commands T (map cmd_of instructions) 0)).
Proof. exact (conj checked_bound_needed release_bound_needed). Qed.
Print Assumptions C04_ix_bounds_needed.
