(* SrcCondSlice — the condition evaluator the C06 theorems are about IS the current source.
   gen_eval_slice_body / gen_eval_slice_go / gen_eval_slice / gen_eval_condition are regenerated on every run from
   duckscript_sdk/src/utils/condition.rs (fn eval_condition_for_slice, fn eval_condition) by the translator lib/rs2v.py
   (classes PIdx / FnIdx, client lib/gen/condslice_gen.py); CondIx.body / loop / eval_ix / eval_condition_with are the
   hand-written index-faithful model (whole argument vector, usize start_block / index, i32 counter under the profile
   flag `checked`, explicit IPanic for `&arguments[a..b]` out of range, `arguments[0]` on an empty vector and i32
   overflow) that C06_ix_total / C06_ix_refines / C06_ix_* reason about.  Proofs: theories/CondSliceGenTie.v.
   What the generator configuration supplies (types, state record, the i32 overflow function, the fuel that closes the
   recursion, the error-text -> code table, the abstraction of the command branch): see lib/gen/condslice_gen.py.
   Property theorems only. *)
Require Import DS.Base DS.Cond DS.CondSpec DS.CondIx DS.Rs2vCondLib DS.CondSliceGenTie.
Require Import DSG.GenCondSliceFn.

(* one iteration of `for argument in arguments { .. index = index + 1; }`: translation = hand model, every state *)
Theorem Src_condslice_body : gen_eval_slice_understood = true ->
  forall checked ev arguments s argument,
    gen_eval_slice_body checked ev arguments s argument
    = match body is_true_some checked ev arguments argument s with
      | BNext s' => BNext (bump s')
      | BRet r => BRet r
      end.
Proof. exact gen_eval_slice_body_eq. Qed.
Print Assumptions Src_condslice_body.

(* the whole function (loop, code after the loop, recursion on the sub-slice closed by fuel): translation = hand
   model, for every build profile, every fuel, every argument vector *)
Theorem Src_condslice_eval : gen_eval_slice_understood = true ->
  forall checked fuel args, gen_eval_slice checked fuel args = eval_ix is_true_some checked fuel args.
Proof. exact gen_eval_slice_eq. Qed.
Print Assumptions Src_condslice_eval.

(* as the SDK runs it: default release profile (wrapping counter) and overflow-checked profile *)
Theorem Src_condslice_ix : gen_eval_slice_understood = true ->
  forall args, gen_eval_slice false (S (length args)) args = eval_slice_ix args.
Proof. exact gen_eval_slice_ix. Qed.
Print Assumptions Src_condslice_ix.

Theorem Src_condslice_ix_checked : gen_eval_slice_understood = true ->
  forall args, gen_eval_slice true (S (length args)) args = eval_slice_ix_checked args.
Proof. exact gen_eval_slice_ix_checked. Qed.
Print Assumptions Src_condslice_ix_checked.

(* hence, of the translation of the source itself: no panic and no fuel exhaustion on any token list (release
   profile), and the and-of-ors value on every well-formed condition below 2^31 tokens *)
Theorem Src_condslice_total : gen_eval_slice_understood = true ->
  forall ts, gen_eval_slice false (S (length ts)) ts <> IPanic /\ gen_eval_slice false (S (length ts)) ts <> IFuel.
Proof. exact gen_eval_slice_total. Qed.
Print Assumptions Src_condslice_total.

Theorem Src_condslice_sem : gen_eval_slice_understood = true ->
  forall c, wf c -> (Z.of_nat (length (toks c)) < 2147483648)%Z ->
    gen_eval_slice false (S (length (toks c))) (toks c) = IOk (sem is_true_some c).
Proof. exact gen_eval_slice_sem. Qed.
Print Assumptions Src_condslice_sem.

(* eval_condition's dispatch (empty -> false; first word a command -> the command's verdict; otherwise the slice
   evaluator on `&arguments[..]`): translation = hand model *)
Theorem Src_condslice_eval_condition : gen_eval_condition_understood = true ->
  forall checked fuel exists_cmd run_stmt args,
    gen_eval_condition checked fuel exists_cmd run_stmt args
    = eval_condition_with is_true_some checked fuel exists_cmd run_stmt args.
Proof. exact gen_eval_condition_eq. Qed.
Print Assumptions Src_condslice_eval_condition.

Theorem Src_condslice_eval_condition_ix : gen_eval_condition_understood = true ->
  forall exists_cmd run_stmt args,
    gen_eval_condition false (S (length args)) exists_cmd run_stmt args = eval_condition_ix exists_cmd run_stmt args.
Proof. exact gen_eval_condition_ix. Qed.
Print Assumptions Src_condslice_eval_condition_ix.
