(* C16 — text, comparison and arithmetic commands compute the documented function.
   Property theorems only; every proof is [exact <lemma>].
   Strings are code-point lists; positions and lengths are BYTE offsets of the UTF-8 encoding
   ([blen], Utf8.v) in every command that counts (length, indexof, last_indexof, substring).
   Partial (model-level theorems only; the link to the code is the correspondence run on a stated
   domain, see lib/props/c16.py): less_than / greater_than (C16_compare: the model orders the
   rationals the two literals denote; f64 rounding is NOT modelled), calc (C16_calc_sound: the
   checked-i64 oracle is ordinary arithmetic; evalexpr is third-party and NOT modelled),
   uppercase / lowercase (ASCII oracle; the Unicode case tables are NOT modelled). *)
Require Import DS.Base DS.Utf8 DS.Strings DS.StringsProof DS.StringsProof2 DS.StringsNum.
Require QArith.

(* ---- one consistent unit ---------------------------------------------------------------------- *)

(* substring(s, 0, indexof(s, t)) followed by t is a prefix of s (three-argument form, which needs
   a non-empty text: `substring "" 0 0` is the error "start index bigger than text size") *)
Theorem C16_units : forall s t i,
  find s t = Some i -> s <> [] ->
  exists p, substring3 s 0 (Z.of_N i) = RVal p /\ is_prefix (p ++ t) s = true.
Proof. exact units. Qed.

(* the same through the commands' textual interface: the index printed by indexof parses back *)
Theorem C16_units_cmd : forall s t rest istr,
  cmd_indexof (s :: t :: rest) = RVal istr -> s <> [] -> (Z.of_N (blen s) <= i64_max)%Z ->
  exists p, cmd_substring [s; [48]; istr] = RVal p /\ is_prefix (p ++ t) s = true.
Proof. exact units_cmd. Qed.

(* last_indexof counts in the same unit too *)
Theorem C16_units_last : forall s t i,
  rfind s t = Some i -> s <> [] -> t <> [] ->
  exists p, substring3 s 0 (Z.of_N i) = RVal p /\ is_prefix (p ++ t) s = true.
Proof. exact units_last. Qed.
(* cutting at the index found and gluing gives the text back: substring(s,0,i) ++ substring(s,i) = s *)
Theorem C16_units_cut : forall s t i,
  find s t = Some i -> t <> [] ->
  exists p r, substring3 s 0 (Z.of_N i) = RVal p /\ substring2 s (Z.of_N i) = RVal r /\ s = p ++ r /\
              is_prefix t r = true.
Proof. exact units_cut. Qed.
(* length(substring(s, a, b)) = b - a in the unit of `length` *)
Theorem C16_substr_length : forall s a b m,
  substring3 s a b = RVal m -> Z.of_N (blen m) = (b - a)%Z.
Proof. exact substring3_length. Qed.

(* ---- split ------------------------------------------------------------------------------------- *)

Theorem C16_split : forall s t, join t (split s t) = s.
Proof. exact split_join. Qed.
Theorem C16_split_cmd : forall s t rest, cmd_split (s :: t :: rest) = RList (split s t).
Proof. reflexivity. Qed.
Theorem C16_split_pieces : forall s t,
  t <> [] -> Forall (fun p => contains p t = false) (split s t).
Proof. exact split_pieces. Qed.

(* split, recursively: no separator -> one piece; otherwise cut at the FIRST occurrence and go on
   after it (leftmost, non-overlapping).  Together with C16_indexof this determines split. *)
Theorem C16_split_rec : forall s t,
  t <> [] ->
  (find s t = None -> split s t = [s]) /\
  (forall p q, s = p ++ t ++ q -> find s t = Some (blen p) -> split s t = p :: split q t).
Proof. exact split_rec. Qed.

(* ---- substring --------------------------------------------------------------------------------- *)

(* Ok exactly on in-range char-boundary offsets, and then the byte slice [a, b) *)
Theorem C16_substr : forall s a b m,
  substring3 s a b = RVal m <->
  (0 <= a <= b)%Z /\ (b <= Z.of_N (blen s) - 1)%Z /\
  exists p q, s = p ++ m ++ q /\ Z.of_N (blen p) = a /\ Z.of_N (blen (p ++ m)) = b.
Proof. exact substring3_spec. Qed.
(* otherwise the error result — never a panic, never another value *)
Theorem C16_substr_total : forall s a b,
  (exists m, substring3 s a b = RVal m) \/ (exists k, substring3 s a b = RErr k).
Proof. exact substring3_total. Qed.
Theorem C16_substr1 : forall s, substring1 s = RVal s.
Proof. exact substring1_spec. Qed.
Theorem C16_substr2 : forall s v m,
  substring2 s v = RVal m <->
  ((0 <= v <= Z.of_N (blen s) - 1)%Z /\ exists p, s = p ++ m /\ Z.of_N (blen p) = v) \/
  ((v < 0)%Z /\ exists q, s = m ++ q /\ Z.of_N (blen q) = (- v)%Z).
Proof. exact substring2_spec. Qed.
(* whatever the argument list (any count, non-numeric, huge): a value or an error *)
Theorem C16_substr_cmd_nopanic : forall args,
  (exists m, cmd_substring args = RVal m) \/ (exists k, cmd_substring args = RErr k).
Proof. exact cmd_substring_total. Qed.
Theorem C16_substr_cmd3 : forall s a b rest st en,
  parse_isize a = Some st -> parse_isize b = Some en ->
  cmd_substring (s :: a :: b :: rest) = substring3 s st en.
Proof. exact cmd_substring3. Qed.

Theorem C16_substr_cmd : forall s a b rest m,
  cmd_substring (s :: a :: b :: rest) = RVal m <->
  exists st en, parse_isize a = Some st /\ parse_isize b = Some en /\ substring3 s st en = RVal m.
Proof. exact cmd_substring3_iff. Qed.

(* ---- range ------------------------------------------------------------------------------------- *)

Theorem C16_range : forall sa sb rest l,
  cmd_range (sa :: sb :: rest) = RList l <->
  exists a b, parse_i64 sa = Some a /\ parse_i64 sb = Some b /\ (a <= b)%Z /\
              l = map show_Z (zrange a b).
Proof. exact cmd_range_spec. Qed.
(* [zrange a b] is the half-open interval: b - a elements, the k-th is a + k *)
Theorem C16_range_interval : forall a b,
  length (zrange a b) = Z.to_nat (b - a) /\
  (forall k, (k < Z.to_nat (b - a))%nat -> nth_error (zrange a b) k = Some (a + Z.of_nat k)%Z) /\
  (forall x, In x (zrange a b) <-> (a <= x < b)%Z).
Proof. exact (fun a b => conj (zrange_length a b) (conj (zrange_nth a b) (zrange_in a b))). Qed.
Theorem C16_range_errors : forall sa sb rest,
  (cmd_range (sa :: sb :: rest) = RErr 4 <-> parse_i64 sa = None \/ parse_i64 sb = None) /\
  (cmd_range (sa :: sb :: rest) = RErr 13 <->
     exists a b, parse_i64 sa = Some a /\ parse_i64 sb = Some b /\ (b < a)%Z) /\
  (forall k, cmd_range (sa :: sb :: rest) = RErr k -> k = 4 \/ k = 13) /\
  cmd_range [] = RErr 14 /\ cmd_range [sa] = RErr 14.
Proof. exact cmd_range_errors. Qed.

(* ---- numbers: str::parse and to_string --------------------------------------------------------- *)

Theorem C16_parse_show : forall lo hi z, (lo <= z <= hi)%Z -> parse_int lo hi (show_Z z) = Some z.
Proof. exact parse_int_show_Z. Qed.
Theorem C16_parse_range : forall lo hi s z, parse_int lo hi s = Some z -> (lo <= z <= hi)%Z.
Proof. exact parse_int_range. Qed.

(* the exact language of str::parse::<isize / i64>: one optional sign, at least one ASCII digit,
   nothing else, value inside the type *)
Theorem C16_parse_grammar : forall lo hi s z,
  parse_int lo hi s = Some z <->
  exists sg ds n, s = sg ++ ds /\ (sg = [] \/ sg = [43] \/ sg = [45]) /\ ds <> [] /\
                  forallb is_digit ds = true /\ digits_val ds = Some n /\
                  z = sign_of sg n /\ (lo <= z <= hi)%Z.
Proof. exact parse_int_grammar. Qed.

(* ---- length, indexof, last_indexof ------------------------------------------------------------- *)

Theorem C16_length : forall s rest p q,
  cmd_length (s :: rest) = RVal (show_N (blen s)) /\ blen (p ++ q) = blen p + blen q.
Proof. exact (fun s rest p q => conj eq_refl (blen_app p q)). Qed.
Theorem C16_length_bounds : forall s, N.of_nat (length s) <= blen s <= 4 * N.of_nat (length s).
Proof. exact blen_length. Qed.
(* the byte offset of the first occurrence *)
Theorem C16_indexof : forall s t i,
  find s t = Some i <->
  exists p q, s = p ++ t ++ q /\ blen p = i /\
              forall p' q', s = p' ++ t ++ q' -> (length p <= length p')%nat.
Proof. exact find_spec. Qed.
Theorem C16_indexof_none : forall s t, find s t = None <-> forall p q, s <> p ++ t ++ q.
Proof. exact find_none_spec. Qed.
(* the byte offset of the last occurrence *)
Theorem C16_last_indexof : forall s t i,
  rfind s t = Some i <->
  exists p q, s = p ++ t ++ q /\ blen p = i /\
              forall p' q', s = p' ++ t ++ q' -> (length p' <= length p)%nat.
Proof. exact rfind_spec. Qed.
Theorem C16_last_indexof_none : forall s t, rfind s t = None <-> forall p q, s <> p ++ t ++ q.
Proof. exact rfind_none_spec. Qed.

(* ---- tests ------------------------------------------------------------------------------------- *)

Theorem C16_contains : forall s t, contains s t = true <-> exists p q, s = p ++ t ++ q.
Proof. exact contains_spec. Qed.
Theorem C16_starts_with : forall s t, starts_with s t = true <-> exists q, s = t ++ q.
Proof. exact starts_with_spec. Qed.
Theorem C16_ends_with : forall s t, ends_with s t = true <-> exists p, s = p ++ t.
Proof. exact ends_with_spec. Qed.
Theorem C16_equals : forall s t rest,
  cmd_equals (s :: t :: rest) = of_bool (str_eqb s t) /\ (str_eqb s t = true <-> s = t).
Proof. exact (fun s t rest => conj eq_refl (str_eqb_eq s t)). Qed.
Theorem C16_is_empty : forall s rest,
  cmd_is_empty [] = of_bool true /\ (cmd_is_empty (s :: rest) = of_bool true <-> s = []).
Proof. exact is_empty_spec. Qed.
Theorem C16_concat : forall args, cmd_concat args = RVal (concat args).
Proof. exact cmd_concat_spec. Qed.

(* ---- replace ----------------------------------------------------------------------------------- *)

Theorem C16_replace : forall s f t, replace s f t = join t (split s f).
Proof. exact replace_spec. Qed.
Theorem C16_replace_absent : forall s f t, contains s f = false -> replace s f t = s.
Proof. exact replace_absent. Qed.
Theorem C16_replace_same : forall s f, replace s f f = s.
Proof. exact replace_same. Qed.

(* ---- trim -------------------------------------------------------------------------------------- *)

(* trim s is the unique middle part with non-white-space ends between two white-space runs *)
Theorem C16_trim : forall s,
  (exists l r, s = l ++ trim s ++ r /\ all_ws l /\ all_ws r /\ edges_not_ws (trim s)) /\
  (forall l m r, s = l ++ m ++ r -> all_ws l -> all_ws r -> edges_not_ws m -> trim s = m).
Proof. exact (fun s => conj (trim_exists s) (trim_unique s)). Qed.
Theorem C16_trim_start : forall s,
  (exists l, s = l ++ trim_start s /\ all_ws l /\ head_not_ws (trim_start s)) /\
  (forall l m, s = l ++ m -> all_ws l -> head_not_ws m -> trim_start s = m).
Proof. exact (fun s => conj (trim_start_exists s) (trim_start_unique s)). Qed.
Theorem C16_trim_end : forall s,
  (exists r, s = trim_end s ++ r /\ all_ws r /\ head_not_ws (rev (trim_end s))) /\
  (forall m r, s = m ++ r -> all_ws r -> head_not_ws (rev m) -> trim_end s = m).
Proof. exact (fun s => conj (trim_end_exists s) (trim_end_unique s)). Qed.

(* ---- less_than / greater_than, calc: model-level statements (partial, see header) ------------- *)

Theorem C16_compare_partial : forall gt a b n1 d1 e1 n2 d2 e2 x y,
  parse_dec a = DNum n1 d1 e1 -> parse_dec b = DNum n2 d2 e2 ->
  dec_norm n1 d1 e1 = Some x -> dec_norm n2 d2 e2 = Some y ->
  exists r, cmd_compare gt [a; b] = of_bool r /\
            (r = true <-> if gt then QArith_base.Qlt (qval y) (qval x) else QArith_base.Qlt (qval x) (qval y)).
Proof. exact cmd_compare_spec. Qed.
Theorem C16_compare_errors : forall gt,
  (forall args, (forall a b, args <> [a; b]) -> cmd_compare gt args = RErr 12) /\
  (forall a b, parse_dec a = DBad \/ parse_dec b = DBad -> cmd_compare gt [a; b] = RErr 4).
Proof. exact (fun gt => conj (cmd_compare_errors gt) (cmd_compare_nonnumeric gt)). Qed.
Theorem C16_calc_partial : forall e v,
  cmd_calc_expr e = RVal v -> exists z, denote e = Some z /\ v = show_Z z /\ (- two53 <= z <= two53)%Z.
Proof. exact cmd_calc_sound. Qed.

(* ---- the executable specifications used as oracles are the model ------------------------------- *)

Theorem C16_spec_find : forall s t, spec_find s t = find s t.
Proof. exact spec_find_eq. Qed.
Theorem C16_spec_rfind : forall s t, spec_rfind s t = rfind s t.
Proof. exact spec_rfind_eq. Qed.
Theorem C16_spec_slice : forall s a b, spec_slice s a b = slice_bytes s a b.
Proof. exact spec_slice_eq. Qed.
(* [slice_bytes] is str::get(a..b): Some exactly for two char boundaries a <= b *)
Theorem C16_slice : forall s a b m,
  slice_bytes s a b = Some m <-> exists p q, s = p ++ m ++ q /\ blen p = a /\ blen (p ++ m) = b.
Proof. exact slice_bytes_spec. Qed.

(* ---- out-of-domain inputs give the error result, not a panic ----------------------------------- *)

Theorem C16_never_ood : forall args,
  defined (cmd_length args) /\ defined (cmd_indexof args) /\ defined (cmd_last_indexof args) /\
  defined (cmd_substring args) /\ defined (cmd_contains args) /\ defined (cmd_starts_with args) /\
  defined (cmd_ends_with args) /\ defined (cmd_equals args) /\ defined (cmd_is_empty args) /\
  defined (cmd_concat args) /\ defined (cmd_replace args) /\ defined (cmd_split args) /\
  defined (cmd_trim args) /\ defined (cmd_trim_start args) /\ defined (cmd_trim_end args) /\
  defined (cmd_range args).
Proof. exact string_family_defined. Qed.

(* ---- non-vacuity: the F2 witnesses and a multi-byte example ------------------------------------ *)

Theorem C16_nonvacuous :
  substring3 w_hello_acute 0 2 = RErr 10 /\                     (* inside the two-byte é *)
  cmd_substring [w_hello; [45; 49]; [50]] = RErr 7 /\           (* substring hello -1 2 *)
  find w_hello_acute [108] = Some 3 /\                          (* l is at byte 3, character 2 *)
  substring3 w_hello_acute 0 3 = RVal [104; 233] /\
  cmd_length [w_hello_acute] = RVal [54] /\
  split [97; 44; 98; 44] [44] = [[97]; [98]; []] /\
  cmd_range [[45; 49]; [50]] = RList [[45; 49]; [48]; [49]].
Proof. exact nonvacuous_examples. Qed.
