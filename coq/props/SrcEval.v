(* SrcEval — the models of duckscript_sdk/src/utils/eval.rs the theorems of C09 / C10 / C19 are about ARE the
   current source.  coq/generated/GenEvalFn.v is regenerated on every run from eval.rs (fn parse, fn eval_instructions)
   by the translator lib/rs2v.py (class FnE, client lib/gen/eval_gen.py); the hand models are
     EvalSer.serialise_arg / serialise / eval_parse and EvalSerIx.eval_parse_ix   (C09: what if / while / not / alias
                                                                                   commands rebuild from argument values),
     SdkErr.eval_instructions                                                     (C10 alias flow, C19 script bodies:
                                                                                   the nested mini-runner).
   One flag per translated group; a group the translator does not understand makes only its own theorems vacuous.
   What the generated definitions take from the generator's configuration instead of the source (the world value
   for the `&mut` parameters, Runner.run_instruction / ParserIx.parse_text as callees, the ghost call list, fuel) is
   listed in lib/gen/eval_gen.py.  Property theorems only. *)
Require Import DS.Base DS.Parser DS.ParserIx DS.Rs2vLib DS.Rs2vLib2 DS.EvalSer DS.EvalSerIx DS.Rs2vEvalRunLib DS.EvalGenTie.
Require DS.Runner DS.SdkErr.
Require Import DSG.GenEvalFn.

(* fn parse, the body of `for argument in arguments`: the quoting rules of ONE argument and the blank behind it *)
Theorem Src_eval_line_body : gen_eval_line_understood = true ->
  forall st argument, gen_eval_line_body st argument = st ++ (serialise_arg argument ++ [c_sp]).
Proof. exact gen_eval_line_body_eq. Qed.
Print Assumptions Src_eval_line_body.

(* fn parse, `line_str`: the loop over all arguments, then CR and LF removed and every back-slash doubled *)
Theorem Src_eval_line : gen_eval_line_understood = true ->
  forall arguments, gen_eval_line arguments = serialise arguments.
Proof. exact gen_eval_line_eq. Qed.
Print Assumptions Src_eval_line.

(* fn parse as a whole against the index-faithful model: parse_text, `instructions[0]` (panic on an empty vector),
   the error arm *)
Theorem Src_eval_parse_ix : gen_eval_parse_understood = true -> gen_eval_line_understood = true ->
  forall arguments, gen_eval_parse arguments = eval_parse_ix arguments.
Proof. exact gen_eval_parse_ix_eq. Qed.
Print Assumptions Src_eval_parse_ix.

(* ... and against the suffix-style model C09_roundtrip is about *)
Theorem Src_eval_parse : gen_eval_parse_understood = true -> gen_eval_line_understood = true ->
  forall arguments, gen_eval_parse arguments = eval_parse arguments.
Proof. exact gen_eval_parse_eq. Qed.
Print Assumptions Src_eval_parse.

(* fn eval_instructions: the translated loop body driven by loop_fuel is the hand model's fuelled fixpoint, from every
   line, state, pending output and call history; running out of fuel on one side is running out of fuel on the other *)
Theorem Src_eval_instructions_loop : gen_eval_instructions_understood = true ->
  forall cstate exists_cmd cmd body fuel line w flow_output calls,
    ires_map ei_out (loop_fuel (gen_eval_instructions_step cstate exists_cmd cmd body) fuel (line, flow_output, None, w, calls))
    = match SdkErr.eval_instructions cstate exists_cmd cmd fuel body line w flow_output calls with
      | Some o => IOk o
      | None => IErr EFuel
      end.
Proof. exact gen_eval_instructions_loop. Qed.
Print Assumptions Src_eval_instructions_loop.

(* the function itself: locals initialised, the loop, the result pair *)
Theorem Src_eval_instructions : gen_eval_instructions_understood = true ->
  forall cstate exists_cmd cmd fuel body start_line w calls,
    gen_eval_instructions cstate exists_cmd cmd fuel body start_line w calls
    = match SdkErr.eval_instructions cstate exists_cmd cmd fuel body start_line w None calls with
      | Some o => IOk (SdkErr.eo_result cstate o, SdkErr.eo_output cstate o, SdkErr.eo_w cstate o, SdkErr.eo_calls cstate o)
      | None => IErr EFuel
      end.
Proof. exact gen_eval_instructions_eq. Qed.
Print Assumptions Src_eval_instructions.

(* `instructions[line]` of the translated step stands under its bounds test: the step never panics (and has no error exit) *)
Theorem Src_eval_instructions_step_no_panic : gen_eval_instructions_understood = true ->
  forall cstate exists_cmd cmd body st,
    gen_eval_instructions_step cstate exists_cmd cmd body st <> SPanic /\
    forall e, gen_eval_instructions_step cstate exists_cmd cmd body st <> SFail e.
Proof. exact gen_eval_instructions_step_no_panic. Qed.
Print Assumptions Src_eval_instructions_step_no_panic.
