(* C12 — arrays, maps and sets behind handles behave like their plain counterparts.
   Property theorems only; every proof is [exact <lemma>] (CollectionsProof.v).

   M  = Collections.v      : put_handle, mutate_list/map/set (take out, match on the kind, run the
                             closure, put back), every native command, remove_handle_recursive.
   S  = CollectionsSpec.v  : [spec c args s] says what a command does to the collections
                             (SKeep / SUpd one collection / SNew fresh handle / SDel release) with
                             plain list, finite-map and finite-set operations.
   Oracles (universally quantified in every theorem): [rnd i] the i-th key drawn by put_handle,
   [ord n l] the iteration order of a HashMap/HashSet.  Where needed the hypotheses are
   "rnd is injective" (no key is drawn twice) and "ord n l is a permutation of l".

   All nine commands implemented by a script.ds are translated by hand into compositions of the
   native models (CollectionsScripts.v, CollectionsJoin.v) and proved against the specification
   (C12_refines_script, C12_refines_array_contains, C12_refines_set_from_array,
   C12_refines_array_concat, C12_refines_map_contains_value, C12_refines_array_join — the last one
   on the arguments outside the F7 classes, with C12_array_join_F7_refuted for the rest); the
   translations, like the native models, are tied to the code by the correspondence run. *)
From stdpp Require Import gmap list.
From Coq Require Import NArith ZArith.
Require Import DS.Collections DS.CollectionsScripts DS.CollectionsSpec DS.CollectionsTables DS.CollectionsProof.
Require Import DS.CollectionsJoin DS.CollectionsJoinProof.
Require DS.Utf8 DS.Strings DS.Expansion DS.EvalSer.
Require DSG.GenCollections.

(* the table regenerated from the source (directory, aliases, script-or-native, minimal argument
   count, which mutate_* helper / StateValue arm) is the one the model is written for *)
Theorem C12_tables :
  DSG.GenCollections.gen_c12_understood && all2 row_ok all_cmds DSG.GenCollections.gen_c12_cmds = true.
Proof. exact gen_table_ok. Qed.
(* with fewer arguments than the table says every command refuses, whatever the state *)
Theorem C12_short_args : forall ord c args s,
  (length args < cmd_min_args c)%nat -> is_short c (spec ord c args s) = true.
Proof. exact short_args. Qed.

(* every native command, on every state and argument list, computes exactly what the
   specification says — output and handle table — and neither panics nor runs out of fuel *)
Theorem C12_refines : forall rnd ord c args s,
  native c = true -> step_m rnd ord c args s = Some (Done (step_s rnd ord c args s)).
Proof. exact refines_step. Qed.

(* ... hence for every sequence of native commands all outputs and the final contents agree *)
Theorem C12_refines_run : forall rnd ord ops s,
  Forall (fun o => native o.1 = true) ops -> run_h rnd ord ops s = Done (run_s rnd ord ops s).
Proof. exact refines_run. Qed.

(* the four loop-free script commands (array_is_empty, map_is_empty, set_is_empty, map_contains_key),
   translated by hand into compositions of the native models (CollectionsScripts.v), compute what
   the specification says; histories over natives and these four agree with the specification *)
Theorem C12_refines_script : forall rnd ord c args s o,
  loop_free_script c = true -> step_script rnd ord c args s = Some o -> o = Done (step_s rnd ord c args s).
Proof. exact refines_script. Qed.
(* array_contains, translated with its for-in loop (the handle variable is expanded again at every
   test, the script blanks it to leave the loop): the least index holding the value, or "false" —
   provided the empty string is not the name of a live collection, which holds in every reachable
   state when no drawn key is empty *)
Theorem C12_refines_array_contains : forall rnd ord args s,
  hs s !! ([] : str) = None ->
  script_array_contains args s = Done (step_s rnd ord CArrayContains args s).
Proof. exact rs_array_contains. Qed.
(* set_from_array, translated with its loop of set_put calls: a new set holding exactly the items —
   provided the key drawn for it is not live, which holds in every reachable state (C12_distinct) *)
Theorem C12_refines_set_from_array : forall rnd ord args s,
  hs s !! rnd (draws s) = None ->
  script_set_from_array rnd args s = Done (step_s rnd ord CSetFromArray args s).
Proof. exact rs_set_from_array. Qed.
(* array_concat, translated with its three loops, computes the as-is definition concat_asis (which is
   the specification unless an earlier call failed: C12_F6_confined) — provided the key drawn for
   the result is neither live nor one of the arguments *)
Theorem C12_refines_array_concat : forall rnd (ord : nat -> list str -> list str) args s,
  hs s !! rnd (draws s) = None -> rnd (draws s) ∉ args ->
  script_array_concat rnd args s = Done (concat_asis rnd args s).
Proof. exact rs_array_concat. Qed.
(* map_contains_value, translated with its loop over a temporary key array: the answer of the
   specification, and the handle table is what it was (the key array is released on every path) *)
Theorem C12_refines_map_contains_value : forall rnd ord args s,
  (forall n l, ord n l ≡ₚ l) -> hs s !! rnd (draws s) = None -> hs s !! ([] : str) = None ->
  exists s', script_map_contains_value rnd ord args s
             = Done ((step_s rnd ord CMapContainsValue args s).1, s') /\
             hs s' = hs s /\ stale s' = stale s.
Proof. exact rs_map_contains_value. Qed.
(* array_join, translated with the models of C09 (what `if not <cmd> <arg>` hands to <cmd>:
   EvalSer.eval_call, twice) and C16 (strlen, calc, substring in bytes): for every variable
   environment, when both arguments are in none of the classes of finding F7 (ok_arg = safe, not E,
   not W) and the text built by the loop is below 2^53 bytes (where `calc` is exact), the script
   answers exactly the plain join — multi-byte and empty items and separators included: the
   trailing separator is cut at a byte offset that is a character boundary, and `substring`'s
   end <= len - 1 test holds because the separator is not empty *)
Theorem C12_refines_array_join : forall rnd ord e a1 a2 rest s,
  ok_arg a1 = true -> ok_arg a2 = true ->
  (forall l, look_list (hs s) a1 = Found l ->
     (Z.of_N (DS.Utf8.blen (with_trailing a2 (elem_str <$> l))) <= DS.Strings.two53)%Z) ->
  script_array_join e (a1 :: a2 :: rest) s
  = Some (Done (step_s rnd ord CArrayJoin (a1 :: a2 :: rest) s)).
Proof. exact rs_array_join. Qed.
(* outside that domain the literal statement is false (known finding F7): separators `#` (class H)
   and QUOTE SPACE x (class Q) keep a trailing separator *)
Theorem C12_array_join_F7_refuted :
  DS.EvalSer.cls_H [35%N] = true /\ ok_arg [35%N] = false /\
  jout (script_array_join DS.Expansion.env_empty [jh; [35%N]] jst) = Some (Cont (Some [97; 35; 98; 35]%N)) /\
  (step_s rnd0 ord0 CArrayJoin [jh; [35%N]] jst).1 = Cont (Some [97; 35; 98]%N) /\
  DS.EvalSer.cls_Q [34; 32; 120]%N = true /\
  jout (script_array_join DS.Expansion.env_empty [jh; [34; 32; 120]%N] jst)
    = Some (Cont (Some [97; 34; 32; 120; 98; 34; 32; 120]%N)).
Proof. exact array_join_F7_refuted. Qed.
(* non-vacuity inside the domain: items é, "", -7 (a range item), U+1F600 joined with "€ " *)
Theorem C12_array_join_example :
  let st := MS (<[jh := HList [EStr [233%N]; EStr []; ENum (-7); EStr [128512%N]]]> ∅) 1 None in
  ok_arg jh = true /\ ok_arg [8364%N; 32%N] = true /\
  jout (script_array_join DS.Expansion.env_empty [jh; [8364%N; 32%N]] st)
  = Some (Cont (Some [233; 8364; 32; 8364; 32; 45; 55; 8364; 32; 128512]%N)).
Proof. exact array_join_example. Qed.
Theorem C12_no_empty_handle : forall rnd ord s,
  (forall i, rnd i <> []) -> reachable rnd ord s -> hs s !! ([] : str) = None.
Proof. exact reachable_no_empty. Qed.
Theorem C12_refines_run_proved : forall rnd ord ops s,
  Forall (fun o => proved o.1 = true) ops -> run_h rnd ord ops s = Done (run_s rnd ord ops s).
Proof. exact refines_run_proved. Qed.

Theorem C12_nopanic : forall rnd ord c args s o,
  step_m rnd ord c args s = Some o -> exists r, o = Done r.
Proof. exact native_no_panic. Qed.

(* a command given a handle that is released, unknown or of the wrong kind reports an error or
   "false" and changes nothing at all (SKeep) — natives and script-implemented commands alike *)
Theorem C12_mismatch : forall ord c k h rest s,
  wants c = Some k -> kind_at (hs s) h <> Some k ->
  exists r, spec ord c (h :: rest) s = SKeep r /\ refused r.
Proof. exact mismatch. Qed.
(* for the model of the native commands: the state is returned unchanged *)
Theorem C12_mismatch_native : forall rnd ord c k h rest s,
  native c = true -> wants c = Some k -> kind_at (hs s) h <> Some k ->
  exists r, step_m rnd ord c (h :: rest) s = Some (Done (r, s)) /\ refused r.
Proof. exact mismatch_native. Qed.
Theorem C12_mismatch_release : forall rnd ord h s,
  hs s !! h = None ->
  step_s rnd ord CRelease [h] s = (Cont (Some s_false), s) /\
  step_s rnd ord CRelease [s_dash_r; h] s = (Cont (Some s_false), s) /\
  step_s rnd ord CRelease [s_recursive; h] s = (Cont (Some s_false), s).
Proof. exact release_unknown. Qed.
Theorem C12_mismatch_concat : forall ord args a s,
  a ∈ args -> kind_at (hs s) a <> Some KList -> spec ord CArrayConcat args s = SKeep (Error ETrigger).
Proof. exact concat_mismatch. Qed.

(* recursive release terminates on every store (cyclic or not) ... *)
Theorem C12_release_total : forall st key,
  exists b st', release_recursive st key = Done (b, st') /\ st' ⊆ st.
Proof. exact release_recursive_total. Qed.
(* ... reports whether the handle was live, and removes exactly the handles reachable from it
   through strings stored in live collections (whatever the iteration order of sets and maps) *)
Theorem C12_release : forall st key b st',
  release_recursive st key = Done (b, st') ->
  b = bool_decide (is_Some (st !! key)) /\
  forall h, (reach st key h -> st' !! h = None) /\ (~ reach st key h -> st' !! h = st !! h).
Proof. exact release_exact. Qed.
(* non-vacuity: a store with a cycle A -> B -> A and an unrelated C *)
Theorem C12_release_cyclic :
  let o := release_recursive cyc hA in
  rel_flag o = Some true /\ kind_at (rel_store o) hA = None /\ kind_at (rel_store o) hB = None /\
  kind_at (rel_store o) hC = Some KMap /\ reach cyc hA hB /\ reach cyc hB hA.
Proof. exact release_cyclic. Qed.

(* handles are distinct while live: in every state reachable from the empty table a newly
   allocated handle is not the name of a live collection, it is what the command returns, and every
   live collection keeps its contents *)
Theorem C12_distinct : forall rnd ord,
  (forall i j, rnd i = rnd j -> i = j) ->
  forall s c args v, reachable rnd ord s -> spec ord c args s = SNew v ->
  let h := rnd (draws s) in
  hs s !! h = None /\
  step_s rnd ord c args s = (Cont (Some h), MS (<[h := v]> (hs s)) (S (draws s)) (stale s)) /\
  forall h', is_Some (hs s !! h') -> hs (step_s rnd ord c args s).2 !! h' = hs s !! h'.
Proof. exact fresh_handle. Qed.

(* a command that updates a collection changes no other collection *)
Theorem C12_frame : forall rnd ord s c args r h v h',
  spec ord c args s = SUpd r h v -> h' <> h -> hs (step_s rnd ord c args s).2 !! h' = hs s !! h'.
Proof. exact frame. Qed.

(* values are stored and returned verbatim *)
Theorem C12_verbatim_array : forall rnd ord s h l vs,
  look_list (hs s) h = Found l ->
  let s' := (step_s rnd ord CArrayPush (h :: vs) s).2 in
  look_list (hs s') h = Found (l ++ (EStr <$> vs)) /\
  forall j v i, vs !! j = Some v -> parse_usize i = Some (N.of_nat (length l + j)) ->
    step_s rnd ord CArrayGet [h; i] s' = (Cont (Some v), s').
Proof. exact verbatim_array. Qed.
Theorem C12_verbatim_map : forall rnd ord s h m k v,
  look_map (hs s) h = Found m ->
  let s' := (step_s rnd ord CMapPut [h; k; v] s).2 in
  step_s rnd ord CMapGet [h; k] s' = (Cont (Some v), s').
Proof. exact verbatim_map. Qed.
Theorem C12_verbatim_set : forall rnd ord s h x vs v,
  look_set (hs s) h = Found x -> v ∈ vs ->
  let s' := (step_s rnd ord CSetPut (h :: vs) s).2 in
  step_s rnd ord CSetContains [h; v] s' = (Cont (Some s_true), s').
Proof. exact verbatim_set. Qed.

(* a length printed by array_length parses back as the index it denotes; pushed values are read
   back verbatim at the indexes following the old length *)
Theorem C12_parse_dec : forall n, (n < 18446744073709551616)%N -> parse_usize (dec_N n) = Some n.
Proof. exact parse_usize_dec. Qed.
Theorem C12_verbatim_array_dec : forall rnd ord s h l vs,
  look_list (hs s) h = Found l -> (N.of_nat (length l + length vs) < 18446744073709551616)%N ->
  let s' := (step_s rnd ord CArrayPush (h :: vs) s).2 in
  step_s rnd ord CArrayLength [h] s' = (Cont (Some (dec_nat (length l + length vs))), s') /\
  forall j v, vs !! j = Some v ->
    step_s rnd ord CArrayGet [h; dec_nat (length l + j)] s' = (Cont (Some v), s').
Proof. exact verbatim_array_dec. Qed.

(* map_keys lists exactly the keys, in an unspecified order *)
Theorem C12_keys_perm : forall ord,
  (forall n l, ord n l ≡ₚ l) ->
  forall s h m, look_map (hs s) h = Found m ->
  exists ks, spec ord CMapKeys [h] s = SNew (HList (EStr <$> ks)) /\ ks ≡ₚ (map_to_list m).*1.
Proof. exact keys_perm. Qed.
Theorem C12_members_perm : forall ord,
  (forall n l, ord n l ≡ₚ l) ->
  forall s h x, look_set (hs s) h = Found x ->
  exists ks, spec ord CSetToArray [h] s = SNew (HList (EStr <$> ks)) /\ ks ≡ₚ elements x.
Proof. exact members_perm. Qed.

(* what the specification of three loop scripts means in plain terms *)
Theorem C12_array_contains_least : forall v l i n,
  find_index v l i = Some n <->
  exists j, n = (i + j)%nat /\ elem_str <$> l !! j = Some v /\
            forall j', (j' < j)%nat -> elem_str <$> l !! j' <> Some v.
Proof. exact find_index_spec. Qed.
Theorem C12_array_contains_none : forall v l i, find_index v l i = None <-> v ∉ (elem_str <$> l).
Proof. exact find_index_none. Qed.
Theorem C12_map_contains_value_spec : forall (v : str) (m : gmap str elem),
  v ∈ map_values m <-> exists k e, m !! k = Some e /\ elem_str e = v.
Proof. exact map_values_spec. Qed.
Theorem C12_set_from_array_spec : forall (l : list elem) (v : str),
  v ∈ (list_to_set (elem_str <$> l) : gset str) <-> exists e, e ∈ l /\ elem_str e = v.
Proof. exact set_from_array_spec. Qed.

(* the oracle hypotheses are satisfiable *)
Theorem C12_oracles_exist :
  exists (rnd : nat -> handle) (ord : nat -> list str -> list str),
    (forall i j, rnd i = rnd j -> i = j) /\ (forall n l, ord n l ≡ₚ l).
Proof. exact oracles_exist. Qed.

(* known finding F6, as a statement about the as-is definition of array_concat: after
   `a = array x ; array_concat ${a} n` (an error) the call `array_concat n` returns a new array,
   where the specification says it is an error *)
(* ... and the deviation is confined to that situation: when no earlier array_concat failed during
   validation (stale = None) the as-is definition and the specification agree *)
Theorem C12_F6_confined : forall rnd ord args s,
  stale s = None ->
  (concat_asis rnd args s).1 = (step_s rnd ord CArrayConcat args s).1 /\
  hs (concat_asis rnd args s).2 = hs (step_s rnd ord CArrayConcat args s).2 /\
  draws (concat_asis rnd args s).2 = draws (step_s rnd ord CArrayConcat args s).2.
Proof. exact concat_asis_fresh. Qed.
Theorem C12_F6_witness :
  let nope : str := [110%N] in
  let s1 := (step_s rnd0 ord0 CArray [[120%N]] init).2 in
  let s2 := (concat_asis rnd0 [rnd0 0; nope] s1).2 in
  (concat_asis rnd0 [rnd0 0; nope] s1).1 = Error ETrigger /\
  (step_s rnd0 ord0 CArrayConcat [nope] s2).1 = Error ETrigger /\
  (concat_asis rnd0 [nope] s2).1 = Cont (Some (rnd0 1)).
Proof. exact F6_witness. Qed.
