(* C06ix — further property theorems about the index-faithful model of eval_condition_for_slice
   (CondIx.v); C06_ix_total and C06_ix_refines are in props/C06.v.  Property theorems only; every proof
   is [exact <lemma>].  (A separate module so that its `Print Assumptions` run goes in parallel.) *)
Require Import DS.Base DS.Cond DS.CondSpec DS.CondIx DS.CondIxProof.

(* default release profile: the fuel S (length ts) suffices for every token list *)
Theorem C06_ix_terminates : forall ts, eval_slice_ix ts <> IFuel.
Proof. exact eval_slice_ix_terminates. Qed.

(* transfer of C06_eval to the index-faithful model *)
Theorem C06_ix_eval : forall c, wf c -> (Z.of_nat (length (toks c)) < 2147483648)%Z ->
  eval_slice_ix (toks c) = IOk (sem is_true_some c).
Proof. exact eval_slice_ix_sem. Qed.

(* overflow-checked profile (dev builds and the verification harness: `counter + 1` / `counter - 1` panic
   outside the i32 range): same verdicts as the suffix model and no panic below 2^31 tokens *)
Theorem C06_ix_checked : forall ts, (Z.of_nat (length ts) < 2147483648)%Z ->
  eval_slice_ix_checked ts = inj (eval_slice ts) /\ eval_slice_ix_checked ts <> IPanic.
Proof. exact eval_slice_ix_checked_spec. Qed.

(* both length bounds are exact.  Release profile: 2^32 "(" followed by ")" — the wrapping counter is back
   at 0, so the answer is "Unexpected ')'" where the unbounded counter of the suffix model says
   "Missing ')'".  Overflow-checked profile: 2^31 consecutive "(" panic in `counter + 1`.  (Argument
   vectors of >= 96 GiB resp. >= 48 GiB: not executable; proved by induction, not by computation.) *)
Theorem C06_ix_bounds_exact :
  (exists ts, eval_slice_ix ts <> inj (eval_slice ts)) /\ (exists ts, eval_slice_ix_checked ts = IPanic).
Proof. exact bounds_exact. Qed.

(* eval_condition's dispatch: `arguments[0]` is guarded by `is_empty`, `&arguments[..]` is the whole vector;
   for a first word that is not a command the result is the slice evaluator's *)
Theorem C06_ix_dispatch : forall exists_cmd run_stmt,
  (forall args, (forall a, run_stmt a <> SPanic) -> eval_condition_ix exists_cmd run_stmt args <> IPanic) /\
  (forall a0 args, exists_cmd a0 = false ->
     eval_condition_ix exists_cmd run_stmt (a0 :: args) = eval_slice_ix (a0 :: args)).
Proof. exact eval_condition_ix_spec. Qed.
