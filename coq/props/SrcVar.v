(* SrcVar — the variable / scope command models the C11 theorems are about ARE the current source.
   The gen_* functions are regenerated on every run from the `run` functions (impl Command for CommandImpl) of
   duckscript_sdk/src/sdk/std/var/{set, set_by_name, get_by_name, is_defined, get_all_var_names, unset_all_vars}/mod.rs and
   sdk/std/scope/{clear, push_stack, pop_stack}/mod.rs and from push / pop of duckscript_sdk/src/utils/scope.rs by the
   translator lib/rs2v.py (classes PVar / FnVar; lib/gen/var_gen.py); Scope.v holds the hand-written model (m_cmd, m_push,
   m_pop, m_step) that props/C11.v reasons about.  VarGenTie.v's [*_model] functions say which Scope.v command an argument
   vector denotes.  Each theorem is stated under the flag of its own function (stub and `false` when the translator does
   not understand that function any more).

   In the translation every `context.arguments[i]`, the slice `context.arguments[1..]` and a panicking callee are explicit
   [None] / [SPanic] arms; `= Some ..` / `= SOk ..` / `= sres_of ..` say no argument vector and no state reaches one.

   Modelling assumptions of the translation (lib/gen/var_gen.py): HashMap<String,String> is a gmap (iteration order not
   modelled: key lists are observed sorted); `context.state` is modelled by the list stored under "scope_stack" only, as a
   list of variable maps with the map pushed last at the head (ensure_list + mutate_list run the handler on that list:
   checked on utils/state.rs on every run), whose elements are StateValue::Any of a variable map; put_handle's handle is
   observed as its array, sorted, and does not touch the scope stack; callees outside a `run` are parameters (get_output of
   `set`, types/scope.rs::clear, utils::scope::push / pop) — the [_tied] theorems plug in the translations of clear, push
   and pop; message texts are erased.  Property theorems only. *)
Require Import DS.Base.
From stdpp Require Import gmap list sorting.
Require Import DS.Registry DS.Scope DS.VarGenLib DS.VarGenTie.
Require Import DSG.GenVarFn.
Require DSG.GenAliasFn.

(* ---- utils/scope.rs ---------------------------------------------------------------------------------------------- *)
Theorem Src_var_scope_push : gen_scope_push_understood = true ->
  forall copy v st, gen_scope_push copy v st = SOk (m_push (MS v st) copy).
Proof. exact gen_scope_push_eq. Qed.
Print Assumptions Src_var_scope_push.

Theorem Src_var_scope_pop : gen_scope_pop_understood = true ->
  forall copy v st, gen_scope_pop copy v st = sres_of (m_pop (MS v st) copy).
Proof. exact gen_scope_pop_eq. Qed.
Print Assumptions Src_var_scope_pop.

(* ---- the variable commands --------------------------------------------------------------------------------------- *)
Theorem Src_var_set : gen_cmd_set_understood = true ->
  forall get_output args v st, gen_cmd_set get_output args v st = Some (set_model get_output args (MS v st)).
Proof. exact gen_cmd_set_eq. Qed.
Print Assumptions Src_var_set.

Theorem Src_var_set_by_name : gen_cmd_set_by_name_understood = true ->
  forall args v st, gen_cmd_set_by_name args v st = Some (set_by_name_model args (MS v st)).
Proof. exact gen_cmd_set_by_name_eq. Qed.
Print Assumptions Src_var_set_by_name.

Theorem Src_var_get_by_name : gen_cmd_get_by_name_understood = true ->
  forall args v st, gen_cmd_get_by_name args v st = Some (get_by_name_model args (MS v st)).
Proof. exact gen_cmd_get_by_name_eq. Qed.
Print Assumptions Src_var_get_by_name.

Theorem Src_var_is_defined : gen_cmd_is_defined_understood = true ->
  forall args v st, gen_cmd_is_defined args v st = Some (is_defined_model args (MS v st)).
Proof. exact gen_cmd_is_defined_eq. Qed.
Print Assumptions Src_var_is_defined.

Theorem Src_var_get_all_var_names : gen_cmd_get_all_var_names_understood = true ->
  forall args v st, gen_cmd_get_all_var_names args v st = Some (all_names_model args (MS v st)).
Proof. exact gen_cmd_get_all_var_names_eq. Qed.
Print Assumptions Src_var_get_all_var_names.

Theorem Src_var_unset_all_vars : gen_cmd_unset_all_vars_understood = true ->
  forall args v st, gen_cmd_unset_all_vars args v st = Some (unset_all_vars_model args (MS v st)).
Proof. exact gen_cmd_unset_all_vars_eq. Qed.
Print Assumptions Src_var_unset_all_vars.

(* ---- the scope commands: argument handling, for every callee ------------------------------------------------------ *)
Theorem Src_var_clear_scope : gen_cmd_clear_scope_understood = true ->
  forall scope_clear args v st,
    gen_cmd_clear_scope scope_clear args v st =
    Some (match args with [] => (OErr, MS v st) | n :: _ => (ONone, MS (scope_clear n v) st) end).
Proof. exact gen_cmd_clear_scope_eq. Qed.
Print Assumptions Src_var_clear_scope.

Theorem Src_var_scope_push_stack : gen_cmd_scope_push_stack_understood = true ->
  forall scope_push, (forall copy v st, scope_push copy v st = SOk (m_push (MS v st) copy)) ->
  forall args v st, gen_cmd_scope_push_stack scope_push args v st = Some (push_model args (MS v st)).
Proof. exact gen_cmd_scope_push_stack_eq. Qed.
Print Assumptions Src_var_scope_push_stack.

Theorem Src_var_scope_pop_stack : gen_cmd_scope_pop_stack_understood = true ->
  forall scope_pop, (forall copy v st, scope_pop copy v st = sres_of (m_pop (MS v st) copy)) ->
  forall args v st, gen_cmd_scope_pop_stack scope_pop args v st = Some (pop_model args (MS v st)).
Proof. exact gen_cmd_scope_pop_stack_eq. Qed.
Print Assumptions Src_var_scope_pop_stack.

(* ---- the scope commands with the translated callees plugged in ---------------------------------------------------- *)
Theorem Src_var_clear_scope_tied : gen_cmd_clear_scope_understood = true -> GenAliasFn.gen_scope_clear_understood = true ->
  forall args v st, gen_cmd_clear_scope GenAliasFn.gen_scope_clear args v st = Some (clear_scope_model args (MS v st)).
Proof. exact gen_cmd_clear_scope_tied. Qed.
Print Assumptions Src_var_clear_scope_tied.

Theorem Src_var_scope_push_stack_tied : gen_cmd_scope_push_stack_understood = true -> gen_scope_push_understood = true ->
  forall args v st, gen_cmd_scope_push_stack gen_scope_push args v st = Some (push_model args (MS v st)).
Proof. exact gen_cmd_scope_push_stack_tied. Qed.
Print Assumptions Src_var_scope_push_stack_tied.

Theorem Src_var_scope_pop_stack_tied : gen_cmd_scope_pop_stack_understood = true -> gen_scope_pop_understood = true ->
  forall args v st, gen_cmd_scope_pop_stack gen_scope_pop args v st = Some (pop_model args (MS v st)).
Proof. exact gen_cmd_scope_pop_stack_tied. Qed.
Print Assumptions Src_var_scope_pop_stack_tied.
