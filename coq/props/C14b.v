(* C14b — the corollary of C14 about running: a run depends on the instruction list only through
   its erasure (PreProcess instructions read as Empty, meta-information dropped), except for
   reported positions.  Stated on the runner model (Runner.v; instruction type of that file).
   Property theorems only. *)
From stdpp Require Import gmap.
Require Import DS.Base DS.Runner DS.RunnerErase.
Local Open Scope nat_scope.

(* Two programs with the same erasure, run from related contexts with the same fuel, give related
   outcomes ([outcome_sim]): both run out of fuel, or both finish with
     - traces of equal length whose entries have the same instruction index and the same command
       invocations (name, arguments, output variable, line), except that an on_error report
       (message, line, source) may carry the other program's line / source ([event_sim]);
     - the same success reason and related contexts (same variables, same flag, [Rc] on the command
       state), or the same error where each side carries the meta-information of ITS OWN instruction
       at the same index k, k being the last trace entry ([final_sim]).
   Hypotheses: the commands do not look at reported positions — they map [Rc]-related worlds to
   related worlds with equal results, also on_error when only the reported line / source differ.
   With [Rc := eq] and commands that ignore on_error's 2nd and 3rd argument the contexts are equal. *)
Theorem C14_run_erase :
  forall (cstate : Type) (exists_cmd : cstate -> str -> bool)
         (cmd : str -> inv -> world cstate -> result * world cstate) (ext : nat -> bool)
         (Rc : cstate -> cstate -> Prop),
  (forall s1 s2 n, Rc s1 s2 -> exists_cmd s1 n = exists_cmd s2 n) ->
  (forall name a w1 w2, world_sim cstate Rc w1 w2 ->
     fst (cmd name a w1) = fst (cmd name a w2) /\ world_sim cstate Rc (snd (cmd name a w1)) (snd (cmd name a w2))) ->
  (forall m l1 s1 l2 s2 w1 w2, world_sim cstate Rc w1 w2 ->
     fst (cmd on_error_name (Inv [m; l1; s1] None 0) w1) = fst (cmd on_error_name (Inv [m; l2; s2] None 0) w2) /\
     world_sim cstate Rc (snd (cmd on_error_name (Inv [m; l1; s1] None 0) w1))
                         (snd (cmd on_error_name (Inv [m; l2; s2] None 0) w2))) ->
  forall p1 p2 : program, erase p1 = erase p2 ->
  forall fuel w1 w2, world_sim cstate Rc w1 w2 ->
  outcome_sim cstate Rc p1 p2 (run cstate exists_cmd cmd ext fuel p1 w1) (run cstate exists_cmd cmd ext fuel p2 w2).
Proof. exact run_erase. Qed.

(* with the meta-information kept, reading PreProcess instructions as Empty changes nothing at all *)
Theorem C14_run_pre_to_empty :
  forall (cstate : Type) (exists_cmd : cstate -> str -> bool)
         (cmd : str -> inv -> world cstate -> result * world cstate) (ext : nat -> bool) fuel p w,
  run cstate exists_cmd cmd ext fuel (pre_to_empty p) w = run cstate exists_cmd cmd ext fuel p w.
Proof. exact run_pre_to_empty. Qed.
