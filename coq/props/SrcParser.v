(* SrcParser — the token scanner the parser theorems are about IS the current source.
   gen_parse_next_value / gen_pnv_body are regenerated on every run from duckscript/src/parser.rs by the
   translator lib/rs2v.py; ParserIx.parse_next_value is the hand-written index-faithful model that
   C08_refine proves equal to the suffix model of C01 / C08 / C09 / C14.  Property theorems only. *)
Require Import DS.Base DS.Parser DS.ParserIx DS.ParserGenTie.
Require Import DSG.GenParserFn.

Theorem Src_parser_body : gen_pnv_understood = true ->
  forall fl line s, gen_pnv_body fl line s = pnv_body fl line s.
Proof. exact gen_pnv_body_eq. Qed.
Print Assumptions Src_parser_body.

Theorem Src_parser_parse_next_value : gen_pnv_understood = true ->
  forall fl line start_index, gen_parse_next_value fl line start_index = parse_next_value fl line start_index.
Proof. exact gen_parse_next_value_eq. Qed.
Print Assumptions Src_parser_parse_next_value.

(* ---- the REST of parser.rs (builder B8): every function below parse_text is regenerated from the source on every
   run (lib/gen/parser_gen.py -> generated/GenParserRest.v) and proved equal to the hand-written index-faithful model
   (ParserIx.v; ParserIxFns.v for the functions ParserIx folds into their callers).  One flag per function: a function
   the translator no longer understands makes only its own theorem vacuous.  The generated functions call the hand
   versions of the other functions (each tied by its own theorem below). *)
Require Import DS.Rs2vLib2 DS.ParserIxFns DS.ParserGenTie2.
Require Import DSG.GenParserRest.

Theorem Src_parser_parse_next_argument : gen_parse_next_argument_understood = true ->
  forall cac line start_index,
    gen_parse_next_argument cac line start_index
    = ParserIx.parse_next_value (if cac then fl_rearg else fl_arg) line start_index.
Proof. exact gen_parse_next_argument_eq. Qed.
Print Assumptions Src_parser_parse_next_argument.

Theorem Src_parser_parse_arguments_with_options : gen_parse_arguments_with_options_understood = true ->
  forall cac line start_index,
    gen_parse_arguments_with_options cac line start_index
    = ParserIx.parse_arguments_with (if cac then fl_rearg else fl_arg) line start_index.
Proof. exact gen_parse_arguments_with_options_eq. Qed.
Print Assumptions Src_parser_parse_arguments_with_options.

Theorem Src_parser_parse_arguments : gen_parse_arguments_understood = true ->
  forall line start_index, gen_parse_arguments line start_index = ParserIx.parse_arguments line start_index.
Proof. exact gen_parse_arguments_eq. Qed.
Print Assumptions Src_parser_parse_arguments.

Theorem Src_parser_reparse_arguments : gen_reparse_arguments_understood = true ->
  forall line start_index,
    gen_reparse_arguments line start_index = ParserIx.parse_arguments_with fl_rearg line start_index.
Proof. exact gen_reparse_arguments_eq. Qed.
Print Assumptions Src_parser_reparse_arguments.

Theorem Src_parser_find_label : gen_find_label_understood = true ->
  forall line start_index, gen_find_label line start_index = ParserIx.find_label line start_index.
Proof. exact gen_find_label_eq. Qed.
Print Assumptions Src_parser_find_label.

(* the Rust function with its `&mut ScriptInstruction` parameter, for EVERY incoming instruction *)
Theorem Src_parser_find_output_and_command_ins : gen_find_output_and_command_understood = true ->
  forall line start_index ins,
    gen_find_output_and_command line start_index ins = find_output_and_command_ins line start_index ins.
Proof. exact gen_find_output_and_command_ins_eq. Qed.
Print Assumptions Src_parser_find_output_and_command_ins.

(* ... and against ParserIx.find_output_and_command, which returns (index, output, command): equal whenever the
   incoming instruction has no output yet (the only caller passes a fresh ScriptInstruction with at most a label) *)
Theorem Src_parser_find_output_and_command : gen_find_output_and_command_understood = true ->
  forall line start_index ins, si_output ins = None ->
    gen_find_output_and_command line start_index ins =
    match ParserIx.find_output_and_command line start_index with
    | IOk (i, o, c) =>
        IOk (i, {| si_label := si_label ins; si_output := o;
                   si_command := match c with Some _ => c | None => si_command ins end;
                   si_arguments := si_arguments ins |})
    | IErr e => IErr e
    | IPanic => IPanic
    end.
Proof. exact gen_find_output_and_command_eq. Qed.
Print Assumptions Src_parser_find_output_and_command.

Theorem Src_parser_parse_pre_process_line : gen_parse_pre_process_line_understood = true ->
  forall line start_index,
    gen_parse_pre_process_line line start_index = ParserIx.parse_pre_process_line line start_index.
Proof. exact gen_parse_pre_process_line_eq. Qed.
Print Assumptions Src_parser_parse_pre_process_line.

Theorem Src_parser_parse_command_line : gen_parse_command_line_understood = true ->
  forall line start_index,
    gen_parse_command_line line start_index = ParserIx.parse_command_line line start_index.
Proof. exact gen_parse_command_line_eq. Qed.
Print Assumptions Src_parser_parse_command_line.

Theorem Src_parser_parse_line : gen_parse_line_understood = true ->
  forall s, gen_parse_line s = ParserIx.parse_line s.
Proof. exact gen_parse_line_eq. Qed.
Print Assumptions Src_parser_parse_line.

(* the line loop: 1-based line numbers, the instruction of every line, the splice of the pre-processor's output *)
Theorem Src_parser_parse_lines : gen_parse_lines_understood = true ->
  forall inc src text,
    gen_parse_lines inc src text = ParserIx.parse_lines_from inc src 1 (lines text).
Proof. exact gen_parse_lines_eq. Qed.
Print Assumptions Src_parser_parse_lines.
