(* SrcParser — the token scanner the parser theorems are about IS the current source.
   gen_parse_next_value / gen_pnv_body are regenerated on every run from duckscript/src/parser.rs by the
   translator lib/rs2v.py; ParserIx.parse_next_value is the hand-written index-faithful model that
   C08_refine proves equal to the suffix model of C01 / C08 / C09 / C14.  Property theorems only. *)
Require Import DS.Base DS.Parser DS.ParserIx DS.ParserGenTie.
Require Import DSG.GenParserFn.

Theorem Src_parser_body : gen_pnv_understood = true ->
  forall fl line s, gen_pnv_body fl line s = pnv_body fl line s.
Proof. exact gen_pnv_body_eq. Qed.
Print Assumptions Src_parser_body.

Theorem Src_parser_parse_next_value : gen_pnv_understood = true ->
  forall fl line start_index, gen_parse_next_value fl line start_index = parse_next_value fl line start_index.
Proof. exact gen_parse_next_value_eq. Qed.
Print Assumptions Src_parser_parse_next_value.
