(* SrcFlowfor — the for / end_for step functions the C04 / C05 theorems are about ARE the current source.
   gen_store_call_info / gen_get_next_iteration / gen_get_or_create_forin_meta_info_for_line / gen_pop_call_info_for_line /
   gen_forin_run / gen_endforin_run are regenerated on every run from
   duckscript_sdk/src/sdk/std/flowcontrol/forin/mod.rs by the translator lib/rs2v.py (grammar PColl, executor FnSub, client
   lib/gen/flowfor_gen.py — its docstring lists what comes from the source and what from the configuration).

   Two layers (proofs: theories/FlowforGenTie.v, theories/FlowforEmbed.v):
   1. Src_flowfor_<fn>: translation = GVal (g-model), for ALL inputs.  The g-model (theories/FlowforLib.v) is the Rust over a
      state that still carries line_context_name; `GVal` means: no panic (`arguments[i]`, `list[iteration]`), no fuel
      exhaustion of the `loop` of pop_call_info_for_line.
   2. Src_flowfor_model_*: on the states the hand model Flow.v describes — the current line context name is [c] and every
      call-info entry carries [c]: Flow.v omits line_context_name under exactly this assumption — the g-model IS
      Flow.for_meta_info / for_pop_top / for_pop / for_push / get_next_iteration / step_for / step_endfor, lands in such a
      state again, and leaves the components of the Flow.v state it does not contain untouched.  These do not depend on
      the generated file.
   Src_flowfor_flow_*: both layers composed — the translation against Flow.v directly.
   Property theorems only. *)
Require Import DS.Base DS.Cond DS.FlowTables DS.FlowScan DS.Flow DS.FlowforLib DS.FlowforEmbed DS.FlowforGenTie.
Require Import DSG.GenFlowNames DSG.GenFlowforFn.
Open Scope nat_scope.

(* ---- layer 1: translation = g-model ---------------------------------------------------------------------------------- *)
Theorem Src_flowfor_store : gen_store_call_info_understood = true ->
  forall ci gs, gen_store_call_info ci gs = GVal (tt, g_store ci gs).
Proof. exact gen_store_call_info_eq. Qed.
Print Assumptions Src_flowfor_store.

Theorem Src_flowfor_next : gen_get_next_iteration_understood = true ->
  forall iteration handle gs, gen_get_next_iteration iteration handle gs = GVal (g_next iteration handle gs, gs).
Proof. exact gen_get_next_iteration_eq. Qed.
Print Assumptions Src_flowfor_next.

Theorem Src_flowfor_meta_info : gen_get_or_create_forin_meta_info_for_line_understood = true ->
  forall P line gs, gen_get_or_create_forin_meta_info_for_line P line gs = GVal (g_meta_info P line gs).
Proof. exact gen_get_or_create_forin_meta_info_for_line_eq. Qed.
Print Assumptions Src_flowfor_meta_info.

Theorem Src_flowfor_pop :
  gen_store_call_info_understood = true -> gen_pop_call_info_for_line_understood = true ->
  forall line recursive gs, gen_pop_call_info_for_line line recursive gs = GVal (g_pop line recursive gs).
Proof. exact gen_pop_call_info_for_line_eq. Qed.
Print Assumptions Src_flowfor_pop.

(* ForInCommand::run, every argument vector, variable map and state *)
Theorem Src_flowfor_run_for :
  gen_store_call_info_understood = true -> gen_get_next_iteration_understood = true ->
  gen_get_or_create_forin_meta_info_for_line_understood = true -> gen_pop_call_info_for_line_understood = true ->
  gen_forin_run_understood = true ->
  forall P line args vars gs, gen_forin_run P line args vars gs = GVal (g_step_for P line args vars gs).
Proof. exact gen_forin_run_eq. Qed.
Print Assumptions Src_flowfor_run_for.

(* EndForInCommand::run *)
Theorem Src_flowfor_run_endfor :
  gen_store_call_info_understood = true -> gen_pop_call_info_for_line_understood = true -> gen_endforin_run_understood = true ->
  forall P line args vars gs, gen_endforin_run P line args vars gs = GVal (g_step_endfor line vars gs).
Proof. exact gen_endforin_run_eq. Qed.
Print Assumptions Src_flowfor_run_endfor.

(* ---- layer 2: g-model = Flow.v on Flow.v's states (no generated file involved) ---------------------------------------- *)
(* the `loop` of pop_call_info_for_line with the configured fuel is the structural pop *)
Theorem Src_flowfor_model_pop_loop : forall line recursive gs,
  gloop (S (length (gs_stk gs))) (fun g => GVal (g_pop_body line recursive (gs_lcn gs) g)) gs = GVal (g_pop line recursive gs).
Proof. exact g_pop_loop. Qed.
Print Assumptions Src_flowfor_model_pop_loop.

Theorem Src_flowfor_model_pop : forall line recursive c w f,
  g_pop line recursive (embed c (w, f)) =
  let (o, stk) := (if recursive then for_pop else for_pop_top) line (f_forstk f) in
  (option_map (addl c) o, embed c (w, set_forstk stk f)).
Proof. exact embed_pop. Qed.
Print Assumptions Src_flowfor_model_pop.

Theorem Src_flowfor_model_store : forall c e w f, g_store (addl c e) (embed c (w, f)) = embed c (w, for_push e f).
Proof. exact embed_store. Qed.
Print Assumptions Src_flowfor_model_store.

Theorem Src_flowfor_model_next : forall c i h w f, g_next i h (embed c (w, f)) = get_next_iteration i h w.
Proof. exact embed_next. Qed.
Print Assumptions Src_flowfor_model_next.

Theorem Src_flowfor_model_meta_info : forall P line c w f,
  g_meta_info P line (embed c (w, f)) = let (o, f') := for_meta_info P line f in (o, embed c (w, f')).
Proof. exact embed_meta_info. Qed.
Print Assumptions Src_flowfor_model_meta_info.

(* `for x in <handle>`: the arguments are bound before the command runs (Flow.step_for reads the handle variable itself) *)
Theorem Src_flowfor_model_step_for : forall P line x hv c w f,
  g_step_for P line [x; s_in; vval hv w] (w_vars w) (embed c (w, f)) =
  let '(r, (w', f')) := step_for P line x hv (w, f) in (r, w_vars w', embed c (w', f')).
Proof. exact embed_step_for. Qed.
Print Assumptions Src_flowfor_model_step_for.

(* any other argument vector is the model's "arguments of the wrong shape" error; nothing is written *)
Theorem Src_flowfor_model_step_for_invalid : forall P line args vars gs,
  (forall x h, args <> [x; s_in; h]) -> g_step_for P line args vars gs = (RError 10%N, vars, gs).
Proof. exact g_step_for_invalid. Qed.
Print Assumptions Src_flowfor_model_step_for_invalid.

Theorem Src_flowfor_model_step_endfor : forall line c w f,
  g_step_endfor line (w_vars w) (embed c (w, f)) =
  let '(r, (w', f')) := step_endfor line (w, f) in (r, w_vars w', embed c (w', f')).
Proof. exact embed_step_endfor. Qed.
Print Assumptions Src_flowfor_model_step_endfor.

(* the rest of a Flow.v state (emit trace, handle counter, if / while caches and stacks) is left alone by the two steps,
   and a Flow.v state is determined by its embedding, its variables and that rest *)
Theorem Src_flowfor_model_rest_for : forall P line x hv s, same_rest s (snd (step_for P line x hv s)).
Proof. exact step_for_rest. Qed.
Print Assumptions Src_flowfor_model_rest_for.

Theorem Src_flowfor_model_rest_endfor : forall line s, same_rest s (snd (step_endfor line s)).
Proof. exact step_endfor_rest. Qed.
Print Assumptions Src_flowfor_model_rest_endfor.

Theorem Src_flowfor_model_determines : forall c s s',
  embed c s = embed c s' -> w_vars (fst s) = w_vars (fst s') -> same_rest s s' -> s = s'.
Proof. exact embed_determines. Qed.
Print Assumptions Src_flowfor_model_determines.

(* ---- both layers: the translation against Flow.v ------------------------------------------------------------------------ *)
Theorem Src_flowfor_flow_store : gen_store_call_info_understood = true ->
  forall c e w f, gen_store_call_info (addl c e) (embed c (w, f)) = GVal (tt, embed c (w, for_push e f)).
Proof. exact gen_store_flow. Qed.
Print Assumptions Src_flowfor_flow_store.

Theorem Src_flowfor_flow_next : gen_get_next_iteration_understood = true ->
  forall c i h w f, gen_get_next_iteration i h (embed c (w, f)) = GVal (get_next_iteration i h w, embed c (w, f)).
Proof. exact gen_next_flow. Qed.
Print Assumptions Src_flowfor_flow_next.

Theorem Src_flowfor_flow_meta_info : gen_get_or_create_forin_meta_info_for_line_understood = true ->
  forall P line c w f,
  gen_get_or_create_forin_meta_info_for_line P line (embed c (w, f)) =
  GVal (let (o, f') := for_meta_info P line f in (o, embed c (w, f'))).
Proof. exact gen_meta_info_flow. Qed.
Print Assumptions Src_flowfor_flow_meta_info.

Theorem Src_flowfor_flow_pop :
  gen_store_call_info_understood = true -> gen_pop_call_info_for_line_understood = true ->
  forall line recursive c w f,
  gen_pop_call_info_for_line line recursive (embed c (w, f)) =
  GVal (let (o, stk) := (if recursive then for_pop else for_pop_top) line (f_forstk f) in
        (option_map (addl c) o, embed c (w, set_forstk stk f))).
Proof. exact gen_pop_flow. Qed.
Print Assumptions Src_flowfor_flow_pop.

Theorem Src_flowfor_flow_run_for :
  gen_store_call_info_understood = true -> gen_get_next_iteration_understood = true ->
  gen_get_or_create_forin_meta_info_for_line_understood = true -> gen_pop_call_info_for_line_understood = true ->
  gen_forin_run_understood = true ->
  forall P line x hv c w f,
  gen_forin_run P line [x; s_in; vval hv w] (w_vars w) (embed c (w, f)) =
  GVal (let '(r, (w', f')) := step_for P line x hv (w, f) in (r, w_vars w', embed c (w', f'))).
Proof. exact gen_forin_run_flow. Qed.
Print Assumptions Src_flowfor_flow_run_for.

Theorem Src_flowfor_flow_run_for_invalid :
  gen_store_call_info_understood = true -> gen_get_next_iteration_understood = true ->
  gen_get_or_create_forin_meta_info_for_line_understood = true -> gen_pop_call_info_for_line_understood = true ->
  gen_forin_run_understood = true ->
  forall P line args vars gs, (forall x h, args <> [x; s_in; h]) ->
  gen_forin_run P line args vars gs = GVal (RError 10%N, vars, gs).
Proof. exact gen_forin_run_invalid. Qed.
Print Assumptions Src_flowfor_flow_run_for_invalid.

Theorem Src_flowfor_flow_run_endfor :
  gen_store_call_info_understood = true -> gen_pop_call_info_for_line_understood = true -> gen_endforin_run_understood = true ->
  forall P line args c w f,
  gen_endforin_run P line args (w_vars w) (embed c (w, f)) =
  GVal (let '(r, (w', f')) := step_endfor line (w, f) in (r, w_vars w', embed c (w', f'))).
Proof. exact gen_endforin_run_flow. Qed.
Print Assumptions Src_flowfor_flow_run_endfor.
